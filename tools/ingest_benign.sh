#!/bin/bash
# tools/ingest_benign.sh <prop> <outdir> : confirm and keep the D/E/F refactors a sub-agent left in <outdir>, then run the
# checks of the properties anchored in the touched files on each. Developer tooling.
p=$1; out=$2; here="$(cd "$(dirname "$0")/.." && pwd)"
for x in D E F; do
  [ -f $out/benign$x.diff ] || { echo "$p-$x: missing"; continue; }
  props=$($here/tools/props_for_diff.py $out/benign$x.diff $p)
  $here/tools/keep_benign.sh $p-$x $out/benign$x.diff $out/notes.md $props || continue
  $here/tools/benign.sh $here/benign/$p-$x
done
