#!/usr/bin/env python3
"""tools/props_for_diff.py <diff> [extra-prop...]: the claimed properties anchored in the files a patch touches."""
import json, re, sys
files = set(re.findall(r'^diff --git a/(\S+)', open(sys.argv[1]).read(), re.M))
na = set(json.load(open("/verif/tools/not_applicable.json")))
out = set(sys.argv[2:])
for l in open('/verif/properties.jsonl'):
    p = json.loads(l)
    if p['id'] in na: continue
    if files & set(p['anchors']['files']):
        out.add(p['id'])
print(' '.join(sorted(out)))
