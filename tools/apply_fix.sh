#!/bin/bash
# tools/apply_fix.sh <diff> <commit message file> <test pkg patterns...> : apply a repair to /repo, run the existing
# tests of the named packages, and commit it as one "fix:" commit. Developer tooling.
diff=$1; msg=$2; shift 2
cd /repo || exit 2
[ -z "$(git status --porcelain)" ] || { echo "/repo not clean"; exit 2; }
git apply "$diff" || { echo "PATCH DOES NOT APPLY"; exit 1; }
export PATH=/opt/veriftools/go1.26.8/bin:$PATH GOTOOLCHAIN=local GOFLAGS=-mod=mod GOPROXY=off GOSUMDB=off
go build ./... || { git checkout -q -- .; exit 1; }
if ! go test -vet=off -count=1 "$@" > /tmp/apply_fix.log 2>&1; then
  grep -E "^(--- FAIL|FAIL|panic)" /tmp/apply_fix.log | head; echo "TESTS FAILED (see /tmp/apply_fix.log) — not committed, reverting"; git checkout -q -- .; exit 1
fi
grep -cE "^ok" /tmp/apply_fix.log
git commit -qa -F "$msg" && git log --oneline | head -1
