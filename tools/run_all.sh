#!/bin/bash
# Run every registered check (quick by default) in parallel and summarise. Not registered in MANIFEST; a convenience.
tier=${1:-quick}
here="$(cd "$(dirname "$0")/.." && pwd)"
cd "$here"
ids=$(bin/check list)
mkdir -p /tmp/runall.$$
echo "$ids" | xargs -P 6 -I{} sh -c "bin/check {} $tier > /tmp/runall.$$/{}.log 2>&1; echo \$? > /tmp/runall.$$/{}.rc"
fail=0
for i in $ids; do
  rc=$(cat /tmp/runall.$$/$i.rc)
  printf "%s rc=%s %s\n" "$i" "$rc" "$(tail -1 /tmp/runall.$$/$i.log)"
  if [ "$rc" != 0 ]; then fail=1; grep -E "VIOLATION|CHECKER-PROBLEM|violated" /tmp/runall.$$/$i.log | head -20; fi
done
rm -rf /tmp/runall.$$
exit $fail
