#!/usr/bin/env python3
"""Regenerate /verif/MANIFEST.json from the checker's registry (boxocheck describe)
and tools/not_applicable.json. Run after adding/removing a property check."""
import json, subprocess, os, sys
here = os.path.dirname(os.path.dirname(os.path.abspath(__file__)))
desc = json.loads(subprocess.check_output([os.path.join(here, "bin/check"), "describe"]))
na = json.load(open(os.path.join(here, "tools/not_applicable.json")))
props = [json.loads(l) for l in open(os.path.join(here, "properties.jsonl"))]
ids = [p["id"] for p in props]
claimed = {d["ID"]: d for d in desc}
checks = []
for i in ids:
    if i not in claimed:
        continue
    d = claimed[i]
    checks.append({
        "property_id": i,
        "quick_cmd": f"bin/check {i} quick",
        "thorough_cmd": f"bin/check {i} thorough",
        "evidence_file": f"/verif/evidence/{i}.json",
        "replay_cmd_template": f"bin/check {i} quick --replay {{path}}",
        "engine": "boxocheck",
        "level_claimed": {
            "category": "other",
            "text": "Static analysis of /repo's current source (typed AST + SSA): the listed structural obligations hold on every path / at every site; they are necessary conditions of the property, not the behavioural property itself. " + d["Explain"],
            "design_ref": f"DESIGN.md §5 {i}",
        },
        "level_note": "Trusted base: go/types, x/tools go/ssa, go/packages; intra-procedural path reasoning plus package-local callee resolution; dependencies outside /repo are taken at their documented contract. Assumptions: " + "; ".join(d.get("Assume") or ["none"]),
        "technique": "static analysis: " + (d.get("Technique") or "SSA/AST rules"),
    })
nalist = []
for i in ids:
    if i in claimed:
        continue
    if i not in na:
        sys.exit(f"property {i} neither claimed nor in tools/not_applicable.json")
    nalist.append({"property_id": i, "reason": na[i]})
man = {
    "version": 1,
    "setup_cmd": "bin/setup",
    "hooks": {
        "guard": "verif",
        "enable": "no hooks: nothing in /repo is instrumented; checks analyse the source as is",
        "baseline_off_cmd": "bin/baseline",
        "source_commits": [],
        "add_only": True,
    },
    "engines": [{
        "name": "boxocheck",
        "path": "/verif/checker",
        "serves_properties": [c["property_id"] for c in checks],
        "kind_free_text": "repository-specific static analyser (Go, golang.org/x/tools go/packages + go/ssa): per-property obligation tables over rule primitives (edge dominance, must-follow, value provenance, coupled mutation, lock-state dataflow, sibling/table agreement, constants)",
    }],
    "checks": checks,
    "notes": "All checks are static: they load /repo's working tree with go/packages on every run and never execute repository code. Exit 0 = all obligations discharged (or listed in known_findings.json, printed as KNOWN-FINDING); exit 1 + VIOLATION line = an obligation is violated; exit 2 = checker problem (load error, unresolved anchor, vacuity guard).",
    "not_applicable": nalist,
}
json.dump(man, open(os.path.join(here, "MANIFEST.json"), "w"), indent=1)
print(f"claimed {len(checks)}, not applicable {len(nalist)}")
