#!/usr/bin/env python3
"""tools/kf.py known <prop> <key> <what>   |   tools/kf.py fixed <prop> <commit> <what>  — edit known_findings.json"""
import json, sys
p = '/verif/known_findings.json'
d = json.load(open(p))
if sys.argv[1] == 'known':
    _, _, prop, key, what = sys.argv
    if not any(k['property'] == prop and k['key'] == key for k in d['known']):
        d['known'].append({'property': prop, 'key': key, 'what': what})
elif sys.argv[1] == 'fixed':
    _, _, prop, commit, what = sys.argv
    line = f"fixed: property={prop} {commit} {what}"
    if line not in d['fixed']:
        d['fixed'].append(line)
json.dump(d, open(p, 'w'), indent=1, ensure_ascii=False)
