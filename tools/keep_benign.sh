#!/bin/bash
# tools/keep_benign.sh <name> <diff> <notes> <prop> [prop...] : confirm a behaviour-preserving refactor (applies, builds,
# existing tests of the touched packages pass) and store it under /verif/benign/<name>/ with the properties whose checks
# must stay silent on it.
name=$1; diff=$2; notes=$3; shift 3
here="$(cd "$(dirname "$0")/.." && pwd)"; . "$here/bin/env.sh"; export CGO_ENABLED=1
wt=/tmp/keepben-$name; git -C /repo worktree add --detach -q $wt HEAD || exit 2
trap 'git -C /repo worktree remove --force $wt' EXIT
cd $wt && git apply $diff || { echo "$name: PATCH DOES NOT APPLY"; exit 1; }
pkgs=$(git diff --name-only | xargs -n1 dirname | sort -u | sed 's|^|./|')
go build ./... || { echo "$name: BUILD FAILS"; exit 1; }
if ! go test -vet=off -count=1 -skip TestRealAutoConfURL $pkgs > /tmp/keepben-$name.log 2>&1; then echo "$name: TESTS FAIL"; grep -E "^(--- FAIL|FAIL)" /tmp/keepben-$name.log | head -5; exit 1; fi
d=$here/benign/$name; mkdir -p $d; cp $diff $d/patch.diff
[ -f "$notes" ] && cp $notes $d/notes.md
printf '%s\n' "$@" | jq -R . | jq -s --arg base "$(git -C /repo rev-parse --short HEAD)" '{properties: ., origin: "independent sub-agent asked for a behaviour-preserving refactor of the code behind the property (given only the property text and a scratch worktree)", confirmed: "applies, go build ./... ok, existing tests of the touched packages pass", repo_commit_when_confirmed: $base}' > $d/meta.json
echo "kept $d ($pkgs)"
