#!/bin/bash
# tools/confirm_seed.sh <name> <outdir> <pkgdir> [extra test pkgs...]
# Confirms an independently produced breaking change: demonstration passes on the unchanged tree, fails with the
# change; the change compiles and the existing tests of <pkgdir> (and extra packages) still pass. On success
# copies it to /verif/seeded/<name>/. Developer tooling.
name=$1; out=$2; pkg=$3; shift 3; extra="$@"
here="$(cd "$(dirname "$0")/.." && pwd)"
. "$here/bin/env.sh"
export CGO_ENABLED=1
wt=/tmp/confirm-$name
git -C /repo worktree add --detach -q $wt HEAD || exit 2
trap 'git -C /repo worktree remove --force $wt' EXIT
cd $wt
demo=$pkg/zz_seed_demo_test.go
cp $out/demo_test.go.txt $demo
echo "== demo on unchanged tree (expect PASS)"
go test -vet=off -count=1 -run 'Seed|Demo|Demonstr|Mutant|Regress|Breaks|Stale|Property' ./$pkg/ 2>&1 | tail -3
go test -vet=off -count=1 ./$pkg/ > /tmp/confirm-$name.base.log 2>&1; b=$?
echo "   whole package incl. demo rc=$b"
rm $demo
git apply $out/patch.diff || { echo "PATCH DOES NOT APPLY"; exit 1; }
echo "== build with change"; go build ./... || exit 1
echo "== existing tests with change (expect PASS)"
go test -vet=off -count=1 ./$pkg/ $extra 2>&1 | tail -6
cp $out/demo_test.go.txt $demo
echo "== demo with change (expect FAIL)"
go test -vet=off -count=1 ./$pkg/ 2>&1 | grep -E "^(--- FAIL|FAIL|ok|panic)" | head -8
rm $demo
