#!/usr/bin/env python3
"""tools/mkprompt.py <template> <prop-id> <worktree>: fill a seeder/refactorer prompt with the text of one property
(title, statement, quantifier, anchored files only — nothing from /verif's machinery)."""
import json, sys
tpl, pid, wt = sys.argv[1:4]
for l in open('/verif/properties.jsonl'):
    p = json.loads(l)
    if p['id'] == pid:
        break
else:
    sys.exit('no such property')
s = open(tpl).read()
s = s.replace('{WT}', wt).replace('{TITLE}', p['title']).replace('{STATEMENT}', p['statement'])
s = s.replace('{QUANT}', p['quantifier']['text']).replace('{FILES}', ', '.join(p['anchors']['files']))
print(s)
