#!/bin/bash
# tools/benign.sh [dir ...]: for every behaviour-preserving refactor kept under /verif/benign/<name>/ apply patch.diff to
# a scratch worktree and run the checks of the properties anchored in the touched code (meta.json .properties);
# every check must stay silent (exit 0). Developer tooling for false-alarm testing; not a registered check.
here="$(cd "$(dirname "$0")/.." && pwd)"
. "$here/bin/env.sh"
wt=/tmp/benign-wt.$$
git -C /repo worktree add --detach -q $wt HEAD || exit 2
trap 'git -C /repo worktree remove --force $wt; rm -rf /tmp/benign-out.$$' EXIT
full=0; dirs="$@"; [ -z "$dirs" ] && { full=1; dirs=$(ls -d $here/benign/*/ 2>/dev/null); }
[ $full = 1 ] && exec > >(tee $here/benign/RESULTS.txt)
for d in $dirs; do
  d=$(realpath ${d%/}); name=$(basename $d)
  [ -f $d/patch.diff ] || continue
  if ! git -C $wt apply $d/patch.diff 2>/dev/null; then echo "$name: PATCH DOES NOT APPLY"; continue; fi
  for prop in $(jq -r '.properties[]' $d/meta.json); do
    out=$(BOXO_REPO=$wt VERIF_OUT=/tmp/benign-out.$$ $here/bin/check $prop quick 2>&1); rc=$?
    if [ $rc = 0 ]; then echo "$name ($prop): silent"; else echo "$name ($prop): FALSE ALARM rc=$rc — $(echo "$out" | grep -m2 -E 'violated|PROBLEM')"; fi
  done
  git -C $wt checkout -q -- . && git -C $wt clean -fdq
done
