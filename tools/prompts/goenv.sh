export PATH=/opt/veriftools/go1.26.8/bin:$PATH
export GOTOOLCHAIN=local GOFLAGS=-mod=mod GOPROXY=off GOSUMDB=off
unset GOWORK
