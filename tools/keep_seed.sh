#!/bin/bash
# tools/keep_seed.sh <name> <property> <outdir> <needs> : store a confirmed seeded change under /verif/seeded/<name>/
name=$1; prop=$2; out=$3; needs=$4
d=/verif/seeded/$name; mkdir -p $d
cp $out/patch.diff $d/patch.diff; cp $out/demo_test.go.txt $d/demo_test.go.txt; [ -f $out/notes.md ] && cp $out/notes.md $d/notes.md
jq -n --arg p "$prop" --arg n "$needs" --arg r "tools/confirm_seed.sh: demonstration passes on the unchanged tree and fails with the patch; go build ./... ok; existing tests of the touched package(s) pass with the patch" --arg base "$(git -C /repo rev-parse --short HEAD)" '{property:$p, needs_to_manifest:$n, confirmed_by:$r, repo_commit_when_confirmed:$base, origin:"independent sub-agent given only the property text and a scratch worktree"}' > $d/meta.json
echo kept $d
