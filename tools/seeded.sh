#!/bin/bash
# tools/seeded.sh [id-dir ...]: for every kept seeded change under /verif/seeded/<name>/ apply patch.diff to a
# scratch worktree of /repo, run the check of the property it breaks (meta.json .property) against that tree
# (BOXO_REPO), expect exit 1 + VIOLATION, and clean up. Convenience for the developer; not a registered check.
here="$(cd "$(dirname "$0")/.." && pwd)"
. "$here/bin/env.sh"
wt=/tmp/seeded-wt.$$
git -C /repo worktree add --detach -q $wt HEAD || exit 2
trap 'git -C /repo worktree remove --force $wt' EXIT
full=0; dirs="$@"; [ -z "$dirs" ] && { full=1; dirs=$(ls -d $here/seeded/*/ 2>/dev/null); }
[ $full = 1 ] && exec > >(tee $here/seeded/RESULTS.txt)
for d in $dirs; do
  d=$(realpath ${d%/}); name=$(basename $d)
  [ -f $d/patch.diff ] || continue
  prop=$(jq -r .property $d/meta.json)
  if ! git -C $wt apply $d/patch.diff 2>/dev/null; then echo "$name ($prop): PATCH DOES NOT APPLY"; continue; fi
  out=$(BOXO_REPO=$wt VERIF_OUT=/tmp/seeded-out.$$ $here/bin/check $prop quick 2>&1); rc=$?
  mkdir -p /tmp/seeded-out.$$; 
  if [ $rc = 1 ] && echo "$out" | grep -q "^VIOLATION property=$prop"; then
    echo "$name ($prop): DETECTED — $(echo "$out" | grep -m1 violated)"
  else
    echo "$name ($prop): MISSED (rc=$rc)"
  fi
  git -C $wt checkout -q -- . && git -C $wt clean -fdq
done
rm -rf /tmp/seeded-out.$$
