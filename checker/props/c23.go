package props

import (
	"go/ast"
	"go/constant"
	"go/token"
	"go/types"
	"sort"
	"strings"

	"golang.org/x/tools/go/ssa"

	"verif/checker/an"
)

func init() {
	register("C23", Prop{
		Pkgs: []string{"./pinning/pinner/dspinner"},
		Explain: "Decided (structural necessary conditions of 'pin records and indexes agree after a stop at any write, and no surviving pin is lost'): " +
			"O1 write order (R-DOM): an index entry for a freshly created pin is added only on the nil edge of the datastore Put of that pin's record (entries re-created from a record read back from the datastore are exempt); a pin record is deleted only after a CID-index Delete for that pin on every path and no index Delete for it can follow the record Delete; when one function both removes the pins of a CID and adds a pin for the same CID, the add comes first (otherwise a stop between the two leaves the CID unpinned); " +
			"O2 dirty flag covers every write (R-DOM): every record/index write of package dspinner is dominated, in its function, by a call of the dirty-flag marker (role: the function that Puts 1 under dirtyKey), or the function is the recovery path whose every call site is guarded by 'persisted flag == 1'; and no write can follow a call that may clear the flag (anything reaching the cleaner, e.g. flushPins) without a new marker call in between; " +
			"O3 flag protocol (R-DOM/R-CONST/R-WHO): the marker writes the flag whenever the state was clean (dirty==clean compared before the counter is bumped) and Syncs it on the Put's nil edge; the cleaner stores clean=dirty only on the nil edges of Put(dirtyKey,0) and Sync(dirtyKey); the cleaner is called only on the nil edge of a Datastore.Sync of a key that is a path prefix of every pin/index key constant; marker, cleaner and the test in New agree on the flag constants; New returns a pinner, when the persisted flag equals the marker value, only after the recovery function succeeded; dirty/clean counters are stored only by marker, cleaner and the constructor. " +
			"O4 index removals scoped to the record (R-FLOW/R-DOM): an Indexer.Delete names the id of a pin object and, on the CID indexes, the key of that pin's own CID; a whole-key removal (DeleteKey/DeleteAll) is allowed only as the dangling-entry repair - in a function that searched the same index under the same key and on the not-found edge of reading back a record whose id came from that search (so every record under the key is being dropped or does not exist); a key passed as a parameter is followed to every call site. " +
			"O5 recovery (R-DOM): every index Add of the recovery pass lies on the false edge of a HasValue probe of the same index for the same key and id. " +
			"NOT decided: that rebuildIndexes reconstructs exactly the model state, datastore-level atomicity of a single Put/Delete, errors of the marker's own Put (it only logs), behaviour under datastore faults.",
		Assume:    []string{"a datastore write is atomic and persisted when it returns (the property's crash model)", "only package dspinner writes below /pins"},
		Technique: "role-based call classification, SSA dominance and edge-guard queries (R-DOM), reachability with blocking sets (R-POST), constants from types (R-CONST), writer sets (R-WHO)",
		Run:       runC23,
	})
}

func runC23(c *an.Ctx) {
	m := c22Build(c)
	if m == nil {
		return
	}
	c22Cur = m
	c.Note("roles: marker={%s}; cleaner={%s}; may-clear={%s}; record adders={%s}; record removers={%s}", m.names(m.markers), m.names(m.cleaner), m.names(m.cleans), m.names(m.adds), m.names(m.removes))
	c23O1(m)
	c23O2(m)
	c23O3(m)
	c23O4(m)
	c23O5(m)
	c22SweepImplementers(c, "O2", m.p.Named(c22Pin, "Pinner"), c22Pkg+".pinner")
}

// c23PinOf: v is <pin>.Id (or <pin>.dsKey()); returns the pin object.
func c23PinOfID(v ssa.Value) ssa.Value {
	for _, r := range an.Roots(v, nil) {
		u, ok := r.(*ssa.UnOp)
		if !ok || u.Op != token.MUL {
			return nil
		}
		f, base := an.FieldOf(u.X)
		if f == nil || f != c22R.fID {
			return nil
		}
		return base
	}
	return nil
}

func c23PinOfKey(v ssa.Value) ssa.Value {
	for _, r := range an.Roots(v, nil) {
		// the record key: a method of the pin type returning a datastore key
		call, ok := r.(*ssa.Call)
		if !ok {
			return nil
		}
		ci := an.Callee(call)
		if ci.Static == nil || c22R.pinT == nil || ci.Recv != c22R.pinT.Obj().Name() || !an.TypeIs(call.Type(), c22DsPkg, "Key") {
			return nil
		}
		return an.Recv(call)
	}
	return nil
}

func c23FromStore(pin ssa.Value) bool {
	rs := an.Roots(pin, nil)
	if len(rs) == 0 {
		return false
	}
	for _, r := range rs {
		// read back: the result of a local function returning (*pin, error); a
		// constructor of fresh pins returns the pin alone
		var call *ssa.Call
		if e, ok := r.(*ssa.Extract); ok && e.Index == 0 {
			call, _ = e.Tuple.(*ssa.Call)
		}
		if call == nil || c22Local(an.Callee(call)) == nil || len(an.ErrResult(call)) == 0 {
			return false
		}
		if rs := call.Call.Signature().Results(); rs.Len() != 2 || c22R.pinT == nil || !an.TypeIs(rs.At(0).Type(), c22Pkg, c22R.pinT.Obj().Name()) {
			return false
		}
	}
	return true
}

func c23O1(m *c22Model) {
	c := m.c
	nAdd, nDel, nRepl := 0, 0, 0
	for _, fn := range m.fns {
		name := an.FuncName(fn)
		var puts, idxDel, recDel []ssa.CallInstruction
		for _, call := range an.AllCalls(fn) {
			switch k, _ := c22PrimWrite(call); k {
			case "record-put":
				puts = append(puts, call)
			case "record-del":
				recDel = append(recDel, call)
			case "index-del":
				if an.Callee(call).Name == "Delete" {
					idxDel = append(idxDel, call)
				}
			}
		}
		// (a) record before index
		for _, call := range an.AllCalls(fn) {
			if k, _ := c22PrimWrite(call); k != "index-add" {
				continue
			}
			nAdd++
			args := an.Args(call)
			pin := c23PinOfID(args[len(args)-1])
			label := c22CallLabel(call)
			switch {
			case pin == nil && c23IdStoredByCallers(m, fn, args[len(args)-1], 0):
				// the id is a parameter: at every call site it is the id of a pin whose
				// record was stored (nil edge of the Put) or read back before the call
				c.OK("O1", "R-DOM", name, label+"<=record-Put", call.Pos(), "the id passed in by every caller belongs to a pin whose record was stored successfully (or read back) before the call")
			case pin == nil:
				c.Bad("O1", "R-DOM", name, label+"<=record-stored", call.Pos(), "an index entry is added for an id that is not the Id of a pin object ("+an.PathOf(args[len(args)-1])+"): the record it refers to is not known to exist")
			case c23FromStore(pin):
				c.OK("O1", "R-DOM", name, label+"<=record-read-back", call.Pos(), "the indexed pin was decoded from its stored record")
			default:
				ok := false
				for _, put := range puts {
					if pk := c23PinOfKey(an.Args(put)[1]); pk != nil && an.SameObj(pk, pin) && an.OnNilEdgeOf(fn, put, call) {
						ok = true
					}
				}
				if !ok {
					// the pin is a parameter: the record must have been stored (or read
					// back) by every caller before the call
					ok = c23StoredByCallers(m, fn, pin, 0)
				}
				c.Check(ok, "O1", "R-DOM", name, label+"<=record-Put", call.Pos(),
					"the index entry is added only after the pin record was stored successfully",
					"an index entry for a new pin can be written before (or without) the successful Put of its record: a stop in between leaves an index entry without a pin record, which the recovery pass never repairs")
			}
		}
		// (b) index deletes before record delete
		for _, del := range recDel {
			nDel++
			pin := c23PinOfKey(an.Args(del)[1])
			if pin == nil {
				c.Bad("O1", "R-DOM", name, "record-Delete-key", del.Pos(), "a datastore key below the pins is deleted that is not <pin>.dsKey(): "+an.PathOf(an.Args(del)[1]))
				continue
			}
			var cidDel []ssa.Instruction
			after := ""
			for _, d := range idxDel {
				a := an.Args(d)
				if pp := c23PinOfID(a[len(a)-1]); pp == nil || !an.SameObj(pp, pin) {
					continue
				}
				if c23IsCidIndex(d) {
					cidDel = append(cidDel, d)
				}
				if an.Reaches(fn, del, d, nil, nil) {
					after = c22CallLabel(d)
				}
			}
			// local helpers taking the pin: one that removes the CID index entry on
			// all its normal paths counts as the index Delete; any helper that may
			// delete an index entry of the pin must not run after the record Delete
			for _, hc := range an.AllCalls(fn) {
				h := c22Local(an.Callee(hc))
				if h == nil || h == fn {
					continue
				}
				for i, arg := range hc.Common().Args {
					if i >= len(h.Params) || !an.SameObj(arg, pin) {
						continue
					}
					must, may := c23Unindexes(h, h.Params[i], 0)
					if must {
						cidDel = append(cidDel, hc)
					}
					if may && an.Reaches(fn, del, hc, nil, nil) {
						after = c22CallLabel(hc)
					}
				}
			}
			c.Check(len(cidDel) > 0 && an.MustPrecede(fn, del, cidDel), "O1", "R-DOM", name, "record-Delete<=cid-index-Delete", del.Pos(),
				"the pin record is deleted only after its CID index entry", "a pin record can be deleted before its CID index entry: a stop in between leaves a dangling index entry (CID reported pinned, no record), which recovery cannot see")
			c.Check(after == "", "O1", "R-DOM", name, "record-Delete-is-last", del.Pos(),
				"no index entry of the pin is deleted after its record", "the index Delete "+after+" can run after the record Delete: a stop in between leaves a dangling index entry")
		}
		// (c) replacement order: add before remove for the same CID
		if m.prim[fn] {
			continue
		}
		for _, rm := range an.AllCalls(fn) {
			h := an.Callee(rm).Static
			if h == nil || !m.removes[h] {
				continue
			}
			rc := c22CidArg(rm)
			if rc == nil {
				continue
			}
			for _, add := range an.AllCalls(fn) {
				g := an.Callee(add).Static
				if g == nil || !m.adds[g] || m.removes[g] {
					continue
				}
				ac := c22CidArg(add)
				if ac == nil || !an.SameObj(ac, rc) {
					continue
				}
				nRepl++
				label := "remover"
				if mv := c22ModeArg(rm); mv != nil {
					label += "(" + m.modeName(mv) + ")"
				}
				alabel := "adder"
				if mv := c22ModeArg(add); mv != nil {
					alabel += "(" + m.modeName(mv) + ")"
				}
				// keyed by the exported operations through which the sequence is
				// reached, not by the (unexported, renameable, splittable) function
				// that happens to contain it
				opName := c22Pkg + "." + c23EntryPoints(m, fn)
				c.Check(!an.Reaches(fn, rm, add, nil, nil), "O1", "R-DOM", opName, label+"-before-"+alabel, rm.Pos(),
					"the replacement pin is stored before the old pins of the CID are removed",
					"in "+name+" the existing pins of the CID are removed ("+c22CallName(rm)+", "+label+") before the replacement is stored ("+c22CallName(add)+", "+alabel+"): if the process stops after the old record is deleted and before the new one is written, a CID that was pinned and that the operation does not unpin is no longer pinned after reopening")
			}
		}
	}
	c.Min("O1 index Add sites", nAdd, 3)
	c.Min("O1 record Delete sites", nDel, 1)
	c.Min("O1 remove/add pairs on one CID", nRepl, 1)
}

// c23EntryPoints names the exported methods of the pinner through which fn is
// reached by static calls inside the package ("Pin+PinWithMode"); fn's own
// name when it is exported, "internal" when no exported method reaches it.
func c23EntryPoints(m *c22Model, fn *ssa.Function) string {
	isEntry := func(f *ssa.Function) bool {
		return f.Parent() == nil && ast.IsExported(f.Name())
	}
	seen := map[*ssa.Function]bool{}
	found := map[string]bool{}
	var up func(f *ssa.Function)
	up = func(f *ssa.Function) {
		if seen[f] {
			return
		}
		seen[f] = true
		if isEntry(f) {
			found[f.Name()] = true
			return
		}
		for _, g := range m.fns {
			for _, call := range an.AllCalls(g) {
				if an.Callee(call).Static == f {
					top := g
					for top.Parent() != nil {
						top = top.Parent()
					}
					up(top)
				}
			}
		}
	}
	up(fn)
	if len(found) == 0 {
		return "internal"
	}
	var ns []string
	for n := range found {
		ns = append(ns, n)
	}
	sort.Strings(ns)
	return strings.Join(ns, "+")
}

// c23Cover is the interprocedural dirty-flag cover analysis. Events of a
// function: marker sites (plain call of the marker, or of a local function
// that ends marked on every path), clear sites (plain call of anything that may
// reach the cleaner and does not end marked) and write sites (a primitive write,
// or a plain call of a local function that needs its caller to have marked).
type c23Cover struct {
	m          *c22Model
	endsMarked map[*ssa.Function]bool
	needsCover map[*ssa.Function]bool
}

func c23PlainCall(call ssa.CallInstruction) bool {
	_, ok := call.(*ssa.Call)
	return ok // deferred / go calls run later, they neither mark nor write "here"
}

func (cv *c23Cover) events(fn *ssa.Function) (marks map[ssa.Instruction]bool, clears, writes []ssa.CallInstruction) {
	marks = map[ssa.Instruction]bool{}
	for _, call := range an.AllCalls(fn) {
		if !c23PlainCall(call) {
			continue
		}
		if _, ok := c22PrimWrite(call); ok {
			writes = append(writes, call)
			continue
		}
		g := an.Callee(call).Static
		if g == nil {
			continue
		}
		switch {
		case cv.m.markers[g] || cv.endsMarked[g]:
			marks[call] = true
			if cv.needsCover[g] {
				writes = append(writes, call)
			}
		case cv.m.cleans[g]:
			if cv.needsCover[g] {
				writes = append(writes, call)
			}
			clears = append(clears, call)
		case cv.needsCover[g]:
			writes = append(writes, call)
		}
	}
	return
}

func (cv *c23Cover) solve() {
	for changed := true; changed; {
		changed = false
		for _, fn := range cv.m.fns {
			marks, clears, writes := cv.events(fn)
			// ends marked: every return is preceded by a marker with no clear after it
			em := len(marks) > 0
			for _, r := range an.Returns(fn) {
				if an.Reaches(fn, nil, r, nil, marks) {
					em = false
				}
				for _, c := range clears {
					if an.Reaches(fn, c, r, nil, marks) {
						em = false
					}
				}
			}
			if cv.m.markers[fn] {
				em = false // the marker itself is handled by identity
			}
			nc := false
			for _, w := range writes {
				if an.Reaches(fn, nil, w, nil, marks) {
					nc = true
				}
			}
			if em != cv.endsMarked[fn] || nc != cv.needsCover[fn] {
				cv.endsMarked[fn], cv.needsCover[fn] = em, nc
				changed = true
			}
		}
	}
}

// callersCover: every static call site of fn (transitively) is reached only
// after a marker call; returns the first function in which that fails.
func (cv *c23Cover) callersCover(fn *ssa.Function, seen map[*ssa.Function]bool) (bool, string) {
	if seen[fn] {
		return true, ""
	}
	seen[fn] = true
	n := 0
	for _, f := range cv.m.fns {
		marks, _, _ := cv.events(f)
		for _, call := range an.AllCalls(f) {
			if an.Callee(call).Static != fn {
				continue
			}
			n++
			if !c23PlainCall(call) {
				return false, f.Name() + " (deferred/go call)"
			}
			if !an.Reaches(f, nil, call, nil, marks) {
				continue // marked in f on every path
			}
			if rec, _ := c23IsRecovery(cv.m, f); rec {
				continue // the recovery pass runs with the persisted flag set
			}
			if ok, why := cv.callersCover(f, seen); !ok {
				return false, why
			}
		}
	}
	if n == 0 {
		return false, fn.Name() + " (no caller marks before calling it)"
	}
	return true, ""
}

// c23StoredByCallers: pin is a parameter of fn and at every static call site
// the passed pin was read back from the datastore, or its record Put succeeded
// before the call (recursively through parameters).
func c23StoredByCallers(m *c22Model, fn *ssa.Function, pin ssa.Value, depth int) bool {
	prm, ok := pin.(*ssa.Parameter)
	if !ok || prm.Parent() != fn || depth > 2 {
		return false
	}
	pi := c44ParamIndex(prm)
	n := 0
	for _, g := range m.fns {
		for _, call := range an.AllCalls(g) {
			if an.Callee(call).Static != fn {
				continue
			}
			if _, plain := call.(*ssa.Call); !plain {
				return false
			}
			n++
			arg := call.Common().Args[pi]
			if c23FromStore(arg) {
				continue
			}
			ok := false
			for _, put := range an.AllCalls(g) {
				if k, _ := c22PrimWrite(put); k != "record-put" {
					continue
				}
				if pk := c23PinOfKey(an.Args(put)[1]); pk != nil && an.SameObj(pk, arg) && an.OnNilEdgeOf(g, put, call) {
					ok = true
				}
			}
			if !ok && !c23StoredByCallers(m, g, arg, depth+1) {
				return false
			}
		}
	}
	return n > 0
}

// c23UsedAsValue: fn is referenced other than as the callee of a static call
// (stored, passed, bound or captured), so its call sites cannot be enumerated.
func c23UsedAsValue(m *c22Model, fn *ssa.Function) bool {
	for _, g := range m.fns {
		for _, b := range g.Blocks {
			for _, ins := range b.Instrs {
				var callee *ssa.Value
				if cc, ok := ins.(ssa.CallInstruction); ok {
					callee = &cc.Common().Value
				}
				for _, op := range ins.Operands(nil) {
					if op == callee || *op == nil {
						continue
					}
					if f, ok := (*op).(*ssa.Function); ok && (f == fn || f.Synthetic != "" && f.Object() != nil && f.Object() == fn.Object()) {
						return true
					}
				}
			}
		}
	}
	return false
}

// c23IdStoredByCallers: id is a string parameter of fn and, at every static
// call site, the argument is the id field of a pin object whose record was read
// back from the datastore or stored (the call lies on the nil edge of the Put of
// that pin's record) in the caller - or of a pin/id parameter of the caller for
// which the same holds one level up.
func c23IdStoredByCallers(m *c22Model, fn *ssa.Function, id ssa.Value, depth int) bool {
	prm, ok := id.(*ssa.Parameter)
	if !ok || prm.Parent() != fn || depth > 2 || c23UsedAsValue(m, fn) {
		return false
	}
	pi := c44ParamIndex(prm)
	n := 0
	for _, g := range m.fns {
		for _, call := range an.AllCalls(g) {
			if an.Callee(call).Static != fn {
				continue
			}
			if _, plain := call.(*ssa.Call); !plain {
				return false
			}
			n++
			arg := call.Common().Args[pi]
			pin := c23PinOfID(arg)
			if pin == nil {
				if !c23IdStoredByCallers(m, g, arg, depth+1) {
					return false
				}
				continue
			}
			if c23FromStore(pin) {
				continue
			}
			ok := false
			for _, put := range an.AllCalls(g) {
				if k, _ := c22PrimWrite(put); k != "record-put" {
					continue
				}
				if pk := c23PinOfKey(an.Args(put)[1]); pk != nil && an.SameObj(pk, pin) && an.OnNilEdgeOf(g, put, call) {
					ok = true
				}
			}
			if !ok && !c23StoredByCallers(m, g, pin, depth+1) {
				return false
			}
		}
	}
	return n > 0
}

// c23IdKeyPairAtCallers: in fn, id and the CID whose key string is used are
// both parameters; at every static call site the id argument is the id field of
// a pin object and the CID argument is that pin's own CID.
func c23IdKeyPairAtCallers(m *c22Model, fn *ssa.Function, id, cidv ssa.Value, depth int) bool {
	ip, ok1 := id.(*ssa.Parameter)
	if !ok1 || ip.Parent() != fn || depth > 2 || c23UsedAsValue(m, fn) {
		return false
	}
	cp, isPrm := cidv.(*ssa.Parameter)
	if cidv != nil && (!isPrm || cp.Parent() != fn) {
		return false
	}
	ii := c44ParamIndex(ip)
	n := 0
	for _, g := range m.fns {
		for _, call := range an.AllCalls(g) {
			if an.Callee(call).Static != fn {
				continue
			}
			n++
			idArg := call.Common().Args[ii]
			var cidArg ssa.Value
			if cidv != nil {
				cidArg = call.Common().Args[c44ParamIndex(cp)]
			}
			pin := c23PinOfID(idArg)
			if pin == nil {
				if !c23IdKeyPairAtCallers(m, g, idArg, cidArg, depth+1) {
					return false
				}
				continue
			}
			if cidArg != nil && !c23PinCidPair(g, pin, cidArg, 0) {
				return false
			}
		}
	}
	return n > 0
}

// c23Unindexes: must = on every normal (nil-error) return of h a CID index
// Delete for the pin parameter has been executed; may = h can delete an index
// entry of that pin at all.
func c23Unindexes(h *ssa.Function, pin *ssa.Parameter, depth int) (must, may bool) {
	var dels []ssa.Instruction
	for _, d := range an.AllCalls(h) {
		if k, _ := c22PrimWrite(d); k == "index-del" && an.Callee(d).Name == "Delete" {
			a := an.Args(d)
			if pp := c23PinOfID(a[len(a)-1]); pp != nil && an.SameObj(pp, pin) {
				may = true
				if c23IsCidIndex(d) {
					dels = append(dels, d)
				}
			}
			continue
		}
		if g := c22Local(an.Callee(d)); g != nil && g != h && depth < 2 {
			for i, arg := range d.Common().Args {
				if i < len(g.Params) && an.SameObj(arg, pin) {
					mu, ma := c23Unindexes(g, g.Params[i], depth+1)
					may = may || ma
					if mu {
						dels = append(dels, d)
					}
				}
			}
		}
	}
	if len(dels) == 0 {
		return false, may
	}
	must = true
	n := 0
	for _, r := range an.Returns(h) {
		k := len(r.Results)
		if k > 0 && an.IsErrorType(r.Results[k-1].Type()) && !an.IsNilConst(c22RetVal(r, k-1)) {
			// an error return: is it the error of one of the deletes themselves, or a
			// return before them? Only nil returns promise the deletion.
			continue
		}
		n++
		if !an.MustPrecede(h, r, dels) {
			must = false
		}
	}
	return must && n > 0, may
}

func c23O2(m *c22Model) {
	c := m.c
	cv := &c23Cover{m: m, endsMarked: map[*ssa.Function]bool{}, needsCover: map[*ssa.Function]bool{}}
	cv.solve()
	nW := 0
	for _, fn := range m.fns {
		marks, clears, writes := cv.events(fn)
		if len(writes) == 0 {
			continue
		}
		name := an.FuncName(fn)
		for _, w := range writes {
			_, isPrim := c22PrimWrite(w)
			label := c22CallLabel(w)
			if isPrim {
				nW++
				switch {
				case !an.Reaches(fn, nil, w, nil, marks):
					c.OK("O2", "R-DOM", name, label+"<=setDirty", w.Pos(), "every path to the write passes a dirty-flag marker call in this function")
				default:
					if rec, _ := c23IsRecovery(m, fn); rec {
						c.OK("O2", "R-DOM", name, label+"<=persisted-flag-set", w.Pos(), "recovery path: every call site is guarded by persisted flag == marker value")
						break
					}
					ok, why := cv.callersCover(fn, map[*ssa.Function]bool{})
					c.Check(ok, "O2", "R-DOM", name, label+"<=setDirty", w.Pos(),
						"the write is preceded by a dirty-flag marker call in every (transitive) caller",
						"a pin record/index write can be reached without a preceding dirty-flag marker call, neither in this function nor in its caller chain via "+why+": a stop after this write is not detected on reopen and the indexes are never repaired")
				}
			}
			for _, cl := range clears {
				if cl == w {
					continue
				}
				if an.Reaches(fn, cl, w, nil, marks) {
					c.Bad("O2", "R-POST", name, c22CallLabel(cl)+"-then-"+label, w.Pos(),
						"the dirty flag may be cleared by "+c22CallLabel(cl)+" ("+m.p.Pos(cl.Pos())+") and this write follows without a new marker call: from then on a stop (or an error return) leaves the remaining inconsistencies undetected, the next open skips the repair")
				} else if an.Reaches(fn, cl, w, nil, nil) {
					c.OK("O2", "R-POST", name, c22CallLabel(cl)+"-then-"+label, w.Pos(), "a marker call separates the possible flag reset from this write")
				}
			}
		}
	}
	c.Min("O2 record/index writes", nW, 10)
}

// c23IsRecovery: every static call site of fn is guarded by the true edge of
// `data[0] == k` with data read from the datastore under dirtyKey.
func c23IsRecovery(m *c22Model, fn *ssa.Function) (bool, string) {
	n := 0
	for _, g := range m.fns {
		for _, call := range an.AllCalls(g) {
			if an.Callee(call).Static != fn {
				continue
			}
			n++
			edges, _ := c23FlagEdges(g, true)
			if len(edges) == 0 || !an.GuardedBy(g, nil, call, edges) {
				return false, " and its caller " + g.Name() + " does not guard the call by the persisted dirty flag"
			}
		}
	}
	if n == 0 {
		return false, " (no caller)"
	}
	return true, ""
}

// c23FlagExpr: v is the comparison `data[0] == k` / `!= k` of the first byte
// read from the datastore under dirtyKey with a constant.
func c23FlagExpr(v ssa.Value) (k int64, eq bool, ok bool) {
	b, isB := v.(*ssa.BinOp)
	if !isB || (b.Op != token.EQL && b.Op != token.NEQ) {
		return 0, false, false
	}
	kc, isK := an.ConstOf(b.Y)
	if !isK || kc.Kind() != constant.Int {
		return 0, false, false
	}
	ld, isL := b.X.(*ssa.UnOp)
	if !isL || ld.Op != token.MUL {
		return 0, false, false
	}
	ia, isIA := ld.X.(*ssa.IndexAddr)
	if !isIA {
		return 0, false, false
	}
	if i, isC := an.ConstOf(ia.Index); !isC || i.String() != "0" {
		return 0, false, false
	}
	get, isGet := an.IsCallTo(ia.X, an.M(c22DsPkg, "", "Get"))
	if !isGet {
		return 0, false, false
	}
	if a := an.Args(get); len(a) < 2 || !c22IsDirtyKey(a[1]) {
		return 0, false, false
	}
	n, _ := constant.Int64Val(kc)
	return n, b.Op == token.EQL, true
}

// c23FlagWrapper: h returns, as result 0, either false or `flag == k` on every
// return (a helper that reads the persisted flag); returns k.
func c23FlagWrapper(h *ssa.Function) (int64, bool) {
	rs := h.Signature.Results()
	if rs.Len() == 0 {
		return 0, false
	}
	if b, ok := rs.At(0).Type().Underlying().(*types.Basic); !ok || b.Kind() != types.Bool {
		return 0, false
	}
	var k int64
	n := 0
	for _, r := range an.Returns(h) {
		for _, root := range an.Roots(c22RetVal(r, 0), nil) {
			if c, ok := an.ConstOf(root); ok && c.Kind() == constant.Bool && !constant.BoolVal(c) {
				continue
			}
			kk, eq, ok := c23FlagExpr(root)
			if !ok || !eq {
				return 0, false
			}
			k = kk
			n++
		}
	}
	return k, n > 0
}

// c23FlagSources: the calls of fn that read the persisted flag (Get(dirtyKey)
// directly, or a local flag-reading helper).
func c23FlagSources(fn *ssa.Function) []ssa.CallInstruction {
	var out []ssa.CallInstruction
	for _, call := range an.AllCalls(fn) {
		if c22IsDstoreCall(an.Callee(call), "Get") {
			if a := an.Args(call); len(a) >= 2 && c22IsDirtyKey(a[1]) {
				out = append(out, call)
			}
			continue
		}
		if h := c22Local(an.Callee(call)); h != nil && h != fn {
			if _, ok := c23FlagWrapper(h); ok {
				out = append(out, call)
			}
		}
	}
	return out
}

// c23FlagEdges: edges of fn on which the persisted dirty flag (first byte of
// the value read under dirtyKey) equals (want) / differs from the tested
// constant - tested directly or through a local flag-reading helper; also
// returns the constants tested.
func c23FlagEdges(fn *ssa.Function, want bool) (an.EdgeSet, []int64) {
	var ks []int64
	es := an.CondEdges(fn, func(atom ssa.Value) (bool, bool) {
		n, eqOnTrue, ok := c23FlagExpr(atom)
		if !ok {
			return false, false
		}
		ks = append(ks, n)
		if want {
			return eqOnTrue, !eqOnTrue
		}
		return !eqOnTrue, eqOnTrue
	})
	for _, call := range an.AllCalls(fn) {
		h := c22Local(an.Callee(call))
		if h == nil || h == fn {
			continue
		}
		if k, ok := c23FlagWrapper(h); ok {
			if e := an.BoolEdges(fn, an.Result(call, 0), want); len(e) > 0 {
				es = es.Union(e)
				ks = append(ks, k)
			}
		}
	}
	return es, ks
}

func c23O3(m *c22Model) {
	c := m.c
	isDirtyCall := func(call ssa.CallInstruction, name string) bool {
		if !c22IsDstoreCall(an.Callee(call), name) {
			return false
		}
		a := an.Args(call)
		return len(a) >= 2 && c22IsDirtyKey(a[1])
	}
	var markVal, cleanVal []int64
	// ---- marker
	for fn := range m.markers {
		name := an.FuncName(fn)
		for _, fw := range m.flagWrites[fn] {
			if fw.val == 0 {
				continue
			}
			put := fw.site
			markVal = append(markVal, fw.val)
			// written whenever the state was clean
			var cmp []*ssa.BinOp
			wasDirty := an.CondEdges(fn, func(atom ssa.Value) (bool, bool) {
				b, ok := atom.(*ssa.BinOp)
				if !ok || (b.Op != token.EQL && b.Op != token.NEQ) {
					return false, false
				}
				fx, fy := c23FieldLoad(b.X), c23FieldLoad(b.Y)
				if !((fx == m.fDirty && fy == m.fClean) || (fx == m.fClean && fy == m.fDirty)) {
					return false, false
				}
				cmp = append(cmp, b)
				if b.Op == token.EQL {
					return false, true
				}
				return true, false
			})
			skip := false
			for _, r := range an.Returns(fn) {
				if an.Reaches(fn, nil, r, wasDirty, map[ssa.Instruction]bool{put: true}) {
					skip = true
				}
			}
			c.Check(!skip, "O3", "R-DOM", name, "was-clean=>Put(dirtyKey,1)", put.Pos(),
				"whenever dirty==clean held on entry the flag is written", "the marker can return without writing the dirty flag although the state was clean (dirty==clean): the first change after a flush is not covered by the flag")
			// the comparison reads the counters before they are bumped
			for _, b := range cmp {
				early := true
				for _, st := range append(an.FieldStores(fn, m.fDirty), an.FieldStores(fn, m.fClean)...) {
					if an.Reaches(fn, st, b, nil, nil) {
						early = false
					}
				}
				c.Check(early, "O3", "R-DOM", name, "was-clean-read-before-bump", b.Pos(),
					"dirty==clean is evaluated before the dirty counter is incremented", "dirty==clean is evaluated after the counter was changed: it is never true, so the flag is never persisted")
			}
			// Sync follows on the nil edge
			okSync := fw.synced
			if fw.direct {
				syncs := map[ssa.Instruction]bool{}
				for _, s := range an.AllCalls(fn) {
					if isDirtyCall(s, "Sync") {
						syncs[s] = true
					}
				}
				cut := an.NilEdges(fn, an.ErrResult(put), false)
				okSync = len(syncs) > 0 && an.ReachesAnyReturn(fn, put, cut, syncs) == nil
			}
			c.Check(okSync, "O3", "R-POST", name, "Put(dirtyKey,1)=>Sync(dirtyKey)", put.Pos(),
				"the flag is synced after a successful Put", "the dirty flag is Put but not Synced on some path: the change it announces can reach the disk before the flag does")
		}
		for _, st := range an.FieldStores(fn, m.fClean) {
			c.Bad("O3", "R-WHO", name, "marker-stores-clean", st.Pos(), "the dirty-flag marker writes the clean counter")
		}
	}
	// ---- cleaner
	for fn := range m.cleaner {
		name := an.FuncName(fn)
		var fw0 *c22FlagWrite
		for i := range m.flagWrites[fn] {
			if m.flagWrites[fn][i].val == 0 {
				fw0 = &m.flagWrites[fn][i]
				cleanVal = append(cleanVal, 0)
			}
		}
		var sync ssa.CallInstruction
		for _, call := range an.AllCalls(fn) {
			if isDirtyCall(call, "Sync") {
				sync = call
			}
		}
		sts := an.FieldStores(fn, m.fClean)
		c.Min("O3 stores to clean in the cleaner", len(sts), 1)
		for _, st := range sts {
			ok := fw0 != nil && an.OnNilEdgeOf(fn, fw0.site, st)
			if ok && fw0.direct {
				ok = sync != nil && an.OnNilEdgeOf(fn, sync, st)
			} else if ok {
				ok = fw0.synced
			}
			// value: load of dirty
			if c23FieldLoad(st.Val) != m.fDirty {
				ok = false
			}
			c.Check(ok, "O3", "R-DOM", name, "clean=dirty<=Put0+Sync-ok", st.Pos(),
				"the in-memory state becomes clean only after the cleared flag was Put and Synced", "clean=dirty is stored although Put(dirtyKey,0)/Sync(dirtyKey) may have failed or not run: later changes skip writing the flag while the disk still says clean/dirty inconsistently")
		}
	}
	// ---- calls of the cleaner: only after a successful Sync of the whole pin namespace
	consts := c23PathConsts(m)
	nCl := 0
	for _, fn := range m.fns {
		for _, call := range an.AllCalls(fn) {
			g := an.Callee(call).Static
			if g == nil || !m.cleaner[g] {
				continue
			}
			nCl++
			name := an.FuncName(fn)
			ok, why := false, "no Datastore.Sync precedes it"
			for _, s := range an.AllCalls(fn) {
				if !c22IsDstoreCall(an.Callee(s), "Sync") || !an.OnNilEdgeOf(fn, s, call) {
					continue
				}
				nk, isNK := an.IsCallTo(an.Args(s)[1], an.M(c22DsPkg, "", "NewKey"))
				if !isNK {
					why = "the synced key is not a constant key"
					continue
				}
				k, isK := an.ConstOf(nk.Call.Args[0])
				if !isK || k.Kind() != constant.String {
					why = "the synced key is not a constant key"
					continue
				}
				pre := constant.StringVal(k)
				ok = true
				for _, kc := range consts {
					if kc != pre && !strings.HasPrefix(kc, strings.TrimSuffix(pre, "/")+"/") {
						ok, why = false, "the synced key "+pre+" does not cover "+kc
					}
				}
			}
			c.Check(ok && len(consts) >= 2, "O3", "R-DOM", name, "setClean<=Sync(basePath)-ok", call.Pos(),
				"the flag is cleared only after all pin records and indexes were synced successfully", "the dirty flag is cleared although "+why+": the flag can say 'clean' while pin writes are not yet durable")
		}
	}
	c.Min("O3 cleaner call sites", nCl, 1)
	// ---- constructor: flag set => recovery before use
	nNew := 0
	for _, fn := range m.fns {
		edgesT, ks := c23FlagEdges(fn, true)
		if len(edgesT) == 0 {
			continue
		}
		nNew++
		name := an.FuncName(fn)
		edgesF, _ := c23FlagEdges(fn, false)
		agree := len(markVal) > 0
		for _, k := range ks {
			for _, mv := range markVal {
				if k != mv {
					agree = false
				}
			}
			for _, cv := range cleanVal {
				if k == cv {
					agree = false
				}
			}
		}
		c.Check(agree, "O3", "R-CONST", name, "flag-constants-agree", fn.Pos(), "the value tested on open is the one the marker writes and differs from the cleaner's",
			"the flag value tested on open does not match the value written by the marker (or equals the cleaner's): recovery never runs / always runs")
		var get, rec ssa.CallInstruction
		if src := c23FlagSources(fn); len(src) > 0 {
			get = src[0]
		}
		for _, call := range an.AllCalls(fn) {
			if g := an.Callee(call).Static; g != nil && m.mut[g] && !m.adds[g] && !m.removes[g] {
				rec = call
			}
		}
		if !c.Need(get != nil, "Get(dirtyKey) in "+fn.Name()) {
			continue
		}
		if rec == nil {
			c.Bad("O3", "R-DOM", name, "flag-set=>recovery", fn.Pos(), "the persisted dirty flag is tested but no recovery function is called")
			continue
		}
		for _, r := range an.Returns(fn) {
			if len(r.Results) != 2 || !an.IsNilConst(c22RetVal(r, 1)) || an.IsNilConst(c22RetVal(r, 0)) {
				continue
			}
			cut := an.NilEdges(fn, an.ErrResult(get), false).Union(edgesF)
			skip := an.Reaches(fn, get, r, cut, map[ssa.Instruction]bool{rec: true})
			okEdge := !an.Reaches(fn, rec, r, nil, nil) || an.GuardedBy(fn, rec, r, an.NilEdges(fn, an.ErrResult(rec), true))
			c.Check(!skip && okEdge, "O3", "R-DOM", name, "flag-set=>recovery-ok-before-return", r.Pos(),
				"with the flag set a pinner is returned only after a successful recovery", "New can return a usable pinner although the persisted dirty flag is set and the recovery did not run or failed: inconsistent indexes are served")
		}
	}
	c.Min("O3 functions testing the persisted flag", nNew, 1)
	// ---- writers of the counters
	for _, fn := range m.fns {
		for _, st := range an.FieldStores(fn, m.fDirty) {
			_, base := an.FieldOf(st.Addr)
			c.Check(m.markers[fn] || an.IsFresh(base), "O3", "R-WHO", an.FuncName(fn), "store-dirty", st.Pos(), "dirty counter written by marker/constructor", "the dirty counter is written outside the marker: the was-clean test no longer reflects the persisted flag")
		}
		for _, st := range an.FieldStores(fn, m.fClean) {
			_, base := an.FieldOf(st.Addr)
			c.Check(m.cleaner[fn] || an.IsFresh(base), "O3", "R-WHO", an.FuncName(fn), "store-clean", st.Pos(), "clean counter written by cleaner/constructor", "the clean counter is written outside the cleaner: the state is considered clean without the flag having been cleared and synced")
		}
	}
}

// c23FieldLoad: the struct field loaded by v (nil if v is not a field load).
func c23FieldLoad(v ssa.Value) *types.Var {
	u, ok := v.(*ssa.UnOp)
	if !ok || u.Op != token.MUL {
		return nil
	}
	f, _ := an.FieldOf(u.X)
	return f
}

// c23PathConsts: string constants used as first argument of path.Join in the
// package (the roots of pin record and index keys).
func c23PathConsts(m *c22Model) []string {
	seen := map[string]bool{}
	var out []string
	for _, fn := range m.fns {
		for _, call := range an.Calls(fn, an.M("path", "", "Join")) {
			// variadic: first element of the argument slice
			sl, ok := call.Common().Args[0].(*ssa.Slice)
			if !ok {
				continue
			}
			arr, ok := sl.X.(*ssa.Alloc)
			if !ok {
				continue
			}
			for _, r := range *arr.Referrers() {
				ia, ok := r.(*ssa.IndexAddr)
				if !ok {
					continue
				}
				if i, ok := an.ConstOf(ia.Index); !ok || i.String() != "0" {
					continue
				}
				for _, r2 := range *ia.Referrers() {
					if st, ok := r2.(*ssa.Store); ok {
						if k, ok := an.ConstOf(st.Val); ok && k.Kind() == constant.String && !seen[constant.StringVal(k)] {
							seen[constant.StringVal(k)] = true
							out = append(out, constant.StringVal(k))
						}
					}
				}
			}
		}
	}
	return out
}

// c23IsCidIndex: the call is made on the recursive or the direct index - the
// field itself or a local selected from those two fields.
func c23IsCidIndex(call ssa.CallInstruction) bool {
	ks := c23IdxKinds(call)
	if len(ks) == 0 || ks["?"] || ks["N"] {
		return false
	}
	return true
}

// c23IdxKinds: the index kinds ("R","D","N") a call's receiver can denote
// (a field load, or a local variable assigned from field loads).
func c23IdxKinds(call ssa.CallInstruction) map[string]bool {
	out := map[string]bool{}
	for _, r := range an.Roots(an.Recv(call), nil) {
		u, ok := r.(*ssa.UnOp)
		if !ok || u.Op != token.MUL {
			return map[string]bool{"?": true}
		}
		f, _ := an.FieldOf(u.X)
		k := c22R.idxKind[f]
		if k == "" {
			return map[string]bool{"?": true}
		}
		out[k] = true
	}
	return out
}

// c23NotFoundEdges: edges of fn on which errors.Is(err, ds.ErrNotFound) holds
// for the error of the given call.
func c23NotFoundEdges(fn *ssa.Function, read ssa.CallInstruction) an.EdgeSet {
	errs := map[ssa.Value]bool{}
	for _, e := range c22ErrVals(read) {
		errs[e] = true
	}
	var tests []ssa.Value
	for _, call := range an.Calls(fn, an.M("errors", "", "Is")) {
		a := call.Common().Args
		if len(a) != 2 || !errs[a[0]] {
			continue
		}
		isNF := false
		if u, ok := a[1].(*ssa.UnOp); ok && u.Op == token.MUL {
			if g, ok := u.X.(*ssa.Global); ok && g.Name() == "ErrNotFound" && g.Pkg != nil && g.Pkg.Pkg.Path() == c22DsPkg {
				isNF = true
			}
		}
		if isNF {
			if cv := an.CallValue(call); cv != nil {
				tests = append(tests, cv)
			}
		}
	}
	if len(tests) == 0 {
		return an.EdgeSet{}
	}
	return an.BoolEdges(fn, tests, true)
}

// c23WholeKeyOK: a whole-key removal at `site` (a DeleteKey in fn, or the call
// of a helper that does one for its key parameter) is the dangling-entry
// repair: fn searched an index of each affected kind under the same key, and
// site is reachable only on the not-found edge of reading back a record whose
// id came from such a search.
func c23WholeKeyOK(m *c22Model, fn *ssa.Function, site ssa.Instruction, key ssa.Value, kinds map[string]bool, depth int) (bool, string) {
	if kinds["?"] {
		return false, "the index it is applied to is not a plain index field"
	}
	why := "no Search of the same index under the same key in " + fn.Name()
	var searches []ssa.CallInstruction
	covered := map[string]bool{}
	for _, call := range an.AllCalls(fn) {
		if !c22IsIndexerCall(an.Callee(call), "Search") {
			continue
		}
		a := an.Args(call)
		if len(a) < 2 || !c22SameVal(a[1], key) {
			continue
		}
		for k := range c23IdxKinds(call) {
			covered[k] = true
		}
		searches = append(searches, call)
	}
	all := len(searches) > 0
	for k := range kinds {
		if !covered[k] {
			all = false
		}
	}
	if all {
		// a record read keyed by an id of those searches, on whose not-found edge the site lies
		for _, read := range an.AllCalls(fn) {
			if _, plain := read.(*ssa.Call); !plain || len(an.ErrResult(read)) == 0 {
				continue
			}
			ci := an.Callee(read)
			isRead := c22IsDstoreCall(ci, "Get")
			if h := c22Local(ci); h != nil {
				if rs := h.Signature.Results(); rs.Len() == 2 && c22R.pinT != nil && an.TypeIs(rs.At(0).Type(), c22Pkg, c22R.pinT.Obj().Name()) {
					isRead = true
				}
			}
			if !isRead {
				continue
			}
			fromSearch := false
			for _, arg := range read.Common().Args {
				for _, r := range an.Roots(arg, nil) {
					// element of a Search result (possibly appended / ranged over)
					if lu, ok := r.(*ssa.UnOp); ok && lu.Op == token.MUL {
						if ia, ok := lu.X.(*ssa.IndexAddr); ok {
							for _, base := range an.Roots(ia.X, &an.FlowOpts{Through: func(cl *ssa.Call) ([]ssa.Value, bool) {
								if an.Callee(cl).Builtin == "append" {
									return cl.Call.Args, true
								}
								return nil, false
							}}) {
								for _, sc := range searches {
									for _, res := range an.Result(sc, 0) {
										if base == res {
											fromSearch = true
										}
									}
								}
							}
						}
					}
				}
			}
			if !fromSearch {
				continue
			}
			nf := c23NotFoundEdges(fn, read)
			if len(nf) > 0 && an.GuardedBy(fn, nil, site, nf) {
				return true, ""
			}
			why = "it is not confined to the ErrNotFound edge of reading back a record found by that search"
		}
		if why == "" {
			why = "no record read-back conditions it"
		}
	}
	// the key is a parameter: every call site must satisfy the condition
	prm, ok := key.(*ssa.Parameter)
	if !ok || prm.Parent() != fn || depth > 2 {
		return false, why
	}
	pi := c44ParamIndex(prm)
	n := 0
	for _, g := range m.fns {
		for _, call := range an.AllCalls(g) {
			if an.Callee(call).Static != fn {
				continue
			}
			n++
			if ok, w := c23WholeKeyOK(m, g, call, call.Common().Args[pi], kinds, depth+1); !ok {
				return false, "caller " + g.Name() + ": " + w
			}
		}
	}
	if n == 0 {
		return false, why
	}
	return true, ""
}

// c23PinCidPair: in fn, cidv is the CID of pin: a load of the pin's CID field,
// the CID the pin was constructed from, or - both being parameters - related so
// at every static call site.
func c23PinCidPair(fn *ssa.Function, pin, cidv ssa.Value, depth int) bool {
	if u, ok := cidv.(*ssa.UnOp); ok && u.Op == token.MUL {
		if _, base := an.FieldOf(u.X); base != nil && an.SameObj(base, pin) {
			return true
		}
	}
	for _, pr := range an.Roots(pin, nil) {
		if cc, ok := pr.(*ssa.Call); ok {
			for _, ca := range cc.Call.Args {
				if c22SameVal(ca, cidv) {
					return true
				}
			}
		}
	}
	pp, ok1 := pin.(*ssa.Parameter)
	cp, ok2 := cidv.(*ssa.Parameter)
	if !ok1 || !ok2 || pp.Parent() != fn || cp.Parent() != fn || c22Cur == nil || depth > 2 {
		return false
	}
	pi, ci := c44ParamIndex(pp), c44ParamIndex(cp)
	n := 0
	for _, g := range c22Cur.fns {
		for _, call := range an.AllCalls(g) {
			if an.Callee(call).Static != fn {
				continue
			}
			n++
			if !c23PinCidPair(g, call.Common().Args[pi], call.Common().Args[ci], depth+1) {
				return false
			}
		}
	}
	return n > 0
}

// O4: index removals are scoped to the record they are made for.
func c23O4(m *c22Model) {
	c := m.c
	nDel, nKey := 0, 0
	for _, fn := range m.fns {
		name := an.FuncName(fn)
		for _, call := range an.AllCalls(fn) {
			ci := an.Callee(call)
			switch {
			case c22IsIndexerCall(ci, "Delete"):
				nDel++
				a := an.Args(call)
				pin := c23PinOfID(a[len(a)-1])
				ok, why := pin != nil, "the value is not the id field of a pin object"
				if !ok {
					// the id is a parameter: every caller passes the id of a pin object
					// together with that pin's own CID (name index: the id alone)
					if _, isPrm := a[len(a)-1].(*ssa.Parameter); isPrm {
						kinds := c23IdxKinds(call)
						var keyCid ssa.Value
						okKey := true
						if !kinds["N"] && !kinds["?"] {
							for _, r := range an.Roots(a[1], nil) {
								ks, isKS := an.IsCallTo(r, an.M(c22CidPkg, "Cid", "KeyString"))
								if !isKS {
									okKey = false
									break
								}
								keyCid = an.Recv(ks)
							}
							okKey = okKey && keyCid != nil
						}
						if okKey && c23IdKeyPairAtCallers(m, fn, a[len(a)-1], keyCid, 0) {
							c.OK("O4", "R-FLOW", name, c22CallLabel(call)+"(key,id)=this-pin", call.Pos(), "every caller passes the id of a pin object together with that pin's own CID")
							continue
						}
					}
				}
				if !ok {
					// the dangling-entry repair scoped to one entry: the id was found by a
					// Search of this index under this key and its record could not be read
					if d, _ := c23WholeKeyOK(m, fn, call, a[1], c23IdxKinds(call), 0); d {
						c.OK("O4", "R-FLOW", name, c22CallLabel(call)+"(key,id)=dangling-entry", call.Pos(), "the entry removed was found by a search of the same index and key and has no record")
						continue
					}
					why = "the value is neither the id field of a pin object nor an id whose record was found missing"
				}
				if ok {
					kinds := c23IdxKinds(call)
					if !kinds["N"] && !kinds["?"] {
						// the key is the key string of that pin's own CID (its Cid
						// field, or the CID the pin was built from)
						ok, why = false, "the key is not the key string of that pin's CID"
						for _, r := range an.Roots(a[1], nil) {
							ks, isKS := an.IsCallTo(r, an.M(c22CidPkg, "Cid", "KeyString"))
							if !isKS {
								ok = false
								break
							}
							recv := an.Recv(ks)
							own := c23PinCidPair(fn, pin, recv, 0)
							ok = own
							if !ok {
								break
							}
						}
					}
				}
				c.Check(ok, "O4", "R-FLOW", name, c22CallLabel(call)+"(key,id)=this-pin", call.Pos(),
					"the index entry removed is the one of this pin (its id under its own CID key)",
					"an index entry is deleted but "+why+": the entry of another pin is removed / this pin's entry stays, so a pin record is left without (or with a foreign) index entry")
			case c22IsIndexerCall(ci, "DeleteKey", "DeleteAll"):
				nKey++
				var key ssa.Value
				if a := an.Args(call); len(a) >= 2 {
					key = a[1]
				}
				ok, why := false, "DeleteAll wipes the whole index"
				if key != nil {
					ok, why = c23WholeKeyOK(m, fn, call, key, c23IdxKinds(call), 0)
				}
				c.Check(ok, "O4", "R-DOM", name, c22CallLabel(call)+"<=no-record-under-key", call.Pos(),
					"the whole-key removal is the dangling-entry repair: same-key search, on the not-found edge of the record read",
					"every index entry under the key is removed ("+c22CallLabel(call)+") although "+why+": entries that belong to other pin records of the same CID (e.g. the second record that exists while Update replaces a direct pin by a recursive one) are wiped, and those records stay unindexed after recovery")
			}
		}
	}
	c.Min("O4 Indexer.Delete calls", nDel, 4)
	c.Min("O4 index removals (Delete + DeleteKey)", nDel+nKey, 7)
}

// O5: the recovery pass restores exactly what is missing. Every index Add made
// by the recovery function (role: the function whose every call is guarded by
// the persisted dirty flag) lies on the 'false' edge of a HasValue probe of the
// same index for the same key and the same value: the entry is written into the
// index that was probed, and only when it is missing.
func c23O5(m *c22Model) {
	c := m.c
	n := 0
	for _, fn := range m.fns {
		if fn.Parent() != nil {
			continue
		}
		if ok, _ := c23IsRecovery(m, fn); !ok {
			continue
		}
		name := an.FuncName(fn)
		for _, add := range an.AllCalls(fn) {
			if !c22IsIndexerCall(an.Callee(add), "Add") {
				continue
			}
			a := an.Args(add)
			if len(a) < 3 {
				continue
			}
			n++
			edges := an.EdgeSet{}
			for _, hv := range an.AllCalls(fn) {
				if !c22IsIndexerCall(an.Callee(hv), "HasValue") {
					continue
				}
				h := an.Args(hv)
				if len(h) < 3 || !an.SameObj(an.Recv(hv), an.Recv(add)) || !an.SameObj(h[1], a[1]) || !an.SameObj(h[2], a[2]) {
					continue
				}
				edges = edges.Union(an.BoolEdges(fn, an.Result(hv, 0), false))
			}
			ok := len(edges) > 0 && an.GuardedBy(fn, nil, add, edges)
			c.Check(ok, "O5", "R-DOM", name, c22CallLabel(add)+"<=HasValue(same index,key,id)==false", add.Pos(),
				"recovery adds an index entry only where the same index was probed for the same (key, id) and did not hold it",
				"the recovery pass adds an index entry that is not on the 'missing' edge of a HasValue probe of the same index for the same key and id: the missing entry of the pin's own index is not restored (the pinned CID is not pinned after reopening) or a present one is rewritten while a missing one is skipped")
		}
	}
	c.Min("O5 index repairs in the recovery pass", n, 2)
}
