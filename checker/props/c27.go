package props

import (
	"fmt"
	"go/constant"
	"go/token"
	"go/types"

	"golang.org/x/tools/go/ssa"

	"verif/checker/an"
)

func init() {
	register("C27", Prop{
		Pkgs: []string{"./ipns"},
		Explain: "Decided (structural necessary conditions of 'IPNS record selection is order-independent and picks the best record'): " +
			"O1/O3 ipns.compare is a lexicographic decision list over the keys (has SignatureV2, Sequence(), Validity()) read through the accessors of its two parameters: every non-zero result is returned on an edge where exactly one key is known to differ, with a positive result where a's key is greater (a has V2 and b has not / seq(a) > seq(b) / eol(a) after eol(b)) and a negative result in the mirrored case; both orientations of each of the three keys are present (antisymmetry), the keys are tested in the order V2, sequence, validity, and 0 is returned only where all three keys are known equal; " +
			"O2 the selection scan calls compare(recs[best], recs[j]) with best starting at 0 and j running over 1..len(recs)-1 in steps of one, breaks ties with bytes.Compare(vals[best], vals[j]) (same indices, same order) exactly where compare returned 0, replaces best by j exactly on the edge where the (tie-broken) result is < 0, and returns best at loop exit; Validator.Select builds recs by appending UnmarshalRecord(vals[k]) for every k in order (a failed decode returns, it is never skipped), so recs and vals stay index-aligned. " +
			"NOT decided: transitivity/totality of the order over records whose accessors fail, equality of Validity() values at sub-layout precision, behaviour of bytes.Compare.",
		Assume:    []string{"time.Time.After/Before/Compare and bytes.Compare are strict total orders"},
		Technique: "decision-list orientation and mirror table over SSA condition edges (R-MIRROR/R-CMP), loop/phi shape of the selection scan (R-DOM/R-FLOW), index alignment (R-PAIR)",
		Run:       runC27,
	})
}

type c27Key struct {
	name string
	// rel returns the edges on which key(a) REL key(b) is known to lie within the mask
	rel func(want int) an.EdgeSet
}

func runC27(c *an.Ctx) {
	p := c.P
	const ip = "ipns"
	c25RecordFields(p) // sets the name of Record's protobuf field used in access paths
	// the record comparator, by role: reached from the exported Validator.Select through package-local calls, takes
	// exactly two *Record and returns an int first; the top-level one is the candidate called from a non-candidate
	sel := p.Func(ip, "Validator", "Select")
	if !c.Need(sel != nil, "ipns.Validator.Select") {
		return
	}
	isCmp := func(f *ssa.Function) bool {
		if f == nil || f.Blocks == nil || len(f.Params) != 2 || f.Signature.Results().Len() == 0 {
			return false
		}
		if !an.TypeIs(f.Params[0].Type(), ip, "Record") || !an.TypeIs(f.Params[1].Type(), ip, "Record") {
			return false
		}
		bt, ok := f.Signature.Results().At(0).Type().Underlying().(*types.Basic)
		return ok && bt.Kind() == types.Int
	}
	var cmpFn *ssa.Function
	seen := map[*ssa.Function]bool{sel: true}
	queue := []*ssa.Function{sel}
	for depth := 0; depth < 5 && len(queue) > 0 && cmpFn == nil; depth++ {
		var next []*ssa.Function
		for _, f := range queue {
			for _, g := range an.WithClosures(f) {
				for _, call := range an.AllCalls(g) {
					h := call.Common().StaticCallee()
					if h == nil || h.Pkg == nil || sel.Pkg == nil || h.Pkg != sel.Pkg || seen[h] || h.Blocks == nil {
						continue
					}
					seen[h] = true
					if isCmp(h) && !isCmp(f) {
						if cmpFn == nil {
							cmpFn = h
						}
						continue
					}
					next = append(next, h)
				}
			}
		}
		queue = next
	}
	if !c.Need(cmpFn != nil, "record comparator (a, b *Record) (int, ...) reached from Validator.Select") {
		return
	}
	c27Memo = map[*ssa.Function][]string{}
	c27Compare(c, cmpFn, true)
	c27Select(c, cmpFn)
}

// ---------------------------------------------------------------- compare

// c27Stage: a package-local helper H(a,b) (or H(b,a)) that decides exactly one key; its int result orders that key.
type c27Stage struct {
	call    *ssa.Call
	res     []ssa.Value
	errs    []ssa.Value
	swapped bool
}

var c27Memo = map[*ssa.Function][]string{}

// c27Compare analyses fn(a, b) as a lexicographic decision list. At top level all three keys are required; a stage
// helper (top == false) must be complete and correctly oriented for the keys it decides. Returns the keys decided.
func c27Compare(c *an.Ctx, fn *ssa.Function, top bool) []string {
	if cov, done := c27Memo[fn]; done {
		return cov
	}
	c27Memo[fn] = nil
	name := an.FuncName(fn)
	a, b := fn.Params[0], fn.Params[1]
	const ip = "ipns"
	// stage helpers called with (a, b) or (b, a)
	stages := map[string][]c27Stage{}
	for _, call := range an.AllCalls(fn) {
		cv := an.CallValue(call)
		h := call.Common().StaticCallee()
		if cv == nil || !c25InPkgHelper(fn, h) || len(h.Params) != 2 || len(cv.Call.Args) != 2 {
			continue
		}
		if !an.TypeIs(h.Params[0].Type(), ip, "Record") || !an.TypeIs(h.Params[1].Type(), ip, "Record") {
			continue
		}
		res := cv.Call.Signature().Results()
		if res.Len() == 0 {
			continue
		}
		if bt, ok := res.At(0).Type().Underlying().(*types.Basic); !ok || bt.Kind() != types.Int {
			continue
		}
		sw := false
		switch {
		case an.SameObj(cv.Call.Args[0], a) && an.SameObj(cv.Call.Args[1], b):
		case an.SameObj(cv.Call.Args[0], b) && an.SameObj(cv.Call.Args[1], a):
			sw = true
		default:
			continue
		}
		cov := c27Compare(c, h, false)
		if len(cov) == 1 {
			stages[cov[0]] = append(stages[cov[0]], c27Stage{cv, an.Result(cv, 0), an.ErrResult(cv), sw})
		}
	}
	stageRel := func(key string, want int) an.EdgeSet {
		out := an.EdgeSet{}
		for _, st := range stages[key] {
			w := want
			if st.swapped {
				w = c25Swap(want)
			}
			res := st.res
			out = out.Union(c25RelEdges(fn, func(v ssa.Value) bool { return c25RootsIn(v, res) }, c25IsInt(0), w, 0))
		}
		return out
	}

	accessor := func(x *ssa.Parameter, method string) []ssa.Value {
		var out []ssa.Value
		for _, call := range an.Calls(fn, an.M(ip, "Record", method)) {
			if cv := an.CallValue(call); cv != nil && an.SameObj(an.Recv(call), x) {
				out = append(out, an.Result(cv, 0)...)
			}
		}
		return out
	}
	in := func(set []ssa.Value) func(ssa.Value) bool {
		return func(v ssa.Value) bool { return len(set) > 0 && c25RootsIn(v, set) }
	}
	seqA, seqB := accessor(a, "Sequence"), accessor(b, "Sequence")
	// sequence numbers cover the whole uint64 range: an operand converted to another integer type (int64, uint32, ...)
	// before the comparison orders large numbers differently and is not a test of the sequence key
	inSeq := func(set []ssa.Value) func(ssa.Value) bool {
		return func(v ssa.Value) bool {
			if !in(set)(v) {
				return false
			}
			bt, ok := v.Type().Underlying().(*types.Basic)
			return ok && bt.Kind() == types.Uint64
		}
	}
	eolA, eolB := accessor(a, "Validity"), accessor(b, "Validity")

	// library three-way comparisons of the keys act like single-key stages: cmp.Compare(seq(a), seq(b)),
	// eol(a).Compare(eol(b))
	for _, call := range an.AllCalls(fn) {
		cv := an.CallValue(call)
		if cv == nil || len(cv.Call.Args) != 2 {
			continue
		}
		ci := an.Callee(cv)
		x, y := cv.Call.Args[0], cv.Call.Args[1]
		switch {
		case ci.Pkg == "cmp" && ci.Name == "Compare" && inSeq(seqA)(x) && inSeq(seqB)(y):
			stages["sequence"] = append(stages["sequence"], c27Stage{cv, []ssa.Value{cv}, nil, false})
		case ci.Pkg == "cmp" && ci.Name == "Compare" && inSeq(seqB)(x) && inSeq(seqA)(y):
			stages["sequence"] = append(stages["sequence"], c27Stage{cv, []ssa.Value{cv}, nil, true})
		case ci.Pkg == "time" && ci.Recv == "Time" && ci.Name == "Compare" && in(eolA)(x) && in(eolB)(y):
			stages["validity"] = append(stages["validity"], c27Stage{cv, []ssa.Value{cv}, nil, false})
		case ci.Pkg == "time" && ci.Recv == "Time" && ci.Name == "Compare" && in(eolB)(x) && in(eolA)(y):
			stages["validity"] = append(stages["validity"], c27Stage{cv, []ssa.Value{cv}, nil, true})
		}
	}
	seq := c27Key{"sequence", func(want int) an.EdgeSet {
		return c25RelEdges(fn, inSeq(seqA), inSeq(seqB), want, 0).Union(stageRel("sequence", want))
	}}
	eol := c27Key{"validity", func(want int) an.EdgeSet {
		isA, isB := in(eolA), in(eolB)
		e := an.CondEdges(fn, func(atom ssa.Value) (bool, bool) {
			call, ok := atom.(*ssa.Call)
			if !ok || len(call.Call.Args) != 2 {
				return false, false
			}
			ci := an.Callee(call)
			if ci.Pkg != "time" || ci.Recv != "Time" {
				return false, false
			}
			var k int
			switch ci.Name {
			case "After":
				k = c25GT
			case "Before":
				k = c25LT
			case "Equal":
				k = c25EQ
			default:
				return false, false
			}
			x, y := call.Call.Args[0], call.Call.Args[1]
			switch {
			case isA(x) && isB(y):
			case isB(x) && isA(y):
				k = c25Swap(k)
			default:
				return false, false
			}
			return k&^want == 0, (7&^k)&^want == 0
		})
		// a.Compare(b) REL 0
		isCmp := func(sw bool) func(ssa.Value) bool {
			return func(v ssa.Value) bool {
				call, ok := v.(*ssa.Call)
				if !ok || len(call.Call.Args) != 2 {
					return false
				}
				ci := an.Callee(call)
				if ci.Pkg != "time" || ci.Recv != "Time" || ci.Name != "Compare" {
					return false
				}
				x, y := call.Call.Args[0], call.Call.Args[1]
				if sw {
					return isB(x) && isA(y)
				}
				return isA(x) && isB(y)
			}
		}
		e = e.Union(c25RelEdges(fn, isCmp(false), c25IsInt(0), want, 0))
		e = e.Union(c25RelEdges(fn, isCmp(true), c25IsInt(0), c25Swap(want), 0))
		return e.Union(stageRel("validity", want))
	}}

	// has-V2 facts
	sigOf := func(x *ssa.Parameter) []ssa.Value {
		var out []ssa.Value
		an.Instrs(fn, func(in ssa.Instruction) {
			if v, ok := in.(ssa.Value); ok && c25IsPbRead(v, "SignatureV2", "p:"+x.Name()+"."+c25PBName) {
				if _, isCall := v.(*ssa.Call); isCall {
					out = append(out, v)
				} else if u, isLoad := v.(*ssa.UnOp); isLoad && u.Op == token.MUL {
					out = append(out, v)
				}
			}
		})
		return out
	}
	sigA, sigB := sigOf(a), sigOf(b)
	has := func(sig []ssa.Value, want bool) an.EdgeSet {
		lenOf := func(v ssa.Value) bool {
			bi, ok := c25RootBuiltin(v, "len")
			return ok && c25RootsIn(bi.Call.Args[0], sig)
		}
		if want {
			return an.NilEdges(fn, sig, false).Union(c25RelEdges(fn, lenOf, c25IsInt(0), c25GT, c25LT))
		}
		return an.NilEdges(fn, sig, true).Union(c25RelEdges(fn, lenOf, c25IsInt(0), c25EQ, c25LT))
	}
	// boolean facts "x has a v2 signature": BinOp value -> polarity (true = value true means has)
	facts := func(sig []ssa.Value) map[ssa.Value]bool {
		out := map[ssa.Value]bool{}
		an.Instrs(fn, func(in ssa.Instruction) {
			bo, ok := in.(*ssa.BinOp)
			if !ok || c25OpMask(bo.Op) == 0 {
				return
			}
			for _, sd := range [][2]ssa.Value{{bo.X, bo.Y}, {bo.Y, bo.X}} {
				x, k := sd[0], sd[1]
				if an.IsNilConst(k) && c25RootsIn(x, sig) {
					out[bo] = bo.Op == token.NEQ
					return
				}
				if bi, ok := c25RootBuiltin(x, "len"); ok && c25RootsIn(bi.Call.Args[0], sig) && c25IsInt(0)(k) {
					m := c25OpMask(bo.Op)
					if sd[0] == bo.Y {
						m = c25Swap(m)
					}
					switch m &^ c25LT { // len >= 0
					case c25GT:
						out[bo] = true
					case c25EQ:
						out[bo] = false
					}
					return
				}
			}
		})
		return out
	}
	factA, factB := facts(sigA), facts(sigB)
	// edges on which hasV2(a) != hasV2(b) (differ) / == (same) is known
	diffEdges := func(wantDiffer bool) an.EdgeSet {
		return an.CondEdges(fn, func(atom ssa.Value) (bool, bool) {
			bo, ok := atom.(*ssa.BinOp)
			if !ok || (bo.Op != token.NEQ && bo.Op != token.EQL && bo.Op != token.XOR) {
				return false, false
			}
			pa, okA := factA[bo.X]
			pb, okB := factB[bo.Y]
			if !okA || !okB {
				pa, okA = factA[bo.Y]
				pb, okB = factB[bo.X]
			}
			if !okA || !okB {
				return false, false
			}
			differOnTrue := (bo.Op != token.EQL) == (pa == pb)
			return differOnTrue == wantDiffer, differOnTrue != wantDiffer
		})
	}
	differ, same := diffEdges(true), diffEdges(false)
	// curPred != nil: the facts asked for are those known on the CFG edge curPred -> block of r (one alternative of a
	// result phi: `res := -1; if as > bs { res = 1 }; return res, nil`)
	var curPred *ssa.BasicBlock
	guarded := func(r ssa.Instruction, e an.EdgeSet) bool {
		if len(e) == 0 {
			return false
		}
		if curPred != nil {
			return c27EdgeKnown(fn, curPred, r.Block(), e)
		}
		return an.GuardedBy(fn, nil, r, e)
	}
	v2Greater := func(r ssa.Instruction, sigX, sigY []ssa.Value) bool {
		xT, yF := guarded(r, has(sigX, true)), guarded(r, has(sigY, false))
		if xT && yF || guarded(r, differ) && (xT || yF) {
			return true
		}
		if len(sigX) > 0 && len(sigA) > 0 && sigX[0] == sigA[0] || len(sigA) == 0 && len(sigB) == 0 {
			// (a, b) orientation asked through a stage helper
		}
		return false
	}
	v2Stage := func(r ssa.Instruction, aGreater bool) bool {
		if aGreater {
			return guarded(r, stageRel("v2", c25GT))
		}
		return guarded(r, stageRel("v2", c25LT))
	}

	type decision struct {
		r         *ssa.Return
		k         int64
		form      string // "v2","sequence","validity"
		aBig      bool
		delegated bool // the value is the result of a stage helper (sign checked in the helper)
	}
	var decs []decision
	type zeroRet struct {
		r    *ssa.Return
		pred *ssa.BasicBlock
	}
	var zeros []zeroRet
	type tailStage struct {
		r   *ssa.Return
		key string
	}
	var tails []tailStage
	nTailSeen := 0
	nUnrec := 0
	for _, r := range an.Returns(fn) {
		if len(r.Results) == 0 {
			continue
		}
		// pass-through of a stage helper: `return c, err` where (c, err) are the helper's results
		passed := false
		for key, sts := range stages {
			for _, st := range sts {
				if !c25RootsIn(r.Results[0], st.res) {
					continue
				}
				if len(r.Results) == 2 && !an.IsNilConst(r.Results[1]) && !(len(st.errs) > 0 && c25RootsIn(r.Results[1], st.errs)) {
					continue
				}
				passed = true
				res := st.res
				decided := c25RelEdges(fn, func(v ssa.Value) bool { return c25RootsIn(v, res) }, c25IsInt(0), c25NE, 0).Union(an.NilEdges(fn, st.errs, false))
				if !guarded(r, decided) {
					// returned unconditionally: legitimate for the LAST stage only — its 0 is compare's 0, so every other
					// key must be known equal here (checked with the zero returns below)
					nTailSeen++
					if st.swapped {
						c.Bad("O3", "R-CMP", name, key+":a-greater", r.Pos(), "the "+key+" stage helper is called with (b, a) and its result returned unchanged: the sign is flipped at this stage")
						continue
					}
					tails = append(tails, tailStage{r, key})
					decs = append(decs, decision{r, 1, key, true, true}, decision{r, -1, key, false, true})
					continue
				}
				if st.swapped {
					c.Bad("O3", "R-CMP", name, key+":a-greater", r.Pos(), "the "+key+" stage helper is called with (b, a) and its result returned unchanged: the sign is flipped at this stage")
					continue
				}
				decs = append(decs, decision{r, 1, key, true, true}, decision{r, -1, key, false, true})
			}
		}
		if passed {
			continue
		}
		if !(len(r.Results) == 1 && !top) && (len(r.Results) != 2 || !an.IsNilConst(r.Results[1])) {
			continue // (a stage helper deciding a key that cannot fail may return the bare int)
		}
		type altT struct {
			k    int64
			pred *ssa.BasicBlock
		}
		var alts []altT
		if k, ok := an.ConstOf(r.Results[0]); ok && k.Kind() == constant.Int {
			kv, _ := constant.Int64Val(k)
			alts = []altT{{kv, nil}}
		} else if ph, isPhi := r.Results[0].(*ssa.Phi); isPhi && ph.Block() == r.Block() {
			// a result variable assigned constants on different branches: one alternative per incoming edge
			for i, e := range ph.Edges {
				k, ok := an.ConstOf(e)
				if !ok || k.Kind() != constant.Int {
					alts = nil
					break
				}
				kv, _ := constant.Int64Val(k)
				alts = append(alts, altT{kv, ph.Block().Preds[i]})
			}
		}
		if len(alts) == 0 {
			c.Problem("undecided: %s returns a non-constant ordering result with a nil error (%s); only constant decision lists are analysed", name, c.P.Pos(r.Pos()))
			continue
		}
		for _, alt := range alts {
			func() {
				curPred = alt.pred
				defer func() { curPred = nil }()
				kv := alt.k
				if kv == 0 {
					zeros = append(zeros, zeroRet{r, alt.pred})
					return
				}
				d := decision{r: r, k: kv}
				// what is known about a key on the way to r: the intersection of all relations established by the tests
				// passed (`if as != bs { if as > bs {..}; return -1 }` knows != and <= at the second return, i.e. <)
				known := func(k c27Key) int {
					m := 7
					for _, t := range []int{c25LT, c25LE, c25EQ, c25NE, c25GE, c25GT} {
						if guarded(r, k.rel(t)) {
							m &= t
						}
					}
					return m
				}
				// latest key that is known to differ on the way to r
				switch {
				case known(eol) == c25GT:
					d.form, d.aBig = "validity", true
				case known(eol) == c25LT:
					d.form, d.aBig = "validity", false
				case known(seq) == c25GT:
					d.form, d.aBig = "sequence", true
				case known(seq) == c25LT:
					d.form, d.aBig = "sequence", false
				case v2Greater(r, sigA, sigB) || v2Stage(r, true):
					d.form, d.aBig = "v2", true
				case v2Greater(r, sigB, sigA) || v2Stage(r, false):
					d.form, d.aBig = "v2", false
				default:
					nUnrec++
					c.Bad("O3", "R-CMP", name, fmt.Sprintf("return %d: unrecognised decision", kv), r.Pos(),
						fmt.Sprintf("compare returns %d on a path where none of the keys (has SignatureV2, Sequence(), Validity() of a vs b) is known to differ strictly: the order is no longer the lexicographic order (hasV2, sequence, expiry)", kv))
					return
				}
				decs = append(decs, d)
			}()
		}
	}
	if top {
		c.Min("O1 decision returns of compare", len(decs)+nUnrec, 1)
	}

	// keys this function decides
	forms := []string{"v2", "sequence", "validity"}
	if !top {
		forms = nil
		for _, f := range []string{"v2", "sequence", "validity"} {
			for _, d := range decs {
				if d.form == f {
					forms = append(forms, f)
					break
				}
			}
		}
	}
	isForm := func(f string) bool {
		for _, x := range forms {
			if x == f {
				return true
			}
		}
		return false
	}
	// orientation and mirror table
	for _, form := range forms {
		for _, aBig := range []bool{true, false} {
			who := "b"
			if aBig {
				who = "a"
			}
			construct := form + ":" + who + "-greater"
			n := 0
			for _, d := range decs {
				if d.form != form || d.aBig != aBig {
					continue
				}
				n++
				if d.delegated {
					c.OK("O3", "R-CMP", name, construct, d.r.Pos(), "decided by a stage helper whose own orientation is checked")
					continue
				}
				good := (d.k > 0) == aBig
				c.Check(good, "O3", "R-CMP", name, construct, d.r.Pos(),
					fmt.Sprintf("returns %d where %s's %s is greater", d.k, who, form),
					fmt.Sprintf("compare returns %d where %s's %s key is the greater one: the sign is flipped at this stage, selection prefers the older record and compare is no longer antisymmetric", d.k, who, form))
			}
			if n == 0 {
				c.Bad("O1", "R-MIRROR", name, construct, fn.Pos(), "compare has no decision for the case '"+who+" has the greater "+form+" key' (read through the accessors): its mirror case is decided, so compare(a,b) != -compare(b,a) and the selected record depends on the input order")
			}
		}
	}
	// mirrored magnitudes
	for _, form := range forms {
		var pos, neg []int64
		for _, d := range decs {
			if d.form == form && !d.delegated && (d.k > 0) == d.aBig {
				if d.aBig {
					pos = append(pos, d.k)
				} else {
					neg = append(neg, d.k)
				}
			}
		}
		if len(pos) > 0 && len(neg) > 0 {
			c.Check(pos[0] == -neg[0], "O1", "R-MIRROR", name, form+":mirrored result", fn.Pos(), "mirrored cases return opposite values", fmt.Sprintf("mirrored %s cases return %d and %d: compare(a,b) != -compare(b,a)", form, pos[0], neg[0]))
		}
	}

	// stage order: V2 before sequence before validity
	all := func(k c27Key) an.EdgeSet { return k.rel(7) }
	v2tests := has(sigA, true).Union(has(sigA, false)).Union(has(sigB, true)).Union(has(sigB, false)).Union(differ).Union(same).Union(stageRel("v2", 7))
	seenOrder := map[*ssa.Return]bool{}
	for _, d := range decs {
		if !top || seenOrder[d.r] {
			continue
		}
		seenOrder[d.r] = true
		switch d.form {
		case "v2":
			c.Check(an.Reaches(fn, nil, d.r, all(seq).Union(all(eol)), nil), "O1", "R-DOM", name, "order:v2 first", d.r.Pos(), "V2 decision does not depend on sequence/validity tests", "the SignatureV2 decision is reached only through sequence/validity comparisons: hasV2 is no longer the most significant key")
		case "sequence":
			c.Check(an.Reaches(fn, nil, d.r, all(eol), nil) && !an.Reaches(fn, nil, d.r, v2tests, nil), "O1", "R-DOM", name, "order:sequence second", d.r.Pos(), "sequence decision after V2 tests, before validity tests", "the sequence decision is not between the SignatureV2 tests and the validity tests: the lexicographic priority (hasV2, sequence, expiry) is broken")
		case "validity":
			c.Check(!an.Reaches(fn, nil, d.r, all(seq), nil) && !an.Reaches(fn, nil, d.r, v2tests, nil), "O1", "R-DOM", name, "order:validity last", d.r.Pos(), "validity decision after V2 and sequence tests", "the validity decision can be reached without passing the SignatureV2 and sequence tests")
		}
	}

	// zero only where everything is known equal (a tail-returned last stage provides its own key's equality)
	if top {
		c.Min("O1 zero returns of compare", len(zeros)+nTailSeen, 1)
	}
	zeroOK := func(r *ssa.Return, except string) bool {
		notA := has(sigA, false).Union(has(sigB, true)).Union(same).Union(stageRel("v2", c25LE))
		notB := has(sigB, false).Union(has(sigA, true)).Union(same).Union(stageRel("v2", c25GE))
		good := true
		if isForm("sequence") && except != "sequence" {
			good = good && guarded(r, seq.rel(c25LE)) && guarded(r, seq.rel(c25GE))
		}
		if isForm("validity") && except != "validity" {
			good = good && guarded(r, eol.rel(c25LE)) && guarded(r, eol.rel(c25GE))
		}
		if isForm("v2") && except != "v2" {
			good = good && guarded(r, notA) && guarded(r, notB)
		}
		return good
	}
	const zeroBad = "compare can return 0 (tie) without having found hasV2, sequence and validity all equal: records that differ in a key are treated as ties and ordered by bytes"
	for _, z := range zeros {
		curPred = z.pred
		c.Check(zeroOK(z.r, ""), "O1", "R-DOM", name, "return 0 only when all keys equal", z.r.Pos(), "0 returned only where no key is known to differ", zeroBad)
		curPred = nil
	}
	for _, t := range tails {
		c.Check(zeroOK(t.r, t.key), "O1", "R-DOM", name, "return 0 only when all keys equal", t.r.Pos(), "the last stage is returned only where every other key is known equal", zeroBad)
	}
	c27Memo[fn] = forms
	return forms
}

// ---------------------------------------------------------------- selection scan

// c27Wrap: a package-local comparator W(.. ra, rb, va, vb ..) = compare(ra, rb) refined by bytes.Compare(va, vb) on ties.
type c27Wrap struct {
	fn             *ssa.Function
	ra, rb, va, vb int
	// indexed form W(recs, vals, i, j) = compare(recs[i], recs[j]) refined by bytes.Compare(vals[i], vals[j]): rs, vs are
	// the slice parameters and ra, rb, va, vb the index parameters used for the two records / the two byte strings
	indexed bool
	rs, vs  int
}

// c27Wrapper checks fn as a tie-breaking wrapper around cmpCall = compare(p_i, p_j).
func c27Wrapper(c *an.Ctx, fn *ssa.Function, cmpCall *ssa.Call) *c27Wrap {
	name := an.FuncName(fn)
	idxOf := func(v ssa.Value) int {
		for i, q := range fn.Params {
			if an.SameObj(v, q) {
				return i
			}
		}
		return -1
	}
	w := &c27Wrap{fn: fn, ra: idxOf(cmpCall.Call.Args[0]), rb: idxOf(cmpCall.Call.Args[1]), va: -1, vb: -1, rs: -1, vs: -1}
	// elemOf: v = P[Q] for parameters P (slice) and Q (index)
	elemOf := func(v ssa.Value) (sl, ix int, ok bool) {
		s0, i0, isE := c27Indexed(v)
		if !isE {
			return -1, -1, false
		}
		sl, ix = idxOf(s0), idxOf(i0)
		return sl, ix, sl >= 0 && ix >= 0
	}
	if w.ra < 0 && w.rb < 0 {
		s0, i0, ok0 := elemOf(cmpCall.Call.Args[0])
		s1, i1, ok1 := elemOf(cmpCall.Call.Args[1])
		if !ok0 || !ok1 || s0 != s1 || i0 == i1 {
			return nil
		}
		w.indexed, w.rs, w.ra, w.rb = true, s0, i0, i1
	}
	if w.ra < 0 || w.rb < 0 || w.ra == w.rb {
		return nil
	}
	cmpRes := an.Result(cmpCall, 0)
	isCmpRes := func(v ssa.Value) bool { return c25RootsIn(v, cmpRes) && !c27IsPhi(v) }
	eqE := c25RelEdges(fn, isCmpRes, c25IsInt(0), c25EQ, 0)
	neE := c25RelEdges(fn, isCmpRes, c25IsInt(0), c25NE, 0)
	var tb *ssa.Call
	for _, bc := range an.Calls(fn, an.M("bytes", "", "Compare")) {
		if cv := an.CallValue(bc); cv != nil {
			if w.indexed {
				s0, i0, ok0 := elemOf(cv.Call.Args[0])
				s1, i1, ok1 := elemOf(cv.Call.Args[1])
				if ok0 && ok1 && s0 == s1 && s0 != w.rs && i0 != i1 {
					tb, w.vs, w.va, w.vb = cv, s0, i0, i1
				}
				continue
			}
			x, y := idxOf(cv.Call.Args[0]), idxOf(cv.Call.Args[1])
			if x >= 0 && y >= 0 && x != y {
				tb, w.va, w.vb = cv, x, y
			}
		}
	}
	if tb == nil {
		if w.indexed {
			// an element comparator over (recs, vals, i, j) that never looks at the bytes
			c.Bad("O2", "R-DOM", name, "tie-break bytes.Compare(bytes of current best, vals[j])", cmpCall.Pos(), "the indexed comparator used by the scan returns compare's result without a bytes.Compare(vals[i], vals[j]) tie-break: among records that compare equal the first one wins and the selected bytes depend on the input order")
			return w
		}
		return nil
	}
	c.Check(len(eqE) > 0 && an.GuardedBy(fn, nil, tb, eqE), "O2", "R-DOM", name, "tie-break only when comparator == 0", tb.Pos(), "bytes tie-break applied only where compare returned 0", "the byte comparison can override a non-zero compare result: the selected record is not maximal by (hasV2, sequence, expiry)")
	// every successful return yields merge(compare result on != 0, tie-break)
	good := true
	nRet := 0
	for _, r := range an.Returns(fn) {
		if len(r.Results) != 2 || !an.IsNilConst(r.Results[1]) {
			continue
		}
		nRet++
		var walk func(v ssa.Value, pred, blk *ssa.BasicBlock)
		walk = func(v ssa.Value, pred, blk *ssa.BasicBlock) {
			if ph, ok := v.(*ssa.Phi); ok {
				for i, e := range ph.Edges {
					walk(e, ph.Block().Preds[i], ph.Block())
				}
				return
			}
			switch {
			case v == ssa.Value(tb):
			case c25RootsIn(v, cmpRes):
				if pred != nil && !c27EdgeGuarded(fn, pred, blk, neE) || pred == nil && !an.GuardedBy(fn, nil, r, neE) {
					good = false
				}
			default:
				good = false
			}
		}
		walk(r.Results[0], nil, nil)
	}
	c.Check(good && nRet > 0, "O2", "R-DOM", name, "tie-break whenever comparator == 0", fn.Pos(), "the comparator returns compare's result only where it is non-zero, else the byte comparison", "a zero compare result can be returned without the byte tie-break (or something else is returned): equal records keep input order")
	return w
}

func c27Select(c *an.Ctx, cmpFn *ssa.Function) {
	p := c.P
	const ip = "ipns"
	nScan := 0
	isScan := func(fn *ssa.Function) bool {
		var r, v bool
		for _, prm := range fn.Params {
			if sl, ok := prm.Type().Underlying().(*types.Slice); ok {
				if an.TypeIs(sl.Elem(), ip, "Record") {
					r = true
				}
				if inner, ok := sl.Elem().Underlying().(*types.Slice); ok {
					if bt, ok := inner.Elem().Underlying().(*types.Basic); ok && bt.Kind() == types.Uint8 {
						v = true
					}
				}
			}
		}
		return r && v
	}
	for _, fn := range p.PkgFuncs(ip) {
		for _, call := range an.Calls(fn, an.M(ip, "-", cmpFn.Name())) {
			cv := an.CallValue(call)
			if cv == nil || cv.Call.StaticCallee() != cmpFn {
				continue
			}
			// a tie-breaking comparator between the scan and compare (possibly taking the slices and two indices)
			w := c27Wrapper(c, fn, cv)
			if w == nil && isScan(fn) {
				nScan++
				c27Scan(c, fn, cv, nil)
				continue
			}
			if w != nil && w.va < 0 {
				nScan++ // reported by the wrapper check
				continue
			}
			if w != nil {
				for _, g := range p.PkgFuncs(ip) {
					for _, wc := range an.AllCalls(g) {
						if wcv := an.CallValue(wc); wcv != nil && wcv.Call.StaticCallee() == fn && isScan(g) {
							nScan++
							c27Scan(c, g, wcv, w)
						}
					}
				}
				continue
			}
			if c27Memo[fn] != nil || fn == cmpFn {
				continue // a stage helper of compare itself
			}
			c.Problem("undecided: %s calls compare but is neither the selection scan nor a tie-breaking comparator used by it", an.FuncName(fn))
		}
	}
	c.Min("O2 selection scans", nScan, 1)
}

// c27Indexed: v = *(&S[I]) ; returns S and I.
func c27Indexed(v ssa.Value) (s, i ssa.Value, ok bool) {
	u, isU := v.(*ssa.UnOp)
	if !isU || u.Op != token.MUL {
		return nil, nil, false
	}
	ia, isIA := u.X.(*ssa.IndexAddr)
	if !isIA {
		return nil, nil, false
	}
	return ia.X, ia.Index, true
}

func c27Scan(c *an.Ctx, fn *ssa.Function, cmpCall *ssa.Call, wrap *c27Wrap) {
	p := c.P
	name := an.FuncName(fn)
	// parameters: the record slice and the byte-slice slice
	var rParam, vals *ssa.Parameter
	for _, prm := range fn.Params {
		sl, ok := prm.Type().Underlying().(*types.Slice)
		if !ok {
			continue
		}
		if an.TypeIs(sl.Elem(), "ipns", "Record") {
			rParam = prm
		}
		if inner, ok := sl.Elem().Underlying().(*types.Slice); ok {
			if bt, ok := inner.Elem().Underlying().(*types.Basic); ok && bt.Kind() == types.Uint8 {
				vals = prm
			}
		}
	}
	if rParam == nil || vals == nil {
		c.Problem("undecided: %s calls compare but does not take ([]*Record, [][]byte) parameters", name)
		return
	}
	// elemN(v): v = *(&X[idx]) with X the parameter S itself or S[k:] for a constant k; the element index in S is
	// returned as base+off (constant additions folded). raw/X are the index and slice actually used.
	elemN := func(v ssa.Value, S *ssa.Parameter) (base ssa.Value, off int64, raw, X ssa.Value, ok bool) {
		s0, idx, isE := c27Indexed(v)
		if !isE {
			return nil, 0, nil, nil, false
		}
		var k int64
		if s0 != ssa.Value(S) {
			sl, isSl := s0.(*ssa.Slice)
			if !isSl || sl.X != ssa.Value(S) || sl.High != nil || sl.Max != nil || sl.Low == nil {
				return nil, 0, nil, nil, false
			}
			kc, isK := an.ConstOf(sl.Low)
			if !isK || kc.Kind() != constant.Int {
				return nil, 0, nil, nil, false
			}
			k, _ = constant.Int64Val(kc)
		}
		b, o := c27Norm(idx)
		return b, o + k, idx, s0, true
	}
	// elem(v): the index value when v = S[idx] with S exactly the parameter
	elem := func(v ssa.Value, S *ssa.Parameter) (ssa.Value, bool) {
		s0, idx, ok := c27Indexed(v)
		if !ok || s0 != ssa.Value(S) {
			return nil, false
		}
		return idx, true
	}
	// the loop counter: second operand of compare is recs[j], j a unit-step header phi
	counter := func(ph *ssa.Phi) (start int64, ok bool) {
		// one constant start; every other incoming value is ph+1 (several back edges with `continue`)
		var nInit, nStep, nOther int
		for _, e := range ph.Edges {
			if k, isK := an.ConstOf(e); isK && k.Kind() == constant.Int {
				start, _ = constant.Int64Val(k)
				nInit++
			} else if bo, isB := e.(*ssa.BinOp); isB && bo.Op == token.ADD && bo.X == ph && c25IsInt(1)(bo.Y) {
				nStep++
			} else {
				nOther++
			}
		}
		return start, nInit == 1 && nStep >= 1 && nOther == 0
	}
	a0, a1 := cmpCall.Call.Args[0], cmpCall.Call.Args[1]
	if wrap != nil {
		a0, a1 = cmpCall.Call.Args[wrap.ra], cmpCall.Call.Args[wrap.rb]
	}
	indexed := wrap != nil && wrap.indexed
	if indexed && (cmpCall.Call.Args[wrap.rs] != ssa.Value(rParam) || cmpCall.Call.Args[wrap.vs] != ssa.Value(vals)) {
		c.Problem("undecided: %s hands other slices than its own (recs, vals) to the indexed comparator", name)
		return
	}
	// recIdx(v): the index of the record operand v (v is the index itself for an indexed comparator)
	recIdx := func(v ssa.Value) (ssa.Value, bool) {
		if indexed {
			return v, true
		}
		return elem(v, rParam)
	}
	// asCounter: idx is a unit-step loop counter: the header phi itself (for j := k; ...) or phi+1 of a range loop
	// (whose phi starts at k-1 and is incremented before use)
	asCounter := func(idx ssa.Value) (val ssa.Value, ph *ssa.Phi, start int64, ok bool) {
		if p0, isPhi := idx.(*ssa.Phi); isPhi {
			if st, isC := counter(p0); isC {
				return p0, p0, st, true
			}
		}
		if bo, isB := idx.(*ssa.BinOp); isB && bo.Op == token.ADD && c25IsInt(1)(bo.Y) {
			if p0, isPhi := bo.X.(*ssa.Phi); isPhi {
				if st, isC := counter(p0); isC {
					for _, e := range p0.Edges {
						if e == ssa.Value(bo) {
							return bo, p0, st + 1, true
						}
					}
				}
			}
		}
		return nil, nil, 0, false
	}
	var jPhi *ssa.Phi
	var jVal ssa.Value // the loop counter value (index into boundX)
	var jInit int64
	var jBase ssa.Value // candidate index in recs = jBase + jOff
	var jOff int64
	var boundX ssa.Value = rParam
	if indexed {
		if v, ph, st, isC := asCounter(a1); isC {
			jVal, jPhi, jInit = v, ph, st
			jBase, jOff = c27Norm(a1)
		}
	} else if b, o, raw, X, ok := elemN(a1, rParam); ok {
		if v, ph, st, isC := asCounter(raw); isC {
			_, ro := c27Norm(raw)
			jVal, jPhi, jInit = v, ph, st+(o-ro)
			jBase, jOff, boundX = b, o, X
		}
	}
	if jPhi == nil {
		// swapped operands?
		idx, ok := recIdx(a0)
		if !ok && !indexed {
			_, _, idx, _, ok = elemN(a0, rParam)
		}
		if ok {
			if _, _, _, isC := asCounter(idx); isC {
				c.Bad("O2", "R-FLOW", name, "comparator(current best, recs[j])", cmpCall.Pos(), "compare is called with the loop candidate recs[j] as FIRST operand (candidate first): with 'replace when result < 0' the scan keeps the minimum instead of the maximum")
				return
			}
		}
		// a loop counter that advances by more than one skips candidates
		if idx, ok := recIdx(a1); ok {
			if ph, isPhi := idx.(*ssa.Phi); isPhi {
				for _, e := range ph.Edges {
					if bo, isB := e.(*ssa.BinOp); isB && bo.Op == token.ADD && bo.X == ssa.Value(ph) {
						if k, isK := an.ConstOf(bo.Y); isK && k.Kind() == constant.Int && !c25IsInt(1)(bo.Y) {
							c.Bad("O2", "R-CMP", name, "loop runs while j < len(recs)", cmpCall.Pos(), "the scan's loop counter advances by "+k.ExactString()+" instead of 1: candidates are skipped and never compared")
							return
						}
					}
				}
			}
		}
		c.Problem("undecided: %s: the second operand of compare is not recs[j] with j a unit-step loop counter (%s)", name, p.Pos(cmpCall.Pos()))
		return
	}
	header := jPhi.Block()

	// ---- best-state: loop-carried phis of the header other than j. Each must be a projection of ONE current-best
	// index: the index itself (0 / j), the record (recs[0] / recs[j]) or the bytes (vals[0] / vals[j]); its next
	// value must be a two-way merge {itself, projection of j}.
	type upd struct {
		take  bool
		chain [][2]*ssa.BasicBlock // phi edges the value travels back to the header
		pos   token.Pos
	}
	type state struct {
		ph   *ssa.Phi
		kind string // index | rec | bytes
		upds []upd
		// a best state kept in a field of a local struct variable instead of an SSA register
		cell   *ssa.Alloc
		fld    int
		stores []ssa.Instruction // in-loop writes of the field
		pos    token.Pos
	}
	var states []state
	// index predicates see an index as base+off; recs[k:][i] counts as recs[i+k]
	type idxPred func(b ssa.Value, o int64) bool
	pZero := func(b ssa.Value, o int64) bool {
		kc, isK := an.ConstOf(b)
		if !isK || kc.Kind() != constant.Int {
			return false
		}
		n, _ := constant.Int64Val(kc)
		return n+o == 0
	}
	pConst := func(b ssa.Value, o int64) bool { _, isK := an.ConstOf(b); return isK }
	pAny := func(b ssa.Value, o int64) bool { return true }
	kindOf := func(v ssa.Value, want idxPred) string {
		if b, o := c27Norm(v); want(b, o) {
			return "index"
		}
		if b, o, _, _, ok := elemN(v, rParam); ok && want(b, o) {
			return "rec"
		}
		if b, o, _, _, ok := elemN(v, vals); ok && want(b, o) {
			return "bytes"
		}
		return ""
	}
	isJ := func(v ssa.Value) bool { b, o := c27Norm(v); return b == jBase && o == jOff }
	pJ := func(b ssa.Value, o int64) bool { return b == jBase && o == jOff }
	for _, in := range header.Instrs {
		ph, ok := in.(*ssa.Phi)
		if !ok || ph == jPhi {
			continue
		}
		// entry edge(s) / back edges
		var initV ssa.Value
		type back struct {
			v    ssa.Value
			pred *ssa.BasicBlock
		}
		var backs []back
		for i, e := range ph.Edges {
			if header.Preds[i].Dominates(header) && header.Preds[i] != header {
				initV = e
			} else {
				backs = append(backs, back{e, header.Preds[i]})
			}
		}
		if initV == nil || len(backs) == 0 {
			continue
		}
		k0 := kindOf(initV, pZero)
		if k0 == "" {
			// not a best-state variable (or a start other than element 0)
			if kindOf(initV, pConst) != "" {
				c.Bad("O2", "R-CONST", name, "scan starts at best=0", ph.Pos(), "the current-best state does not start at element 0: record 0 is never considered")
			}
			continue
		}
		// every value flowing back is the state itself (keep) or the same projection of j (take), through any nesting of merges
		st := state{ph: ph, kind: k0}
		okState := true
		var walk func(v ssa.Value, chain [][2]*ssa.BasicBlock, depth int)
		walk = func(v ssa.Value, chain [][2]*ssa.BasicBlock, depth int) {
			if v == ssa.Value(ph) {
				st.upds = append(st.upds, upd{false, chain, ph.Pos()})
				return
			}
			if kindOf(v, pJ) == k0 {
				st.upds = append(st.upds, upd{true, chain, v.Pos()})
				return
			}
			if mg, ok := v.(*ssa.Phi); ok && mg != ph && mg != jPhi && depth < 6 {
				for i, e := range mg.Edges {
					walk(e, append(append([][2]*ssa.BasicBlock{}, chain...), [2]*ssa.BasicBlock{mg.Block().Preds[i], mg.Block()}), depth+1)
				}
				return
			}
			switch {
			case kindOf(v, pAny) == k0:
				okState = false
				c.Bad("O2", "R-PAIR", name, "best-state "+k0+" takes element j", v.Pos(), "when the candidate wins, the cached "+k0+" of the current best is not replaced by the "+k0+" of candidate j (it is taken from another element): the parts of the current-best state describe different records")
			default:
				okState = false
				c.Problem("undecided: %s: loop-carried best-state %s is updated with a value that is neither itself nor element j", name, ph.Comment)
			}
		}
		for _, bk := range backs {
			walk(bk.v, [][2]*ssa.BasicBlock{{bk.pred, header}}, 0)
		}
		hasTake := false
		for _, u := range st.upds {
			hasTake = hasTake || u.take
		}
		if okState && hasTake {
			states = append(states, st)
		}
	}
	// ---- best state kept in a local struct variable (`best := pick{idx: 0, rec: recs[0]}` ... `best = pick{idx: j, rec: cand}`):
	// every field is a state of its own; initial write before the loop, in-loop writes must store the projection of j
	for _, cw := range c27CellWrites(fn) {
		var initW *c27CellWrite
		var inLoop []*c27CellWrite
		okCell := true
		for i := range cw.writes {
			w := &cw.writes[i]
			switch {
			case w.at.Block() != header && w.at.Block().Dominates(header):
				if initW != nil {
					okCell = false
				}
				initW = w
			case header.Dominates(w.at.Block()) && an.Reaches(fn, w.at, header.Instrs[0], nil, nil):
				inLoop = append(inLoop, w)
			default:
				okCell = false
			}
		}
		if !okCell || initW == nil || len(inLoop) == 0 {
			continue
		}
		for f, iv := range initW.vals {
			k0 := kindOf(iv, pZero)
			if k0 == "" {
				if kindOf(iv, pConst) != "" {
					c.Bad("O2", "R-CONST", name, "scan starts at best=0", initW.at.Pos(), "the current-best state does not start at element 0: record 0 is never considered")
				}
				continue
			}
			st := state{kind: k0, cell: cw.cell, fld: f, pos: initW.at.Pos()}
			okState := true
			for _, w := range inLoop {
				v, has := w.vals[f]
				if !has {
					if w.whole {
						okState = false
						c.Bad("O2", "R-PAIR", name, "best-state "+k0+" takes element j", w.at.Pos(), "the current-best struct is overwritten without its "+k0+" part being set to that of candidate j: the parts of the current-best state describe different records")
					}
					continue // a field-wise write of another field
				}
				switch {
				case kindOf(v, pJ) == k0:
					st.stores = append(st.stores, w.at)
				case kindOf(v, pAny) == k0:
					okState = false
					c.Bad("O2", "R-PAIR", name, "best-state "+k0+" takes element j", w.at.Pos(), "when the candidate wins, the cached "+k0+" of the current best is not replaced by the "+k0+" of candidate j (it is taken from another element): the parts of the current-best state describe different records")
				default:
					okState = false
					c.Problem("undecided: %s: the best-state field %d of a local struct is updated with a value that is neither itself nor element j", name, f)
				}
			}
			if okState && len(st.stores) > 0 {
				states = append(states, st)
			}
		}
	}
	var iPhi *ssa.Phi
	for _, st := range states {
		if st.kind == "index" && st.ph != nil {
			iPhi = st.ph
		}
	}
	// cellRead(v): v reads the field of a cell state; returns its kind
	cellRead := func(v ssa.Value) string {
		u, ok := v.(*ssa.UnOp)
		if !ok || u.Op != token.MUL {
			return ""
		}
		fa, ok := u.X.(*ssa.FieldAddr)
		if !ok {
			return ""
		}
		for _, st := range states {
			if st.cell != nil && fa.X == ssa.Value(st.cell) && fa.Field == st.fld {
				return st.kind
			}
		}
		return ""
	}
	// isCurIdx(v): v is the current best index (the loop-carried register or a read of the index field)
	isCurIdx := func(v ssa.Value) bool {
		return iPhi != nil && v == ssa.Value(iPhi) || cellRead(v) == "index"
	}
	// cur(v, kind): v denotes the <kind> of the current best
	cur := func(v ssa.Value, kind string) bool {
		for _, st := range states {
			if st.kind == kind && st.ph != nil && v == ssa.Value(st.ph) {
				return true
			}
		}
		if cellRead(v) == kind {
			return true
		}
		S := rParam
		if kind == "bytes" {
			S = vals
		}
		if kind != "index" {
			if i, ok := elem(v, S); ok && isCurIdx(i) {
				return true
			}
		}
		return false
	}
	curRec := cur(a0, "rec")
	if indexed {
		curRec = isCurIdx(a0)
	}
	if !curRec {
		c.Bad("O2", "R-FLOW", name, "comparator(current best, recs[j])", cmpCall.Pos(), "the first operand of compare is not the current best record (neither recs[best] with best the loop-carried index nor a loop-carried record updated together with it): candidates are compared against a stale or fixed record")
		return
	}
	c.OK("O2", "R-FLOW", name, "comparator(current best, recs[j])", cmpCall.Pos(), "compare(current best, recs[j])")
	c.Check(jInit == 0 || jInit == 1, "O2", "R-CONST", name, "scan starts at best=0, j<=1", jPhi.Pos(), "best starts at element 0 and candidates at 0 or 1 (comparing element 0 with itself is harmless)",
		fmt.Sprintf("the scan starts with j=%d while the best state starts at element 0: some record is never considered", jInit))
	// loop condition j < len(recs) guards the body
	// (the counter indexes boundX = recs or recs[k:], whose length is the bound)
	isLenR := func(v ssa.Value) bool {
		b, ok := c25RootBuiltin(v, "len")
		if !ok {
			return false
		}
		if boundX == ssa.Value(rParam) {
			return c25RootsIn(b.Call.Args[0], []ssa.Value{rParam})
		}
		return b.Call.Args[0] == boundX
	}
	isCtr := func(v ssa.Value) bool { return v == jVal }
	inBody := c25RelEdges(fn, isCtr, isLenR, c25LT, 0)
	exitE := c25RelEdges(fn, isCtr, isLenR, c25GE, 0)
	c.Check(len(inBody) > 0 && an.GuardedBy(fn, nil, cmpCall, inBody) && c27ExactBound(fn, jVal, isLenR), "O2", "R-CMP", name, "loop runs while j < len(recs)", cmpCall.Pos(), "every candidate j < len(recs) is compared",
		"the scan's loop condition is not j < len(recs): the last record(s) are never compared (or the index overruns)")

	// ---- tie-break
	var dVals, tbVals []ssa.Value
	if wrap != nil {
		// the ordering call is a tie-breaking wrapper (checked on its own): its byte operands must be the bytes of the
		// current best and vals[j]
		x, y := cmpCall.Call.Args[wrap.va], cmpCall.Call.Args[wrap.vb]
		yIsJ, xIsJ := kindOf(y, pJ) == "bytes", kindOf(x, pJ) == "bytes"
		curX, curY := cur(x, "bytes"), cur(y, "bytes")
		if indexed {
			yIsJ, xIsJ = isJ(y), isJ(x)
			curX, curY = isCurIdx(x), isCurIdx(y)
		}
		const cn = "tie-break bytes.Compare(bytes of current best, vals[j])"
		switch {
		case curX && yIsJ:
			c.OK("O2", "R-FLOW", name, cn, cmpCall.Pos(), "the tie-breaking comparator gets the bytes of the same two records in the same order")
		case xIsJ && curY:
			c.Bad("O2", "R-FLOW", name, cn, cmpCall.Pos(), "the tie-break compares (vals[j], current best) while compare gets (current best, recs[j]): on ties the smaller byte string wins, contradicting the order used otherwise and the result depends on input order")
		default:
			c.Bad("O2", "R-FLOW", name, cn, cmpCall.Pos(), "the tie-break compares vals[j] with bytes that are not those of the current best record (a value that is not updated when the best changes, or another index): once the best has moved, ties are decided against an unrelated record and the selected bytes depend on the input order")
		}
		dVals = an.Result(cmpCall, 0)
	} else {
		cmpRes := an.Result(cmpCall, 0)
		isCmpRes := func(v ssa.Value) bool { return c25RootsIn(v, cmpRes) && !c27IsPhi(v) }
		eqE := c25RelEdges(fn, isCmpRes, c25IsInt(0), c25EQ, 0)
		neE := c25RelEdges(fn, isCmpRes, c25IsInt(0), c25NE, 0)
		var tb *ssa.Call
		for _, bc := range an.Calls(fn, an.M("bytes", "", "Compare")) {
			cv := an.CallValue(bc)
			if cv == nil {
				continue
			}
			x, y := cv.Call.Args[0], cv.Call.Args[1]
			xIsJ, yIsJ := kindOf(x, pJ) == "bytes", kindOf(y, pJ) == "bytes"
			mentionsVals := func(v ssa.Value) bool {
				if _, _, _, _, ok := elemN(v, vals); ok {
					return true
				}
				for _, st := range states {
					if st.kind == "bytes" && st.ph != nil && v == ssa.Value(st.ph) {
						return true
					}
				}
				return cellRead(v) == "bytes"
			}
			if !mentionsVals(x) && !mentionsVals(y) {
				continue
			}
			tb = cv
			switch {
			case cur(x, "bytes") && yIsJ:
				c.OK("O2", "R-FLOW", name, "tie-break bytes.Compare(bytes of current best, vals[j])", cv.Pos(), "tie-break compares the bytes of the same two records in the same order")
			case xIsJ && cur(y, "bytes"):
				c.Bad("O2", "R-FLOW", name, "tie-break bytes.Compare(bytes of current best, vals[j])", cv.Pos(), "the tie-break compares (vals[j], current best) while compare gets (current best, recs[j]): on ties the smaller byte string wins, contradicting the order used otherwise and the result depends on input order")
			case yIsJ || xIsJ:
				c.Bad("O2", "R-FLOW", name, "tie-break bytes.Compare(bytes of current best, vals[j])", cv.Pos(), "the tie-break compares vals[j] with bytes that are not those of the current best record (a value that is not updated when the best changes, or another index): once the best has moved, ties are decided against an unrelated record and the selected bytes depend on the input order")
			default:
				c.Bad("O2", "R-FLOW", name, "tie-break bytes.Compare(bytes of current best, vals[j])", cv.Pos(), "the tie-break does not compare the bytes of the current best with vals[j]")
			}
			c.Check(len(eqE) > 0 && an.GuardedBy(fn, nil, cv, eqE), "O2", "R-DOM", name, "tie-break only when comparator == 0", cv.Pos(), "bytes tie-break applied only where compare returned 0", "the byte comparison can override a non-zero compare result: the selected record is not maximal by (hasV2, sequence, expiry)")
		}
		if tb == nil {
			c.Bad("O2", "R-DOM", name, "tie-break bytes.Compare(bytes of current best, vals[j])", cmpCall.Pos(), "no bytes.Compare(vals[best], vals[j]) tie-break in the scan: among records that compare equal the first one wins and the selected bytes depend on the input order")
			return
		}
		// decision value D = phi(cmp, tie-break)
		var D *ssa.Phi
		for _, r := range *tb.Referrers() {
			if ph, ok := r.(*ssa.Phi); ok && len(ph.Edges) == 2 {
				other := ph.Edges[0]
				if other == ssa.Value(tb) {
					other = ph.Edges[1]
				}
				if c25RootsIn(other, cmpRes) {
					D = ph
				}
			}
		}
		if D != nil {
			for k, e := range D.Edges {
				if e != ssa.Value(tb) {
					pred := D.Block().Preds[k]
					c.Check(c27EdgeGuarded(fn, pred, D.Block(), neE), "O2", "R-DOM", name, "tie-break whenever comparator == 0", D.Pos(), "compare's own result decides only where it is non-zero", "a zero compare result can reach the replacement test without the byte tie-break: equal records keep input order")
				}
			}
			dVals = []ssa.Value{D}
		} else {
			// no merged value: the replacement is decided directly on compare's result and, when that is 0, on the tie-break
			tbVals = []ssa.Value{tb}
		}
	}
	// ---- replacement of every part of the best state: take exactly where the tie-broken result is < 0.
	// Knowledge on an update edge = intersection of all relations established on the way (switch cases, && chains).
	inSet := func(set []ssa.Value) func(ssa.Value) bool {
		return func(v ssa.Value) bool {
			for _, d := range set {
				if v == d {
					return true
				}
			}
			return false
		}
	}
	knownOn := func(chain [][2]*ssa.BasicBlock, isV func(ssa.Value) bool) int {
		m := 7
		for _, t := range []int{c25LT, c25LE, c25EQ, c25NE, c25GE, c25GT} {
			e := c25RelEdges(fn, isV, c25IsInt(0), t, 0)
			if len(e) == 0 {
				continue
			}
			for _, pe := range chain {
				if c29EdgeGuarded(fn, pe[0], pe[1], e) {
					m &= t
					break
				}
			}
		}
		return m
	}
	cmpVals := an.Result(cmpCall, 0)
	isCmpV := func(v ssa.Value) bool { return c25RootsIn(v, cmpVals) && !c27IsPhi(v) }
	if len(states) == 0 {
		c.Problem("undecided: %s: no loop-carried current-best state found", name)
		return
	}
	sub := func(m, of int) bool { return m != 0 && m&^of == 0 }
	// the best state starts at element 0 (checked above): keeping it where j == 0 skips comparing element 0 with itself
	jZero := c25RelEdges(fn, isJ, c25IsInt(0), c25EQ, 0)
	selfSkip := func(chain [][2]*ssa.BasicBlock) bool {
		for _, pe := range chain {
			if c29EdgeGuarded(fn, pe[0], pe[1], jZero) {
				return true
			}
		}
		return false
	}
	// knowledge at an instruction (for states kept in memory): intersection of the relations guarding it
	knownAt := func(at ssa.Instruction, isV func(ssa.Value) bool) int {
		m := 7
		for _, t := range []int{c25LT, c25LE, c25EQ, c25NE, c25GE, c25GT} {
			if e := c25RelEdges(fn, isV, c25IsInt(0), t, 0); len(e) > 0 && an.GuardedBy(fn, nil, at, e) {
				m &= t
			}
		}
		return m
	}
	for _, st := range states {
		takeOK, keepOK := true, true
		if st.cell != nil {
			blocked := map[ssa.Instruction]bool{}
			for _, w := range st.stores {
				blocked[w] = true
				var lt bool
				if len(dVals) > 0 {
					lt = sub(knownAt(w, inSet(dVals)), c25LT)
				} else {
					mc, mt := knownAt(w, isCmpV), knownAt(w, inSet(tbVals))
					lt = sub(mc, c25LT) || sub(mc, c25EQ) && sub(mt, c25LT)
				}
				if !lt {
					takeOK = false
				}
			}
			// keep: from the comparison, the next iteration (or the loop exit) is reached without a write only over
			// an edge where the tie-broken result is known >= 0 (or where element 0 would be compared with itself)
			ge := an.EdgeSet{}
			if len(dVals) > 0 {
				ge = c25RelEdges(fn, inSet(dVals), c25IsInt(0), c25GE, 0)
			} else {
				ge = c25RelEdges(fn, isCmpV, c25IsInt(0), c25GT, 0).Union(c25RelEdges(fn, inSet(tbVals), c25IsInt(0), c25GE, 0))
			}
			if an.Reaches(fn, cmpCall, header.Instrs[0], ge.Union(jZero), blocked) {
				keepOK = false
			}
			c.Check(takeOK, "O2", "R-CMP", name, "best "+st.kind+"=j only when result < 0", st.pos, "candidate replaces the best "+st.kind+" only where the tie-broken result is < 0", "the candidate j replaces the current best "+st.kind+" on an edge where the (tie-broken) comparison result is not known to be < 0: the scan does not keep the maximum")
			c.Check(keepOK, "O2", "R-CMP", name, "best "+st.kind+" kept only when result >= 0", st.pos, "best "+st.kind+" kept only where the result is >= 0", "the current best "+st.kind+" is kept on an edge where the comparison result may be < 0 (or a tie is not broken by bytes): a better candidate is ignored (or only part of the best state is replaced)")
			continue
		}
		for _, u := range st.upds {
			var lt, ge bool
			if len(dVals) > 0 {
				md := knownOn(u.chain, inSet(dVals))
				lt, ge = sub(md, c25LT), sub(md, c25GE)
			} else {
				mc := knownOn(u.chain, isCmpV)
				mt := knownOn(u.chain, inSet(tbVals))
				lt = sub(mc, c25LT) || sub(mc, c25EQ) && sub(mt, c25LT)
				ge = sub(mc, c25GT) || sub(mc, c25EQ) && sub(mt, c25GE)
			}
			if u.take && !lt {
				takeOK = false
			}
			if !u.take && !ge && !selfSkip(u.chain) {
				keepOK = false
			}
		}
		c.Check(takeOK, "O2", "R-CMP", name, "best "+st.kind+"=j only when result < 0", st.ph.Pos(), "candidate replaces the best "+st.kind+" only where the tie-broken result is < 0", "the candidate j replaces the current best "+st.kind+" on an edge where the (tie-broken) comparison result is not known to be < 0: the scan does not keep the maximum")
		c.Check(keepOK, "O2", "R-CMP", name, "best "+st.kind+" kept only when result >= 0", st.ph.Pos(), "best "+st.kind+" kept only where the result is >= 0", "the current best "+st.kind+" is kept on an edge where the comparison result may be < 0 (or a tie is not broken by bytes): a better candidate is ignored (or only part of the best state is replaced)")
	}
	// ---- a short-cut return of a constant index k (nil error) lies where len(recs) > k is known
	for _, r := range an.Returns(fn) {
		if len(r.Results) != 2 || !an.IsNilConst(r.Results[1]) {
			continue
		}
		kc, isK := an.ConstOf(r.Results[0])
		if !isK || kc.Kind() != constant.Int {
			continue
		}
		k, _ := constant.Int64Val(kc)
		lenOfRecs := func(v ssa.Value) bool {
			b, ok := c25RootBuiltin(v, "len")
			return ok && (c25RootsIn(b.Call.Args[0], []ssa.Value{rParam}) || c25RootsIn(b.Call.Args[0], []ssa.Value{vals}))
		}
		okLen := an.EdgeSet{}
		for cst := int64(0); cst <= k+2; cst++ {
			if cst > k {
				okLen = okLen.Union(c25RelEdges(fn, lenOfRecs, c25IsInt(cst), c25EQ, 0)).Union(c25RelEdges(fn, lenOfRecs, c25IsInt(cst), c25GE, 0))
			}
			if cst >= k {
				okLen = okLen.Union(c25RelEdges(fn, lenOfRecs, c25IsInt(cst), c25GT, 0))
			}
		}
		if k == 0 {
			okLen = okLen.Union(c25RelEdges(fn, lenOfRecs, c25IsInt(0), c25NE, c25LT))
		}
		c.Check(k >= 0 && len(okLen) > 0 && an.GuardedBy(fn, nil, r, okLen), "O2", "R-CMP", name, "constant index returned only where it is in range", r.Pos(), fmt.Sprintf("index %d returned where len(recs) > %d is known", k, k),
			fmt.Sprintf("the selection returns the constant index %d with a nil error on a path where the number of records is not known to exceed it: the index does not designate a record of the input", k))
	}
	// ---- return the best index at exit
	nRet := 0
	for _, r := range an.Returns(fn) {
		if len(r.Results) != 2 || !an.IsNilConst(r.Results[1]) {
			continue
		}
		if isCurIdx(r.Results[0]) {
			nRet++
			c.Check(len(exitE) > 0 && an.GuardedBy(fn, nil, r, exitE), "O2", "R-DOM", name, "return best at loop exit", r.Pos(), "best returned only after the scan is complete", "the best index is returned before every candidate has been compared")
		} else if an.Reaches(fn, cmpCall, r, nil, nil) {
			c.Bad("O2", "R-FLOW", name, "return best at loop exit", r.Pos(), "after scanning, a value other than the loop-carried best index is returned: the index does not designate the record that won the comparisons")
			nRet++
		}
	}
	if nRet == 0 {
		c.Bad("O2", "R-FLOW", name, "return best at loop exit", fn.Pos(), "the selection scan does not return the best index it computed")
	}

	// callers: recs built index-aligned from vals
	for _, g := range p.PkgFuncs("ipns") {
		for _, call := range an.Calls(g, an.M("ipns", "-", fn.Name())) {
			cv := an.CallValue(call)
			if cv == nil || cv.Call.StaticCallee() != fn {
				continue
			}
			c27Aligned(c, g, cv, rParam, vals)
		}
	}
}

func c27IsPhi(v ssa.Value) bool { _, ok := v.(*ssa.Phi); return ok }

// c27Norm: v = base + off with constant additions folded.
func c27Norm(v ssa.Value) (ssa.Value, int64) {
	var off int64
	for {
		bo, ok := v.(*ssa.BinOp)
		if !ok || bo.Op != token.ADD {
			return v, off
		}
		k, isK := an.ConstOf(bo.Y)
		if !isK || k.Kind() != constant.Int {
			return v, off
		}
		n, _ := constant.Int64Val(k)
		off += n
		v = bo.X
	}
}

// c27CellWrite: one store into a local struct variable; vals = the fields it writes.
type c27CellWrite struct {
	at    *ssa.Store
	vals  map[int]ssa.Value
	whole bool // the whole struct is overwritten: fields not listed become zero
}

type c27Cell struct {
	cell   *ssa.Alloc
	writes []c27CellWrite
}

// c27CellWrites: local struct variables of fn that are only written (whole, from a composite literal, or field by
// field) and read field-wise — candidates for a best state kept in memory.
func c27CellWrites(fn *ssa.Function) []c27Cell {
	var out []c27Cell
	an.Instrs(fn, func(in ssa.Instruction) {
		al, ok := in.(*ssa.Alloc)
		if !ok || al.Comment == "complit" {
			return
		}
		pt, ok := al.Type().Underlying().(*types.Pointer)
		if !ok {
			return
		}
		if _, isS := pt.Elem().Underlying().(*types.Struct); !isS {
			return
		}
		cell := c27Cell{cell: al}
		good := true
		for _, r := range *al.Referrers() {
			switch x := r.(type) {
			case *ssa.FieldAddr:
				for _, rr := range *x.Referrers() {
					switch y := rr.(type) {
					case *ssa.UnOp:
						if y.Op != token.MUL {
							good = false
						}
					case *ssa.Store:
						if y.Addr != ssa.Value(x) {
							good = false
						} else {
							cell.writes = append(cell.writes, c27CellWrite{y, map[int]ssa.Value{x.Field: y.Val}, false})
						}
					case *ssa.DebugRef:
					default:
						good = false
					}
				}
			case *ssa.Store:
				if x.Addr != ssa.Value(al) {
					good = false
					break
				}
				ld, isL := x.Val.(*ssa.UnOp)
				if !isL || ld.Op != token.MUL {
					good = false
					break
				}
				tmp, isA := ld.X.(*ssa.Alloc)
				if !isA {
					good = false
					break
				}
				vals := map[int]ssa.Value{}
				for _, tr := range *tmp.Referrers() {
					switch y := tr.(type) {
					case *ssa.FieldAddr:
						for _, rr := range *y.Referrers() {
							if st, isSt := rr.(*ssa.Store); isSt && st.Addr == ssa.Value(y) {
								if _, dup := vals[y.Field]; dup {
									good = false
								}
								vals[y.Field] = st.Val
							} else if _, isD := rr.(*ssa.DebugRef); !isD {
								good = false
							}
						}
					case *ssa.UnOp:
					case *ssa.DebugRef:
					default:
						good = false
					}
				}
				cell.writes = append(cell.writes, c27CellWrite{x, vals, true})
			case *ssa.DebugRef:
			default:
				good = false
			}
		}
		if good && len(cell.writes) >= 2 {
			out = append(out, cell)
		}
	})
	return out
}

// c27ExactBound: the only relational test of j against len(recs) is j < len(recs)
// (not len-1, not <=).
func c27ExactBound(fn *ssa.Function, j ssa.Value, isLen func(ssa.Value) bool) bool {
	ok := true
	an.Instrs(fn, func(in ssa.Instruction) {
		bo, isB := in.(*ssa.BinOp)
		if !isB || c25OpMask(bo.Op) == 0 {
			return
		}
		if bo.Op == token.EQL || bo.Op == token.NEQ {
			// j ==/!= constant is not a bound (skipping or leaving on it is judged by the keep/exit obligations)
			if _, isK := an.ConstOf(bo.X); isK && bo.Y == j {
				return
			}
			if _, isK := an.ConstOf(bo.Y); isK && bo.X == j {
				return
			}
		}
		if bo.X == j && !isLen(bo.Y) || bo.Y == j && !isLen(bo.X) {
			ok = false // j compared with something else
		}
		if bo.X == j && isLen(bo.Y) && bo.Op != token.LSS && bo.Op != token.GEQ {
			ok = false
		}
		if bo.Y == j && isLen(bo.X) && bo.Op != token.GTR && bo.Op != token.LEQ {
			ok = false
		}
	})
	return ok
}

// c27EdgeKnown: the CFG edge pred->blk is one of edges, or pred itself is reached only over one of them.
func c27EdgeKnown(fn *ssa.Function, pred, blk *ssa.BasicBlock, edges an.EdgeSet) bool {
	if len(edges) == 0 {
		return false
	}
	n, in := 0, 0
	for i, s := range pred.Succs {
		if s == blk {
			n++
			if edges[an.Edge{From: pred, Succ: i}] {
				in++
			}
		}
	}
	if n > 0 && in == n {
		return true
	}
	return an.GuardedBy(fn, nil, pred.Instrs[len(pred.Instrs)-1], edges)
}

// c27EdgeGuarded: the CFG edge pred->blk is crossed only where one of edges was crossed.
func c27EdgeGuarded(fn *ssa.Function, pred, blk *ssa.BasicBlock, edges an.EdgeSet) bool {
	if len(edges) == 0 {
		return false
	}
	for i, s := range pred.Succs {
		if s == blk && edges[an.Edge{From: pred, Succ: i}] {
			return true
		}
	}
	if len(pred.Succs) != 1 {
		return false // a conditional edge that is not one of the wanted ones
	}
	return an.GuardedBy(fn, nil, pred.Instrs[0], edges)
}

// c27Aligned: at a call sel(recs', vals') recs' is built by appending
// Unmarshal(vals'[k]) for every k, and a failed element returns.
func c27Aligned(c *an.Ctx, g *ssa.Function, call *ssa.Call, rParam, vParam *ssa.Parameter) {
	var recsArg, valsArg ssa.Value
	for i, prm := range call.Call.StaticCallee().Params {
		if prm == rParam {
			recsArg = call.Call.Args[i]
		}
		if prm == vParam {
			valsArg = call.Call.Args[i]
		}
	}
	if recsArg == nil || valsArg == nil {
		return
	}
	c27AlignedVal(c, g, recsArg, valsArg, 0)
}

// c27AlignedVal: recsVal (a value of g) is built by appending UnmarshalRecord(valsVal[k]) for every k, in g or in
// a package-local helper that g hands valsVal to.
func c27AlignedVal(c *an.Ctx, g *ssa.Function, recsArg, valsArg ssa.Value, depth int) {
	name := an.FuncName(g)
	if hc, ok := c25RootCall(recsArg, an.M("ipns", "", "")); ok && depth < 2 && c25InPkgHelper(c25Outer(g), hc.Call.StaticCallee()) {
		h := hc.Call.StaticCallee()
		var hv *ssa.Parameter
		for i, a := range hc.Call.Args {
			if i < len(h.Params) && a == valsArg {
				hv = h.Params[i]
			}
		}
		if hv != nil {
			n := 0
			for _, r := range an.Returns(h) {
				if len(r.Results) == 0 || an.IsNilConst(r.Results[0]) {
					continue
				}
				if k, isK := r.Results[0].(*ssa.Const); isK && k.Value == nil && len(r.Results) == 2 && !an.IsNilConst(r.Results[1]) {
					continue
				}
				n++
				c27AlignedVal(c, h, r.Results[0], hv, depth+1)
			}
			if n > 0 {
				return
			}
		}
	}
	var appends []*ssa.Call
	okShape := true
	for _, r := range an.Roots(recsArg, nil) {
		if an.IsNilConst(r) {
			continue
		}
		if k, ok := r.(*ssa.Const); ok && k.Value == nil {
			continue
		}
		if ap, ok := r.(*ssa.Call); ok && an.Callee(ap).Builtin == "append" {
			appends = append(appends, ap)
			continue
		}
		if _, ok := r.(*ssa.MakeSlice); ok {
			continue
		}
		okShape = false
	}
	if !okShape || len(appends) != 1 {
		c.Problem("undecided: %s builds the record slice passed to the selection scan in an unrecognised way", name)
		return
	}
	ap := appends[0]
	// appended element = Unmarshal(vals[k]) on the nil edge
	var elem ssa.Value
	if sl, ok := ap.Call.Args[1].(*ssa.Slice); ok {
		if arr, ok := sl.X.(*ssa.Alloc); ok {
			for _, r := range *arr.Referrers() {
				if ia, ok := r.(*ssa.IndexAddr); ok {
					for _, rr := range *ia.Referrers() {
						if st, ok := rr.(*ssa.Store); ok && st.Addr == ia {
							elem = st.Val
						}
					}
				}
			}
		}
	}
	um, okU := c25RootCall(elem, an.M("ipns", "", "UnmarshalRecord"))
	if elem == nil || !okU {
		c.Problem("undecided: %s appends something other than UnmarshalRecord(vals[k]) to the record slice", name)
		return
	}
	S, _, okI := c27Indexed(um.Call.Args[0])
	good := okI && S == valsArg && an.OnNilEdgeOf(g, um, ap)
	c.Check(good, "O2", "R-PAIR", name, "recs[k]=Unmarshal(vals[k])", ap.Pos(), "records are decoded from the same vals slice handed to the scan", "the records handed to the selection scan are not decoded from the vals slice handed along with them: recs[i] and vals[i] are different records and the returned index is wrong")
	// every iteration appends or leaves: the decode cannot be re-executed without the append
	skip := an.Reaches(g, um, um, nil, map[ssa.Instruction]bool{ap: true})
	c.Check(!skip, "O2", "R-PAIR", name, "no skipped element", um.Pos(), "a record that fails to decode ends the selection (never skipped)", "an element of vals can be skipped (decode error path continues the loop) without appending to recs: recs and vals lose index alignment and the returned index designates another record")
}
