package props

import (
	"go/constant"
	"go/token"
	"go/types"
	"strings"

	"golang.org/x/tools/go/ssa"

	"verif/checker/an"
)

func init() {
	register("C36", Prop{
		Pkgs: []string{"./bitswap/server/internal/decision"},
		Explain: "Decided (structural necessary conditions of 'the server sends only wanted, present, permitted data and bounds its queues'): " +
			"O1 overflow eviction order: the eviction candidates (the peer's existing wants) are scanned least-important first (comparator orientation x scan direction), the newcomers most-important first, and every CancelWant of a candidate is reached only where its block is absent or where the newcomer's priority is not below the candidate's; " +
			"O2 peerLedger's two maps stay inverses: whoever removes (p,k) from cids removes it from peers in the same function or every caller drops peers[p]; removals from peers[p] are coupled with the cids removal, insertions go to both maps, peers[p] itself is dropped only when empty or after its entries were removed from cids; " +
			"O3 envelope construction: AddBlock only gets non-nil blocks looked up in the getBlocks result under a CID that was queued with HaveBlock && IsWantBlock; AddHave only under HaveBlock && !IsWantBlock of the same task; AddDontHave only under !HaveBlock of the same task or where the block lookup missed and the task's SendDontHave is set; " +
			"O4 request filter: an entry is appended to the accepted wants only on the not-cancel edge, the not-identity-CID edge and the filter-unset/filter-true edge for that entry's CID; denied entries flow only into the DONT_HAVE task builder (whose tasks never claim HaveBlock); a task claims HaveBlock only where the CID was found in the block-size map obtained from the blockstore; " +
			"O5 every enqueue into the peer task queue is PushTasksTruncated(e.maxQueuedWantlistEntriesPerPeer, ...), never PushTasks; " +
			"O6 every peerLedger call of the engine runs with e.lock held in the required mode (writers: write lock; directly or at every call site of the unexported caller-holds helpers), and every CancelWant whose result is true is followed by peerRequestQueue.Remove of the same CID and peer; " +
			"O7 ledger bound: peerLedger.Wants inserts into peers[p] only where the peer map is new, the limit is 0, the map is below the limit, or the CID is already present. " +
			"O8 only accepted wants become tasks: the overflow filter keeps an entry only on the true edge of peerLedger.Wants for it and diverts it to the overflow list only on the false edge; every newcomer handleOverflow appends to the accepted wants was handed to peerLedger.Wants (same entry) after an eviction in the same step; where evicted candidate slots are recorded in an index list, the cursor of the priority phase is used only after it was compared with the head of that list (or the list is empty), and cursor and list advance together on the equal edge (so runs of adjacent evicted slots are all skipped). " +
			"O9 after-send bookkeeping: MessageSent cancels sent blocks with type Block and sent HAVEs (only HAVEs) with type Have, for the CID of that block/presence; CancelWantWithType never deletes a want-block on behalf of a sent HAVE. " +
			"O10 a full want-list replaces the recorded one: ClearPeerWantlist only on the m.Full() edge, and on that edge before any want of the message is recorded. " +
			"NOT decided: that every accepted want is eventually answered (liveness), task merging in the peer task queue, timing between goroutines, the values of priorities at run time.",
		Assume:    []string{"peerLedger fields are only touched from package decision (unexported)", "go-peertaskqueue honours PushTasksTruncated's bound", "blockstoreManager.getBlocks/getBlockSizes report exactly the locally present blocks"},
		Technique: "comparator orientation and index-direction classification (R-SIB/R-CMP), coupled map mutation with caller closure (R-PAIR), value provenance (R-FLOW), condition-edge dominance (R-DOM), callee identity (R-API), lock-state dataflow with caller-holds summaries (R-GUARD)",
		Run:       runC36,
	})
}

const (
	c36Dec = "bitswap/server/internal/decision"
	c36PTQ = "github.com/ipfs/go-peertaskqueue"
)

// c36Path is PathOf that also resolves loads of single-store local cells seen
// from closures (captured variables), so that `e` names the same object in a
// function and in the closures nested in it.
func c36Path(v ssa.Value) string {
	switch x := v.(type) {
	case *ssa.UnOp:
		if x.Op == token.MUL {
			if cell := an.CellOf(x.X); cell != nil {
				var only ssa.Value
				n := 0
				for _, r := range *cell.Referrers() {
					if st, ok := r.(*ssa.Store); ok && st.Addr == ssa.Value(cell) {
						only = st.Val
						n++
					}
				}
				if n == 1 {
					return c36Path(only)
				}
			}
			return c36Path(x.X)
		}
	case *ssa.FieldAddr:
		f, _ := an.FieldOf(x)
		return c36Path(x.X) + "." + f.Name()
	case *ssa.Field:
		f, _ := an.FieldOf(x)
		return c36Path(x.X) + "." + f.Name()
	case *ssa.FreeVar:
		if cell := an.CellOf(x); cell != nil {
			return an.PathOf(cell)
		}
	}
	return an.PathOf(v)
}

func c36LockModel(c ssa.CallInstruction) []an.LockOp {
	ci := an.Callee(c)
	if ci.Pkg != "sync" || (ci.Recv != "Mutex" && ci.Recv != "RWMutex") {
		return nil
	}
	r := an.Recv(c)
	if r == nil {
		return nil
	}
	p := c36Path(r)
	switch ci.Name {
	case "Lock":
		return []an.LockOp{{Path: p, Mode: an.LWrite, Acquire: true}}
	case "Unlock":
		return []an.LockOp{{Path: p, Mode: an.LWrite, Acquire: false}}
	case "RLock":
		return []an.LockOp{{Path: p, Mode: an.LRead, Acquire: true}}
	case "RUnlock":
		return []an.LockOp{{Path: p, Mode: an.LRead, Acquire: false}}
	}
	return nil
}

// c36FieldParam: v reads field <last> of (a field of ...) a parameter of fn,
// also when the by-value parameter was spilled into a local cell. Returns the
// parameter and the name of the innermost field read.
func c36FieldParam(v ssa.Value) (*ssa.Parameter, string) {
	last := ""
	cur := v
	for i := 0; i < 8; i++ {
		switch x := cur.(type) {
		case *ssa.UnOp:
			if x.Op != token.MUL {
				return nil, ""
			}
			cur = x.X
		case *ssa.FieldAddr:
			if last == "" {
				f, _ := an.FieldOf(x)
				last = f.Name()
			}
			cur = x.X
		case *ssa.Field:
			if last == "" {
				f, _ := an.FieldOf(x)
				last = f.Name()
			}
			cur = x.X
		case *ssa.Alloc:
			var only ssa.Value
			n := 0
			for _, r := range *x.Referrers() {
				if st, ok := r.(*ssa.Store); ok && st.Addr == ssa.Value(x) {
					only = st.Val
					n++
				}
			}
			if n != 1 {
				return nil, ""
			}
			cur = only
		case *ssa.Parameter:
			return x, last
		default:
			return nil, ""
		}
	}
	return nil, ""
}

// c36CmpOrientation: +1 ascending by Priority (cmp.Compare(a.P, b.P)), -1
// descending, 0 undecided.
func c36CmpOrientation(f *ssa.Function) int {
	if f == nil || len(f.Params) != 2 {
		return 0
	}
	res := 0
	for _, r := range an.Returns(f) {
		if len(r.Results) != 1 {
			return 0
		}
		call, ok := an.IsCallTo(r.Results[0], an.M("cmp", "", "Compare"))
		if !ok || len(call.Call.Args) != 2 {
			return 0
		}
		p0, f0 := c36FieldParam(call.Call.Args[0])
		p1, f1 := c36FieldParam(call.Call.Args[1])
		if p0 == nil || p1 == nil || f0 != "Priority" || f1 != "Priority" || p0 == p1 {
			return 0
		}
		o := 0
		if p0 == f.Params[0] && p1 == f.Params[1] {
			o = 1
		} else if p0 == f.Params[1] && p1 == f.Params[0] {
			o = -1
		}
		if o == 0 || (res != 0 && res != o) {
			return 0
		}
		res = o
	}
	return res
}

// c36IndexDir classifies an index expression: +1 moves forward (range index,
// counters that only grow, constant 0 on a slice that is re-sliced from the
// front), -1 backward, 0 undecided.
func c36IndexDir(idx ssa.Value) int {
	seen := map[ssa.Value]bool{}
	up, down, bad := false, false, false
	var walk func(v ssa.Value)
	walk = func(v ssa.Value) {
		if v == nil || seen[v] {
			return
		}
		seen[v] = true
		switch x := v.(type) {
		case *ssa.Const:
		case *ssa.Phi:
			for _, e := range x.Edges {
				walk(e)
			}
		case *ssa.BinOp:
			k, isK := an.ConstOf(x.Y)
			if !isK || k.Kind() != constant.Int {
				// mirrored index: len(s)-1-i or len(s)-i-1 with i growing
				if x.Op == token.SUB && c36LenLike(x.X) && c36IndexDir(x.Y) == 1 {
					down = true
					return
				}
				if x.Op == token.SUB {
					if inner, ok := x.X.(*ssa.BinOp); ok && inner.Op == token.SUB && c36LenLike(inner.X) {
						if _, isK2 := an.ConstOf(inner.Y); isK2 && c36IndexDir(x.Y) == 1 {
							down = true
							return
						}
					}
				}
				bad = true
				return
			}
			sign := constant.Sign(k)
			switch x.Op {
			case token.ADD:
				if sign > 0 {
					up = true
				} else if sign < 0 {
					down = true
				}
				walk(x.X)
			case token.SUB:
				if inner, ok := x.X.(*ssa.BinOp); ok && inner.Op == token.SUB && c36LenLike(inner.X) && c36IndexDir(inner.Y) == 1 {
					down = true // len(s)-i-1
					return
				}
				if sign > 0 && c36LenLike(x.X) {
					down = true // s[len(s)-1]: taken from the back
					return
				}
				if sign > 0 {
					down = true
				} else if sign < 0 {
					up = true
				}
				walk(x.X)
			default:
				bad = true
			}
		case *ssa.UnOp:
			if x.Op == token.MUL {
				if cell := an.CellOf(x.X); cell != nil {
					for _, r := range *cell.Referrers() {
						if st, ok := r.(*ssa.Store); ok && st.Addr == ssa.Value(cell) {
							walk(st.Val)
						}
					}
					return
				}
			}
			bad = true
		default:
			bad = true // len(x)-1-i, function results, ...
		}
	}
	walk(idx)
	switch {
	case bad || (up && down):
		return 0
	case down:
		return -1
	default:
		return 1 // constants only (index 0 of a popped slice) or growing counters
	}
}

// c36SameExpr: structural equality of pure index expressions (go/ssa does no CSE).
func c36SameExpr(a, b ssa.Value) bool {
	if a == b {
		return true
	}
	switch x := a.(type) {
	case *ssa.Const:
		y, ok := b.(*ssa.Const)
		return ok && x.Value != nil && y.Value != nil && constant.Compare(x.Value, token.EQL, y.Value)
	case *ssa.BinOp:
		y, ok := b.(*ssa.BinOp)
		return ok && x.Op == y.Op && c36SameExpr(x.X, y.X) && c36SameExpr(x.Y, y.Y)
	case *ssa.Call:
		y, ok := b.(*ssa.Call)
		if !ok {
			return false
		}
		bx, okx := x.Call.Value.(*ssa.Builtin)
		by, oky := y.Call.Value.(*ssa.Builtin)
		return okx && oky && bx.Name() == "len" && by.Name() == "len" && c36SameExpr(x.Call.Args[0], y.Call.Args[0])
	}
	return false
}

// c36LenLike: len(x), possibly minus a constant.
func c36LenLike(v ssa.Value) bool {
	if b, ok := v.(*ssa.BinOp); ok && b.Op == token.SUB {
		if _, isK := an.ConstOf(b.Y); isK {
			v = b.X
		}
	}
	call, ok := v.(*ssa.Call)
	if !ok {
		return false
	}
	bi, ok := call.Call.Value.(*ssa.Builtin)
	return ok && bi.Name() == "len"
}

// ---------------------------------------------------------------------------
// role-based resolution of the unexported parts of package decision

type c36Roles struct {
	ledgerT, bsmT, taskT                     *types.Named
	ledgerName, bsmName                      string
	fPeers, fCids, fMax                      *types.Var
	fLedger, fLock, fQ, fMaxQ, fFilter, fBsm *types.Var
	fHave, fIsWB, fSDH                       *types.Var
	nGetBlockSizes, nGetBlocks, nHasBlocks   string
}

var c36R *c36Roles

func (r *c36Roles) L(method string) an.Matcher { return an.M(c36Dec, r.ledgerName, method) }

func c36Resolve(p *an.Prog) *c36Roles {
	r := &c36Roles{}
	eng := p.Named(c36Dec, "Engine")
	if eng == nil {
		return r
	}
	local := func(t types.Type) *types.Named { // named struct type of package decision behind t / *t
		if pt, ok := t.(*types.Pointer); ok {
			t = pt.Elem()
		}
		n, ok := types.Unalias(t).(*types.Named)
		if !ok || n.Obj().Pkg() == nil || n.Obj().Pkg().Path() != an.Mod+"/"+c36Dec {
			return nil
		}
		if _, isStruct := n.Underlying().(*types.Struct); !isStruct {
			return nil
		}
		return n
	}
	isPeerID := func(t types.Type) bool { return an.TypeIs(t, "github.com/libp2p/go-libp2p/core/peer", "ID") }
	isCid := func(t types.Type) bool { return an.TypeIs(t, "github.com/ipfs/go-cid", "Cid") }
	est := eng.Underlying().(*types.Struct)
	var rw []*types.Var
	for i := 0; i < est.NumFields(); i++ {
		f := est.Field(i)
		t := f.Type()
		switch {
		case an.TypeIs(t, "sync", "RWMutex"):
			rw = append(rw, f)
		case an.TypeIs(t, c36PTQ, "PeerTaskQueue"):
			r.fQ = f
		case an.TypeIs(t, c36Dec, "PeerBlockRequestFilter"):
			r.fFilter = f
		}
		n := local(t)
		if n == nil {
			continue
		}
		st := n.Underlying().(*types.Struct)
		// the peer ledger: a struct with a map peer.ID -> map and a map cid.Cid -> map
		var fp, fc, fm *types.Var
		for j := 0; j < st.NumFields(); j++ {
			g := st.Field(j)
			if m, ok := g.Type().Underlying().(*types.Map); ok {
				if _, inner := m.Elem().Underlying().(*types.Map); inner {
					if isPeerID(m.Key()) {
						fp = g
					} else if isCid(m.Key()) {
						fc = g
					}
				}
			} else if b, ok := g.Type().Underlying().(*types.Basic); ok && b.Kind() == types.Int {
				fm = g
			}
		}
		if fp != nil && fc != nil {
			r.ledgerT, r.ledgerName, r.fLedger = n, n.Obj().Name(), f
			r.fPeers, r.fCids, r.fMax = fp, fc, fm
			continue
		}
		// the blockstore manager: methods returning (map[cid.Cid]Block, error), (map[cid.Cid]int, error), (map[cid.Cid]struct{}, error)
		for j := 0; j < n.NumMethods(); j++ {
			m := n.Method(j)
			res := m.Type().(*types.Signature).Results()
			if res.Len() != 2 || !an.IsErrorType(res.At(1).Type()) {
				continue
			}
			mp, ok := res.At(0).Type().Underlying().(*types.Map)
			if !ok || !isCid(mp.Key()) {
				continue
			}
			switch e := mp.Elem().Underlying().(type) {
			case *types.Interface:
				if an.TypeIs(mp.Elem(), "github.com/ipfs/go-block-format", "Block") {
					r.nGetBlocks = m.Name()
				}
			case *types.Basic:
				if e.Kind() == types.Int {
					r.nGetBlockSizes = m.Name()
				}
			case *types.Struct:
				if e.NumFields() == 0 {
					r.nHasBlocks = m.Name()
				}
			}
		}
		if r.nGetBlocks != "" && r.bsmT == nil {
			r.bsmT, r.bsmName, r.fBsm = n, n.Obj().Name(), f
		}
	}
	// the engine lock: the RWMutex (when several: the one taken by the exported MessageSent)
	if len(rw) == 1 {
		r.fLock = rw[0]
	} else if ms := p.Func(c36Dec, "Engine", "MessageSent"); ms != nil {
		for _, call := range an.AllCalls(ms) {
			if ci := an.Callee(call); ci.Pkg == "sync" && ci.Name == "Lock" {
				if f, _ := an.FieldOf(an.Recv(call)); f != nil {
					r.fLock = f
				}
			}
		}
	}
	// the queue bound: the Engine field set by the exported option WithMaxQueuedWantlistEntriesPerPeer
	if opt := p.Func(c36Dec, "", "WithMaxQueuedWantlistEntriesPerPeer"); opt != nil {
		for _, g := range an.WithClosures(opt) {
			an.Instrs(g, func(in ssa.Instruction) {
				if st, ok := in.(*ssa.Store); ok {
					if f, base := an.FieldOf(st.Addr); f != nil && an.TypeIs(base.Type(), c36Dec, "Engine") {
						r.fMaxQ = f
					}
				}
			})
		}
	}
	// the task payload: the struct type of the package with the three flags
	if pk := p.Pkg(c36Dec); pk != nil {
		for _, name := range pk.Types.Scope().Names() {
			tn, ok := pk.Types.Scope().Lookup(name).(*types.TypeName)
			if !ok {
				continue
			}
			n := local(tn.Type())
			if n == nil {
				continue
			}
			st := n.Underlying().(*types.Struct)
			var a, b, d *types.Var
			for j := 0; j < st.NumFields(); j++ {
				switch st.Field(j).Name() {
				case "HaveBlock":
					a = st.Field(j)
				case "IsWantBlock":
					b = st.Field(j)
				case "SendDontHave":
					d = st.Field(j)
				}
			}
			if a != nil && b != nil && d != nil {
				r.taskT, r.fHave, r.fIsWB, r.fSDH = n, a, b, d
			}
		}
	}
	return r
}

func runC36(c *an.Ctx) {
	p := c.P
	fns := p.PkgFuncs(c36Dec)
	if !c.Need(len(fns) > 0, "package bitswap/server/internal/decision") {
		return
	}
	R := c36Resolve(p)
	c36R = R
	fPeers, fCids, fMax := R.fPeers, R.fCids, R.fMax
	fLedger, fLock, fQ, fMaxQ, fFilter := R.fLedger, R.fLock, R.fQ, R.fMaxQ, R.fFilter
	fHave, fIsWB, fSDH := R.fHave, R.fIsWB, R.fSDH
	if !c.Need(fPeers != nil && fCids != nil && fMax != nil && fLedger != nil && fLock != nil && fQ != nil && fMaxQ != nil && fFilter != nil && fHave != nil && fIsWB != nil && fSDH != nil && R.nGetBlockSizes != "" && R.nGetBlocks != "" && R.nHasBlocks != "",
		"roles in package decision: peer ledger (maps peer->cids, cid->peers, int limit) and the Engine field holding it, Engine RWMutex, peer task queue, queue bound set by WithMaxQueuedWantlistEntriesPerPeer, request filter, task payload flags, blockstore manager lookups") {
		return
	}
	mGetBlockSizes, mGetBlocks, mHasBlocks := an.M(c36Dec, R.bsmName, R.nGetBlockSizes), an.M(c36Dec, R.bsmName, R.nGetBlocks), an.M(c36Dec, R.bsmName, R.nHasBlocks)
	foundVals := func(lk *ssa.Lookup) []ssa.Value {
		var out []ssa.Value
		if lk.CommaOk {
			for _, r := range *lk.Referrers() {
				if e, ok := r.(*ssa.Extract); ok && e.Index == 1 {
					out = append(out, e)
				}
			}
		}
		return out
	}

	// ================================================================ O1 eviction order (function-set based, see c36b.go)
	runC36Overflow(c, fns)

	// ================================================================ O2 dual maps
	runC36Ledger(c, fns, fPeers, fCids)

	// ================================================================ O7 ledger bound
	if wants := p.Func(c36Dec, R.ledgerName, "Wants"); c.Need(wants != nil, "peer ledger Wants") {
		n := 0
		an.Instrs(wants, func(in ssa.Instruction) {
			mu, ok := in.(*ssa.MapUpdate)
			if !ok {
				return
			}
			inner, key := c36Inner(mu.Map, fPeers)
			if inner == nil {
				return
			}
			_ = key
			n++
			edges := an.EdgeSet{}
			// peer map new: miss edge of the outer lookup
			var outerFound, innerFound []ssa.Value
			var lens []ssa.Value
			an.Instrs(wants, func(i2 ssa.Instruction) {
				switch x := i2.(type) {
				case *ssa.Lookup:
					if _, ok := c35LoadOfField(x.X, fPeers); ok {
						outerFound = append(outerFound, foundVals(x)...)
					} else if in2, _ := c36Inner(x.X, fPeers); in2 != nil && an.SameObj(x.Index, mu.Key) {
						innerFound = append(innerFound, foundVals(x)...)
					}
				case *ssa.Call:
					if bi, ok := x.Call.Value.(*ssa.Builtin); ok && bi.Name() == "len" {
						if in2, _ := c36Inner(x.Call.Args[0], fPeers); in2 != nil {
							lens = append(lens, x)
						}
					}
				}
			})
			edges = edges.Union(an.BoolEdges(wants, outerFound, false)).Union(an.BoolEdges(wants, innerFound, true))
			isLen := func(v ssa.Value) bool {
				for _, l := range lens {
					if l == v {
						return true
					}
				}
				return false
			}
			isMax := func(v ssa.Value) bool { _, ok := c35LoadOfField(v, fMax); return ok }
			isZero := func(v ssa.Value) bool {
				k, ok := an.ConstOf(v)
				return ok && k.Kind() == constant.Int && constant.Sign(k) == 0
			}
			roomClass := func(atom ssa.Value) (bool, bool) {
				b, ok := atom.(*ssa.BinOp)
				if !ok {
					return false, false
				}
				x, y, op := b.X, b.Y, b.Op
				if (isMax(x) && isLen(y)) || (isZero(x) && isMax(y)) {
					x, y = y, x
					switch op {
					case token.LSS:
						op = token.GTR
					case token.GTR:
						op = token.LSS
					case token.LEQ:
						op = token.GEQ
					case token.GEQ:
						op = token.LEQ
					}
				}
				switch {
				case isLen(x) && isMax(y): // room = len < max (len <= max is the invariant)
					switch op {
					case token.EQL, token.GEQ:
						return false, true
					case token.NEQ, token.LSS:
						return true, false
					}
				case isMax(x) && isZero(y): // unlimited = max == 0
					switch op {
					case token.EQL, token.LEQ:
						return true, false
					case token.NEQ, token.GTR:
						return false, true
					}
				}
				return false, false
			}
			edges = edges.Union(an.CondEdges(wants, roomClass))
			roomCut := func(v ssa.Value, outcome bool) bool { // the same facts for materialised conditions (atLimit := ...)
				onT, onF := roomClass(v)
				return (outcome && onT) || (!outcome && onF)
			}
			c.Check(an.GuardedByVal(wants, mu, edges, an.AnyCut(an.BoolIs(outerFound, false), an.BoolIs(innerFound, true), roomCut)), "O7", "R-CMP", an.FuncName(wants), "peers[p][k]=e<=new|unlimited|room|present", mu.Pos(),
				"the peer's want map grows only below the limit (or replaces an existing entry)",
				"peerLedger.Wants can insert a new CID into peers[p] on a path where the map already holds maxEntriesPerPeer entries: a peer's queued want-list exceeds the configured limit")
		})
		c.Min("O7 insertions into peers[p] in peerLedger.Wants", n, 1)
	}

	// ================================================================ O3 envelope construction
	runC36Envelope(c, fns, fHave, fIsWB, fSDH, mGetBlocks)

	// ================================================================ O4 filter / denials / HaveBlock
	runC36Intake(c, fns, fFilter, fHave, mGetBlockSizes, mHasBlocks)

	// ================================================================ O5 bounded enqueue
	{
		n := 0
		scope := fns
		if c.Tier == "thorough" {
			scope = p.Funcs
		}
		for _, fn := range scope {
			for _, call := range an.Calls(fn, an.M(c36PTQ, "PeerTaskQueue", "PushTasks")) {
				n++
				c.Bad("O5", "R-API", an.FuncName(fn), "PushTasks", call.Pos(), "tasks are enqueued with the unbounded PeerTaskQueue.PushTasks: a peer's queued tasks are not limited by MaxQueuedWantlistEntriesPerPeer")
			}
			if fn.Pkg == nil || fn.Pkg.Pkg.Path() != an.Mod+"/"+c36Dec {
				if fn.Parent() == nil || !strings.HasPrefix(an.FuncName(fn), c36Dec+".") {
					continue
				}
			}
			for _, call := range an.Calls(fn, an.M(c36PTQ, "PeerTaskQueue", "PushTasksTruncated")) {
				n++
				_, ok := c35LoadOfField(an.Args(call)[0], fMaxQ)
				c.Check(ok, "O5", "R-API", an.FuncName(fn), "PushTasksTruncated(maxQueuedWantlistEntriesPerPeer)", call.Pos(),
					"enqueue bounded by e.maxQueuedWantlistEntriesPerPeer",
					"PushTasksTruncated is called with a bound that is not e.maxQueuedWantlistEntriesPerPeer ("+an.PathOf(an.Args(call)[0])+"): the per-peer queue limit is not the configured one")
			}
		}
		c.Min("O5 enqueue sites", n, 2)
	}

	// ================================================================ O6 lock discipline
	runC36Locks(c, fns, fLedger, fLock, fQ)

	// ================================================================ O8/O9 (round 2)
	runC36Accept(c, fns, fLedger)
	runC36Sent(c, fns, fLedger, fPeers)
	runC36Full(c, fns, fLedger)
}

func c36Word(o int) string {
	if o > 0 {
		return "ascending"
	}
	return "descending"
}
func c36Dir(d int) string {
	if d > 0 {
		return "forward"
	}
	return "backward"
}

// c36Inner: v is an inner map of outer map field `outer` (l.peers[p] or
// l.cids[k]): a lookup result, or a fresh map that is stored into the outer map
// in the same function, or a phi of those. Returns a representative value and
// the outer key.
var c36InnerFns []*ssa.Function // functions of package decision (for helper parameters)

func c36Inner(v ssa.Value, outer *types.Var) (ssa.Value, ssa.Value) {
	return c36InnerD(v, outer, 0)
}

func c36InnerD(v ssa.Value, outer *types.Var, depth int) (ssa.Value, ssa.Value) {
	var key ssa.Value
	ok := true
	rs := an.Roots(v, nil)
	if len(rs) == 0 {
		return nil, nil
	}
	for _, r := range rs {
		var k ssa.Value
		switch x := r.(type) {
		case *ssa.Parameter:
			// inner map handed to an unexported helper: at every call site the argument is an
			// inner map whose outer key is itself passed as (the same) other argument
			g := x.Parent()
			if depth >= 2 || g.Parent() != nil {
				break
			}
			if o, isF := g.Object().(*types.Func); !isF || o.Exported() {
				break
			}
			pi := -1
			for i, q := range g.Params {
				if q == x {
					pi = i
				}
			}
			kj := -2
			for _, f := range c36InnerFns {
				for _, cs := range an.AllCalls(f) {
					if an.Callee(cs).Static != g || pi < 0 || pi >= len(cs.Common().Args) {
						continue
					}
					_, ck := c36InnerD(cs.Common().Args[pi], outer, depth+1)
					j := -1
					if ck != nil {
						for i, a := range cs.Common().Args {
							if i != pi && an.SameObj(a, ck) {
								j = i
							}
						}
					}
					if j < 0 || (kj != -2 && kj != j) {
						kj = -1
					} else if kj == -2 {
						kj = j
					}
				}
			}
			if kj >= 0 && kj < len(g.Params) {
				k = g.Params[kj]
			}
		case *ssa.Lookup:
			if _, isF := c35LoadOfField(x.X, outer); isF {
				k = x.Index
			}
		case *ssa.Extract:
			if lk, isL := x.Tuple.(*ssa.Lookup); isL && x.Index == 0 {
				if _, isF := c35LoadOfField(lk.X, outer); isF {
					k = lk.Index
				}
			}
		case *ssa.MakeMap:
			for _, ref := range *x.Referrers() {
				if mu, isMU := ref.(*ssa.MapUpdate); isMU && mu.Value == ssa.Value(x) {
					if _, isF := c35LoadOfField(mu.Map, outer); isF {
						k = mu.Key
					}
				}
			}
		}
		if k == nil {
			ok = false
			break
		}
		if key == nil {
			key = k
		} else if !an.SameObj(key, k) {
			ok = false
			break
		}
	}
	if !ok || key == nil {
		return nil, nil
	}
	return v, key
}

// ---------------------------------------------------------------- O2
type c36Removal struct {
	fn   *ssa.Function
	at   ssa.Instruction
	p, k ssa.Value
}

func runC36Ledger(c *an.Ctx, fns []*ssa.Function, fPeers, fCids *types.Var) {
	c36InnerFns = fns
	isBuiltin := func(call ssa.CallInstruction, name string) bool {
		bi, ok := call.Common().Value.(*ssa.Builtin)
		return ok && bi.Name() == name
	}
	paramIdx := func(fn *ssa.Function, v ssa.Value) int {
		for i, q := range fn.Params {
			if q == v {
				return i
			}
		}
		return -1
	}
	// direct removals from cids: delete(M', p) with M' = l.cids[k]
	var direct []c36Removal
	for _, fn := range fns {
		for _, call := range an.AllCalls(fn) {
			if !isBuiltin(call, "delete") {
				continue
			}
			a := call.Common().Args
			if in, k := c36Inner(a[0], fCids); in != nil {
				direct = append(direct, c36Removal{fn, call.(ssa.Instruction), a[1], k})
			}
		}
	}
	c.Min("O2 direct removals from cids[k]", len(direct), 1)
	// summaries: function -> (param index of p, param index of k) it removes from cids (directly or through a summarised callee)
	type sum struct{ pi, ki int }
	sums := map[*ssa.Function]sum{}
	for _, d := range direct {
		pi, ki := paramIdx(d.fn, d.p), paramIdx(d.fn, d.k)
		if pi >= 0 && ki >= 0 {
			sums[d.fn] = sum{pi, ki}
		}
	}
	// peers-side removal covering (p,k) in fn around instruction at
	peersRemoval := func(fn *ssa.Function, at ssa.Instruction, pv, kv ssa.Value) bool {
		var cover []ssa.Instruction
		for _, call := range an.AllCalls(fn) {
			a := call.Common().Args
			switch {
			case isBuiltin(call, "delete"):
				if in, pk := c36Inner(a[0], fPeers); in != nil && an.SameObj(pk, pv) && kv != nil && an.SameObj(a[1], kv) {
					cover = append(cover, call.(ssa.Instruction))
				}
				if _, ok := c35LoadOfField(a[0], fPeers); ok && an.SameObj(a[1], pv) {
					cover = append(cover, call.(ssa.Instruction))
				}
			case isBuiltin(call, "clear"):
				if in, pk := c36Inner(a[0], fPeers); in != nil && an.SameObj(pk, pv) {
					cover = append(cover, call.(ssa.Instruction))
				}
			}
		}
		return an.Around(fn, at, cover)
	}
	callersOf := func(f *ssa.Function) []ssa.CallInstruction {
		var out []ssa.CallInstruction
		scope := fns
		for _, g := range scope {
			for _, call := range an.AllCalls(g) {
				if an.Callee(call).Static == f {
					out = append(out, call)
				}
			}
		}
		return out
	}
	// R1: every removal from cids is matched on the peers side, here or in every caller
	var settle func(fn *ssa.Function, at ssa.Instruction, pv, kv ssa.Value, depth int) (bool, string)
	settle = func(fn *ssa.Function, at ssa.Instruction, pv, kv ssa.Value, depth int) (bool, string) {
		if peersRemoval(fn, at, pv, kv) {
			return true, ""
		}
		pi := paramIdx(fn, pv)
		if pi < 0 || depth > 3 {
			return false, an.FuncName(fn)
		}
		ki := -1
		if kv != nil {
			ki = paramIdx(fn, kv)
		}
		callers := callersOf(fn)
		if len(callers) == 0 {
			return false, an.FuncName(fn)
		}
		for _, cs := range callers {
			args := cs.Common().Args
			var k2 ssa.Value
			if ki >= 0 && ki < len(args) {
				k2 = args[ki]
			}
			if pi >= len(args) {
				return false, an.FuncName(fn)
			}
			if ok, where := settle(cs.Parent(), cs.(ssa.Instruction), args[pi], k2, depth+1); !ok {
				return false, where
			}
		}
		return true, ""
	}
	for _, d := range direct {
		ok, where := settle(d.fn, d.at, d.p, d.k, 0)
		cons := "cids[k]-delete(p)=>peers[p]-removal"
		if !ok {
			cons += "@" + where
		}
		c.Check(ok, "O2", "R-PAIR", an.FuncName(d.fn), cons, d.at.Pos(),
			"every path that removes (p,k) from cids also removes it from peers (here or in every caller)",
			"(p,k) is removed from peerLedger.cids but, via "+where+", not from peerLedger.peers[p] (no delete(peers[p],k), clear(peers[p]) or delete(peers,p) around the call): the two maps are no longer inverses, WantlistForPeer reports stale wants and the stale entries count against the peer's limit")
	}
	// R2: removals from peers[p] are coupled with the cids removal
	cidsRemoval := func(fn *ssa.Function, at ssa.Instruction, pv, kv ssa.Value, anyRangeKeyOf ssa.Value) bool {
		var cover []ssa.Instruction
		for _, call := range an.AllCalls(fn) {
			a := call.Common().Args
			matchK := func(k ssa.Value) bool {
				if kv != nil {
					return an.SameObj(k, kv)
				}
				// key of a range over the cleared map
				if e, ok := k.(*ssa.Extract); ok && e.Index == 1 {
					if nx, ok := e.Tuple.(*ssa.Next); ok {
						if rg, ok := nx.Iter.(*ssa.Range); ok {
							return rg.X == anyRangeKeyOf || an.SameObj(rg.X, anyRangeKeyOf)
						}
					}
				}
				return false
			}
			if isBuiltin(call, "delete") {
				if in, k := c36Inner(a[0], fCids); in != nil && an.SameObj(a[1], pv) && matchK(k) {
					cover = append(cover, call.(ssa.Instruction))
				}
				continue
			}
			if g := an.Callee(call).Static; g != nil {
				if s, ok := sums[g]; ok && s.pi < len(a) && s.ki < len(a) && an.SameObj(a[s.pi], pv) && matchK(a[s.ki]) {
					cover = append(cover, call.(ssa.Instruction))
				}
			}
		}
		if kv == nil {
			return len(cover) > 0 // loop body: executed for every key
		}
		return an.Around(fn, at, cover)
	}
	// functions that clear a peer entirely: F(p) with a cids removal of (p, range key of peers[p])
	clears := map[*ssa.Function]int{}
	for _, fn := range fns {
		for i, par := range fn.Params {
			var inner ssa.Value
			an.Instrs(fn, func(in ssa.Instruction) {
				if rg, ok := in.(*ssa.Range); ok {
					if iv, k := c36Inner(rg.X, fPeers); iv != nil && k == ssa.Value(par) {
						inner = rg.X
					}
				}
			})
			if inner != nil && len(fn.Blocks) > 0 && cidsRemoval(fn, fn.Blocks[0].Instrs[0], par, nil, inner) {
				clears[fn] = i
			}
		}
	}
	nR2 := 0
	for _, fn := range fns {
		name := an.FuncName(fn)
		for _, call := range an.AllCalls(fn) {
			a := call.Common().Args
			switch {
			case isBuiltin(call, "delete"):
				if in, pk := c36Inner(a[0], fPeers); in != nil {
					nR2++
					c.Check(cidsRemoval(fn, call.(ssa.Instruction), pk, a[1], nil), "O2", "R-PAIR", name, "delete(peers[p],k)=>cids-removal", call.Pos(),
						"removal from peers[p] coupled with removal of p from cids[k]",
						"k is deleted from peerLedger.peers[p] without removing p from peerLedger.cids[k] on every path: Peers(k) keeps reporting the peer and blocks are sent for a want that was cancelled")
				} else if _, ok := c35LoadOfField(a[0], fPeers); ok {
					nR2++
					// whole peer dropped: only when empty, or after the peer was cleared from cids
					var lens []ssa.Value
					for _, lc := range an.AllCalls(fn) {
						if isBuiltin(lc, "len") {
							if in, pk := c36Inner(lc.Common().Args[0], fPeers); in != nil && an.SameObj(pk, a[1]) {
								lens = append(lens, lc.(*ssa.Call))
							}
						}
					}
					empty := an.CondEdges(fn, func(atom ssa.Value) (bool, bool) {
						b, ok := atom.(*ssa.BinOp)
						if !ok {
							return false, false
						}
						isLen := func(v ssa.Value) bool {
							for _, l := range lens {
								if l == v {
									return true
								}
							}
							return false
						}
						k, isK := an.ConstOf(b.Y)
						if !isLen(b.X) || !isK || k.Kind() != constant.Int {
							return false, false
						}
						kv, _ := constant.Int64Val(k)
						switch {
						case kv == 0 && (b.Op == token.EQL || b.Op == token.LEQ), kv == 1 && b.Op == token.LSS:
							return true, false
						case kv == 0 && (b.Op == token.NEQ || b.Op == token.GTR), kv == 1 && b.Op == token.GEQ:
							return false, true
						}
						return false, false
					})
					ok1 := len(lens) > 0 && an.GuardedBy(fn, nil, call.(ssa.Instruction), empty)
					var clr []ssa.Instruction
					for _, cc := range an.AllCalls(fn) {
						if g := an.Callee(cc).Static; g != nil {
							if pi, ok := clears[g]; ok && pi < len(cc.Common().Args) && an.SameObj(cc.Common().Args[pi], a[1]) {
								clr = append(clr, cc.(ssa.Instruction))
							}
						}
					}
					ok2 := len(clr) > 0 && an.MustPrecede(fn, call.(ssa.Instruction), clr)
					c.Check(ok1 || ok2, "O2", "R-PAIR", name, "delete(peers,p)<=empty|cleared", call.Pos(),
						"a peer's map is dropped only when empty or after its CIDs were removed from cids",
						"peerLedger.peers[p] is dropped while it may still hold CIDs whose cids[k] entries keep p: blocks keep being scheduled for a peer that is gone")
				}
			case isBuiltin(call, "clear"):
				if in, pk := c36Inner(a[0], fPeers); in != nil {
					nR2++
					c.Check(cidsRemoval(fn, call.(ssa.Instruction), pk, nil, a[0]), "O2", "R-PAIR", name, "clear(peers[p])=>cids-removal-of-all", call.Pos(),
						"clearing peers[p] goes with removing p from cids[k] for every k of the map",
						"peerLedger.peers[p] is cleared without removing p from cids[k] for each of its CIDs: Peers(k) keeps reporting the peer")
				}
			}
		}
	}
	c.Min("O2 removals from peers", nR2, 4)
	// R3: insertions go to both maps
	nR3 := 0
	for _, fn := range fns {
		name := an.FuncName(fn)
		an.Instrs(fn, func(in ssa.Instruction) {
			mu, ok := in.(*ssa.MapUpdate)
			if !ok {
				return
			}
			if iv, pk := c36Inner(mu.Map, fPeers); iv != nil {
				nR3++
				var other []ssa.Instruction
				an.Instrs(fn, func(i2 ssa.Instruction) {
					if m2, ok := i2.(*ssa.MapUpdate); ok {
						if iv2, kk := c36Inner(m2.Map, fCids); iv2 != nil && an.SameObj(kk, mu.Key) && an.SameObj(m2.Key, pk) {
							other = append(other, m2)
						}
					}
				})
				ok, _ := an.MustFollow(fn, mu, other)
				c.Check(ok, "O2", "R-PAIR", name, "peers[p][k]=e=>cids[k][p]=e", mu.Pos(),
					"insertion into peers[p] is followed by the insertion into cids[k] on every path",
					"a want is recorded in peerLedger.peers[p] but not (on every path) in peerLedger.cids[k]: the peer is never served when the block arrives (Peers(k) misses it)")
			} else if iv, kk := c36Inner(mu.Map, fCids); iv != nil {
				nR3++
				var other []ssa.Instruction
				an.Instrs(fn, func(i2 ssa.Instruction) {
					if m2, ok := i2.(*ssa.MapUpdate); ok {
						if iv2, pk := c36Inner(m2.Map, fPeers); iv2 != nil && an.SameObj(pk, mu.Key) && an.SameObj(m2.Key, kk) {
							other = append(other, m2)
						}
					}
				})
				c.Check(an.MustPrecede(fn, mu, other), "O2", "R-PAIR", name, "cids[k][p]=e<=peers[p][k]=e", mu.Pos(),
					"insertion into cids[k] is preceded by the insertion into peers[p]",
					"a peer is recorded in peerLedger.cids[k] without the want being recorded in peerLedger.peers[p]: the want escapes the per-peer limit and cannot be cancelled")
			}
		})
	}
	c.Min("O2 insertions into the ledger maps", nR3, 2)
}

// ---------------------------------------------------------------- O3
func runC36Envelope(c *an.Ctx, fns []*ssa.Function, fHave, fIsWB, fSDH *types.Var, mGetBlocks an.Matcher) {
	mAddBlock := []an.Matcher{an.M(c34Msg, c34ImplName(c.P), "AddBlock"), an.M(c34Msg, "BitSwapMessage", "AddBlock")}
	mAddHave := []an.Matcher{an.M(c34Msg, c34ImplName(c.P), "AddHave"), an.M(c34Msg, "BitSwapMessage", "AddHave")}
	mAddDont := []an.Matcher{an.M(c34Msg, c34ImplName(c.P), "AddDontHave"), an.M(c34Msg, "BitSwapMessage", "AddDontHave")}
	// task of a topic value: c = t.Topic.(cid.Cid)
	taskOfTopic := func(v ssa.Value) ssa.Value {
		for _, r := range an.Roots(v, &an.FlowOpts{StopAt: func(x ssa.Value) bool { _, ok := x.(*ssa.TypeAssert); return ok }}) {
			ta, ok := r.(*ssa.TypeAssert)
			if !ok {
				return nil
			}
			u, ok := ta.X.(*ssa.UnOp)
			if !ok || u.Op != token.MUL {
				return nil
			}
			f, base := an.FieldOf(u.X)
			if f == nil || f.Name() != "Topic" {
				return nil
			}
			return base
		}
		return nil
	}
	taskOfData := func(td ssa.Value) ssa.Value {
		for _, r := range an.Roots(td, &an.FlowOpts{StopAt: func(x ssa.Value) bool { _, ok := x.(*ssa.TypeAssert); return ok }}) {
			ta, ok := r.(*ssa.TypeAssert)
			if !ok {
				return nil
			}
			u, ok := ta.X.(*ssa.UnOp)
			if !ok || u.Op != token.MUL {
				return nil
			}
			f, base := an.FieldOf(u.X)
			if f == nil || f.Name() != "Data" {
				return nil
			}
			return base
		}
		return nil
	}
	// loads of taskData field fld whose taskData belongs to task T
	flagOfTask := func(fn *ssa.Function, fld *types.Var, T ssa.Value) []ssa.Value {
		var out []ssa.Value
		for _, l := range an.FieldReads(fn, fld) {
			u, ok := l.(*ssa.UnOp)
			if !ok {
				continue
			}
			_, td := an.FieldOf(u.X)
			if t2 := taskOfData(td); t2 != nil && an.SameObj(t2, T) {
				out = append(out, l)
			}
		}
		return out
	}
	flagOfTD := func(fn *ssa.Function, fld *types.Var, td ssa.Value) []ssa.Value {
		var out []ssa.Value
		for _, l := range an.FieldReads(fn, fld) {
			if u, ok := l.(*ssa.UnOp); ok {
				if _, b := an.FieldOf(u.X); b == td {
					out = append(out, l)
				}
			}
		}
		return out
	}
	nextKV := func(v ssa.Value) (*ssa.Next, int) {
		if e, ok := v.(*ssa.Extract); ok {
			if nx, ok := e.Tuple.(*ssa.Next); ok && !nx.IsString {
				return nx, e.Index
			}
		}
		return nil, 0
	}
	fromGetBlocks := func(m ssa.Value) bool {
		rs := an.Roots(m, nil)
		if len(rs) == 0 {
			return false
		}
		for _, r := range rs {
			e, ok := r.(*ssa.Extract)
			if !ok || e.Index != 0 {
				return false
			}
			if _, ok := an.IsCallTo(r, mGetBlocks); !ok {
				return false
			}
		}
		return true
	}
	nB, nH, nD := 0, 0, 0
	for _, fn := range fns {
		name := an.FuncName(fn)
		for _, call := range an.Calls(fn, mAddBlock...) {
			nB++
			b := an.Args(call)[0]
			var lk *ssa.Lookup
			switch x := b.(type) {
			case *ssa.Lookup:
				lk = x
			case *ssa.Extract:
				lk, _ = x.Tuple.(*ssa.Lookup)
			}
			if lk == nil || !fromGetBlocks(lk.X) {
				c.Bad("O3", "R-FLOW", name, "AddBlock<=getBlocks[c]", call.Pos(), "a block is put into the envelope that was not looked up in the result of blockstoreManager.getBlocks ("+an.PathOf(b)+"): the server may send data that is not (any more) in its blockstore or was never requested")
				continue
			}
			okNil := an.GuardedBy(fn, nil, call.(ssa.Instruction), an.NilEdges(fn, []ssa.Value{b}, false))
			// key: key of a range over a task map filled under HaveBlock && IsWantBlock
			okKey, why := false, "the CID is not the key of the map of want-block tasks"
			if nx, idx := nextKV(lk.Index); nx != nil && idx == 1 {
				if rg, ok := nx.Iter.(*ssa.Range); ok {
					okKey = true
					nUp := 0
					// the map may have been built by a package-local helper that returns it
					type mapIn struct {
						g *ssa.Function
						m ssa.Value
					}
					origins := []mapIn{{fn, rg.X}}
					if e, isE := rg.X.(*ssa.Extract); isE {
						if hc, isC := e.Tuple.(*ssa.Call); isC {
							if g := an.Callee(hc).Static; g != nil && g.Blocks != nil && g.Pkg == fn.Pkg {
								origins = nil
								for _, ret := range an.Returns(g) {
									if e.Index < len(ret.Results) {
										for _, r := range an.Roots(ret.Results[e.Index], nil) {
											origins = append(origins, mapIn{g, r})
										}
									}
								}
							}
						}
					}
					for _, o := range origins {
						g := o.g
						an.Instrs(g, func(in ssa.Instruction) {
							mu, ok := in.(*ssa.MapUpdate)
							if !ok || mu.Map != o.m {
								return
							}
							nUp++
							T := taskOfTopic(mu.Key)
							if T == nil {
								okKey, why = false, "a CID that is not a popped task's topic is queued for a block"
								return
							}
							hv, wb := flagOfTask(g, fHave, T), flagOfTask(g, fIsWB, T)
							if len(hv) == 0 || len(wb) == 0 || !an.GuardedByVal(g, mu, an.BoolEdges(g, hv, true), an.BoolIs(hv, true)) || !an.GuardedByVal(g, mu, an.BoolEdges(g, wb, true), an.BoolIs(wb, true)) {
								okKey, why = false, "a CID is queued for a block without the task's HaveBlock && IsWantBlock being true"
							}
						})
					}
					if nUp == 0 {
						okKey, why = false, "the map of want-block tasks is never filled here"
					}
				}
			}
			c.Check(okNil, "O3", "R-DOM", name, "AddBlock<=blk!=nil", call.Pos(), "block added only where the lookup found it", "AddBlock is reachable where the looked-up block may be nil: a removed block produces a nil block in the envelope instead of DONT_HAVE")
			c.Check(okKey, "O3", "R-FLOW", name, "AddBlock<=HaveBlock&&IsWantBlock", call.Pos(), "blocks are sent only for tasks queued as want-block with the block present", "AddBlock: "+why+": a block is sent to a peer that only asked for HAVE, or for a want the server had no block for")
		}
		for _, call := range an.Calls(fn, mAddHave...) {
			if fn.Pkg == nil || fn.Pkg.Pkg.Path() != an.Mod+"/"+c36Dec {
				continue
			}
			nH++
			T := taskOfTopic(an.Args(call)[0])
			if T == nil {
				c.Problem("undecided: C36 O3 AddHave in %s is not given a popped task's topic", name)
				continue
			}
			hv, wb := flagOfTask(fn, fHave, T), flagOfTask(fn, fIsWB, T)
			ok := len(hv) > 0 && an.GuardedByVal(fn, call.(ssa.Instruction), an.BoolEdges(fn, hv, true), an.BoolIs(hv, true))
			c.Check(ok, "O3", "R-DOM", name, "AddHave<=HaveBlock", call.Pos(), "HAVE only for tasks whose block is present", "AddHave is reachable without the task's HaveBlock being true: the server announces HAVE for a block it does not have")
			ok2 := len(wb) > 0 && an.GuardedByVal(fn, call.(ssa.Instruction), an.BoolEdges(fn, wb, false), an.BoolIs(wb, false))
			c.Check(ok2, "O3", "R-DOM", name, "AddHave<=!IsWantBlock", call.Pos(), "HAVE only for tasks that are not want-block", "AddHave is reachable for a want-block task: the peer asked for the block and gets a HAVE instead")
		}
		for _, call := range an.Calls(fn, mAddDont...) {
			if fn.Pkg == nil || fn.Pkg.Pkg.Path() != an.Mod+"/"+c36Dec {
				continue
			}
			nD++
			k := an.Args(call)[0]
			if T := taskOfTopic(k); T != nil {
				hv := flagOfTask(fn, fHave, T)
				ok := len(hv) > 0 && an.GuardedByVal(fn, call.(ssa.Instruction), an.BoolEdges(fn, hv, false), an.BoolIs(hv, false))
				c.Check(ok, "O3", "R-DOM", name, "AddDontHave<=!HaveBlock", call.Pos(), "DONT_HAVE only for tasks whose block is absent", "AddDontHave is reachable with the task's HaveBlock true: the server denies having a block it has")
				continue
			}
			if nx, idx := nextKV(k); nx != nil && idx == 1 {
				// value of the same Next = the task data
				var td ssa.Value
				for _, r := range *nx.Referrers() {
					if e, ok := r.(*ssa.Extract); ok && e.Index == 2 {
						td = e
					}
				}
				var miss []ssa.Value
				an.Instrs(fn, func(in ssa.Instruction) {
					if lk, ok := in.(*ssa.Lookup); ok && fromGetBlocks(lk.X) && lk.Index == k {
						if lk.CommaOk {
							for _, r := range *lk.Referrers() {
								if e, ok := r.(*ssa.Extract); ok && e.Index == 0 {
									miss = append(miss, e)
								}
							}
						} else {
							miss = append(miss, lk)
						}
					}
				})
				ok := len(miss) > 0 && an.GuardedBy(fn, nil, call.(ssa.Instruction), an.NilEdges(fn, miss, true))
				ok2 := false
				if td != nil {
					sd := flagOfTD(fn, fSDH, td)
					ok2 = len(sd) > 0 && an.GuardedByVal(fn, call.(ssa.Instruction), an.BoolEdges(fn, sd, true), an.BoolIs(sd, true))
				}
				c.Check(ok, "O3", "R-DOM", name, "AddDontHave<=block-missing", call.Pos(), "DONT_HAVE only where the block lookup missed", "AddDontHave for a want-block task is reachable although the block was found: the server denies having a block it has")
				c.Check(ok2, "O3", "R-DOM", name, "AddDontHave<=SendDontHave", call.Pos(), "DONT_HAVE for a vanished block only when the peer asked for DONT_HAVE", "AddDontHave for a vanished block is sent although the task's SendDontHave is not set: the peer gets a DONT_HAVE it did not ask for")
				continue
			}
			c.Problem("undecided: C36 O3 AddDontHave in %s is given neither a task topic nor a key of the want-block task map", name)
		}
	}
	c.Min("O3 AddBlock sites", nB, 1)
	c.Min("O3 AddHave sites", nH, 1)
	c.Min("O3 AddDontHave sites", nD, 2)
}

// ---------------------------------------------------------------- O4
func runC36Intake(c *an.Ctx, fns []*ssa.Function, fFilter, fHave *types.Var, mGetBlockSizes, mHasBlocks an.Matcher) {
	p := c.P
	// IDENTITY multihash code
	var kIdentity constant.Value
	if mhp := p.SSA.ImportedPackage("github.com/multiformats/go-multihash"); mhp != nil {
		if k, ok := mhp.Pkg.Scope().Lookup("IDENTITY").(*types.Const); ok {
			kIdentity = k.Val()
		}
	}
	if !c.Need(kIdentity != nil, "go-multihash.IDENTITY") {
		return
	}
	fCancel := p.SSA.ImportedPackage(an.Mod + "/" + c34Msg)
	var cancelFld *types.Var
	if fCancel != nil {
		if tn, ok := fCancel.Pkg.Scope().Lookup("Entry").(*types.TypeName); ok {
			if st, ok := tn.Type().Underlying().(*types.Struct); ok {
				for i := 0; i < st.NumFields(); i++ {
					if st.Field(i).Name() == "Cancel" {
						cancelFld = st.Field(i)
					}
				}
			}
		}
	}
	if !c.Need(cancelFld != nil, "bitswap/message.Entry.Cancel") {
		return
	}
	// permission wrappers: unexported bool helpers (peer, cid) whose result is the filter's
	// answer, or true where no filter is installed
	wrappers := map[*ssa.Function]bool{}
	for _, g := range fns {
		if g.Parent() != nil || g.Signature.Results().Len() != 1 {
			continue
		}
		if b, ok := g.Signature.Results().At(0).Type().Underlying().(*types.Basic); !ok || b.Kind() != types.Bool {
			continue
		}
		var fcs, fls []ssa.Value
		for _, l := range an.FieldReads(g, fFilter) {
			fls = append(fls, l)
		}
		for _, call := range an.AllCalls(g) {
			if _, ok := c35LoadOfField(call.Common().Value, fFilter); ok {
				if cv := an.CallValue(call); cv != nil {
					fcs = append(fcs, cv)
				}
			}
		}
		if len(fcs) == 0 {
			continue
		}
		permit := an.NilEdges(g, fls, true).Union(an.BoolEdges(g, fcs, true))
		okW := true
		for _, r := range an.Returns(g) {
			for _, root := range an.Roots(r.Results[0], nil) {
				if k, isK := an.ConstOf(root); isK && k.Kind() == constant.Bool {
					if constant.BoolVal(k) {
						// true only where unset/permitted; through a phi the incoming edge is what matters,
						// so require it for plain constant returns only
						if _, plain := r.Results[0].(*ssa.Const); plain && !an.GuardedByVal(g, r, permit, an.BoolIs(fcs, true)) {
							okW = false
						}
					}
					continue
				}
				isFC := false
				for _, fc := range fcs {
					if fc == root {
						isFC = true
					}
				}
				if !isFC {
					okW = false
				}
			}
		}
		if okW {
			wrappers[g] = true
		} else {
			c.Bad("O4", "R-DOM", an.FuncName(g), "permission-helper=filter-answer", g.Pos(),
				"a bool helper consults peerBlockRequestFilter but does not return exactly the filter's answer (true where no filter is installed): callers that accept wants on its result serve denied CIDs or deny permitted ones")
		}
	}
	// the splitter: the function that consults the filter (directly or through a wrapper)
	nSplit := 0
	for _, fn := range fns {
		var filterCalls []ssa.Value
		var filterLoads []ssa.Value
		for _, l := range an.FieldReads(fn, fFilter) {
			filterLoads = append(filterLoads, l)
		}
		for _, call := range an.AllCalls(fn) {
			if _, ok := c35LoadOfField(call.Common().Value, fFilter); ok {
				if cv := an.CallValue(call); cv != nil {
					filterCalls = append(filterCalls, cv)
				}
			} else if g := an.Callee(call).Static; g != nil && wrappers[g] {
				if cv := an.CallValue(call); cv != nil {
					filterCalls = append(filterCalls, cv)
				}
			}
		}
		if len(filterCalls) == 0 || fn.Signature.Results().Len() < 3 {
			continue
		}
		name := an.FuncName(fn)
		// appends feeding result 0 (accepted wants)
		wantAppends := map[*ssa.Call]bool{}
		otherAppends := map[*ssa.Call]int{}
		var collect func(v ssa.Value, seen map[ssa.Value]bool, out func(*ssa.Call))
		collect = func(v ssa.Value, seen map[ssa.Value]bool, out func(*ssa.Call)) {
			if v == nil || seen[v] {
				return
			}
			seen[v] = true
			switch x := v.(type) {
			case *ssa.Phi:
				for _, e := range x.Edges {
					collect(e, seen, out)
				}
			case *ssa.Slice:
				collect(x.X, seen, out)
			case *ssa.Call:
				if bi, ok := x.Call.Value.(*ssa.Builtin); ok && bi.Name() == "append" {
					out(x)
					collect(x.Call.Args[0], seen, out)
				}
			case *ssa.UnOp:
				if x.Op == token.MUL {
					if cell := an.CellOf(x.X); cell != nil {
						for _, r := range *cell.Referrers() {
							if st, ok := r.(*ssa.Store); ok && st.Addr == ssa.Value(cell) {
								collect(st.Val, seen, out)
							}
						}
					}
				}
			}
		}
		for _, r := range an.Returns(fn) {
			for i, res := range r.Results {
				if i == 0 {
					collect(res, map[ssa.Value]bool{}, func(a *ssa.Call) { wantAppends[a] = true })
				} else {
					idx := i
					collect(res, map[ssa.Value]bool{}, func(a *ssa.Call) { otherAppends[a] = idx })
				}
			}
		}
		if len(wantAppends) == 0 {
			continue
		}
		nSplit++
		permit := an.NilEdges(fn, filterLoads, true).Union(an.BoolEdges(fn, filterCalls, true))
		for a := range wantAppends {
			// the appended entry (single element through varargs array)
			c.Check(an.GuardedByVal(fn, a, permit, an.BoolIs(filterCalls, true)), "O4", "R-DOM", name, "append(wants)<=filter-unset|filter-true", a.Pos(),
				"an entry is accepted only where the request filter is unset or returned true",
				"an entry can be appended to the accepted wants without the peerBlockRequestFilter having permitted it: denied CIDs are looked up and served")
			// not a cancel
			var cancels []ssa.Value
			for _, l := range an.FieldReads(fn, cancelFld) {
				cancels = append(cancels, l)
			}
			c.Check(len(cancels) > 0 && an.GuardedByVal(fn, a, an.BoolEdges(fn, cancels, false), an.BoolIs(cancels, false)), "O4", "R-DOM", name, "append(wants)<=!Cancel", a.Pos(),
				"cancel entries never become wants", "an entry can be appended to the accepted wants although its Cancel flag is set: a cancel is treated as a want and answered")
			// not an identity CID
			ident := an.CondEdges(fn, func(atom ssa.Value) (bool, bool) {
				b, ok := atom.(*ssa.BinOp)
				if !ok || (b.Op != token.EQL && b.Op != token.NEQ) {
					return false, false
				}
				isMh := func(v ssa.Value) bool {
					switch x := v.(type) {
					case *ssa.Field:
						f, _ := an.FieldOf(x)
						return f != nil && f.Name() == "MhType"
					case *ssa.UnOp:
						if x.Op == token.MUL {
							f, _ := an.FieldOf(x.X)
							return f != nil && f.Name() == "MhType"
						}
					}
					return false
				}
				isId := func(v ssa.Value) bool {
					k, ok := an.ConstOf(v)
					return ok && k.Kind() == constant.Int && constant.Compare(k, token.EQL, constant.ToInt(kIdentity))
				}
				if !((isMh(b.X) && isId(b.Y)) || (isMh(b.Y) && isId(b.X))) {
					return false, false
				}
				if b.Op == token.EQL {
					return false, true
				}
				return true, false
			})
			c.Check(an.GuardedBy(fn, nil, a, ident), "O4", "R-DOM", name, "append(wants)<=!identity", a.Pos(),
				"identity CIDs never become wants", "an entry can be appended to the accepted wants without the identity-multihash test having excluded it: identity CIDs enter the ledger and the task queue")
		}
		// the filter is asked about the entry's own CID and the sending peer
		for _, fc := range filterCalls {
			call := fc.(*ssa.Call)
			args := call.Call.Args
			if g := an.Callee(call).Static; g != nil && wrappers[g] && g.Signature.Recv() != nil && len(args) > 0 {
				args = args[1:]
			}
			okArgs := len(args) == 2
			if okArgs {
				_, isPar := args[0].(*ssa.Parameter)
				last, _ := an.LastComp(args[1])
				okArgs = isPar && last == "Cid"
			}
			c.Check(okArgs, "O4", "R-FLOW", name, "filter(p,entry.Cid)", call.Pos(), "the filter is asked about the requesting peer and the entry's CID",
				"peerBlockRequestFilter is not called with the requesting peer and the CID of the entry being classified: permission is decided for another CID/peer")
		}
	}
	c.Min("O4 want/cancel/denial splitters", nSplit, 1)

	// intake: the function(s) receiving the three lists
	nIn := 0
	for _, fn := range fns {
		for _, sp := range an.AllCalls(fn) {
			g := an.Callee(sp).Static
			if g == nil || !c36IsSplitter(g) {
				continue
			}
			nIn++
			name := an.FuncName(fn)
			denials := an.Result(sp, 2)
			// DONT_HAVE task builders: closures of the intake and package-local functions whose task
			// payload literals never claim HaveBlock
			dontHave := map[*ssa.Function]bool{}
			var cands []*ssa.Function
			cands = append(cands, fn.AnonFuncs...)
			for _, g := range fns {
				if g.Parent() == nil && g != fn {
					cands = append(cands, g)
				}
			}
			for _, a := range cands {
				claims := false
				lits := 0
				for _, h := range an.WithClosures(a) {
					for _, st := range an.FieldStores(h, fHave) {
						lits++
						if k, ok := an.ConstOf(st.Val); !ok || k.String() != "false" {
							claims = true
						}
					}
				}
				if lits > 0 && !claims {
					dontHave[a] = true
				}
			}
			// a DONT_HAVE task is built only where the entry asked for DONT_HAVE: a builder that tests
			// the entry's SendDontHave must do so on every way to the task literal
			for a := range dontHave {
				for _, h := range an.WithClosures(a) {
					var asks []ssa.Value
					tested := false
					an.Instrs(h, func(in ssa.Instruction) {
						var f *types.Var
						var v ssa.Value
						switch x := in.(type) {
						case *ssa.Field:
							f, _ = an.FieldOf(x)
							v = x
						case *ssa.UnOp:
							if x.Op == token.MUL {
								if fa, ok := x.X.(*ssa.FieldAddr); ok {
									f, _ = an.FieldOf(fa)
									v = x
								}
							}
						}
						if f == nil || f.Name() != "SendDontHave" || !an.TypeIs(f.Type(), "", "bool") && f.Type().String() != "bool" {
							return
						}
						if f.Pkg() == nil || !strings.HasSuffix(f.Pkg().Path(), c34Msg) {
							return
						}
						asks = append(asks, v)
						for _, r := range *v.Referrers() {
							if _, isIf := r.(*ssa.If); isIf {
								tested = true
							}
						}
					})
					if !tested {
						continue
					}
					for _, st := range an.FieldStores(h, fHave) {
						c.Check(an.GuardedByVal(h, st, an.BoolEdges(h, asks, true), an.BoolIs(asks, true)), "O4", "R-DOM", an.FuncName(fn), "DONT_HAVE-task<=entry.SendDontHave", st.Pos(),
							"a DONT_HAVE task is queued only for an entry that asked for DONT_HAVE",
							"the DONT_HAVE task builder tests the entry's SendDontHave flag but can reach the task literal with the flag false: a peer that did not ask for DONT_HAVE is sent one")
					}
				}
			}
			isEntry := func(t types.Type) bool {
				return an.TypeIs(t, c34Msg, "Entry") || an.TypeIs(t, "bitswap/client/wantlist", "Entry")
			}
			var bad []string
			seen := map[ssa.Value]bool{}
			var track func(v ssa.Value)
			track = func(v ssa.Value) {
				if v == nil || seen[v] {
					return
				}
				seen[v] = true
				refs := v.Referrers()
				if refs == nil {
					return
				}
				for _, r := range *refs {
					switch x := r.(type) {
					case *ssa.IndexAddr:
						if x.X == v {
							track(x)
						}
					case *ssa.UnOp:
						if x.Op == token.MUL && (isEntry(x.Type()) || strings.Contains(x.Type().String(), "Entry")) {
							track(x)
						}
					case *ssa.Slice, *ssa.Phi:
						track(x.(ssa.Value))
					case *ssa.FieldAddr:
						if pt, ok := x.Type().Underlying().(*types.Pointer); ok && isEntry(pt.Elem()) {
							track(x)
						}
					case *ssa.Store:
						if x.Val != v {
							continue
						}
						if cell, ok := x.Addr.(*ssa.Alloc); ok && isEntry(cell.Type().Underlying().(*types.Pointer).Elem()) {
							track(cell)
							continue
						}
						bad = append(bad, "stored into "+an.PathOf(x.Addr))
					case ssa.CallInstruction:
						cc := x.Common()
						if bi, ok := cc.Value.(*ssa.Builtin); ok && (bi.Name() == "len" || bi.Name() == "cap") {
							continue
						}
						if mc, ok := cc.Value.(*ssa.MakeClosure); ok {
							if f, ok := mc.Fn.(*ssa.Function); ok && dontHave[f] {
								continue
							}
						}
						if g := an.Callee(x).Static; g != nil && g.Blocks != nil && g.Pkg != nil && g.Pkg.Pkg.Path() == an.Mod+"/"+c36Dec {
							if dontHave[g] {
								continue
							}
							// handed on to a package-local helper: follow the value into its parameter
							followed := false
							for i, a := range cc.Args {
								if a == v && i < len(g.Params) {
									track(g.Params[i])
									followed = true
								}
							}
							if followed {
								continue
							}
						}
						bad = append(bad, "passed to "+an.Callee(x).String())
					}
				}
			}
			for _, d := range denials {
				track(d)
			}
			// cancel entries reach the ledger: the CID of an entry of the cancel list is handed to
			// peerLedger.CancelWant (directly or in a package-local helper that gets the list / entry / CID)
			{
				reached := false
				seenC := map[ssa.Value]bool{}
				var fwd func(v ssa.Value, depth int)
				fwd = func(v ssa.Value, depth int) {
					if v == nil || seenC[v] || reached || depth > 12 {
						return
					}
					seenC[v] = true
					refs := v.Referrers()
					if refs == nil {
						return
					}
					for _, r := range *refs {
						switch x := r.(type) {
						case *ssa.IndexAddr, *ssa.Field, *ssa.FieldAddr, *ssa.Slice, *ssa.Phi, *ssa.ChangeType:
							fwd(x.(ssa.Value), depth+1)
						case *ssa.UnOp:
							if x.Op == token.MUL {
								fwd(x, depth+1)
							}
						case *ssa.Store:
							if x.Val == v {
								if cell, ok := x.Addr.(*ssa.Alloc); ok {
									fwd(cell, depth+1)
								}
							}
						case ssa.CallInstruction:
							cc := x.Common()
							if c36R.L("CancelWant").Match(an.Callee(x)) {
								a := an.Args(x)
								if len(a) == 2 && a[1] == v {
									reached = true
								}
								continue
							}
							if g := an.Callee(x).Static; g != nil && g.Blocks != nil && g.Pkg == fn.Pkg {
								for i, a := range cc.Args {
									if a == v && i < len(g.Params) {
										fwd(g.Params[i], depth+1)
									}
								}
							}
						}
					}
				}
				cancelsRes := an.Result(sp, 1)
				for _, cv := range cancelsRes {
					fwd(cv, 0)
				}
				c.Check(len(cancelsRes) > 0 && reached, "O4", "R-FLOW", name, "cancels=>peerLedger.CancelWant", sp.Pos(),
					"the CID of every cancel entry is cancelled in the peer ledger",
					"the cancel entries of an incoming message never reach peerLedger.CancelWant: the ledger keeps a want the peer cancelled, and a block that arrives later is sent to a peer that no longer wants it")
			}
			c.Check(len(denials) > 0 && len(bad) == 0, "O4", "R-FLOW", name, "denials=>DONT_HAVE-only", sp.Pos(),
				"denied entries reach only the DONT_HAVE task builder",
				"entries rejected by the request filter flow elsewhere than into the DONT_HAVE task builder ("+strings.Join(bad, "; ")+"): a denied CID can be recorded as a want or answered with HAVE/block")
			// HaveBlock:true only under found (also in the helpers the intake is split into)
			for _, h := range c34Closure(fn) {
				if dontHave[h] {
					continue
				}
				for _, st := range an.FieldStores(h, fHave) {
					if k, ok := an.ConstOf(st.Val); ok && k.String() == "false" {
						continue
					}
					var found []ssa.Value
					an.Instrs(h, func(in ssa.Instruction) {
						lk, ok := in.(*ssa.Lookup)
						if !ok || !lk.CommaOk {
							return
						}
						seenSizes := false
						okSrc := (&c36Inter{fns: fns}).all(lk.X, func(r ssa.Value) bool {
							if _, isMM := r.(*ssa.MakeMap); isMM {
								return true
							}
							if k, isK := r.(*ssa.Const); isK && k.IsNil() {
								return true
							}
							if e, isE := r.(*ssa.Extract); isE && e.Index == 0 {
								if _, ok := an.IsCallTo(r, mGetBlockSizes, mHasBlocks); ok {
									seenSizes = true
									return true
								}
							}
							return false
						}, 0)
						if okSrc && seenSizes {
							for _, r := range *lk.Referrers() {
								if e, ok := r.(*ssa.Extract); ok && e.Index == 1 {
									found = append(found, e)
								}
							}
						}
					})
					isTrue := false
					if k, ok := an.ConstOf(st.Val); ok && k.String() == "true" {
						isTrue = true
					}
					c.Check(isTrue && len(found) > 0 && an.GuardedByVal(h, st, an.BoolEdges(h, found, true), an.BoolIs(found, true)), "O4", "R-DOM", an.FuncName(h), "HaveBlock=true<=blockSizes-found", st.Pos(),
						"a queued task claims HaveBlock only where the CID was found in the block-size map of the blockstore",
						"a task is queued with HaveBlock set on a path where the CID was not found in the map returned by getBlockSizes/hasBlocks: the server announces or sends blocks it does not have")
				}
			}
		}
	}
	c.Min("O4 intake functions (callers of splitWantsCancelsDenials)", nIn, 1)
}

// ---------------------------------------------------------------- O6
func runC36Locks(c *an.Ctx, fns []*ssa.Function, fLedger, fLock, fQ *types.Var) {
	writers := map[string]bool{"Wants": true, "CancelWant": true, "CancelWantWithType": true, "ClearPeerWantlist": true, "PeerDisconnected": true}
	facts := map[*ssa.Function]*an.LockFacts{}
	lf := func(fn *ssa.Function) *an.LockFacts {
		if facts[fn] == nil {
			facts[fn] = an.Locks(fn, c36LockModel, nil, true)
		}
		return facts[fn]
	}
	// held(fn, at, engine, mode): lock of `engine` held at `at`, directly or by every caller
	var held func(fn *ssa.Function, at ssa.Instruction, eng ssa.Value, mode, depth int) (bool, string)
	held = func(fn *ssa.Function, at ssa.Instruction, eng ssa.Value, mode, depth int) (bool, string) {
		if lf(fn).Held(at, c36Path(eng)+"."+fLock.Name()) >= mode {
			return true, ""
		}
		if depth > 3 {
			return false, an.FuncName(fn)
		}
		if fn.Parent() != nil {
			// closure: only when handed straight to a synchronous higher-order function of slices/sort
			par := fn.Parent()
			var site ssa.Instruction
			syncOnly := true
			an.Instrs(par, func(in ssa.Instruction) {
				mc, ok := in.(*ssa.MakeClosure)
				if !ok || mc.Fn != ssa.Value(fn) {
					return
				}
				for _, r := range *mc.Referrers() {
					call, ok := r.(*ssa.Call)
					if !ok {
						syncOnly = false
						continue
					}
					ci := an.Callee(call)
					if ci.Pkg != "slices" && ci.Pkg != "sort" {
						syncOnly = false
						continue
					}
					site = call
				}
			})
			if site == nil || !syncOnly {
				return false, an.FuncName(fn)
			}
			// engine object as seen from the parent
			var engPar ssa.Value = eng
			if u, ok := eng.(*ssa.UnOp); ok {
				if cell := an.CellOf(u.X); cell != nil {
					for _, r := range *cell.Referrers() {
						if st, ok := r.(*ssa.Store); ok && st.Addr == ssa.Value(cell) {
							engPar = st.Val
						}
					}
				}
			}
			return held(par, site, engPar, mode, depth+1)
		}
		if o, ok := fn.Object().(*types.Func); !ok || o.Exported() {
			return false, an.FuncName(fn)
		}
		// unexported method: every caller must hold the lock of the receiver it passes
		pi := -1
		for i, q := range fn.Params {
			if q == eng {
				pi = i
			}
		}
		if pi < 0 {
			return false, an.FuncName(fn)
		}
		n := 0
		for _, g := range fns {
			for _, call := range an.AllCalls(g) {
				if an.Callee(call).Static != fn {
					continue
				}
				if _, isGo := call.(*ssa.Go); isGo {
					return false, an.FuncName(g)
				}
				n++
				if ok, where := held(g, call.(ssa.Instruction), call.Common().Args[pi], mode, depth+1); !ok {
					return false, where
				}
			}
		}
		if n == 0 {
			return false, an.FuncName(fn)
		}
		return true, ""
	}
	nL := 0
	for _, fn := range fns {
		name := an.FuncName(fn)
		for _, call := range an.AllCalls(fn) {
			ci := an.Callee(call)
			if ci.Recv != c36R.ledgerName || ci.Pkg != an.Mod+"/"+c36Dec {
				continue
			}
			r := an.Recv(call)
			eng, ok := c35LoadOfField(r, fLedger)
			if !ok {
				continue // ledger-internal call or test helper
			}
			nL++
			mode := an.LRead
			modeName := "read"
			if writers[ci.Name] {
				mode, modeName = an.LWrite, "write"
			}
			okH, where := held(fn, call.(ssa.Instruction), eng, mode, 0)
			cons := "peerLedger." + ci.Name + "-under-e.lock(" + modeName + ")"
			c.Check(okH, "O6", "R-GUARD", name, cons, call.Pos(),
				"ledger access with e.lock held in "+modeName+" mode",
				"peerLedger."+ci.Name+" is called without e.lock held for "+modeName+" (reached through "+where+"): the ledger maps are mutated/read concurrently by MessageReceived, MessageSent and NotifyNewBlocks — wants are lost or the maps corrupt")
		}
	}
	c.Min("O6 peerLedger calls from the engine", nL, 12)
	// CancelWant true => peerRequestQueue.Remove(same cid, same peer)
	nC := 0
	for _, fn := range fns {
		name := an.FuncName(fn)
		for _, cw := range an.Calls(fn, c36R.L("CancelWant")) {
			if _, ok := c35LoadOfField(an.Recv(cw), fLedger); !ok {
				continue
			}
			nC++
			pv, kv := an.Args(cw)[0], an.Args(cw)[1]
			tv := []ssa.Value{an.CallValue(cw)}
			blocked := map[ssa.Instruction]bool{}
			for _, rm := range an.Calls(fn, an.M(c36PTQ, "PeerTaskQueue", "Remove")) {
				if _, ok := c35LoadOfField(an.Recv(rm), fQ); !ok {
					continue
				}
				a := an.Args(rm)
				topic := a[0]
				if mi, ok := topic.(*ssa.MakeInterface); ok {
					topic = mi.X
				}
				if an.SameObj(topic, kv) && an.SameObj(a[1], pv) {
					blocked[rm.(ssa.Instruction)] = true
				}
			}
			tested := false
			for _, u := range an.Uses(tv[0]) {
				if _, ok := u.(*ssa.If); ok {
					tested = true
				}
			}
			w := &an.Walk{Fn: fn, Cut: an.BoolEdges(fn, tv, false), Blocked: blocked, ValCut: an.BoolIs(tv, false)}
			ok := tested && len(blocked) > 0 && !w.ReachesReturn(cw.(ssa.Instruction))
			c.Check(ok, "O6", "R-POST", name, "CancelWant-true=>peerRequestQueue.Remove", cw.Pos(),
				"a cancelled want's queued task is removed for the same CID and peer",
				"after peerLedger.CancelWant(p,k) returned true a return is reachable without peerRequestQueue.Remove(k,p): the task stays queued and the block is sent for a want the peer cancelled (or that was evicted)")
		}
	}
	c.Min("O6 CancelWant calls from the engine", nC, 3)
}

// c36IsSplitter: the function that classifies the entries of a message: three entry lists and an error.
func c36IsSplitter(g *ssa.Function) bool {
	res := g.Signature.Results()
	if res.Len() != 4 || !an.IsErrorType(res.At(3).Type()) {
		return false
	}
	for i := 0; i < 3; i++ {
		sl, ok := res.At(i).Type().Underlying().(*types.Slice)
		if !ok || !an.TypeIs(sl.Elem(), c34Msg, "Entry") {
			return false
		}
	}
	return true
}
