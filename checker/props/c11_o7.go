package props

import (
	"go/token"
	"go/types"
	"strings"

	"golang.org/x/tools/go/ssa"

	"verif/checker/an"
)

// O7 — storage isolation of the link list. The coupled-invalidation rules (O1..O3) only see stores made
// through the node; they are sound only if nobody else holds the backing array of ProtoNode.links, and
// if a link added as "a copy" really is one. Three structural conditions:
//   (a) a store to the links field never installs a slice that aliases a caller's slice (a slice-typed
//       parameter) or the links field of ANOTHER node (different base object);
//   (b) no exported function or method of the package returns the links field's own slice;
//   (c) a single link appended to the links field by an exported method that receives a *format.Link
//       from its caller is freshly allocated in the package (the documented "adds a copy of a link"),
//       not the caller's pointer.
// Pointer sharing through whole-slice copies (SetLinks, Links, Copy) is by design and covered by O5.

type c11Origin struct {
	kind string // "fresh", "param", "field", "other"
	base string // for "field": canonical path of the node the field belongs to
	pos  token.Pos
}

func c11SliceOrigins(v ssa.Value, fLinks *types.Var, seen map[ssa.Value]bool) []c11Origin {
	if seen[v] {
		return nil
	}
	seen[v] = true
	switch x := v.(type) {
	case *ssa.Const:
		return []c11Origin{{kind: "fresh"}}
	case *ssa.MakeSlice:
		return []c11Origin{{kind: "fresh"}}
	case *ssa.Parameter:
		// a parameter of an unexported function is judged at its package call sites (caller-holds)
		fn := x.Parent()
		if fn != nil && fn.Object() != nil && !fn.Object().Exported() && c11Callers != nil {
			idx := -1
			for i, p := range fn.Params {
				if p == x {
					idx = i
				}
			}
			sites := c11Callers[fn]
			if idx >= 0 && len(sites) > 0 && len(seen) < 400 {
				var out []c11Origin
				for _, cs := range sites {
					args := cs.Common().Args
					if idx < len(args) {
						out = append(out, c11SliceOrigins(args[idx], fLinks, seen)...)
					}
				}
				return out
			}
			return []c11Origin{{kind: "other"}}
		}
		return []c11Origin{{kind: "param", base: x.Name(), pos: x.Pos()}}
	case *ssa.Slice:
		if _, isArr := x.X.Type().Underlying().(*types.Pointer); isArr {
			return []c11Origin{{kind: "fresh"}} // slice of a local array (variadic packing)
		}
		return c11SliceOrigins(x.X, fLinks, seen)
	case *ssa.ChangeType:
		return c11SliceOrigins(x.X, fLinks, seen)
	case *ssa.Phi:
		var out []c11Origin
		for _, e := range x.Edges {
			out = append(out, c11SliceOrigins(e, fLinks, seen)...)
		}
		return out
	case *ssa.Call:
		if b, ok := x.Call.Value.(*ssa.Builtin); ok && b.Name() == "append" && len(x.Call.Args) > 0 {
			// the result shares the backing array of the first argument (or is new)
			return c11SliceOrigins(x.Call.Args[0], fLinks, seen)
		}
		return []c11Origin{{kind: "other"}}
	case *ssa.UnOp:
		if x.Op == token.MUL {
			if f, base := an.FieldOf(x.X); f != nil {
				if f == fLinks {
					return []c11Origin{{kind: "field", base: an.PathOf(base), pos: x.Pos()}}
				}
				return []c11Origin{{kind: "other"}}
			}
			if al, ok := x.X.(*ssa.Alloc); ok {
				// a local cell: union over the values stored into it
				var out []c11Origin
				for _, r := range *al.Referrers() {
					if st, ok := r.(*ssa.Store); ok && st.Addr == al {
						out = append(out, c11SliceOrigins(st.Val, fLinks, seen)...)
					}
				}
				return out
			}
		}
	}
	return []c11Origin{{kind: "other"}}
}

// c11AppendedElems returns the single elements appended (non-spread) on the way to v.
func c11AppendedElems(v ssa.Value, seen map[ssa.Value]bool) []ssa.Value {
	if seen[v] {
		return nil
	}
	seen[v] = true
	var out []ssa.Value
	switch x := v.(type) {
	case *ssa.Phi:
		for _, e := range x.Edges {
			out = append(out, c11AppendedElems(e, seen)...)
		}
	case *ssa.Slice:
		out = append(out, c11AppendedElems(x.X, seen)...)
	case *ssa.Call:
		if b, ok := x.Call.Value.(*ssa.Builtin); ok && b.Name() == "append" && len(x.Call.Args) == 2 {
			out = append(out, c11AppendedElems(x.Call.Args[0], seen)...)
			// non-spread append: args[1] is a slice of a fresh local array whose cells are stored individually
			if sl, ok := x.Call.Args[1].(*ssa.Slice); ok {
				if al, ok := sl.X.(*ssa.Alloc); ok {
					for _, r := range *al.Referrers() {
						if ia, ok := r.(*ssa.IndexAddr); ok {
							for _, rr := range *ia.Referrers() {
								if st, ok := rr.(*ssa.Store); ok && st.Addr == ia {
									out = append(out, st.Val)
								}
							}
						}
					}
				}
			}
		}
	}
	return out
}

func c11IsLinkPtr(t types.Type) bool {
	p, ok := t.Underlying().(*types.Pointer)
	if !ok {
		return false
	}
	n, ok := types.Unalias(p.Elem()).(*types.Named)
	return ok && n.Obj().Name() == "Link" && n.Obj().Pkg() != nil && strings.HasSuffix(n.Obj().Pkg().Path(), "go-ipld-format")
}

// c11Callers maps a package function to its static call sites in the package (set by c11O7).
var c11Callers map[*ssa.Function][]ssa.CallInstruction

func c11O7(c *an.Ctx, fns []*ssa.Function, fLinks *types.Var) {
	nA, nB := 0, 0
	c11Callers = map[*ssa.Function][]ssa.CallInstruction{}
	for _, fn := range fns {
		for _, g := range an.WithClosures(fn) {
			for _, call := range an.AllCalls(g) {
				if callee := call.Common().StaticCallee(); callee != nil {
					c11Callers[callee] = append(c11Callers[callee], call)
				}
			}
		}
	}
	for _, fn := range fns {
		name := an.FuncName(fn)
		// (a) + (c): stores to the links field
		for _, st := range an.FieldStores(fn, fLinks) {
			_, base := an.FieldOf(st.Addr)
			nA++
			own := an.PathOf(base)
			bad := ""
			for _, o := range c11SliceOrigins(st.Val, fLinks, map[ssa.Value]bool{}) {
				switch {
				case o.kind == "param":
					bad = "the caller's slice (parameter " + o.base + ") is installed as the node's link list: the caller can change the node behind the cache"
				case o.kind == "field" && o.base != own:
					bad = "the link list of another node (" + o.base + ") is installed without a copy: sorting or editing one node changes the other behind its cached encoding"
				}
			}
			c.Check(bad == "", "O7", "R-OWN", name, "links-store<=own-backing-array", st.Pos(),
				"the slice stored to links is fresh, the node's own, or a package-made copy", bad)
			exported := fn.Object() != nil && fn.Object().Exported()
			if !exported {
				continue
			}
			for _, e := range c11AppendedElems(st.Val, map[ssa.Value]bool{}) {
				if !c11IsLinkPtr(e.Type()) {
					continue
				}
				if pr, ok := e.(*ssa.Parameter); ok {
					c.Bad("O7", "R-OWN", name, "appended-link<=copy", st.Pos(),
						"the caller's *Link (parameter "+pr.Name()+") is appended to the node's link list instead of a copy: a later change of that link by the caller alters the node behind its cached encoding and CID")
				} else {
					c.OK("O7", "R-OWN", name, "appended-link<=copy", st.Pos(), "the appended link is not the caller's pointer")
				}
			}
		}
		// (b): exported functions returning the field's own slice
		if fn.Object() == nil || !fn.Object().Exported() || fn.Signature.Results().Len() == 0 {
			continue
		}
		for _, r := range an.Returns(fn) {
			for _, rv := range r.Results {
				if !isLinkSlice(rv.Type()) {
					continue
				}
				nB++
				bad := ""
				for _, o := range c11SliceOrigins(rv, fLinks, map[ssa.Value]bool{}) {
					if o.kind == "field" {
						bad = "the node's own link slice (" + o.base + ".links) is handed to the caller: element stores through it bypass every invalidation"
					}
				}
				c.Check(bad == "", "O7", "R-OWN", name, "returned-links<=copy", r.Pos(),
					"the returned []*Link does not share the backing array of a node's links field", bad)
			}
		}
	}
	c.Min("O7 stores to ProtoNode.links", nA, 1)
	c.Min("O7 exported functions returning []*Link", nB, 1)
}
