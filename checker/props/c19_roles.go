package props

// Role-based resolution of the unexported identifiers of package mfs and
// peering used by C19, C20, C21 and C46. Exported API (File, Directory, Root,
// Republisher, FileDescriptor, Flags, FSNode, PeeringService, State*, Open,
// Close, Flush, Write, ...) is looked up by name; everything unexported is
// found by type and use and only its *current* name is handed to the rules.

import (
	"go/constant"
	"go/token"
	"go/types"
	"sort"
	"strings"

	"golang.org/x/tools/go/ssa"

	"verif/checker/an"
)

type c19Names struct {
	Problems []string
	// types
	Inode, Fd, Options, Child, Parent, State string
	// File
	FileNode, FileNodeLock, FileDescLock string
	// inode
	InName, InParent, InUnlinked string
	// Directory
	DirCache, DirUfs, DirLock string
	// descriptor
	FdFile, FdMod, FdFlags, FdMu, FdState string
	// state constants (exact values)
	KCreated, KFlushed, KDirty, KClosed string
	// the parent-interface method that takes the child struct
	UpMethod string
	// Root / Republisher
	RootRepub                                   string
	RpUpdate, RpImm, RpPub, RpCancel, RpStopped string
}

var c19NamesCache = map[*an.Prog]*c19Names{}

func c19StructOf(p *an.Prog, rel, name string) *types.Struct {
	n := p.Named(rel, name)
	if n == nil {
		return nil
	}
	st, _ := n.Underlying().(*types.Struct)
	return st
}

func c19FieldsWhere(st *types.Struct, pred func(f *types.Var) bool) []*types.Var {
	var out []*types.Var
	if st == nil {
		return nil
	}
	for i := 0; i < st.NumFields(); i++ {
		if pred(st.Field(i)) {
			out = append(out, st.Field(i))
		}
	}
	return out
}

func c19One(n *c19Names, what string, fs []*types.Var) string {
	if len(fs) != 1 {
		n.Problems = append(n.Problems, what)
		return ""
	}
	return fs[0].Name()
}

func c19IsChan(t types.Type, elem func(types.Type) bool) bool {
	ch, ok := t.Underlying().(*types.Chan)
	return ok && elem(ch.Elem())
}

func c19MfsNames(c *an.Ctx) *c19Names {
	p := c.P
	if n, ok := c19NamesCache[p]; ok {
		return n
	}
	const pk = "mfs"
	n := &c19Names{}
	c19NamesCache[p] = n
	pkg := p.Pkg(pk)
	if pkg == nil {
		n.Problems = append(n.Problems, "package mfs")
		return n
	}
	file, dir, root, rp := c19StructOf(p, pk, "File"), c19StructOf(p, pk, "Directory"), c19StructOf(p, pk, "Root"), c19StructOf(p, pk, "Republisher")
	if file == nil || dir == nil || root == nil || rp == nil {
		n.Problems = append(n.Problems, "exported types File, Directory, Root, Republisher")
		return n
	}
	isT := func(pkgPath, name string) func(f *types.Var) bool {
		return func(f *types.Var) bool { return an.TypeIs(f.Type(), pkgPath, name) && !isPtr(f.Type()) }
	}
	// ---- File
	n.FileNode = c19One(n, "File field of type ipld.Node", c19FieldsWhere(file, isT("github.com/ipfs/go-ipld-format", "Node")))
	rw := c19FieldsWhere(file, isT("sync", "RWMutex"))
	// the embedded inode
	var inodeT *types.Named
	for _, f := range c19FieldsWhere(file, func(f *types.Var) bool { return f.Embedded() }) {
		if nm, ok := f.Type().(*types.Named); ok {
			if _, isStruct := nm.Underlying().(*types.Struct); isStruct && nm.Obj().Pkg() == pkg.Types {
				inodeT = nm
			}
		}
	}
	if inodeT == nil {
		n.Problems = append(n.Problems, "struct embedded in File (inode)")
		return n
	}
	n.Inode = inodeT.Obj().Name()
	ist := inodeT.Underlying().(*types.Struct)
	n.InName = c19One(n, "inode field of type string", c19FieldsWhere(ist, func(f *types.Var) bool {
		b, ok := f.Type().(*types.Basic)
		return ok && b.Kind() == types.String
	}))
	n.InUnlinked = c19One(n, "inode field of type atomic.Bool", c19FieldsWhere(ist, isT("sync/atomic", "Bool")))
	// parent: field whose type is an interface declared in this package
	var parentT *types.Named
	for _, f := range c19FieldsWhere(ist, func(f *types.Var) bool {
		nm, ok := f.Type().(*types.Named)
		return ok && types.IsInterface(nm) && nm.Obj().Pkg() == pkg.Types
	}) {
		n.InParent = f.Name()
		parentT = f.Type().(*types.Named)
	}
	if parentT == nil {
		n.Problems = append(n.Problems, "inode field of a package-local interface type (parent)")
		return n
	}
	n.Parent = parentT.Obj().Name()
	pit := parentT.Underlying().(*types.Interface)
	for i := 0; i < pit.NumMethods(); i++ {
		m := pit.Method(i)
		sg := m.Type().(*types.Signature)
		if sg.Params().Len() == 1 {
			if cn, ok := sg.Params().At(0).Type().(*types.Named); ok {
				if _, isStruct := cn.Underlying().(*types.Struct); isStruct {
					n.UpMethod, n.Child = m.Name(), cn.Obj().Name()
				}
			}
		}
	}
	if n.UpMethod == "" {
		n.Problems = append(n.Problems, "method of the parent interface taking the child struct (updateChildEntry)")
	}
	// ---- Directory
	n.DirCache = c19One(n, "Directory field of type map[string]FSNode", c19FieldsWhere(dir, func(f *types.Var) bool {
		m, ok := f.Type().Underlying().(*types.Map)
		return ok && an.TypeIs(m.Elem(), pk, "FSNode")
	}))
	n.DirUfs = c19One(n, "Directory field of type uio.Directory", c19FieldsWhere(dir, isT(c19uio, "Directory")))
	n.DirLock = c19One(n, "Directory field of type sync.Mutex", c19FieldsWhere(dir, isT("sync", "Mutex")))
	// ---- descriptor type: the struct whose pointer implements FileDescriptor
	fdI := p.Named(pk, "FileDescriptor")
	var fdT *types.Named
	if fdI != nil {
		sc := pkg.Types.Scope()
		for _, nm := range sc.Names() {
			tn, ok := sc.Lookup(nm).(*types.TypeName)
			if !ok {
				continue
			}
			t, ok := tn.Type().(*types.Named)
			if !ok || types.IsInterface(t) {
				continue
			}
			if _, isStruct := t.Underlying().(*types.Struct); isStruct && types.Implements(types.NewPointer(t), fdI.Underlying().(*types.Interface)) {
				fdT = t
			}
		}
	}
	if fdT == nil {
		n.Problems = append(n.Problems, "struct type implementing FileDescriptor")
		return n
	}
	n.Fd = fdT.Obj().Name()
	fst := fdT.Underlying().(*types.Struct)
	n.FdFile = c19One(n, "descriptor field of type *File", c19FieldsWhere(fst, func(f *types.Var) bool { return isPtr(f.Type()) && an.TypeIs(f.Type(), pk, "File") }))
	n.FdMod = c19One(n, "descriptor field of type *mod.DagModifier", c19FieldsWhere(fst, func(f *types.Var) bool { return an.TypeIs(f.Type(), "ipld/unixfs/mod", "DagModifier") }))
	n.FdFlags = c19One(n, "descriptor field of type Flags", c19FieldsWhere(fst, isT(pk, "Flags")))
	n.FdMu = c19One(n, "descriptor field of type sync.Mutex", c19FieldsWhere(fst, isT("sync", "Mutex")))
	var stateT *types.Named
	for _, f := range c19FieldsWhere(fst, func(f *types.Var) bool {
		nm, ok := f.Type().(*types.Named)
		if !ok || nm.Obj().Pkg() != pkg.Types {
			return false
		}
		b, ok := nm.Underlying().(*types.Basic)
		return ok && b.Info()&types.IsInteger != 0
	}) {
		n.FdState = f.Name()
		stateT = f.Type().(*types.Named)
	}
	if stateT == nil {
		n.Problems = append(n.Problems, "descriptor field of a package-local integer type (state)")
		return n
	}
	n.State = stateT.Obj().Name()
	// ---- the two RWMutexes of File. The descriptor lock is the one that is
	// handed over to the descriptor: released by a method of the descriptor
	// type (Close). The role must not depend on the mode Open takes it in —
	// that is what O4 polices. Fallback: the one Open acquires and does not
	// release in its own body.
	if len(rw) == 2 {
		isRW := func(f *types.Var) bool { return f == rw[0] || f == rw[1] }
		lockField := func(call ssa.CallInstruction) *types.Var {
			ci := an.Callee(call)
			if ci.Pkg != "sync" || ci.Recv != "RWMutex" {
				return nil
			}
			if fa, ok := an.Recv(call).(*ssa.FieldAddr); ok {
				if ff, _ := an.FieldOf(fa); isRW(ff) {
					return ff
				}
			}
			return nil
		}
		for _, m := range p.Methods(pk, n.Fd) {
			acq, rel := map[*types.Var]bool{}, map[*types.Var]bool{}
			for _, call := range an.AllCalls(m) {
				if f := lockField(call); f != nil {
					switch an.Callee(call).Name {
					case "Lock", "RLock":
						acq[f] = true
					default:
						rel[f] = true
					}
				}
			}
			// released here without being taken here: taken by Open, handed over
			for f := range rel {
				if !acq[f] {
					n.FileDescLock = f.Name()
				}
			}
		}
		if n.FileDescLock == "" {
			if open := p.Func(pk, "File", "Open"); open != nil {
				acq, rel := map[*types.Var]bool{}, map[*types.Var]bool{}
				for _, call := range an.AllCalls(open) {
					if f := lockField(call); f != nil {
						switch an.Callee(call).Name {
						case "Lock", "RLock":
							acq[f] = true
						default:
							rel[f] = true
						}
					}
				}
				for f := range acq {
					if !rel[f] {
						n.FileDescLock = f.Name()
					}
				}
			}
		}
		for _, f := range rw {
			if n.FileDescLock != "" && f.Name() != n.FileDescLock {
				n.FileNodeLock = f.Name()
			}
		}
	}
	if n.FileDescLock == "" || n.FileNodeLock == "" {
		n.Problems = append(n.Problems, "the two sync.RWMutex fields of File (descriptor lock = released by the descriptor's methods, the other = node lock)")
	}
	// ---- state constants by role
	stateF := p.Field(pk, n.Fd, n.FdState)
	storedIn := func(method string, exclude map[string]bool) string {
		fn := p.Func(pk, n.Fd, method)
		if fn == nil || stateF == nil {
			return ""
		}
		found := ""
		for _, g := range an.IPClosure(fn) {
			for _, st := range an.FieldStores(g, stateF) {
				if k, ok := an.ConstOf(st.Val); ok && !exclude[k.ExactString()] {
					found = k.ExactString()
				}
			}
		}
		return found
	}
	// dirty: the constant the mutating methods store (majority over Write,
	// WriteAt, Truncate: one of them losing the store must be reported by O5,
	// not lose the role)
	votes := map[string]int{}
	for _, m := range []string{"Write", "WriteAt", "Truncate"} {
		if k := storedIn(m, nil); k != "" {
			votes[k]++
		}
	}
	for k, v := range votes {
		if v > votes[n.KDirty] || n.KDirty == "" {
			n.KDirty = k
		}
	}
	// Close stores "closed" itself; the flush routine it calls stores "flushed"
	if cl := p.Func(pk, n.Fd, "Close"); cl != nil && stateF != nil {
		for _, st := range an.FieldStores(cl, stateF) {
			if k, ok := an.ConstOf(st.Val); ok {
				n.KClosed = k.ExactString()
			}
		}
		if n.KClosed == "" {
			// stored through a helper: the constant Close also compares against
			an.Instrs(cl, func(in ssa.Instruction) {
				if b, ok := in.(*ssa.BinOp); ok && (b.Op == token.EQL || b.Op == token.NEQ) {
					if k, ok := an.ConstOf(b.Y); ok && types.Identical(b.Y.Type(), stateT) {
						n.KClosed = k.ExactString()
					}
				}
			})
		}
	}
	n.KFlushed = storedIn("Flush", map[string]bool{n.KDirty: true, n.KClosed: true})
	// created: the remaining declared constant of the state type
	sc := pkg.Types.Scope()
	for _, nm := range sc.Names() {
		if k, ok := sc.Lookup(nm).(*types.Const); ok && types.Identical(k.Type(), stateT) {
			v := constant.ToInt(k.Val()).ExactString()
			if v != n.KDirty && v != n.KClosed && v != n.KFlushed {
				n.KCreated = v
			}
		}
	}
	if n.KDirty == "" || n.KClosed == "" || n.KFlushed == "" {
		n.Problems = append(n.Problems, "descriptor state constants (dirty = stored by Write, closed = stored/tested by Close, flushed = stored on the Flush path)")
	}
	// ---- Root / Republisher
	n.RootRepub = c19One(n, "Root field of type *Republisher", c19FieldsWhere(root, func(f *types.Var) bool { return an.TypeIs(f.Type(), pk, "Republisher") }))
	isCid := func(t types.Type) bool { return an.TypeIs(t, "github.com/ipfs/go-cid", "Cid") }
	isEmpty := func(t types.Type) bool {
		st, ok := t.Underlying().(*types.Struct)
		return ok && st.NumFields() == 0
	}
	n.RpUpdate = c19One(n, "Republisher field of type chan cid.Cid", c19FieldsWhere(rp, func(f *types.Var) bool { return c19IsChan(f.Type(), isCid) }))
	n.RpImm = c19One(n, "Republisher field of type chan chan struct{}", c19FieldsWhere(rp, func(f *types.Var) bool {
		return c19IsChan(f.Type(), func(t types.Type) bool { return c19IsChan(t, isEmpty) })
	}))
	n.RpStopped = c19One(n, "Republisher field of type chan struct{}", c19FieldsWhere(rp, func(f *types.Var) bool { return c19IsChan(f.Type(), isEmpty) }))
	n.RpPub = c19One(n, "Republisher field of type PubFunc", c19FieldsWhere(rp, isT(pk, "PubFunc")))
	n.RpCancel = c19One(n, "Republisher field of type func()", c19FieldsWhere(rp, func(f *types.Var) bool {
		sg, ok := f.Type().(*types.Signature)
		return ok && sg.Params().Len() == 0 && sg.Results().Len() == 0
	}))
	// options: the parameter struct of the exported Option func type
	if opt := p.Named(pk, "Option"); opt != nil {
		if sg, ok := opt.Underlying().(*types.Signature); ok && sg.Params().Len() == 1 {
			t := sg.Params().At(0).Type()
			if pt, ok := t.(*types.Pointer); ok {
				t = pt.Elem()
			}
			if nm, ok := t.(*types.Named); ok {
				n.Options = nm.Obj().Name()
			}
		}
	}
	if n.Options == "" {
		n.Problems = append(n.Problems, "parameter struct of type Option (options)")
	}
	sort.Strings(n.Problems)
	return n
}

func isPtr(t types.Type) bool { _, ok := t.(*types.Pointer); return ok }

// c19NeedNames reports unresolved roles as checker problems.
func c19NeedNames(c *an.Ctx, n *c19Names) bool {
	if len(n.Problems) > 0 {
		c.Need(false, "mfs roles: "+strings.Join(n.Problems, "; "))
		return false
	}
	return true
}

// ---------------------------------------------------------------- peering

type c46Names struct {
	Problems                                   []string
	Handler, Notifee                           string
	HMu, HTimer, HDelay, HAddrs, HCtx, HCancel string
	SMu, SPeers, SState                        string
}

var c46NamesCache = map[*an.Prog]*c46Names{}

func c46PeeringNames(c *an.Ctx) *c46Names {
	p := c.P
	if n, ok := c46NamesCache[p]; ok {
		return n
	}
	const pk = "peering"
	n := &c46Names{}
	c46NamesCache[p] = n
	pkg := p.Pkg(pk)
	svc := c19StructOf(p, pk, "PeeringService")
	if pkg == nil || svc == nil {
		n.Problems = append(n.Problems, "peering.PeeringService")
		return n
	}
	one := func(what string, fs []*types.Var) string {
		if len(fs) != 1 {
			n.Problems = append(n.Problems, what)
			return ""
		}
		return fs[0].Name()
	}
	isT := func(pkgPath, name string) func(f *types.Var) bool {
		return func(f *types.Var) bool { return an.TypeIs(f.Type(), pkgPath, name) }
	}
	n.SMu = one("PeeringService field of type sync.RWMutex", c19FieldsWhere(svc, isT("sync", "RWMutex")))
	n.SState = one("PeeringService field of type State", c19FieldsWhere(svc, isT(pk, "State")))
	var hT *types.Named
	for _, f := range c19FieldsWhere(svc, func(f *types.Var) bool {
		m, ok := f.Type().Underlying().(*types.Map)
		return ok && an.TypeIs(m.Key(), "github.com/libp2p/go-libp2p/core/peer", "ID")
	}) {
		n.SPeers = f.Name()
		el := f.Type().Underlying().(*types.Map).Elem()
		if pt, ok := el.(*types.Pointer); ok {
			el = pt.Elem()
		}
		hT, _ = el.(*types.Named)
	}
	if hT == nil {
		n.Problems = append(n.Problems, "PeeringService field map[peer.ID]*handler")
		return n
	}
	n.Handler = hT.Obj().Name()
	hst, _ := hT.Underlying().(*types.Struct)
	n.HMu = one("handler field of type sync.Mutex", c19FieldsWhere(hst, isT("sync", "Mutex")))
	n.HTimer = one("handler field of type *time.Timer", c19FieldsWhere(hst, isT("time", "Timer")))
	n.HDelay = one("handler field of type time.Duration", c19FieldsWhere(hst, isT("time", "Duration")))
	n.HCtx = one("handler field of type context.Context", c19FieldsWhere(hst, isT("context", "Context")))
	n.HCancel = one("handler field of type context.CancelFunc", c19FieldsWhere(hst, isT("context", "CancelFunc")))
	n.HAddrs = one("handler field of type []multiaddr.Multiaddr", c19FieldsWhere(hst, func(f *types.Var) bool {
		s, ok := f.Type().Underlying().(*types.Slice)
		return ok && an.TypeIs(s.Elem(), "github.com/multiformats/go-multiaddr", "Multiaddr")
	}))
	// the notifee: named type with the service's struct as underlying type
	sc := pkg.Types.Scope()
	for _, nm := range sc.Names() {
		if tn, ok := sc.Lookup(nm).(*types.TypeName); ok && tn.Name() != "PeeringService" {
			if t, ok := tn.Type().(*types.Named); ok && types.Identical(t.Underlying(), p.Named(pk, "PeeringService").Underlying()) {
				n.Notifee = tn.Name()
			}
		}
	}
	if n.Notifee == "" {
		n.Problems = append(n.Problems, "notifee type (defined type over PeeringService)")
	}
	return n
}

// ---------------------------------------------------------------- obligation key names

var (
	c20KeyProg  *an.Prog
	c20KeyCache = map[*ssa.Function]string{}
)

func c20IsAPI(fn *ssa.Function) bool {
	o, ok := fn.Object().(*types.Func)
	if !ok || o == nil || !o.Exported() {
		return false
	}
	if r := fn.Signature.Recv(); r != nil {
		t := r.Type()
		if pt, ok := t.(*types.Pointer); ok {
			t = pt.Elem()
		}
		if nm, ok := t.(*types.Named); ok && !nm.Obj().Exported() {
			return false
		}
	}
	return true
}

// c20KeyName is the function part of obligation keys. Exported API keeps its
// name. A method of an unexported type that implements an exported interface
// of the package is named after the interface. Any other unexported function
// is named after the exported entry points through which it is reached
// ("mfs.Directory.SetMode+mfs.Directory.SetModTime-path"), so that renaming
// it does not change the key. Fallback: the function's own name.
func c20KeyName(fn *ssa.Function) string {
	if fn == nil {
		return "<nil>"
	}
	if k, ok := c20KeyCache[fn]; ok {
		return k
	}
	c20KeyCache[fn] = an.FuncName(fn) // recursion guard
	k := c20KeyNameUncached(fn)
	c20KeyCache[fn] = k
	return k
}

// c20EntryName: fn is an entry point of the package: exported API, or an
// exported method of an unexported type that implements an exported interface
// of the package (named after the interface).
func c20EntryName(fn *ssa.Function) (string, bool) {
	if fn.Parent() != nil || fn.Pkg == nil {
		return "", false
	}
	if c20IsAPI(fn) {
		return an.FuncName(fn), true
	}
	rel := strings.TrimPrefix(strings.TrimPrefix(fn.Pkg.Pkg.Path(), an.Mod), "/")
	if o, ok := fn.Object().(*types.Func); ok && o.Exported() && fn.Signature.Recv() != nil {
		rt := fn.Signature.Recv().Type()
		sc := fn.Pkg.Pkg.Scope()
		for _, nm := range sc.Names() {
			tn, ok := sc.Lookup(nm).(*types.TypeName)
			if !ok || !tn.Exported() {
				continue
			}
			it, ok := tn.Type().Underlying().(*types.Interface)
			if !ok || !types.Implements(rt, it) {
				continue
			}
			for i := 0; i < it.NumMethods(); i++ {
				if it.Method(i).Name() == o.Name() {
					return rel + "." + tn.Name() + "(impl)." + o.Name(), true
				}
			}
		}
	}
	return "", false
}

func c20KeyNameUncached(fn *ssa.Function) string {
	if fn.Parent() != nil {
		return c20KeyName(fn.Parent()) + "$" + strings.TrimPrefix(fn.Name(), fn.Parent().Name()+"$")
	}
	if fn.Pkg == nil {
		return an.FuncName(fn)
	}
	if n, ok := c20EntryName(fn); ok {
		return n
	}
	if c20KeyProg == nil {
		return an.FuncName(fn)
	}
	rel := strings.TrimPrefix(strings.TrimPrefix(fn.Pkg.Pkg.Path(), an.Mod), "/")
	funcs := c20KeyProg.PkgFuncs(rel)
	seen := map[*ssa.Function]bool{fn: true}
	entries := map[string]bool{}
	work := []*ssa.Function{fn}
	for len(work) > 0 && len(seen) < 200 {
		f := work[0]
		work = work[1:]
		sites, _ := an.IPCallSites(funcs, f)
		for _, s := range sites {
			g := s.Parent()
			for g.Parent() != nil {
				g = g.Parent()
			}
			if seen[g] {
				continue
			}
			seen[g] = true
			if n, ok := c20EntryName(g); ok {
				entries[n] = true
			} else {
				work = append(work, g)
			}
		}
	}
	if len(entries) == 0 || len(entries) > 4 {
		return an.FuncName(fn)
	}
	var es []string
	for e := range entries {
		es = append(es, e)
	}
	sort.Strings(es)
	return strings.Join(es, "+") + "-path"
}
