package props

import (
	"fmt"
	"go/constant"
	"go/token"
	"go/types"
	"sort"
	"strings"

	"golang.org/x/tools/go/ssa"

	"verif/checker/an"
)

func init() {
	register("C38", Prop{
		Pkgs: []string{"./tar", "./files"},
		Explain: "Decided (structural necessary conditions of 'tar extraction never touches anything outside the target'): " +
			"O1 (R-TAINT) every filesystem-mutating use of a path in package tar (os.* path positions, files.Update*, package-local helpers whose parameter reaches one, stores into a path field that is later acted on) takes a path whose archive-derived parts are the result of Extractor.outputPath on its nil-error edge — and that call gets a trusted base, a name made relative by getRelativePath (nil edge) from the very header.Name that passed validateTarPath (nil edge) — or, for the root entry, a header name joined only where strings.Contains(name, \"/\") was false and validatePathComponent(name) returned nil; " +
			"O2 (R-TAINT, stale paths) every call that changes metadata through a symlink-following API (os.Chmod/Chown/Chtimes or a files.* function reaching one) acts on a path that is known not to be a symlink at that moment: it is on the nil edge of the extractor's own creation of that very path (temp file renamed into place, or MkdirAll + Lstat/IsDir check), or it is guarded by os.Lstat(same path) == nil && IsDir(); " +
			"O3 final paths are never created through symlink-following create/open APIs (os.Create/OpenFile(write)/WriteFile); every function that MkdirAll's a path returns success only after Lstat(path).IsDir(); regular files reach their final name only by os.Rename from os.CreateTemp; " +
			"O4 in outputPath every step from one path component to the next crosses validatePathComponent == nil, os.Lstat(joined path) == nil and IsDir(), and Lstat is skipped only where the component index equals len(components)-1; " +
			"O5 validateTarPath and validatePathComponent cannot return nil for a component equal to \"..\" (validateTarPath also \"\", \".\", leading '/'). " +
			"NOT decided: races with other processes changing the tree during extraction, hard links (unsupported entry types are rejected by the default case — not checked), Windows path rules (sanitize_windows.go is not part of the analysed build), the content of symlink targets (deliberately unrestricted).",
		Assume: []string{
			"os.Lstat does not follow the final path component; os.Rename/os.Remove/os.Symlink/os.MkdirAll act on the final component itself; os.Chmod/os.Chtimes/os.Chown/os.Create/os.OpenFile/os.WriteFile follow a symlink at the final component",
			"files.UpdateModTime uses utimensat(AT_SYMLINK_NOFOLLOW) on the analysed platform (linux build tags)",
			"no other process modifies the target tree during extraction",
		},
		Technique: "parameter-to-sink summaries over packages tar+files (R-TAINT), nil-edge and boolean-edge guards on the CFG (R-DOM), comparison-edge normalisation (R-CMP), forbidden callee identity (R-API), constant reachability (R-CONST)",
		Run:       runC38,
	})
}

// os functions: path argument positions that are acted on, and whether the
// call follows a symlink at the final path component.
var c38OSSinks = map[string]struct {
	pos    []int
	follow bool
	create bool
}{
	"Mkdir": {[]int{0}, false, false}, "MkdirAll": {[]int{0}, false, false}, "Remove": {[]int{0}, false, false},
	"RemoveAll": {[]int{0}, false, false}, "Symlink": {[]int{1}, false, false}, "Link": {[]int{1}, false, false},
	"Rename": {[]int{0, 1}, false, false}, "CreateTemp": {[]int{0}, false, false}, "MkdirTemp": {[]int{0}, false, false},
	"Lchown": {[]int{0}, false, false},
	"Chmod":  {[]int{0}, true, false}, "Chown": {[]int{0}, true, false}, "Chtimes": {[]int{0}, true, false}, "Truncate": {[]int{0}, true, false},
	"Create": {[]int{0}, true, true}, "OpenFile": {[]int{0}, true, true}, "WriteFile": {[]int{0}, true, true},
}

type c38Use struct {
	fn     *ssa.Function
	at     ssa.Instruction // the call or store
	val    ssa.Value       // the path value
	follow bool            // symlink-following metadata change
	create bool            // symlink-following create/open
	what   string
}

type c38State struct {
	c        *an.Ctx
	universe []*ssa.Function
	inU      map[*ssa.Function]bool
	sink     map[*ssa.Function]map[int]bool // string params reaching a mutating path position
	follow   map[*ssa.Function]map[int]bool // ... reaching a symlink-following metadata change
	pathFlds map[*types.Var]bool            // struct fields of package tar whose loads reach a sink
}

func (s *c38State) posOf(call ssa.CallInstruction) (pos []int, follow map[int]bool, create bool, what string) {
	ci := an.Callee(call)
	follow = map[int]bool{}
	if ci.Pkg == "os" && ci.Recv == "" {
		if t, ok := c38OSSinks[ci.Name]; ok {
			if ci.Name == "OpenFile" {
				if as := an.Args(call); len(as) > 1 {
					if k, ok := an.ConstOf(as[1]); ok {
						if fl, exact := constant.Int64Val(k); exact && fl&(0x1|0x2|0x40|0x200|0x400) == 0 {
							return nil, follow, false, ""
						}
					}
				}
			}
			for _, p := range t.pos {
				if t.follow && !t.create {
					follow[p] = true
				}
			}
			return t.pos, follow, t.create, "os." + ci.Name
		}
		return nil, follow, false, ""
	}
	if g := ci.Static; g != nil && s.inU[g] {
		var ps []int
		for i := range s.sink[g] {
			ps = append(ps, i)
		}
		sort.Ints(ps)
		for i := range s.follow[g] {
			follow[i] = true
		}
		// role label, not the (unexported) helper's name: the os/files calls it reaches
		what := ci.String()
		if !token.IsExported(ci.Name) {
			what = "helper[" + strings.Join(s.reachNames(g, map[*ssa.Function]bool{}), ",") + "]"
		}
		return ps, follow, false, what
	}
	return nil, follow, false, ""
}

// reachNames: the os / exported calls with a path position that g reaches
// (through helpers of the analysed packages), sorted: a stable description of
// what a helper does to the path.
func (s *c38State) reachNames(g *ssa.Function, seen map[*ssa.Function]bool) []string {
	if seen[g] {
		return nil
	}
	seen[g] = true
	set := map[string]bool{}
	for _, call := range an.AllCalls(g) {
		ci := an.Callee(call)
		if ci.Pkg == "os" && ci.Recv == "" {
			if _, ok := c38OSSinks[ci.Name]; ok {
				set["os."+ci.Name] = true
			}
			continue
		}
		if h := ci.Static; h != nil && s.inU[h] && len(s.sink[h]) > 0 {
			if token.IsExported(ci.Name) {
				set[ci.String()] = true
			} else {
				for _, n := range s.reachNames(h, seen) {
					set[n] = true
				}
			}
		}
	}
	an.Instrs(g, func(in ssa.Instruction) {
		if st, ok := in.(*ssa.Store); ok {
			if fl, _ := an.FieldOf(st.Addr); fl != nil && s.pathFlds[fl] {
				set["store-path-field"] = true
			}
		}
	})
	var out []string
	for n := range set {
		out = append(out, n)
	}
	sort.Strings(out)
	return out
}

// uses lists the mutating path uses of one function.
func (s *c38State) uses(f *ssa.Function) []c38Use {
	var out []c38Use
	for _, call := range an.AllCalls(f) {
		pos, follow, create, what := s.posOf(call)
		args := an.Args(call)
		for _, i := range pos {
			if i < len(args) && an.IsString(args[i].Type()) {
				out = append(out, c38Use{f, call, args[i], follow[i], create, what})
			}
		}
	}
	an.Instrs(f, func(in ssa.Instruction) {
		if st, ok := in.(*ssa.Store); ok {
			if fl, _ := an.FieldOf(st.Addr); fl != nil && s.pathFlds[fl] && an.IsString(st.Val.Type()) {
				out = append(out, c38Use{f, st, st.Val, false, false, "store-to-path-field"})
			}
		}
	})
	return out
}

func c38ParamOf(f *ssa.Function, v ssa.Value) (int, bool) {
	p, ok := v.(*ssa.Parameter)
	if !ok {
		return 0, false
	}
	// parameter of f or of an enclosing function (reached through a captured cell)
	for g := f; g != nil; g = g.Parent() {
		if p.Parent() == g {
			return an.ParamIndex(g, p), g == f
		}
	}
	return 0, false
}

func runC38(c *an.Ctx) {
	p := c.P
	const tp = "tar"
	tarFns := p.PkgFuncs(tp)
	filesFns := p.PkgFuncs("files")
	if !c.Need(len(tarFns) > 0 && len(filesFns) > 0, "packages tar and files") {
		return
	}
	c38Resolve(p)
	fSan, fRel, fVal, fComp := c38Roles["outputPath"], c38Roles["getRelativePath"], c38Roles["validateTarPath"], c38Roles["validatePathComponent"]
	if !c.Need(fSan != nil && fRel != nil && fVal != nil && fComp != nil, "tar.Extractor.outputPath, getRelativePath, validateTarPath, validatePathComponent") {
		return
	}
	s := &c38State{c: c, inU: map[*ssa.Function]bool{}, sink: map[*ssa.Function]map[int]bool{}, follow: map[*ssa.Function]map[int]bool{}, pathFlds: map[*types.Var]bool{}}
	s.universe = append(append([]*ssa.Function{}, tarFns...), filesFns...)
	for _, f := range s.universe {
		s.inU[f] = true
		s.sink[f] = map[int]bool{}
		s.follow[f] = map[int]bool{}
	}
	tarPkg := p.Pkg(tp).Types
	// fixpoint of the parameter summaries and of the path fields
	for changed, iter := true, 0; changed && iter < 12; iter++ {
		changed = false
		for _, f := range s.universe {
			for _, u := range s.uses(f) {
				for _, l := range an.Deps(u.val, nil) {
					if i, own := c38ParamOf(f, l); own && i >= 0 {
						if !s.sink[f][i] {
							s.sink[f][i] = true
							changed = true
						}
						// a symlink-following use that the helper justifies itself
						// (it created that very path just before) is not the
						// caller's concern
						if u.follow && !s.follow[f][i] {
							if ok, _ := c38NotSymlinkHere(s, f, u); !ok {
								s.follow[f][i] = true
								changed = true
							}
						}
					}
					if fl, _ := an.LoadedField(l); fl != nil && fl.Pkg() == tarPkg && an.IsString(fl.Type()) && !s.pathFlds[fl] {
						s.pathFlds[fl] = true
						changed = true
					}
				}
			}
		}
	}
	// fields that are never assigned inside the package are configuration
	// given by the caller of the API (Extractor.Path)
	storedFld := map[*types.Var]bool{}
	for _, f := range tarFns {
		an.Instrs(f, func(in ssa.Instruction) {
			if st, ok := in.(*ssa.Store); ok {
				if fl, _ := an.FieldOf(st.Addr); fl != nil && s.pathFlds[fl] {
					storedFld[fl] = true
				}
			}
		})
	}

	// sanitizers: outputPath, and package-local wrappers that return (string,
	// error) and whose successful string result is an outputPath result taken
	// on its nil-error edge (so that extracting the validate/relativise/resolve
	// sequence into a helper keeps the rule applicable)
	sanitizers := map[*ssa.Function]bool{fSan: true}
	sanCall := func(v ssa.Value) *ssa.Call {
		if e, ok := v.(*ssa.Extract); ok {
			v = e.Tuple
		}
		call, ok := v.(*ssa.Call)
		if !ok {
			return nil
		}
		if g := an.Callee(call).Static; g != nil && sanitizers[g] {
			return call
		}
		return nil
	}
	isSanResult := func(v ssa.Value) bool { return sanCall(v) != nil }
	for _, g := range tarFns {
		res := g.Signature.Results()
		if g == fSan || res.Len() != 2 || !an.IsString(res.At(0).Type()) || !an.IsErrorType(res.At(1).Type()) {
			continue
		}
		errSites := an.ResultSites(g, 1)
		strSites := an.ResultSites(g, 0)
		ok, n := true, 0
		for _, es := range errSites {
			if !an.IsNilConst(es.Val) {
				// `return te.outputPath(...)`: both results of one sanitizer
				// call are forwarded; any other non-nil error makes the string
				// irrelevant (callers only use it on the nil edge)
				if ex, isEx := es.Val.(*ssa.Extract); isEx && sanCall(ex) != nil {
					for _, ss := range strSites {
						if ss.Ret == es.Ret {
							sx, isSx := ss.Val.(*ssa.Extract)
							if isSx && sx.Tuple == ex.Tuple && sx.Index == 0 {
								n++
							} else if _, isConst := ss.Val.(*ssa.Const); !isConst {
								// (`return "", err` with the sanitizer's error is the plain error path)
								ok = false
							}
						}
					}
				}
				continue
			}
			for _, ss := range strSites {
				if ss.Ret != es.Ret {
					continue
				}
				for _, l := range an.Deps(ss.Val, &an.DepOpts{Stop: isSanResult}) {
					if _, isConst := l.(*ssa.Const); isConst {
						continue
					}
					n++
					sc := sanCall(l)
					if sc == nil || sc.Parent() != g || !an.OnNilEdgeOf(g, sc, ss.At) {
						ok = false
					}
				}
			}
		}
		if ok && n > 0 {
			sanitizers[g] = true
		}
	}
	isHeaderStr := func(v ssa.Value) bool {
		fl, _ := an.LoadedField(v)
		return fl != nil && fl.Pkg() != nil && fl.Pkg().Path() == "archive/tar" && an.IsString(fl.Type())
	}

	// ---- O1 / O2 / O3a over every mutating path use in package tar
	nO1san, nO1root, nO2, nUses := 0, 0, 0, 0
	// the argument chain of every outputPath call
	nChain := 0
	for _, f := range tarFns {
		for _, sc := range an.LocalCallers([]*ssa.Function{f}, fSan) {
			if cv := an.CallValue(sc); cv != nil {
				nChain++
				c38Chain(c, f, cv, fRel, fVal)
			}
		}
	}
	c.Min("O1 calls of outputPath", nChain, 1)
	for _, f := range tarFns {
		name := an.FuncName(f)
		for _, u := range s.uses(f) {
			nUses++
			leaves := an.Deps(u.val, &an.DepOpts{Stop: isSanResult})
			onlyParams := true
			archive := false
			for _, l := range leaves {
				if _, isConst := l.(*ssa.Const); isConst {
					continue
				}
				if _, isPar := l.(*ssa.Parameter); isPar {
					continue
				}
				onlyParams = false
				switch {
				case isSanResult(l):
					archive = true
					nO1san++
					sc := sanCall(l)
					c.Check(sc.Parent() == f && an.OnNilEdgeOf(f, sc, u.at), "O1", "R-TAINT", name, u.what+"<=outputPath-ok", u.at.Pos(),
						"archive-derived path used only on the nil-error edge of outputPath",
						"a path returned by outputPath reaches "+u.what+" without its error having been tested nil: an entry whose path traverses a symlink or contains '..' would be acted on")
				case isHeaderStr(l):
					archive = true
					nO1root++
					c38RootGuard(c, f, u, l, fComp)
				}
			}
			// O3a: symlink-following creation of a final path
			if u.create {
				c.Bad("O3", "R-API", name, u.what+"-on-extraction-path", u.at.Pos(),
					u.what+" opens the final path through a symlink if one is there (an earlier entry can plant it): the file content is written outside the target; create a temp file in the parent and os.Rename it instead")
				continue
			}
			// O2: symlink-following metadata change
			if u.follow && onlyParams {
				// inside a helper: discharged here when the helper itself
				// justifies it, otherwise the obligation is its callers'
				if ok, how := c38NotSymlinkHere(s, f, u); ok {
					nO2++
					c.OK("O2", "R-TAINT", name, u.what+"<=not-a-symlink", u.at.Pos(), "symlink-following metadata change is applied "+how)
				}
			}
			if u.follow && !onlyParams {
				nO2++
				ok, how := c38NotSymlinkHere(s, f, u)
				c.Check(ok, "O2", "R-TAINT", name, u.what+"<=not-a-symlink", u.at.Pos(),
					"symlink-following metadata change is applied "+how,
					u.what+" follows a symlink at the final component, and the path ("+c38Describe(leaves)+") is neither freshly created by the extractor on this path nor re-validated with os.Lstat(path)==nil && IsDir(): a later archive entry can replace the recorded directory by a symlink and the chmod/chtimes then lands outside the target")
			}
			_ = archive
		}
	}
	c.Min("mutating path uses in package tar", nUses, 1)
	c.Min("O1 uses of outputPath results", nO1san, 1)
	c.Min("O1 uses of the root entry name", nO1root, 1)
	c.Min("O2 symlink-following metadata changes", nO2, 1)

	// ---- O3b: MkdirAll followed by Lstat+IsDir before success; O3c: rename from temp
	nMk, nRen := 0, 0
	for _, f := range tarFns {
		for _, mk := range an.Calls(f, an.M("os", "", "MkdirAll"), an.M("os", "", "Mkdir")) {
			nMk++
			pth := an.Args(mk)[0]
			ok := true
			nRet := 0
			for _, rs := range an.ResultSites(f, f.Signature.Results().Len()-1) {
				if !an.IsNilConst(rs.Val) || !an.Reaches(f, mk, rs.At, nil, nil) {
					continue
				}
				nRet++
				if !c38LstatIsDirGuard(f, pth, mk, rs.At) {
					ok = false
				}
			}
			c.Check(ok && nRet > 0, "O3", "R-DOM", an.FuncName(f), "MkdirAll=>Lstat.IsDir-before-success", mk.Pos(),
				"success after MkdirAll only where Lstat(path) succeeded and IsDir()",
				"a function creating a directory with os.MkdirAll can report success although the path is a symlink to a directory (MkdirAll follows it): entries and deferred metadata of that directory would be applied outside the target")
		}
		for _, rn := range an.Calls(f, an.M("os", "", "Rename")) {
			nRen++
			fromTemp := true
			n := 0
			for _, l := range an.Deps(an.Args(rn)[0], &an.DepOpts{Stop: func(x ssa.Value) bool {
				_, ok := an.IsCallTo(x, an.M("os", "", "CreateTemp"))
				return ok
			}}) {
				if _, isConst := l.(*ssa.Const); isConst {
					continue
				}
				n++
				if _, ok := an.IsCallTo(l, an.M("os", "", "CreateTemp")); !ok {
					fromTemp = false
				}
			}
			c.Check(fromTemp && n > 0, "O3", "R-FLOW", an.FuncName(f), "Rename-source<=CreateTemp", rn.Pos(),
				"file renamed into place is the extractor's own temp file",
				"os.Rename moves a path that is not the extractor's own os.CreateTemp file into the target")
		}
	}
	// temp files are created next to the final path, and no decision is taken
	// on a symlink-following os.Stat
	for _, f := range tarFns {
		for _, ct := range an.Calls(f, an.M("os", "", "CreateTemp"), an.M("os", "", "MkdirTemp")) {
			okDir := false
			for _, l := range an.Deps(an.Args(ct)[0], nil) {
				if _, isConst := l.(*ssa.Const); !isConst {
					okDir = true
				}
			}
			c.Check(okDir, "O3", "R-FLOW", an.FuncName(f), "CreateTemp-in-destination-directory", ct.Pos(),
				"temporary file created in the directory of the extraction path",
				"os.CreateTemp is given a constant directory (\"\" = the system temp dir): extraction creates files outside the target, and the os.Rename into the target is no longer an atomic same-directory replace")
		}
		for _, sc := range an.Calls(f, an.M("os", "", "Stat")) {
			c.Bad("O3", "R-API", an.FuncName(f), "os.Stat-on-extraction-path", sc.Pos(),
				"os.Stat follows symlinks: a decision about an extraction path (is it a directory? does it exist?) is taken on the link's target instead of the object that will be replaced/traversed; use os.Lstat")
		}
	}
	c.Min("O3 MkdirAll sites", nMk, 1)
	c.Min("O3 Rename sites", nRen, 1)

	// ---- O4: component walk of outputPath
	c38Walk(c, fSan, fComp)

	// ---- O5: validators reject ".."
	c38Rejects(c, fVal, []string{"..", ".", ""})
	c38Rejects(c, fComp, []string{".."})
}

func c38Describe(leaves []ssa.Value) string {
	var parts []string
	seen := map[string]bool{}
	for _, l := range leaves {
		d := ""
		if fl, _ := an.LoadedField(l); fl != nil && fl.Pkg() != nil && fl.Pkg().Path() == "archive/tar" {
			d = "tar header field " + fl.Name()
		} else if fl != nil {
			d = "stored field " + fl.Name()
		} else if _, ok := l.(*ssa.Parameter); ok {
			d = "parameter " + l.Name()
		} else if _, ok := an.IsCallTo(l, c38M("outputPath")); ok {
			d = "outputPath result"
		}
		if d != "" && !seen[d] {
			seen[d] = true
			parts = append(parts, d)
		}
	}
	sort.Strings(parts)
	return strings.Join(parts, ", ")
}

// c38Chain checks the arguments of one outputPath call.
func c38Chain(c *an.Ctx, f *ssa.Function, sc *ssa.Call, fRel, fVal *ssa.Function) {
	name := an.FuncName(f)
	args := an.Args(sc)
	if len(args) < 2 {
		c.Problem("outputPath call with %d arguments", len(args))
		return
	}
	// base: no archive-derived part
	okBase := true
	for _, l := range an.Deps(args[0], nil) {
		if fl, _ := an.LoadedField(l); fl != nil && fl.Pkg() != nil && fl.Pkg().Path() == "archive/tar" {
			okBase = false
		}
	}
	c.Check(okBase, "O1", "R-TAINT", name, "outputPath-base-trusted", sc.Pos(), "base directory of outputPath does not depend on archive content",
		"the base directory handed to outputPath depends on a tar header field: components of the base are not validated")
	// relative name: result of getRelativePath on its nil edge, computed from a
	// name that passed validateTarPath; when the value is a parameter of an
	// unexported helper the obligation moves to the helper's call sites
	okRel, okVal := c38RelOK(c.P.PkgFuncs("tar"), f, args[1], sc, 0)
	c.Check(okRel, "O1", "R-TAINT", name, "outputPath-arg<=getRelativePath-ok", sc.Pos(),
		"name given to outputPath is the result of getRelativePath on its nil edge",
		"outputPath is applied to a name that is not the (successfully) root-relative name from getRelativePath: entries outside the archive root would be mapped into or out of the target")
	if okRel {
		c.Check(okVal, "O1", "R-DOM", name, "getRelativePath<=validateTarPath-ok", sc.Pos(),
			"getRelativePath runs only on a header name that passed validateTarPath",
			"getRelativePath/outputPath process a header name that was not accepted by validateTarPath (no validateTarPath of the same name on whose nil edge getRelativePath runs): empty, absolute, '.' and '..' components are no longer rejected up front")
	}
}

func c38OwnParam(f *ssa.Function, v ssa.Value) (int, bool) {
	idx, n := -2, 0
	for _, l := range an.Deps(v, nil) {
		if _, isConst := l.(*ssa.Const); isConst {
			continue
		}
		n++
		p, ok := l.(*ssa.Parameter)
		if !ok || p.Parent() != f {
			return 0, false
		}
		i := an.ParamIndex(f, p)
		if idx != -2 && idx != i {
			return 0, false
		}
		idx = i
	}
	return idx, n > 0 && idx >= 0
}

// c38RelOK: v (used at `at` in f) is a getRelativePath result taken on its nil
// edge (first result), and that call's name argument passed validateTarPath
// (second result).
func c38RelOK(fns []*ssa.Function, f *ssa.Function, v ssa.Value, at ssa.Instruction, depth int) (bool, bool) {
	isRel := func(x ssa.Value) bool { _, ok := an.IsCallTo(x, c38M("getRelativePath")); return ok }
	if i, ok := c38OwnParam(f, v); ok && depth < 3 && f.Object() != nil && !f.Object().Exported() {
		callers := an.LocalCallers(fns, f)
		okRel, okVal := len(callers) > 0, true
		for _, cs := range callers {
			a := an.ArgAt(cs, i)
			if a == nil {
				return false, false
			}
			r, vv := c38RelOK(fns, cs.Parent(), a, cs, depth+1)
			okRel = okRel && r
			okVal = okVal && vv
		}
		return okRel, okVal
	}
	okRel, okVal, n := true, true, 0
	for _, l := range an.Deps(v, &an.DepOpts{Stop: isRel}) {
		if _, isConst := l.(*ssa.Const); isConst {
			continue
		}
		n++
		rc, ok := an.IsCallTo(l, c38M("getRelativePath"))
		if !ok || rc.Parent() != f || !an.OnNilEdgeOf(f, rc, at) {
			okRel = false
			continue
		}
		if !c38ValOK(fns, f, an.Args(rc)[1], rc, 0) {
			okVal = false
		}
	}
	return okRel && n > 0, okVal
}

// c38ValOK: v (used at `at`) is the very value that passed validateTarPath.
func c38ValOK(fns []*ssa.Function, f *ssa.Function, v ssa.Value, at ssa.Instruction, depth int) bool {
	for _, vc := range an.Calls(f, c38M("validateTarPath")) {
		if an.SameObj(an.Args(vc)[0], v) && an.OnNilEdgeOf(f, vc, at) {
			return true
		}
	}
	if i, ok := c38OwnParam(f, v); ok && depth < 3 && f.Object() != nil && !f.Object().Exported() {
		callers := an.LocalCallers(fns, f)
		if len(callers) == 0 {
			return false
		}
		for _, cs := range callers {
			a := an.ArgAt(cs, i)
			if a == nil || !c38ValOK(fns, cs.Parent(), a, cs, depth+1) {
				return false
			}
		}
		return true
	}
	return false
}

// c38RootGuard: a raw header name (root entry) may become part of a path only
// where it contains no '/' and passed validatePathComponent.
func c38RootGuard(c *an.Ctx, f *ssa.Function, u c38Use, leaf ssa.Value, fComp *ssa.Function) {
	fl, base := an.LoadedField(leaf)
	same := func(v ssa.Value) bool {
		for _, m := range an.Deps(v, nil) {
			if fl2, b2 := an.LoadedField(m); fl2 == fl && an.SameObj(base, b2) {
				return true
			}
		}
		return false
	}
	// the instructions that first combine the raw name into a path
	var at []ssa.Instruction
	visited := map[ssa.Value]bool{}
	var mark func(v ssa.Value)
	mark = func(v ssa.Value) {
		if v == nil || visited[v] {
			return
		}
		visited[v] = true
		if in, ok := v.(ssa.Instruction); ok {
			var rands []*ssa.Value
			for _, r := range in.Operands(rands) {
				if *r != nil {
					mark(*r)
				}
			}
		}
		if u2, ok := v.(*ssa.UnOp); ok && u2.Op == token.MUL {
			if al, ok := u2.X.(*ssa.Alloc); ok {
				for _, r := range *al.Referrers() {
					if st, ok := r.(*ssa.Store); ok && st.Addr == al {
						mark(st.Val)
					}
				}
			}
		}
		if al, ok := v.(*ssa.Alloc); ok {
			var visit func(a ssa.Value)
			visit = func(a ssa.Value) {
				for _, r := range *a.Referrers() {
					switch r := r.(type) {
					case *ssa.Store:
						if r.Addr == a {
							mark(r.Val)
						}
					case *ssa.IndexAddr:
						visit(r)
					case *ssa.FieldAddr:
						visit(r)
					}
				}
			}
			visit(al)
		}
	}
	mark(u.val)
	for v := range visited {
		switch x := v.(type) {
		case *ssa.Call:
			if ci := an.Callee(x); ci.Static == fComp {
				continue
			}
			for _, a := range x.Common().Args {
				if an.IsString(a.Type()) && same(a) && !c38IsCallResult(a) {
					at = append(at, x)
					break
				}
				// varargs: slice of a local array holding the name
				if sl, ok := a.(*ssa.Slice); ok {
					if al, ok := sl.X.(*ssa.Alloc); ok && same(al) {
						at = append(at, x)
						break
					}
				}
			}
		case *ssa.BinOp:
			if x.Op == token.ADD && an.IsString(x.Type()) && (same(x.X) || same(x.Y)) {
				at = append(at, x)
			}
		}
	}
	if len(at) == 0 {
		at = []ssa.Instruction{u.at}
	}
	noSlash := an.CallEdges(f, an.M("strings", "", "Contains"), 0, func(v ssa.Value) bool {
		return same(v)
	}, false)
	// restrict to Contains(x, "/")
	okSlash := len(noSlash) > 0
	for _, cc := range an.Calls(f, an.M("strings", "", "Contains")) {
		if same(an.Args(cc)[0]) {
			if k, ok := an.ConstOf(an.Args(cc)[1]); !ok || constant.StringVal(k) != "/" {
				okSlash = false
			}
		}
	}
	var compNil an.EdgeSet = an.EdgeSet{}
	for _, vc := range an.Calls(f, c38M("validatePathComponent")) {
		if same(an.Args(vc)[0]) {
			compNil = compNil.Union(an.NilEdges(f, an.ErrResult(vc), true))
		}
	}
	ok := okSlash && len(compNil) > 0
	for _, in := range at {
		if !an.GuardedBy(f, nil, in, noSlash) || !an.GuardedBy(f, nil, in, compNil) {
			ok = false
		}
	}
	c.Check(ok, "O1", "R-TAINT", an.FuncName(f), u.what+"<=root-name-validated", u.at.Pos(),
		"root entry name joined into a path only where it has no '/' and passed validatePathComponent",
		"a raw tar header name (not resolved by outputPath) becomes part of the path given to "+u.what+" on a path where it was not checked for '/' (strings.Contains) and with validatePathComponent: an entry called '..' or 'a/../../x' escapes the target")
}

func c38IsCallResult(v ssa.Value) bool {
	switch x := v.(type) {
	case *ssa.Call:
		return true
	case *ssa.Extract:
		_, ok := x.Tuple.(*ssa.Call)
		return ok
	}
	return false
}

// c38IsDirEdges: edges on which the FileInfo returned by lstat is a directory.
func c38IsDirEdges(f *ssa.Function, lstat ssa.CallInstruction) an.EdgeSet {
	fis := an.Result(lstat, 0)
	fromFI := func(v ssa.Value) bool {
		for _, l := range an.Deps(v, &an.DepOpts{Stop: func(x ssa.Value) bool {
			for _, fi := range fis {
				if x == fi {
					return true
				}
			}
			return false
		}}) {
			for _, fi := range fis {
				if l == fi {
					return true
				}
			}
		}
		return false
	}
	edges := an.CallEdges(f, an.M("", "", "IsDir"), -1, fromFI, true)
	// fi.Mode()&os.ModeSymlink == 0  (Lstat result is not a symlink)
	notLink := an.CmpEdges(f, func(op token.Token, a, b ssa.Value) (bool, bool) {
		if op != token.EQL && op != token.NEQ {
			return false, false
		}
		x, y := a, b
		if _, isConst := x.(*ssa.Const); isConst {
			x, y = b, a
		}
		k, ok := an.ConstOf(y)
		if !ok || k.String() != "0" {
			return false, false
		}
		and, ok := x.(*ssa.BinOp)
		if !ok || and.Op != token.AND {
			return false, false
		}
		m, v := and.Y, and.X
		if _, isConst := m.(*ssa.Const); !isConst {
			m, v = and.X, and.Y
		}
		mk, ok := an.ConstOf(m)
		if !ok {
			return false, false
		}
		if bits, exact := constant.Uint64Val(mk); !exact || bits&(1<<27) == 0 { // fs.ModeSymlink
			return false, false
		}
		if !fromFI(v) {
			return false, false
		}
		return op == token.EQL, op == token.NEQ
	})
	return edges.Union(notLink)
}

// c38LstatIsDirGuard: site is reached (from `from`) only where
// os.Lstat(path) returned nil and the result IsDir().
func c38LstatIsDirGuard(f *ssa.Function, path ssa.Value, from, site ssa.Instruction) bool {
	for _, ls := range an.Calls(f, an.M("os", "", "Lstat")) {
		if !an.SameObj(an.Args(ls)[0], path) {
			continue
		}
		if from != nil && !an.Reaches(f, from, ls, nil, nil) {
			continue
		}
		if an.OnNilEdgeOf(f, ls, site) && an.GuardedBy(f, ls, site, c38IsDirEdges(f, ls)) {
			return true
		}
		// the same two tests folded into a boolean flag:
		//   ok := err == nil && fi.IsDir(); ...; if ok { site }
		// = a bool phi whose inputs are `false` or the IsDir()/not-symlink test of
		// this Lstat's FileInfo computed where its error was nil
		if !an.Dominates(ls, site) {
			continue
		}
		nilEdges := an.NilEdges(f, an.ErrResult(ls), true)
		fis := an.Result(ls, 0)
		isDirTest := func(v ssa.Value) bool {
			call, ok := v.(*ssa.Call)
			if !ok || an.Callee(call).Name != "IsDir" {
				return false
			}
			r := an.Recv(call)
			if r == nil {
				return false
			}
			for _, l := range an.Deps(r, &an.DepOpts{Stop: func(x ssa.Value) bool {
				for _, fi := range fis {
					if x == fi {
						return true
					}
				}
				return false
			}}) {
				for _, fi := range fis {
					if l == fi {
						return true
					}
				}
			}
			return false
		}
		var flags []ssa.Value
		an.Instrs(f, func(in ssa.Instruction) {
			phi, ok := in.(*ssa.Phi)
			if !ok {
				return
			}
			if b, isB := phi.Type().Underlying().(*types.Basic); !isB || b.Kind() != types.Bool {
				return
			}
			n := 0
			for i, e := range phi.Edges {
				if k, isK := an.ConstOf(e); isK && k.String() == "false" {
					continue
				}
				pred := phi.Block().Preds[i]
				if !isDirTest(e) || len(nilEdges) == 0 || !an.GuardedBy(f, ls, pred.Instrs[len(pred.Instrs)-1], nilEdges) {
					return
				}
				n++
			}
			if n > 0 {
				flags = append(flags, phi)
			}
		})
		if len(flags) > 0 && an.GuardedBy(f, ls, site, an.BoolEdges(f, flags, true)) {
			return true
		}
	}
	return false
}

// c38NotSymlinkHere justifies a symlink-following metadata change.
func c38NotSymlinkHere(s *c38State, f *ssa.Function, u c38Use) (bool, string) {
	// (ii) re-validated here
	if c38LstatIsDirGuard(f, u.val, nil, u.at) {
		return true, "only where os.Lstat(path) succeeded and reported a directory"
	}
	// (i) on the nil edge of the extractor's own creation of this very path
	for _, call := range an.AllCalls(f) {
		ci := an.Callee(call)
		g := ci.Static
		if g == nil || !s.inU[g] || call == u.at {
			continue
		}
		for i, a := range an.Args(call) {
			if !an.IsString(a.Type()) || !an.SameObj(a, u.val) {
				continue
			}
			if c38Creates(g, i) && an.OnNilEdgeOf(f, call, u.at) {
				return true, "on the nil edge of " + ci.String() + " which created this very path (not a symlink)"
			}
		}
	}
	return false, ""
}

// c38Creates: success of g implies that its string parameter i names an object
// that g itself made a non-symlink: a temp file renamed to it, or a directory
// confirmed by Lstat+IsDir.
func c38Creates(g *ssa.Function, i int) bool {
	off := 0
	if g.Signature.Recv() != nil {
		off = 1
	}
	if i+off >= len(g.Params) || g.Signature.Results().Len() == 0 {
		return false
	}
	par := g.Params[i+off]
	isPar := func(v ssa.Value) bool {
		n := 0
		for _, l := range an.Deps(v, nil) {
			if _, isConst := l.(*ssa.Const); isConst {
				continue
			}
			n++
			if l != ssa.Value(par) {
				return false
			}
		}
		return n > 0
	}
	var succ []an.ResultSite
	for _, rs := range an.ResultSites(g, g.Signature.Results().Len()-1) {
		if an.IsNilConst(rs.Val) {
			succ = append(succ, rs)
		}
	}
	if len(succ) == 0 {
		return false
	}
	for _, rn := range an.Calls(g, an.M("os", "", "Rename")) {
		if !isPar(an.Args(rn)[1]) {
			continue
		}
		all := true
		for _, rs := range succ {
			if !an.OnNilEdgeOf(g, rn, rs.At) {
				all = false
			}
		}
		if all {
			return true
		}
	}
	all := true
	for _, rs := range succ {
		if !c38LstatIsDirGuard(g, par, nil, rs.At) {
			all = false
		}
	}
	return all
}

// c38ChecksDir: every successful return of h is guarded by
// os.Lstat(<string parameter i>) == nil and IsDir()/not-a-symlink.
func c38ChecksDir(h *ssa.Function, i int) bool {
	off := 0
	if h.Signature.Recv() != nil {
		off = 1
	}
	n := h.Signature.Results().Len()
	if i+off >= len(h.Params) || n == 0 || !an.IsErrorType(h.Signature.Results().At(n-1).Type()) {
		return false
	}
	par := h.Params[i+off]
	nSucc := 0
	for _, rs := range an.ResultSites(h, n-1) {
		if !an.IsNilConst(rs.Val) {
			continue
		}
		nSucc++
		if !c38LstatIsDirGuard(h, par, nil, rs.At) {
			return false
		}
	}
	return nSucc > 0
}

// c38Walk checks the per-component loop of outputPath.
func c38Walk(c *an.Ctx, f, fComp *ssa.Function) {
	name := an.FuncName(f)
	joins := an.Calls(f, an.M("path/filepath", "", "Join"))
	if !c.Need(len(joins) > 0, "filepath.Join in outputPath") {
		return
	}
	for _, j := range joins {
		jv := an.CallValue(j)
		if jv == nil || !an.Reaches(f, j, j, nil, nil) {
			continue // not inside the component loop
		}
		dependsOnJoin := func(v ssa.Value) bool {
			for _, l := range an.Deps(v, &an.DepOpts{Stop: func(x ssa.Value) bool { return x == ssa.Value(jv) }}) {
				if l == ssa.Value(jv) {
					return true
				}
			}
			return false
		}
		// guards on the step to the next component
		compNil := an.EdgeSet{}
		for _, vc := range an.LocalCallers([]*ssa.Function{f}, fComp) {
			compNil = compNil.Union(an.NilEdges(f, an.ErrResult(vc), true))
		}
		c.Check(len(compNil) > 0 && an.GuardedBy(f, j, j, compNil), "O4", "R-DOM", name, "next-component<=validatePathComponent-ok", j.Pos(),
			"every component passes validatePathComponent before it is joined",
			"outputPath can join a path component without validatePathComponent having returned nil for it ('..' components survive)")
		lstatNil, isDir := an.EdgeSet{}, an.EdgeSet{}
		var lstats []ssa.Instruction
		for _, ls := range an.Calls(f, an.M("os", "", "Lstat")) {
			if dependsOnJoin(an.Args(ls)[0]) {
				lstats = append(lstats, ls)
				lstatNil = lstatNil.Union(an.NilEdges(f, an.ErrResult(ls), true))
				isDir = isDir.Union(c38IsDirEdges(f, ls))
			}
		}
		// a package-local helper whose success means "Lstat(path) succeeded and
		// it is a directory / not a symlink" stands for the three tests
		for _, hc := range an.AllCalls(f) {
			h := an.Callee(hc).Static
			if h == nil || h.Blocks == nil || h.Pkg != f.Pkg || h == f {
				continue
			}
			for i, a := range an.Args(hc) {
				if an.IsString(a.Type()) && dependsOnJoin(a) && c38ChecksDir(h, i) {
					lstats = append(lstats, hc)
					e := an.NilEdges(f, an.ErrResult(hc), true)
					lstatNil = lstatNil.Union(e)
					isDir = isDir.Union(e)
				}
			}
		}
		c.Check(len(lstats) > 0 && an.GuardedBy(f, j, j, lstatNil) && an.GuardedBy(f, j, j, isDir), "O4", "R-DOM", name, "next-component<=Lstat-ok&&IsDir", j.Pos(),
			"the walk descends into a component only where os.Lstat of the joined path succeeded and reported a directory (a symlink is not a directory for Lstat)",
			"outputPath can descend through an intermediate path component without os.Lstat(joined path)==nil && IsDir(): an intermediate symlink planted by an earlier entry is traversed and later entries land outside the target")
		// Lstat may be skipped only for the last component
		last := an.CmpEdges(f, func(op token.Token, x, y ssa.Value) (bool, bool) {
			if op != token.EQL && op != token.NEQ {
				return false, false
			}
			isLenMinus1 := func(v ssa.Value) ssa.Value {
				b, ok := v.(*ssa.BinOp)
				if !ok || b.Op != token.SUB {
					return nil
				}
				if k, ok := an.ConstOf(b.Y); !ok || k.String() != "1" {
					return nil
				}
				if call, ok := b.X.(*ssa.Call); ok {
					if bi, ok := call.Call.Value.(*ssa.Builtin); ok && bi.Name() == "len" {
						return call.Call.Args[0]
					}
				}
				return nil
			}
			idx, sl := x, isLenMinus1(y)
			if sl == nil {
				idx, sl = y, isLenMinus1(x)
			}
			if sl == nil {
				return false, false
			}
			// idx indexes the same slice as the component that is joined
			isIdx := false
			an.Instrs(f, func(in ssa.Instruction) {
				if ia, ok := in.(*ssa.IndexAddr); ok && ia.Index == idx && ia.X == sl {
					isIdx = true
				}
			})
			if !isIdx {
				return false, false
			}
			return op == token.EQL, op == token.NEQ
		})
		blocked := map[ssa.Instruction]bool{}
		for _, ls := range lstats {
			blocked[ls] = true
		}
		ok := len(lstats) > 0
		for _, rs := range an.ResultSites(f, f.Signature.Results().Len()-1) {
			if an.IsNilConst(rs.Val) && an.Reaches(f, j, rs.At, last, blocked) {
				ok = false
			}
		}
		c.Check(ok, "O4", "R-CMP", name, "Lstat-skipped-only-for-last-component", j.Pos(),
			"after joining a component, success without os.Lstat is possible only where index == len(components)-1",
			"outputPath can return success after joining a component that was neither the last one nor checked with os.Lstat: an intermediate symlink is traversed")
	}
}

// c38Rejects: f (string) error never returns nil on the true edge of a
// comparison of a component with one of the given constants.
func c38Rejects(c *an.Ctx, f *ssa.Function, consts []string) {
	name := an.FuncName(f)
	for _, k := range consts {
		edges := an.CmpEdges(f, func(op token.Token, x, y ssa.Value) (bool, bool) {
			if op != token.EQL && op != token.NEQ {
				return false, false
			}
			kv, ok := an.ConstOf(y)
			if !ok {
				kv, ok = an.ConstOf(x)
			}
			if !ok || kv.Kind() != constant.String || constant.StringVal(kv) != k {
				return false, false
			}
			return op == token.EQL, op == token.NEQ
		})
		ok := len(edges) > 0
		for _, rs := range an.ResultSites(f, f.Signature.Results().Len()-1) {
			if an.IsNilConst(rs.Val) && an.EdgeLeadsTo(edges, rs.At, nil, nil) {
				// a later iteration may still accept another component; the
				// edge itself must not continue
				ok = false
			}
		}
		c.Check(ok, "O5", "R-CONST", name, fmt.Sprintf("rejects-%q", k), f.Pos(),
			fmt.Sprintf("a component equal to %q always leads to an error return", k),
			fmt.Sprintf("%s can return nil for a path with a component equal to %q: the name is accepted and joined below the target (\"..\" walks out of it)", name, k))
	}
}

// ---- anchors of package tar, by conventional name first, by role when renamed

var c38Roles = map[string]*ssa.Function{}

func c38M(role string) an.Matcher {
	recv := ""
	if role == "outputPath" {
		recv = "Extractor"
	}
	if f := c38Roles[role]; f != nil {
		return an.M("tar", recv, f.Name())
	}
	return an.M("tar", recv, role)
}

func c38Resolve(p *an.Prog) {
	c38Roles = map[string]*ssa.Function{}
	conv := map[string]string{"outputPath": "Extractor", "getRelativePath": "", "validateTarPath": "", "validatePathComponent": ""}
	for name, recv := range conv {
		if f := p.Func("tar", recv, name); f != nil {
			c38Roles[name] = f
		}
	}
	strErr := func(f *ssa.Function, nStr int, strResult bool) bool {
		ps, rs := f.Signature.Params(), f.Signature.Results()
		if ps.Len() != nStr {
			return false
		}
		for i := 0; i < ps.Len(); i++ {
			if !an.IsString(ps.At(i).Type()) {
				return false
			}
		}
		if strResult {
			return rs.Len() == 2 && an.IsString(rs.At(0).Type()) && an.IsErrorType(rs.At(1).Type())
		}
		return rs.Len() == 1 && an.IsErrorType(rs.At(0).Type())
	}
	comparesDotDot := func(f *ssa.Function) bool {
		found := false
		an.Instrs(f, func(in ssa.Instruction) {
			if b, ok := in.(*ssa.BinOp); ok && (b.Op == token.EQL || b.Op == token.NEQ) {
				for _, o := range []ssa.Value{b.X, b.Y} {
					if k, ok := an.ConstOf(o); ok && k.Kind() == constant.String && constant.StringVal(k) == ".." {
						found = true
					}
				}
			}
		})
		return found
	}
	uniq := func(role string, pred func(f *ssa.Function) bool) {
		if c38Roles[role] != nil {
			return
		}
		var found []*ssa.Function
		for _, f := range p.PkgFuncs("tar") {
			if f.Parent() == nil && pred(f) {
				found = append(found, f)
			}
		}
		if len(found) == 1 {
			c38Roles[role] = found[0]
		}
	}
	uniq("validateTarPath", func(f *ssa.Function) bool {
		return f.Signature.Recv() == nil && strErr(f, 1, false) && comparesDotDot(f) && len(an.Calls(f, an.M("strings", "", "Split"))) > 0
	})
	uniq("validatePathComponent", func(f *ssa.Function) bool {
		return f.Signature.Recv() == nil && strErr(f, 1, false) && comparesDotDot(f) && len(an.Calls(f, an.M("strings", "", "Split"))) == 0
	})
	uniq("getRelativePath", func(f *ssa.Function) bool { return f.Signature.Recv() == nil && strErr(f, 2, true) })
	uniq("outputPath", func(f *ssa.Function) bool {
		return f.Signature.Recv() != nil && strErr(f, 2, true) && len(an.Calls(f, an.M("path/filepath", "", "Join"))) > 0
	})
}
