package props

import (
	"fmt"
	"go/constant"
	"go/token"
	"go/types"
	"sort"
	"strings"

	"golang.org/x/tools/go/ssa"

	"verif/checker/an"
)

func init() {
	register("C35", Prop{
		Pkgs: []string{"./bitswap/client/internal/messagequeue", "./bitswap/client/wantlist"},
		Explain: "Decided (structural necessary conditions of 'the per-peer want-list converges to the client's wants; cancelled wants are not left active, current wants not left unsent'): " +
			"O1 MessageQueue.{bcstWants,peerWants,cancels,priority} are touched only with the same queue's wllock held (lock-state dataflow over every function and closure of the package); {sender,msg} are touched only by functions whose synchronous callers all lead to the single goroutine root started with `go` (the run loop), never from an exported entry point; " +
			"O2 cancel decision: every cancels.Add(c) is reached only across a sent.Has(c)==true edge, both recall lists are probed, the probes precede the remove(c) of the same list, and remove(c) runs for both lists whether or not a cancel is queued; " +
			"O3 every want added to a recall list is coupled with cancels.Remove(c) for the same CID, and every function that queues a want or a cancel signals the run loop on every path afterwards (sticky `workReady` flag idiom understood); " +
			"O4 lock-free message construction: every AddEntry/Cancel put into the outgoing message from a snapshot has a re-validation under the lock on the same snapshot and the same list (markSent / cancels.Has), whose failing edge removes that CID from the message (and whose succeeding cancel edge clears the pending cancel), and the count of filled entries is advanced on every path from the fill to the re-validation; " +
			"O5 wantlist.Wantlist: every mutation of `set` drops the memoized `cached` slice; Add/RemoveType apply the type-upgrade rule (want-have never overrides or removes want-block); recallWantlist.remove clears pending, sent and sentAt of the same CID; markSent moves to `sent` only on the true edge of pending.RemoveType for the same entry; " +
			"O6 a want recorded as sent is dropped from a `sent` list only together with the `pending` entry of the same list (the want is given up), never while it stays wanted: AddCancels decides from sent.Has whether the peer must be told. " +
			"O7 send loop: the reusable outgoing message is Reset between two extractOutgoingMessage calls and before every return that follows one (directly or by a defer registered before); after a successful SendMsg every return either has no pending work (pendingWorkCount/HasMessage tested) or is preceded by signalWorkReady; entries put into the message carry the Cid/Priority(/WantType) of the same snapshot entry, and a constant want type is Have exactly where the peer supports HAVE and Block where it does not. " +
			"NOT decided: convergence under all interleavings (runtime), message size arithmetic, priorities, DONT_HAVE timeouts, behaviour of the network sender.",
		Assume:    []string{"unexported fields of MessageQueue/recallWantlist/Wantlist are reachable only from their packages (Go visibility)", "sync.Mutex semantics", "one run loop per MessageQueue (Startup called once)"},
		Technique: "lock-state dataflow (R-GUARD), caller closure (R-WHO), edge dominance and must-follow on condition edges (R-DOM/R-POST), coupled mutation (R-PAIR), normalised comparison edges (R-CMP)",
		Run:       runC35,
	})
}

const (
	c35MQ  = "bitswap/client/internal/messagequeue"
	c35WL  = "bitswap/client/wantlist"
	c35Msg = "bitswap/message"
	c35Cid = "github.com/ipfs/go-cid"
)

// c35LoadOfField: v is a load of field fld; returns the base object.
func c35LoadOfField(v ssa.Value, fld *types.Var) (ssa.Value, bool) {
	u, ok := v.(*ssa.UnOp)
	if !ok || u.Op != token.MUL {
		return nil, false
	}
	f, base := an.FieldOf(u.X)
	if f == nil || f != fld {
		return nil, false
	}
	return base, true
}

// c35FlagCut returns the edges of `If flag` tests that cannot be taken after
// instruction from: flag is a boolean whose definitions are constants only
// (phi web), every path from `from` to the test crosses an edge that assigns
// true, and no assignment of false is reachable from `from`.
func c35FlagCut(fn *ssa.Function, from ssa.Instruction, extra an.EdgeSet) an.EdgeSet {
	cut := an.EdgeSet{}
	for _, b := range fn.Blocks {
		if len(b.Instrs) == 0 {
			continue
		}
		ifi, ok := b.Instrs[len(b.Instrs)-1].(*ssa.If)
		if !ok {
			continue
		}
		cond := ifi.Cond
		neg := false
		for {
			u, ok := cond.(*ssa.UnOp)
			if !ok || u.Op != token.NOT {
				break
			}
			neg = !neg
			cond = u.X
		}
		phi0, ok := cond.(*ssa.Phi)
		if !ok {
			continue
		}
		trueE, falseE := an.EdgeSet{}, an.EdgeSet{}
		var falseSrc []*ssa.BasicBlock
		seen := map[*ssa.Phi]bool{}
		okWeb := true
		var walk func(p *ssa.Phi)
		walk = func(p *ssa.Phi) {
			if seen[p] {
				return
			}
			seen[p] = true
			for i, e := range p.Edges {
				pred := p.Block().Preds[i]
				switch x := e.(type) {
				case *ssa.Phi:
					walk(x)
				case *ssa.Const:
					if x.Value == nil || x.Value.Kind() != constant.Bool {
						okWeb = false
						continue
					}
					for si, s := range pred.Succs {
						if s == p.Block() {
							if constant.BoolVal(x.Value) {
								trueE[an.Edge{From: pred, Succ: si}] = true
							} else {
								falseE[an.Edge{From: pred, Succ: si}] = true
								falseSrc = append(falseSrc, pred)
							}
						}
					}
				default:
					okWeb = false
				}
			}
		}
		walk(phi0)
		if !okWeb || len(trueE) == 0 {
			continue
		}
		if an.Reaches(fn, from, ifi, trueE.Union(extra), nil) {
			continue // the test can be reached without the flag having been set
		}
		reset := false
		for _, src := range falseSrc {
			if len(src.Instrs) > 0 && an.Reaches(fn, from, src.Instrs[len(src.Instrs)-1], extra, nil) {
				reset = true
			}
		}
		if reset {
			continue
		}
		if neg {
			cut[an.Edge{From: b, Succ: 0}] = true
		} else {
			cut[an.Edge{From: b, Succ: 1}] = true
		}
	}
	return cut
}

// c35Callers maps every function of the package to the functions that call it
// synchronously (call/defer) and to the go statements that spawn it.
type c35CG struct {
	sync  map[*ssa.Function][]*ssa.Function
	spawn map[*ssa.Function][]*ssa.Function
}

func c35CallGraph(fns []*ssa.Function) c35CG {
	g := c35CG{map[*ssa.Function][]*ssa.Function{}, map[*ssa.Function][]*ssa.Function{}}
	for _, fn := range fns {
		for _, call := range an.AllCalls(fn) {
			callee := an.Callee(call).Static
			if callee == nil {
				continue
			}
			if _, isGo := call.(*ssa.Go); isGo {
				g.spawn[callee] = append(g.spawn[callee], fn)
			} else {
				g.sync[callee] = append(g.sync[callee], fn)
			}
		}
		// a closure created in fn runs (at the earliest) on behalf of fn
		an.Instrs(fn, func(in ssa.Instruction) {
			if mc, ok := in.(*ssa.MakeClosure); ok {
				if cf, ok := mc.Fn.(*ssa.Function); ok {
					isCallee := false
					for _, r := range *mc.Referrers() {
						if c, ok := r.(ssa.CallInstruction); ok && c.Common().Value == ssa.Value(mc) {
							if _, isGo := c.(*ssa.Go); isGo {
								g.spawn[cf] = append(g.spawn[cf], fn)
								isCallee = true
							}
						}
					}
					if !isCallee {
						g.sync[cf] = append(g.sync[cf], fn)
					}
				}
			}
		})
	}
	return g
}

// ---------------------------------------------------------------------------
// role-based resolution of the unexported parts of package messagequeue

type c35Roles struct {
	recallT                  *types.Named
	recallName               string
	fLock, fCancels, fPrio   *types.Var
	fSender, fMsg            *types.Var
	fPending, fSent, fSentAt *types.Var
	recallFields             []*types.Var
	bcst                     *types.Var      // the recall list fed by the exported AddBroadcastWantHaves
	add, remove, markSent    *ssa.Function   // methods of the recall list
	signal                   []*ssa.Function // non-blocking "work ready" notifiers
	extract                  []*ssa.Function // builders of the outgoing message
	workCount                []*ssa.Function // pending-work counters
	problems                 []string
}

var c35R *c35Roles

func c35Resolve(p *an.Prog) *c35Roles {
	r := &c35Roles{}
	mqT := p.Named(c35MQ, "MessageQueue")
	pk := p.Pkg(c35MQ)
	if mqT == nil || pk == nil {
		r.problems = append(r.problems, "type MessageQueue")
		return r
	}
	isWL := func(t types.Type) bool {
		pt, ok := t.(*types.Pointer)
		return ok && an.TypeIs(pt.Elem(), c35WL, "Wantlist")
	}
	// the recall list: the struct type of the package with two *wantlist.Wantlist fields
	for _, name := range pk.Types.Scope().Names() {
		tn, ok := pk.Types.Scope().Lookup(name).(*types.TypeName)
		if !ok {
			continue
		}
		n, ok := tn.Type().(*types.Named)
		if !ok {
			continue
		}
		st, ok := n.Underlying().(*types.Struct)
		if !ok {
			continue
		}
		nwl := 0
		for i := 0; i < st.NumFields(); i++ {
			if isWL(st.Field(i).Type()) {
				nwl++
			}
		}
		if nwl == 2 {
			r.recallT = n
		}
	}
	if r.recallT == nil {
		r.problems = append(r.problems, "the recall-list type (struct with two *wantlist.Wantlist fields)")
		return r
	}
	r.recallName = r.recallT.Obj().Name()
	// fields of MessageQueue by type
	mst := mqT.Underlying().(*types.Struct)
	for i := 0; i < mst.NumFields(); i++ {
		f := mst.Field(i)
		t := f.Type()
		switch {
		case an.TypeIs(t, "sync", "Mutex"):
			if _, isPtr := t.(*types.Pointer); !isPtr {
				r.fLock = f
			}
		case an.TypeIs(t, c35Cid, "Set"):
			r.fCancels = f
		case an.TypeIs(t, "bitswap/network", "MessageSender"):
			r.fSender = f
		case an.TypeIs(t, c35Msg, "BitSwapMessage"):
			r.fMsg = f
		case types.Identical(t, r.recallT):
			r.recallFields = append(r.recallFields, f)
		default:
			if b, ok := t.Underlying().(*types.Basic); ok && b.Kind() == types.Int32 {
				r.fPrio = f
			}
		}
	}
	// methods of the recall list by what they do
	rst := r.recallT.Underlying().(*types.Struct)
	var wlFields []*types.Var
	for i := 0; i < rst.NumFields(); i++ {
		f := rst.Field(i)
		if isWL(f.Type()) {
			wlFields = append(wlFields, f)
		} else if _, ok := f.Type().Underlying().(*types.Map); ok {
			r.fSentAt = f
		}
	}
	callsOn := func(fn *ssa.Function, method string) map[*types.Var]bool { // wantlist fields on which Wantlist.<method> is called
		out := map[*types.Var]bool{}
		for _, call := range an.Calls(fn, an.M(c35WL, "Wantlist", method)) {
			if u, ok := an.Recv(call).(*ssa.UnOp); ok {
				if f, _ := an.FieldOf(u.X); f != nil {
					out[f] = true
				}
			}
		}
		return out
	}
	for _, m := range p.Methods(c35MQ, r.recallName) {
		sig := m.Signature
		np := sig.Params().Len()
		switch {
		case sig.Results().Len() == 1 && np == 1 && an.TypeIs(sig.Params().At(0).Type(), c35WL, "Entry"):
			// moves an entry from pending to sent and reports whether it did (role by signature; what it
			// does is the subject of the obligations, not of the resolution)
			if b, ok := sig.Results().At(0).Type().Underlying().(*types.Basic); ok && b.Kind() == types.Bool {
				r.markSent = m
			}
		case sig.Results().Len() == 0 && np == 3:
			if on := callsOn(m, "Add"); len(on) == 1 {
				r.add = m
				// the list new wants are added to is the pending one, the other the sent one
				for _, f := range wlFields {
					if on[f] {
						r.fPending = f
					} else {
						r.fSent = f
					}
				}
			}
		case sig.Results().Len() == 0 && np == 1 && an.TypeIs(sig.Params().At(0).Type(), c35Cid, "Cid"):
			// the drop-a-want method: the (cid) method of the recall list that the exported AddCancels calls
			if ac := p.Func(c35MQ, "MessageQueue", "AddCancels"); ac != nil {
				for _, g := range c34Closure(ac) {
					for _, call := range an.AllCalls(g) {
						if an.Callee(call).Static == m {
							r.remove = m
						}
					}
				}
			}
		}
	}
	if r.fPending == nil || r.fSent == nil {
		// fallback: the list probed with Has in the exported AddCancels is the sent list
		if ac := p.Func(c35MQ, "MessageQueue", "AddCancels"); ac != nil {
			has := callsOn(ac, "Has")
			for _, f := range wlFields {
				if has[f] {
					r.fSent = f
				} else {
					r.fPending = f
				}
			}
		}
	}
	// the broadcast list: the recall list the exported AddBroadcastWantHaves adds to
	if ab := p.Func(c35MQ, "MessageQueue", "AddBroadcastWantHaves"); ab != nil {
		for _, call := range an.AllCalls(ab) {
			if rv := an.Recv(call); rv != nil {
				if f, _ := an.FieldOf(rv); f != nil {
					for _, l := range r.recallFields {
						if l == f {
							r.bcst = f
						}
					}
				}
			}
		}
	}
	// methods of MessageQueue by what they do
	for _, m := range p.Methods(c35MQ, "MessageQueue") {
		sig := m.Signature
		if o, ok := m.Object().(*types.Func); ok && o.Exported() {
			continue
		}
		// notifier: no parameters/results, body = one non-blocking select that sends
		if sig.Params().Len() == 0 && sig.Results().Len() == 0 {
			nSel, nOther := 0, 0
			an.Instrs(m, func(in ssa.Instruction) {
				switch x := in.(type) {
				case *ssa.Select:
					if !x.Blocking && len(x.States) == 1 && x.States[0].Dir == types.SendOnly {
						nSel++
					} else {
						nOther++
					}
				case ssa.CallInstruction:
					nOther++
				}
			})
			if nSel == 1 && nOther == 0 {
				r.signal = append(r.signal, m)
			}
		}
		for i := 0; i < sig.Results().Len(); i++ {
			if an.TypeIs(sig.Results().At(i).Type(), c35Msg, "BitSwapMessage") {
				r.extract = append(r.extract, m)
			}
		}
		if sig.Params().Len() == 0 && sig.Results().Len() == 1 {
			if b, ok := sig.Results().At(0).Type().Underlying().(*types.Basic); ok && b.Kind() == types.Int {
				if len(an.Calls(m, an.M(c35WL, "Wantlist", "Len"), an.M(c35Cid, "Set", "Len"))) > 0 {
					r.workCount = append(r.workCount, m)
				}
			}
		}
	}
	return r
}

// c35Role gives a stable, rename-proof name to a resolved field (used in obligation keys).
func c35Role(f *types.Var) string {
	r := c35R
	if r == nil || f == nil {
		return "?"
	}
	switch f {
	case r.fLock:
		return "wllock"
	case r.fCancels:
		return "cancels"
	case r.fPrio:
		return "priority"
	case r.fSender:
		return "sender"
	case r.fMsg:
		return "msg"
	case r.fPending:
		return "pending"
	case r.fSent:
		return "sent"
	case r.fSentAt:
		return "sentAt"
	case r.bcst:
		return "bcstWants"
	}
	for _, l := range r.recallFields {
		if l == f {
			return "peerWants"
		}
	}
	return f.Name()
}

func c35Matchers(fs []*ssa.Function) []an.Matcher {
	var out []an.Matcher
	for _, f := range fs {
		recv := ""
		if rv := f.Signature.Recv(); rv != nil {
			t := rv.Type()
			if pt, ok := t.(*types.Pointer); ok {
				t = pt.Elem()
			}
			if n, ok := t.(*types.Named); ok {
				recv = n.Obj().Name()
			}
		}
		out = append(out, an.M(c35MQ, recv, f.Name()))
	}
	return out
}

func runC35(c *an.Ctx) {
	p := c.P
	fns := p.PkgFuncs(c35MQ)
	mqT := p.Named(c35MQ, "MessageQueue")
	if !c.Need(len(fns) > 0 && mqT != nil && p.Pkg(c35WL) != nil, "package messagequeue, type MessageQueue, package client/wantlist") {
		return
	}
	R := c35Resolve(p)
	c35R = R
	for _, pr := range R.problems {
		c.Need(false, pr)
	}
	fLock, fCancels, fPrio, fSender, fMsg := R.fLock, R.fCancels, R.fPrio, R.fSender, R.fMsg
	fPending, fSent, fSentAt := R.fPending, R.fSent, R.fSentAt
	if !c.Need(fLock != nil && fCancels != nil && fPrio != nil && fSender != nil && fMsg != nil && fPending != nil && fSent != nil && fSentAt != nil && R.add != nil && R.remove != nil && R.markSent != nil && len(R.signal) > 0,
		"MessageQueue roles: mutex, *cid.Set of cancels, int32 priority, MessageSender, reusable BitSwapMessage; recall list: pending/sent want-lists, sent-time map, add/remove/mark-sent methods; work-ready notifier") {
		return
	}
	recallFields := R.recallFields
	c.Min("recall lists in MessageQueue", len(recallFields), 2)
	isRecallField := func(f *types.Var) bool {
		for _, r := range recallFields {
			if r == f {
				return true
			}
		}
		return false
	}

	// ------------------------------------------------------------ O1 lock discipline
	guarded := append([]*types.Var{fCancels, fPrio}, recallFields...)
	nG := 0
	lockFacts := map[*ssa.Function]*an.LockFacts{}
	factsOf := func(fn *ssa.Function) *an.LockFacts {
		if lockFacts[fn] == nil {
			lockFacts[fn] = an.Locks(fn, an.SyncModel, nil, true)
		}
		return lockFacts[fn]
	}
	// heldAt: wllock of queue `base` is held at `at`, in fn or — for an unexported helper whose
	// queue is one of its parameters — at every (synchronous, package-local) call site
	var heldAt func(fn *ssa.Function, at ssa.Instruction, base ssa.Value, depth int) bool
	heldAt = func(fn *ssa.Function, at ssa.Instruction, base ssa.Value, depth int) bool {
		if factsOf(fn).Held(at, an.PathOf(base)+"."+fLock.Name()) == an.LWrite {
			return true
		}
		if depth > 3 || fn.Parent() != nil {
			return false
		}
		if o, ok := fn.Object().(*types.Func); !ok || o.Exported() {
			return false
		}
		pi := -1
		for i, q := range fn.Params {
			if ssa.Value(q) == base {
				pi = i
			}
		}
		if pi < 0 {
			return false
		}
		n := 0
		for _, g := range fns {
			for _, call := range an.AllCalls(g) {
				if an.Callee(call).Static != fn {
					continue
				}
				if _, isGo := call.(*ssa.Go); isGo {
					return false
				}
				if _, isDefer := call.(*ssa.Defer); isDefer {
					return false
				}
				n++
				if pi >= len(call.Common().Args) || !heldAt(g, call.(ssa.Instruction), call.Common().Args[pi], depth+1) {
					return false
				}
			}
		}
		return n > 0
	}
	for _, fn := range fns {
		for _, g := range guarded {
			for _, fa := range an.FieldAddrs(fn, g) {
				_, base := an.FieldOf(fa)
				if an.IsFresh(base) {
					continue // constructor: object not yet shared
				}
				nG++
				c.Check(heldAt(fn, fa, base, 0), "O1", "R-GUARD", an.FuncName(fn), c35Role(g)+"-under-wllock", fa.Pos(),
					"access to MessageQueue."+c35Role(g)+" with wllock held (here or at every call site of this unexported helper)",
					"MessageQueue."+c35Role(g)+" is accessed without the queue's wllock held on some path: producer goroutines and the send loop race on the want/cancel bookkeeping, wants or cancels can be lost")
			}
		}
	}
	c.Min("O1 accesses to lock-guarded MessageQueue fields", nG, 30)

	// run-loop confinement of sender / msg
	cg := c35CallGraph(fns)
	inPkg := map[*ssa.Function]bool{}
	for _, fn := range fns {
		inPkg[fn] = true
	}
	users := map[*ssa.Function]bool{}
	for _, fn := range fns {
		for _, g := range []*types.Var{fSender, fMsg} {
			for _, fa := range an.FieldAddrs(fn, g) {
				if _, base := an.FieldOf(fa); !an.IsFresh(base) {
					users[fn] = true
				}
			}
		}
	}
	c.Min("O1 functions touching MessageQueue.sender/msg", len(users), 3)
	roots := map[*ssa.Function]bool{}
	var climb func(fn *ssa.Function, seen map[*ssa.Function]bool) (bool, string)
	climb = func(fn *ssa.Function, seen map[*ssa.Function]bool) (bool, string) {
		if seen[fn] {
			return true, ""
		}
		seen[fn] = true
		if o, ok := fn.Object().(*types.Func); ok && o != nil && o.Exported() && fn.Parent() == nil {
			return false, "exported " + an.FuncName(fn) + " (callable from any goroutine)"
		}
		callers := cg.sync[fn]
		if len(callers) == 0 {
			if len(cg.spawn[fn]) > 0 {
				roots[fn] = true
				return true, ""
			}
			return true, "" // unreferenced (dead) code
		}
		if len(cg.spawn[fn]) > 0 {
			// both called and spawned: two goroutines may run it
			return false, an.FuncName(fn) + " is both called synchronously and started with go"
		}
		for _, cl := range callers {
			if ok, why := climb(cl, seen); !ok {
				return false, why
			}
		}
		return true, ""
	}
	var userList []*ssa.Function
	for fn := range users {
		userList = append(userList, fn)
	}
	sort.Slice(userList, func(i, j int) bool { return userList[i].Pos() < userList[j].Pos() })
	for _, fn := range userList {
		ok, why := climb(fn, map[*ssa.Function]bool{})
		c.Check(ok, "O1", "R-WHO", an.FuncName(fn), "sender/msg-run-loop-only", fn.Pos(),
			"uses sender/msg and is reachable only from the run-loop goroutine",
			"MessageQueue.sender/msg are used by this function, which is reachable from "+why+": the reusable message and the sender are not synchronised and must stay on the run-loop goroutine")
	}
	nSpawn := 0
	for r := range roots {
		nSpawn += len(cg.spawn[r])
	}
	c.Check(len(roots) == 1 && nSpawn == 1, "O1", "R-WHO", c35MQ, "single-run-loop-root", mqT.Obj().Pos(),
		"exactly one goroutine root (one go statement) leads to the users of sender/msg",
		fmt.Sprintf("%d goroutine roots / %d go statements lead to the users of MessageQueue.sender/msg: two goroutines would share the unsynchronised outgoing message", len(roots), nSpawn))

	// helpers for call classification
	recvList := func(call ssa.CallInstruction) (*types.Var, ssa.Value) { // receiver is &X.<recall list>
		r := an.Recv(call)
		if r == nil {
			return nil, nil
		}
		f, base := an.FieldOf(r)
		if f != nil && isRecallField(f) {
			return f, base
		}
		return nil, nil
	}
	// receiver is load of X.<list>.<sub> (sub = pending/sent)
	recvSub := func(call ssa.CallInstruction, sub *types.Var) (*types.Var, ssa.Value, bool) {
		r := an.Recv(call)
		if r == nil {
			return nil, nil, false
		}
		b, ok := c35LoadOfField(r, sub)
		if !ok {
			return nil, nil, false
		}
		f, base := an.FieldOf(b)
		if f != nil && isRecallField(f) {
			return f, base, true
		}
		// inside recallWantlist methods: base is the receiver r itself
		return nil, b, true
	}
	recvCancels := func(call ssa.CallInstruction) bool {
		r := an.Recv(call)
		if r == nil {
			return false
		}
		_, ok := c35LoadOfField(r, fCancels)
		return ok
	}
	mSetAdd, mSetRemove, mSetHas, mSetKeys := an.M(c35Cid, "Set", "Add"), an.M(c35Cid, "Set", "Remove"), an.M(c35Cid, "Set", "Has"), an.M(c35Cid, "Set", "Keys")
	mWlHas, mWlAdd, mWlRemove, mWlRemoveType, mWlEntries := an.M(c35WL, "Wantlist", "Has"), an.M(c35WL, "Wantlist", "Add"), an.M(c35WL, "Wantlist", "Remove"), an.M(c35WL, "Wantlist", "RemoveType"), an.M(c35WL, "Wantlist", "Entries")
	mRecAdd, mRecRemove, mMarkSent := an.M(c35MQ, R.recallName, R.add.Name()), an.M(c35MQ, R.recallName, R.remove.Name()), an.M(c35MQ, R.recallName, R.markSent.Name())
	mSignal := an.M(c35MQ, "MessageQueue", R.signal[0].Name())

	// failEdgeRemoves: following only the `want` outcome of test, msg.Remove(<same key>) (and extra) are met before the function can return
	onOutcome := func(fn *ssa.Function, test ssa.CallInstruction, outcome bool, must func(ssa.CallInstruction) bool) bool {
		tv := []ssa.Value{an.CallValue(test)}
		// the result must be tested at all (directly or through a materialised condition)
		tested := false
		for _, r := range an.Uses(tv[0]) {
			if _, ok := r.(*ssa.If); ok {
				tested = true
			}
		}
		if !tested {
			return false
		}
		blocked := map[ssa.Instruction]bool{}
		for _, call := range an.AllCalls(fn) {
			if must(call) {
				blocked[call.(ssa.Instruction)] = true
			}
		}
		w := &an.Walk{Fn: fn, Cut: an.BoolEdges(fn, tv, !outcome), Blocked: blocked, ValCut: an.BoolIs(tv, !outcome)}
		return len(blocked) > 0 && !w.ReachesReturn(test.(ssa.Instruction))
	}
	// ------------------------------------------------------------ O2 cancel decision
	nO2 := 0
	for _, fn := range fns {
		name := an.FuncName(fn)
		for _, add := range an.Calls(fn, mSetAdd) {
			if !recvCancels(add) {
				continue
			}
			nO2++
			k := an.Args(add)[0]
			var hasVals []ssa.Value
			hasOn := map[*types.Var][]ssa.CallInstruction{}
			for _, h := range an.Calls(fn, mWlHas) {
				l, _, ok := recvSub(h, fSent)
				if !ok || l == nil || !an.SameObj(an.Args(h)[0], k) {
					continue
				}
				hasVals = append(hasVals, an.CallValue(h))
				hasOn[l] = append(hasOn[l], h)
			}
			sentTrue := an.BoolEdges(fn, hasVals, true)
			wSent := &an.Walk{Fn: fn, Cut: sentTrue, ValCut: an.BoolIs(hasVals, true)}
			c.Check(len(hasVals) > 0 && !wSent.Reaches(nil, func(in ssa.Instruction) bool { return in == add.(ssa.Instruction) }), "O2", "R-DOM", name, "cancels.Add<=sent.Has", add.Pos(),
				"a cancel is queued only where a want for the CID was recorded as sent",
				"cancels.Add(c) is reachable without a true sent.Has(c) test: cancels are queued for wants the peer never received (or the decision no longer looks at the sent lists)")
			for _, l := range recallFields {
				probed := len(hasOn[l]) > 0
				for _, h := range hasOn[l] {
					probed = probed && onOutcome(fn, h, true, func(call ssa.CallInstruction) bool { return call == add })
				}
				c.Check(probed, "O2", "R-DOM", name, "probe-"+c35Role(l)+".sent", add.Pos(),
					"a true "+c35Role(l)+".sent.Has(c) always leads to cancels.Add(c)",
					"the cancel decision does not probe "+c35Role(l)+".sent for the CID: a want sent through that list is dropped locally without telling the peer, it stays active there")
				var rms []ssa.CallInstruction
				for _, r := range an.Calls(fn, mRecRemove) {
					if rl, _ := recvList(r); rl == l && an.SameObj(an.Args(r)[0], k) {
						rms = append(rms, r)
					}
				}
				okOrder, okUncond := len(rms) > 0, len(rms) > 0
				for _, r := range rms {
					for _, h := range hasOn[l] {
						// no path from the remove to the probe for the same key value (paths through the
						// definition of the key belong to the next key); a probe behind a short-circuit is fine
						blockedDef := map[ssa.Instruction]bool{}
						if def, ok := k.(ssa.Instruction); ok {
							blockedDef[def] = true
						}
						if an.Reaches(fn, r.(ssa.Instruction), h.(ssa.Instruction), nil, blockedDef) {
							okOrder = false
						}
					}
					if !wSent.Reaches(nil, func(in ssa.Instruction) bool { return in == r.(ssa.Instruction) }) {
						okUncond = false
					}
				}
				c.Check(okOrder, "O2", "R-DOM", name, c35Role(l)+".sent.Has-before-remove", add.Pos(),
					"sent.Has(c) is read before "+c35Role(l)+".remove(c)",
					c35Role(l)+".remove(c) is missing or can run before the sent.Has(c) probe of the same list: the probe then always reads false and no cancel is ever sent")
				c.Check(okUncond, "O2", "R-PAIR", name, c35Role(l)+".remove-unconditional", add.Pos(),
					"the want is dropped from "+c35Role(l)+" whether or not a cancel is queued",
					c35Role(l)+".remove(c) only runs when the want had been sent: a cancelled but still pending want stays queued and is sent later")
			}
		}
	}
	c.Min("O2 cancels.Add sites", nO2, 1)

	// ------------------------------------------------------------ O3 add <-> cancels.Remove, signal
	nO3 := 0
	// signalled: after `at` every path to a return of fn calls signalWorkReady (sticky work-flag
	// idiom understood; extra = edges that cannot be taken after `at`). For an unexported helper
	// the obligation is lifted to its call sites; a helper with a bool result that returns true
	// on every path from the queueing site lets the caller's false outcome be discarded.
	var signalled func(fn *ssa.Function, at ssa.Instruction, extra an.EdgeSet, depth int) (ok, decided bool)
	signalled = func(fn *ssa.Function, at ssa.Instruction, extra an.EdgeSet, depth int) (bool, bool) {
		sig := an.Calls(fn, mSignal)
		blocked := map[ssa.Instruction]bool{}
		for _, s := range sig {
			blocked[s.(ssa.Instruction)] = true
		}
		if an.ReachesAnyReturn(fn, at, extra, blocked) == nil {
			return true, true
		}
		cut := c35FlagCut(fn, at, extra).Union(extra)
		if len(sig) > 0 && an.ReachesAnyReturn(fn, at, cut, blocked) == nil {
			return true, true
		}
		// not provable here: decided (a violation) at the original site, or where this
		// function has no signalWorkReady at all and cannot be lifted further
		final := depth == 0 || len(sig) == 0
		if depth >= 2 || fn.Parent() != nil {
			return false, final
		}
		if o, ok := fn.Object().(*types.Func); !ok || o.Exported() {
			return false, final
		}
		// does the helper report "work was queued" through a bool result?
		reportsTrue := false
		if res := fn.Signature.Results(); res.Len() == 1 {
			if b, ok := res.At(0).Type().Underlying().(*types.Basic); ok && b.Kind() == types.Bool {
				reportsTrue = true
				for _, r := range an.Returns(fn) {
					if !an.Reaches(fn, at, r, extra, nil) {
						continue
					}
					if k, ok := an.ConstOf(r.Results[0]); !ok || k.String() != "true" {
						reportsTrue = false
					}
				}
			}
		}
		n := 0
		for _, g := range fns {
			for _, call := range an.AllCalls(g) {
				if an.Callee(call).Static != fn {
					continue
				}
				if _, isCall := call.(*ssa.Call); !isCall {
					return false, false
				}
				n++
				ex := an.EdgeSet{}
				if reportsTrue {
					ex = an.BoolEdges(g, []ssa.Value{an.CallValue(call)}, false)
				}
				if ok, dec := signalled(g, call.(ssa.Instruction), ex, depth+1); !ok {
					return false, dec // through a helper: undecided shapes are not reported
				}
			}
		}
		return n > 0, true
	}
	signalCheck := func(fn *ssa.Function, at ssa.CallInstruction, what string) {
		name := an.FuncName(fn)
		ok, decided := signalled(fn, at.(ssa.Instruction), an.EdgeSet{}, 0)
		switch {
		case ok:
			c.OK("O3", "R-POST", name, what+"=>signalWorkReady", at.Pos(), "followed by signalWorkReady on every path (work-flag idiom and unexported helpers followed to their call sites)")
		case !decided:
			c.Note("C35 O3: %s in helper %s — signalWorkReady after the call sites could not be established statically (not decided)", what, name)
		default:
			c.Bad("O3", "R-POST", name, what+"=>signalWorkReady", at.Pos(),
				"after "+what+" a return is reachable without signalWorkReady(): the run loop is not woken, the want/cancel stays unsent until some unrelated event")
		}
	}
	for _, fn := range fns {
		if fn.Signature.Recv() != nil && an.TypeIs(fn.Signature.Recv().Type(), c35MQ, R.recallName) {
			continue
		}
		name := an.FuncName(fn)
		for _, add := range an.Calls(fn, mRecAdd) {
			l, _ := recvList(add)
			if l == nil {
				continue
			}
			nO3++
			k := an.Args(add)[0]
			var rm []ssa.Instruction
			for _, r := range an.Calls(fn, mSetRemove) {
				if recvCancels(r) && an.SameObj(an.Args(r)[0], k) {
					rm = append(rm, r.(ssa.Instruction))
				}
			}
			c.Check(an.Around(fn, add.(ssa.Instruction), rm), "O3", "R-PAIR", name, c35Role(l)+".add=>cancels.Remove", add.Pos(),
				"adding a want clears a pending cancel for the same CID",
				"a want is added to "+c35Role(l)+" without cancels.Remove(c) for the same CID on every path: a stale pending cancel is sent after (or with) the want and the peer drops a CID the client still wants")
			signalCheck(fn, add, c35Role(l)+".add")
		}
		for _, add := range an.Calls(fn, mSetAdd) {
			if recvCancels(add) {
				nO3++
				signalCheck(fn, add, "cancels.Add")
			}
		}
	}
	c.Min("O3 want/cancel queueing sites", nO3, 3)

	// ------------------------------------------------------------ O4 lock-free fill / re-validation
	// entry identity: the local cell or slice element an entry / its Cid is read from
	entryKey := func(v ssa.Value) (string, ssa.Value) { // returns key and the slice it indexes (nil if unknown)
		u, ok := v.(*ssa.UnOp)
		if !ok || u.Op != token.MUL {
			return "", nil
		}
		addr := u.X
		if fa, ok := addr.(*ssa.FieldAddr); ok {
			if f, _ := an.FieldOf(fa); f != nil && f.Name() == "Cid" {
				addr = fa.X
			}
		}
		var elem ssa.Value
		switch a := addr.(type) {
		case *ssa.Alloc:
			// local copy of a slice element
			for _, r := range *a.Referrers() {
				if st, ok := r.(*ssa.Store); ok && st.Addr == ssa.Value(a) {
					if elem != nil {
						return "", nil
					}
					elem = st.Val
				}
			}
			if l, ok := elem.(*ssa.UnOp); ok && l.Op == token.MUL {
				if ia, ok := l.X.(*ssa.IndexAddr); ok {
					return fmt.Sprintf("cell:%p", a), ia.X
				}
			}
			return "", nil
		case *ssa.IndexAddr:
			return "elem:" + an.PathOf(a), a.X
		}
		return "", nil
	}
	rootSet := func(v ssa.Value) map[ssa.Value]bool {
		m := map[ssa.Value]bool{}
		for _, r := range an.Roots(v, nil) {
			m[r] = true
		}
		return m
	}
	sameRoots := func(a, b map[ssa.Value]bool) bool {
		if len(a) != len(b) || len(a) == 0 {
			return false
		}
		for k := range a {
			if !b[k] {
				return false
			}
		}
		return true
	}
	msgCall := func(call ssa.CallInstruction) bool { // method of the queue's outgoing message
		r := an.Recv(call)
		if r == nil {
			return false
		}
		_, ok := c35LoadOfField(r, fMsg)
		return ok
	}
	// counter advance: every path from fill to the re-validation slice passes an increment of its upper bound
	counted := func(fn *ssa.Function, fill ssa.Instruction, reval ssa.Value, srcRoots map[ssa.Value]bool) (bool, bool) { // ok, decided
		sl, ok := reval.(*ssa.Slice)
		if !ok {
			// look through a single local cell
			if u, isU := reval.(*ssa.UnOp); isU && u.Op == token.MUL {
				if a, isA := u.X.(*ssa.Alloc); isA {
					var only ssa.Value
					n := 0
					for _, r := range *a.Referrers() {
						if st, ok := r.(*ssa.Store); ok && st.Addr == ssa.Value(a) {
							only = st.Val
							n++
						}
					}
					if n == 1 {
						if s2, ok := only.(*ssa.Slice); ok {
							sl = s2
						}
					}
				}
			}
			if sl == nil {
				return true, true // whole snapshot re-validated: nothing to count
			}
		}
		if sl.High == nil {
			return true, true
		}
		incs := map[ssa.Instruction]bool{}
		isOne := func(v ssa.Value) bool {
			k, ok := an.ConstOf(v)
			return ok && k.String() == "1"
		}
		// a count returned by a package-local fill helper: the helper must advance it on every
		// path from each of its fills to its returns
		badHelper := false
		helperCounts := func(v ssa.Value) (res bool) {
			isFillHelper := false
			defer func() {
				if isFillHelper && !res {
					badHelper = true
				}
			}()
			e, ok := v.(*ssa.Extract)
			if !ok {
				return false
			}
			hc, ok := e.Tuple.(*ssa.Call)
			if !ok {
				return false
			}
			g := an.Callee(hc).Static
			if g == nil || g.Blocks == nil || g.Pkg != fn.Pkg {
				return false
			}
			// the fills of this helper that consume the snapshot in question (a parameter bound to it)
			relevant := map[ssa.Value]bool{}
			for i, a := range hc.Call.Args {
				if i < len(g.Params) && sameRoots(rootSet(a), srcRoots) {
					relevant[g.Params[i]] = true
				}
			}
			var fills []ssa.Instruction
			for _, a := range an.Calls(g, an.M(c35Msg, "BitSwapMessage", "AddEntry"), an.M(c35Msg, "BitSwapMessage", "Cancel")) {
				_, s2 := entryKey(an.Args(a)[0])
				if s2 == nil {
					continue
				}
				rs := rootSet(s2)
				if len(rs) != 1 {
					continue
				}
				for r := range rs {
					if relevant[r] {
						fills = append(fills, a.(ssa.Instruction))
					}
				}
			}
			if len(fills) == 0 {
				return false
			}
			isFillHelper = true
			for _, r := range an.Returns(g) {
				if e.Index >= len(r.Results) {
					return false
				}
				gi := map[ssa.Instruction]bool{}
				for _, root := range an.Roots(r.Results[e.Index], nil) {
					if b, ok := root.(*ssa.BinOp); ok && b.Op == token.ADD && (isOne(b.Y) || isOne(b.X)) {
						gi[b] = true
					}
				}
				for _, a := range fills {
					if an.Reaches(g, a, r, nil, gi) {
						return false
					}
				}
			}
			return true
		}
		if u, ok := sl.High.(*ssa.UnOp); ok && u.Op == token.MUL {
			cell := an.CellOf(u.X)
			if cell == nil {
				return false, false
			}
			for _, r := range *cell.Referrers() {
				st, ok := r.(*ssa.Store)
				if !ok || st.Addr != ssa.Value(cell) {
					continue
				}
				if b, ok := st.Val.(*ssa.BinOp); ok && b.Op == token.ADD && (isOne(b.Y) || isOne(b.X)) {
					incs[st] = true
				}
				if helperCounts(st.Val) {
					incs[st] = true
				}
			}
		} else {
			highRoots := an.Roots(sl.High, nil)
			for i := 0; i < len(highRoots); i++ { // look through min(count, len(...))
				if mc, ok := an.IsBuiltinCall(highRoots[i], "min"); ok {
					for _, a := range mc.Call.Args {
						highRoots = append(highRoots, an.Roots(a, nil)...)
					}
				}
			}
			for _, r := range highRoots {
				if b, ok := r.(*ssa.BinOp); ok && b.Op == token.ADD && (isOne(b.Y) || isOne(b.X)) {
					incs[b] = true
				}
				if helperCounts(r) {
					if in, ok := r.(ssa.Instruction); ok {
						incs[in] = true
					}
				}
			}
		}
		if badHelper {
			return false, true // the fill helper returns a count it does not advance with every fill
		}
		if len(incs) == 0 {
			return false, false
		}
		return !an.Reaches(fn, fill, sl, nil, incs), true
	}
	// re-validation sites for a snapshot: in fn itself, or in a package-local helper
	// that is handed the snapshot (or a sub-slice of it) as an argument
	type revalSite struct {
		g     *ssa.Function       // function containing the re-validation
		call  ssa.CallInstruction // markSent / cancels.Has
		slice ssa.Value           // the re-validated slice as seen in fn (bounds the count)
	}
	findRevals := func(fn *ssa.Function, srcRoots map[ssa.Value]bool, m an.Matcher, accept func(ssa.CallInstruction) bool) []revalSite {
		var out []revalSite
		for _, call := range an.Calls(fn, m) {
			if !accept(call) {
				continue
			}
			if _, s2 := entryKey(an.Args(call)[0]); s2 != nil && sameRoots(rootSet(s2), srcRoots) {
				out = append(out, revalSite{fn, call, s2})
			}
		}
		for _, cs := range an.AllCalls(fn) {
			g := an.Callee(cs).Static
			if g == nil || g == fn || g.Pkg == nil || g.Pkg != fn.Pkg || g.Blocks == nil {
				continue
			}
			if _, isGo := cs.(*ssa.Go); isGo {
				continue
			}
			for i, a := range cs.Common().Args {
				if i >= len(g.Params) || !sameRoots(rootSet(a), srcRoots) {
					continue
				}
				for _, call := range an.Calls(g, m) {
					if !accept(call) {
						continue
					}
					_, s2 := entryKey(an.Args(call)[0])
					if s2 == nil {
						continue
					}
					rs := rootSet(s2)
					if len(rs) == 1 && rs[g.Params[i]] {
						out = append(out, revalSite{g, call, a})
					}
				}
			}
		}
		return out
	}
	// roots followed into package-local callees' results (a snapshot taken by a helper)
	var expandRoots func(v ssa.Value, depth int) []ssa.Value
	expandRoots = func(v ssa.Value, depth int) []ssa.Value {
		var out []ssa.Value
		for _, r := range an.Roots(v, nil) {
			idx := 0
			var call *ssa.Call
			switch x := r.(type) {
			case *ssa.Extract:
				call, _ = x.Tuple.(*ssa.Call)
				idx = x.Index
			case *ssa.Call:
				call = x
			}
			if call != nil && depth < 3 {
				if g := an.Callee(call).Static; g != nil && g.Blocks != nil && g.Pkg != nil && g.Pkg.Pkg.Path() == an.Mod+"/"+c35MQ {
					for _, ret := range an.Returns(g) {
						if idx < len(ret.Results) {
							out = append(out, expandRoots(ret.Results[idx], depth+1)...)
						}
					}
					continue
				}
			}
			out = append(out, r)
		}
		return out
	}
	// liftFill: the snapshot consumed by a fill is a parameter of an unexported helper with a single
	// call site: return the argument, the caller and the call instruction
	liftFill := func(fn *ssa.Function, src ssa.Value, srcRoots map[ssa.Value]bool) (ssa.Value, *ssa.Function, ssa.Instruction, bool) {
		if fn.Parent() != nil || len(srcRoots) != 1 {
			return nil, nil, nil, false
		}
		for r := range srcRoots {
			par, isPar := r.(*ssa.Parameter)
			if !isPar {
				return nil, nil, nil, false
			}
			pi := -1
			for i, q := range fn.Params {
				if q == par {
					pi = i
				}
			}
			var sites []ssa.CallInstruction
			for _, g := range fns {
				for _, cs := range an.AllCalls(g) {
					if an.Callee(cs).Static == fn {
						sites = append(sites, cs)
					}
				}
			}
			if pi >= 0 && len(sites) == 1 && pi < len(sites[0].Common().Args) {
				cs := sites[0]
				return cs.Common().Args[pi], cs.Parent(), cs.(ssa.Instruction), true
			}
		}
		return nil, nil, nil, false
	}
	nO4 := 0
	for _, fn := range fns {
		name := an.FuncName(fn)
		// wants
		for _, fill := range an.Calls(fn, an.M(c35Msg, "BitSwapMessage", "AddEntry")) {
			if !msgCall(fill) {
				continue
			}
			nO4++
			_, src := entryKey(an.Args(fill)[0])
			if src == nil {
				c.Problem("undecided: C35 O4 cannot identify the snapshot entry given to msg.AddEntry in %s", name)
				continue
			}
			srcRoots := rootSet(src)
			// the list the snapshot was taken from
			var list *types.Var
			for _, r := range expandRoots(src, 0) {
				if call, ok := an.IsCallTo(r, mWlEntries); ok {
					if l, _, ok := recvSub(call, fPending); ok && l != nil {
						list = l
					}
				}
			}
			// the fill may sit in an unexported helper that is handed the snapshot: judge it at the call site
			chkFn, chkAt := fn, fill.(ssa.Instruction)
			if list == nil {
				if s2, f2, at2, ok := liftFill(fn, src, srcRoots); ok {
					src, srcRoots, chkFn, chkAt = s2, rootSet(s2), f2, at2
					for _, r2 := range expandRoots(src, 0) {
						if call, ok := an.IsCallTo(r2, mWlEntries); ok {
							if l, _, ok := recvSub(call, fPending); ok && l != nil {
								list = l
							}
						}
					}
				}
			}
			if list == nil {
				c.Bad("O4", "R-FLOW", name, "AddEntry<=pending.Entries", fill.Pos(), "an entry is put into the outgoing message that does not come from a snapshot of a recall list's pending wants")
				continue
			}
			cons := "AddEntry(" + c35Role(list) + ")"
			c35EntryArgs(c, fn, fill, cons)
			var reval ssa.CallInstruction
			var revalSlice ssa.Value
			revalFn := fn
			wrongList := ""
			for _, rs := range findRevals(chkFn, srcRoots, mMarkSent, func(ssa.CallInstruction) bool { return true }) {
				if l, _ := recvList(rs.call); l == list {
					reval, revalSlice, revalFn = rs.call, rs.slice, rs.g
				} else if l != nil {
					wrongList = c35Role(l)
				}
			}
			if reval == nil {
				why := "no markSent re-validation runs over the same snapshot"
				if wrongList != "" {
					why = "the snapshot of " + c35Role(list) + " is marked sent on " + wrongList
				}
				c.Bad("O4", "R-PAIR", name, cons+"=>markSent", fill.Pos(), why+": wants put into the message lock-free are never re-checked/recorded as sent, a concurrent cancel leaves them active at the peer")
				continue
			}
			c.OK("O4", "R-PAIR", name, cons+"=>markSent", fill.Pos(), "snapshot re-validated with markSent on the same list")
			mk, _ := entryKey(an.Args(reval)[0])
			okFail := onOutcome(revalFn, reval, false, func(call ssa.CallInstruction) bool {
				if !an.M(c35Msg, "BitSwapMessage", "Remove").Match(an.Callee(call)) || !msgCall(call) {
					return false
				}
				k2, _ := entryKey(an.Args(call)[0])
				return k2 != "" && k2 == mk
			})
			c.Check(okFail, "O4", "R-POST", name, cons+":markSent-false=>msg.Remove", reval.Pos(),
				"a want that is no longer pending is taken out of the message",
				"when markSent fails (the want was cancelled or changed while the message was built) the entry is not removed from the outgoing message on every path: a cancelled want is sent and stays active at the peer")
			okCnt, decided := counted(chkFn, chkAt, revalSlice, srcRoots)
			if !decided {
				c.Note("C35 O4: the fill counter bounding the re-validation of %s in %s has a shape that is not understood (not decided)", c35Role(list), name)
			} else {
				c.Check(okCnt, "O4", "R-PAIR", name, cons+"=>count++", fill.Pos(),
					"the fill counter is advanced on every path from AddEntry to the re-validation",
					"an entry can be put into the message without advancing the counter that bounds the re-validation loop (e.g. on the size-limit exit): it is sent but never marked sent, so a later cancel produces no CANCEL")
			}
		}
		// cancels
		for _, fill := range an.Calls(fn, an.M(c35Msg, "BitSwapMessage", "Cancel")) {
			if !msgCall(fill) {
				continue
			}
			nO4++
			_, src := entryKey(an.Args(fill)[0])
			if src == nil {
				c.Problem("undecided: C35 O4 cannot identify the snapshot key given to msg.Cancel in %s", name)
				continue
			}
			srcRoots := rootSet(src)
			fromKeys := false
			chkFn, chkAt := fn, fill.(ssa.Instruction)
			keysFrom := func(v ssa.Value) bool {
				for _, r := range expandRoots(v, 0) {
					if call, ok := an.IsCallTo(r, mSetKeys); ok && recvCancels(call) {
						return true
					}
				}
				return false
			}
			fromKeys = keysFrom(src)
			if !fromKeys {
				if s2, f2, at2, ok := liftFill(fn, src, srcRoots); ok && keysFrom(s2) {
					src, srcRoots, chkFn, chkAt, fromKeys = s2, rootSet(s2), f2, at2, true
				}
			}
			if !fromKeys {
				c.Bad("O4", "R-FLOW", name, "Cancel<=cancels.Keys", fill.Pos(), "a cancel is put into the outgoing message that does not come from a snapshot of the pending cancels")
				continue
			}
			var reval ssa.CallInstruction
			var revalSlice ssa.Value
			revalFn := fn
			for _, rs := range findRevals(chkFn, srcRoots, mSetHas, recvCancels) {
				reval, revalSlice, revalFn = rs.call, rs.slice, rs.g
			}
			if reval == nil {
				c.Bad("O4", "R-PAIR", name, "Cancel=>cancels.Has", fill.Pos(), "cancels put into the message lock-free are not re-validated against the pending cancels under the lock: a want re-added meanwhile is cancelled at the peer although the client wants it")
				continue
			}
			c.OK("O4", "R-PAIR", name, "Cancel=>cancels.Has", fill.Pos(), "cancel snapshot re-validated under the lock")
			hk, _ := entryKey(an.Args(reval)[0])
			okFail := onOutcome(revalFn, reval, false, func(call ssa.CallInstruction) bool {
				if !an.M(c35Msg, "BitSwapMessage", "Remove").Match(an.Callee(call)) || !msgCall(call) {
					return false
				}
				k2, _ := entryKey(an.Args(call)[0])
				return k2 != "" && k2 == hk
			})
			c.Check(okFail, "O4", "R-POST", name, "Cancel:cancels.Has-false=>msg.Remove", reval.Pos(),
				"a cancel that was withdrawn is taken out of the message",
				"when the pending cancel has disappeared (the CID is wanted again) the CANCEL is not removed from the outgoing message on every path: the peer drops a CID the client still wants")
			okDone := onOutcome(revalFn, reval, true, func(call ssa.CallInstruction) bool {
				if !mSetRemove.Match(an.Callee(call)) || !recvCancels(call) {
					return false
				}
				k2, _ := entryKey(an.Args(call)[0])
				return k2 != "" && k2 == hk
			})
			c.Check(okDone, "O4", "R-POST", name, "Cancel:cancels.Has-true=>cancels.Remove", reval.Pos(),
				"a cancel that goes out is cleared from the pending cancels",
				"a cancel that is sent is not removed from the pending cancels on every path: it is re-sent with every message and can cancel a later re-request at the peer")
			okCnt, decided := counted(chkFn, chkAt, revalSlice, srcRoots)
			if !decided {
				c.Note("C35 O4: the fill counter bounding the re-validation of cancels in %s has a shape that is not understood (not decided)", name)
			} else {
				c.Check(okCnt, "O4", "R-PAIR", name, "Cancel=>count++", fill.Pos(),
					"the cancel counter is advanced on every path from Cancel to the re-validation",
					"a cancel can be put into the message without advancing the counter that bounds the re-validation loop: it is sent but stays pending and unchecked")
			}
		}
	}
	c.Min("O4 lock-free fill sites (AddEntry/Cancel on mq.msg)", nO4, 3)

	// ------------------------------------------------------------ O5 wantlist / recallWantlist internals
	runC35Wantlist(c)
	runC35Send(c, fns, fMsg)
	if rm := R.remove; rm != nil {
		k := rm.Params[1]
		has := map[string]bool{}
		for _, call := range an.Calls(rm, mWlRemove, mWlRemoveType) {
			for _, sub := range []*types.Var{fPending, fSent} {
				if _, b, ok := recvSub(call, sub); ok && b == ssa.Value(rm.Params[0]) && an.SameObj(an.Args(call)[0], k) {
					if mWlRemove.Match(an.Callee(call)) {
						has[c35Role(sub)] = true
					}
				}
			}
		}
		for _, call := range an.Calls(rm, an.M("builtin", "", "delete")) {
			a := call.Common().Args
			if b, ok := c35LoadOfField(a[0], fSentAt); ok && b == ssa.Value(rm.Params[0]) && an.SameObj(a[1], k) {
				has["sentAt"] = true
			}
		}
		for _, n := range []string{"pending", "sent", "sentAt"} {
			c.Check(has[n], "O5", "R-PAIR", an.FuncName(rm), "remove-clears-"+n, rm.Pos(), "remove(c) clears "+n,
				"recallWantlist.remove(c) does not unconditionally clear "+n+" for c: a cancelled want stays tracked ("+n+") and is re-sent or mis-measured later")
		}
	}
	if ms := R.markSent; ms != nil {
		var rt []ssa.CallInstruction
		for _, call := range an.Calls(ms, mWlRemoveType) {
			if _, b, ok := recvSub(call, fPending); ok && b == ssa.Value(ms.Params[0]) {
				rt = append(rt, call)
			}
		}
		n := 0
		for _, call := range an.Calls(ms, mWlAdd) {
			if _, b, ok := recvSub(call, fSent); !ok || b != ssa.Value(ms.Params[0]) {
				continue
			}
			n++
			var vals []ssa.Value
			okArgs := false
			for _, r := range rt {
				vals = append(vals, an.CallValue(r))
				ra, aa := an.Args(r), an.Args(call)
				if an.SameObj(ra[0], aa[0]) && an.SameObj(ra[1], aa[2]) {
					okArgs = true
				}
			}
			last := func(v ssa.Value) string { s, _ := an.LastComp(v); return s }
			aa := an.Args(call)
			okArgs = okArgs && last(aa[0]) == "Cid" && last(aa[1]) == "Priority" && last(aa[2]) == "WantType"
			c.Check(len(rt) > 0 && an.GuardedBy(ms, nil, call.(ssa.Instruction), an.BoolEdges(ms, vals, true)) && okArgs, "O5", "R-DOM", an.FuncName(ms), "sent.Add<=pending.RemoveType-true", call.Pos(),
				"a want is recorded as sent only where it was still pending, with the same CID and type",
				"markSent adds to `sent` without the true edge of pending.RemoveType for the same CID and want type (or with other fields): a want cancelled meanwhile is recorded as sent, or the sent record differs from what was pending")
		}
		c.Min("O5 sent.Add in markSent", n, 1)
		for _, r := range an.Returns(ms) {
			if k, ok := an.ConstOf(r.Results[0]); ok && k.String() == "true" {
				var vals []ssa.Value
				for _, x := range rt {
					vals = append(vals, an.CallValue(x))
				}
				c.Check(an.GuardedBy(ms, nil, r, an.BoolEdges(ms, vals, true)), "O5", "R-DOM", an.FuncName(ms), "return-true<=pending.RemoveType-true", r.Pos(),
					"markSent reports success only where the want was pending",
					"markSent can return true although pending.RemoveType failed: the caller keeps a cancelled want in the outgoing message")
			}
		}
	}

	// ------------------------------------------------------------ O6 sent entries are only dropped with the want
	nO6 := 0
	for _, fn := range fns {
		name := an.FuncName(fn)
		for _, call := range an.Calls(fn, mWlRemove, mWlRemoveType) {
			l, base, ok := recvSub(call, fSent)
			if !ok {
				continue
			}
			nO6++
			k := an.Args(call)[0]
			var drops []ssa.Instruction
			for _, d := range an.Calls(fn, mWlRemove, mWlRemoveType) {
				l2, b2, ok := recvSub(d, fPending)
				if ok && l2 == l && an.SameObj(b2, base) && an.SameObj(an.Args(d)[0], k) {
					drops = append(drops, d.(ssa.Instruction))
				}
			}
			c.Check(an.Around(fn, call.(ssa.Instruction), drops), "O6", "R-PAIR", name, "sent.Remove=>pending.Remove", call.Pos(),
				"a sent want is un-tracked only together with its pending entry (the want is given up)",
				"a want is removed from a `sent` list while it stays wanted (no removal from `pending` of the same list for the same CID): the peer still has it, but AddCancels decides from sent.Has whether to send a CANCEL, so a cancel arriving before the re-send is silently dropped and the want stays active at the peer")
		}
	}
	c.Min("O6 removals from a sent list", nO6, 2)
}

// runC35Wantlist: package client/wantlist — cache invalidation and type rules.
func runC35Wantlist(c *an.Ctx) {
	p := c.P
	var fSet, fCached *types.Var
	if wn := p.Named(c35WL, "Wantlist"); wn != nil {
		st := wn.Underlying().(*types.Struct)
		for i := 0; i < st.NumFields(); i++ {
			switch st.Field(i).Type().Underlying().(type) {
			case *types.Map:
				fSet = st.Field(i) // the want set
			case *types.Slice:
				fCached = st.Field(i) // the memoized, sorted entry list
			}
		}
	}
	if !c.Need(fSet != nil && fCached != nil, "wantlist.Wantlist.{set,cached}") {
		return
	}
	fns := p.PkgFuncs(c35WL)
	n := 0
	for _, fn := range fns {
		name := an.FuncName(fn)
		check := func(in ssa.Instruction, base ssa.Value, what string) {
			if an.IsFresh(base) {
				return
			}
			n++
			var resets []ssa.Instruction
			for _, st := range an.StoresToField(fn, fCached, base) {
				if an.IsNilConst(st.Val) {
					resets = append(resets, st)
				}
			}
			c.Check(an.Around(fn, in, resets), "O5", "R-PAIR", name, what+"=>cached=nil", in.Pos(),
				"mutation of the want set drops the memoized entry slice",
				"Wantlist.set is mutated ("+what+") without resetting Wantlist.cached on every path: Entries() keeps returning the stale snapshot, so new wants are never put into a message or removed wants keep being sent")
		}
		an.Instrs(fn, func(in ssa.Instruction) {
			switch x := in.(type) {
			case *ssa.MapUpdate:
				if b, ok := c35LoadOfField(x.Map, fSet); ok {
					check(x, b, "set[k]=e")
				}
			case *ssa.Call:
				if bi, ok := x.Call.Value.(*ssa.Builtin); ok && (bi.Name() == "delete" || bi.Name() == "clear") {
					if b, ok := c35LoadOfField(x.Call.Args[0], fSet); ok {
						check(x, b, bi.Name()+"(set)")
					}
				}
			case *ssa.Store:
				if f, b := an.FieldOf(x.Addr); f == fSet {
					check(x, b, "set=")
				}
			}
		})
	}
	c.Min("O5 mutations of Wantlist.set", n, 2)

	// type-upgrade rule (R-CMP): constants from the pb package
	pbPkg := p.SSA.ImportedPackage(an.Mod + "/bitswap/message/pb")
	var kBlock, kHave constant.Value
	if pbPkg != nil {
		if k, ok := pbPkg.Pkg.Scope().Lookup("Message_Wantlist_Block").(*types.Const); ok {
			kBlock = k.Val()
		}
		if k, ok := pbPkg.Pkg.Scope().Lookup("Message_Wantlist_Have").(*types.Const); ok {
			kHave = k.Val()
		}
	}
	if !c.Need(kBlock != nil && kHave != nil, "pb.Message_Wantlist_Block / Message_Wantlist_Have constants") {
		return
	}
	// the exported entry points record each key with the type their signature promises:
	// AddWants(wantBlocks, wantHaves) -> Block / Have, AddBroadcastWantHaves(wantHaves) -> Have
	if R := c35R; R != nil && R.add != nil {
		type lists map[*ssa.Parameter]string
		var visit func(fn *ssa.Function, ls lists, api string, depth int)
		visit = func(fn *ssa.Function, ls lists, api string, depth int) {
			for _, call := range an.AllCalls(fn) {
				g := an.Callee(call).Static
				if g == nil {
					continue
				}
				args := call.Common().Args
				if g == R.add && len(args) == 4 {
					u, ok := args[1].(*ssa.UnOp)
					if !ok || u.Op != token.MUL {
						continue
					}
					ia, ok := u.X.(*ssa.IndexAddr)
					if !ok {
						continue
					}
					par, ok := ia.X.(*ssa.Parameter)
					if !ok || ls[par] == "" {
						continue
					}
					k, isK := an.ConstOf(args[3])
					if !isK {
						continue
					}
					want := kBlock
					if ls[par] == "want-have" {
						want = kHave
					}
					c.Check(constant.Compare(k, token.EQL, want), "O3", "R-TABLE", api, "recorded-type-of-"+ls[par]+"-list", call.Pos(),
						"keys of the "+ls[par]+" list are recorded with that want type",
						api+" records the keys of its "+ls[par]+" list with the other want type: the peer is asked for HAVE where a block was requested (the strongest requested type is never sent) or vice versa")
					continue
				}
				if depth >= 1 || g.Blocks == nil || g.Pkg != fn.Pkg {
					continue
				}
				sub := lists{}
				for i, a := range args {
					if par, ok := a.(*ssa.Parameter); ok && ls[par] != "" && i < len(g.Params) {
						sub[g.Params[i]] = ls[par]
					}
				}
				if len(sub) > 0 {
					visit(g, sub, api, depth+1)
				}
			}
		}
		if aw := p.Func(c35MQ, "MessageQueue", "AddWants"); aw != nil && len(aw.Params) == 3 {
			visit(aw, lists{aw.Params[1]: "want-block", aw.Params[2]: "want-have"}, an.FuncName(aw), 0)
		}
		if ab := p.Func(c35MQ, "MessageQueue", "AddBroadcastWantHaves"); ab != nil && len(ab.Params) == 2 {
			visit(ab, lists{ab.Params[1]: "want-have"}, an.FuncName(ab), 0)
		}
	}
	// edges on which "subject == k" is known false, for subject satisfying pred
	neqEdges := func(fn *ssa.Function, pred func(ssa.Value) bool, k constant.Value) an.EdgeSet {
		return an.CondEdges(fn, func(atom ssa.Value) (bool, bool) {
			b, ok := atom.(*ssa.BinOp)
			if !ok || (b.Op != token.EQL && b.Op != token.NEQ) {
				return false, false
			}
			var subj, kv ssa.Value
			if _, isK := b.Y.(*ssa.Const); isK {
				subj, kv = b.X, b.Y
			} else if _, isK := b.X.(*ssa.Const); isK {
				subj, kv = b.Y, b.X
			} else {
				return false, false
			}
			cv, _ := an.ConstOf(kv)
			if cv == nil || !pred(subj) {
				return false, false
			}
			// two-valued enum: != k  <=>  == other
			isK := constant.Compare(cv, token.EQL, k)
			if !isK {
				other := kBlock
				if constant.Compare(k, token.EQL, kBlock) {
					other = kHave
				}
				if !constant.Compare(cv, token.EQL, other) {
					return false, false
				}
			}
			eq := b.Op == token.EQL
			// atom true means subj == cv (eq) / subj != cv (!eq)
			// we want edges where subj != k
			if isK {
				return !eq, eq
			}
			// cv is the other value: subj == other => subj != k
			return eq, !eq
		})
	}
	isExistingType := func(fn *ssa.Function) func(ssa.Value) bool {
		return func(v ssa.Value) bool { // WantType of the entry looked up in w.set
			var f *types.Var
			var base ssa.Value
			switch x := v.(type) {
			case *ssa.Field:
				f, base = an.FieldOf(x)
			case *ssa.UnOp:
				if x.Op == token.MUL {
					f, base = an.FieldOf(x.X)
				}
			}
			if f == nil || f.Name() != "WantType" {
				return false
			}
			var srcs []ssa.Value
			if a, ok := base.(*ssa.Alloc); ok {
				for _, r := range *a.Referrers() {
					if st, ok := r.(*ssa.Store); ok && st.Addr == ssa.Value(a) {
						srcs = append(srcs, an.Roots(st.Val, nil)...)
					}
				}
			} else {
				srcs = an.Roots(base, nil)
			}
			if len(srcs) == 0 {
				return false
			}
			for _, r := range srcs {
				if e, ok := r.(*ssa.Extract); ok {
					if lk, ok := e.Tuple.(*ssa.Lookup); ok {
						if _, ok := c35LoadOfField(lk.X, fSet); ok {
							continue
						}
					}
				}
				if lk, ok := r.(*ssa.Lookup); ok {
					if _, ok := c35LoadOfField(lk.X, fSet); ok {
						continue
					}
				}
				return false
			}
			return true
		}
	}
	isParamType := func(fn *ssa.Function) func(ssa.Value) bool {
		return func(v ssa.Value) bool {
			par, ok := v.(*ssa.Parameter)
			return ok && an.TypeIs(par.Type(), "bitswap/message/pb", "Message_Wantlist_WantType")
		}
	}
	foundEdges := func(fn *ssa.Function, want bool) an.EdgeSet {
		var oks []ssa.Value
		an.Instrs(fn, func(in ssa.Instruction) {
			if lk, ok := in.(*ssa.Lookup); ok && lk.CommaOk {
				if _, ok := c35LoadOfField(lk.X, fSet); ok {
					for _, r := range *lk.Referrers() {
						if e, ok := r.(*ssa.Extract); ok && e.Index == 1 {
							oks = append(oks, e)
						}
					}
				}
			}
		})
		return an.BoolEdges(fn, oks, want)
	}
	// mutation sites inside a method: direct or through the package's put/delete helpers
	mutSites := func(fn *ssa.Function, kind string) []ssa.Instruction {
		var out []ssa.Instruction
		an.Instrs(fn, func(in ssa.Instruction) {
			switch x := in.(type) {
			case *ssa.MapUpdate:
				if _, ok := c35LoadOfField(x.Map, fSet); ok && kind == "put" {
					out = append(out, x)
				}
			case *ssa.Call:
				if bi, ok := x.Call.Value.(*ssa.Builtin); ok && bi.Name() == "delete" && kind == "delete" {
					if _, ok := c35LoadOfField(x.Call.Args[0], fSet); ok {
						out = append(out, x)
					}
				}
				if g := an.Callee(x).Static; g != nil && g != fn && g.Pkg == fn.Pkg && g.Signature.Recv() != nil {
					// helper that does nothing but the mutation
					n := 0
					an.Instrs(g, func(i2 ssa.Instruction) {
						switch y := i2.(type) {
						case *ssa.MapUpdate:
							if _, ok := c35LoadOfField(y.Map, fSet); ok && kind == "put" {
								n++
							}
						case *ssa.Call:
							if bi, ok := y.Call.Value.(*ssa.Builtin); ok && bi.Name() == "delete" && kind == "delete" {
								if _, ok := c35LoadOfField(y.Call.Args[0], fSet); ok {
									n++
								}
							}
						}
					})
					if n > 0 {
						out = append(out, x)
					}
				}
			}
		})
		return out
	}
	if add := p.Func(c35WL, "Wantlist", "Add"); c.Need(add != nil, "Wantlist.Add") {
		puts := mutSites(add, "put")
		c.Min("O5 put sites in Wantlist.Add", len(puts), 1)
		absent := foundEdges(add, false)
		q1 := absent.Union(neqEdges(add, isExistingType(add), kBlock))
		q2 := absent.Union(neqEdges(add, isParamType(add), kHave))
		// the upgrade itself: an entry that is present (as want-have) can still be replaced (by a want-block)
		if len(puts) > 0 && len(add.Blocks) > 0 && len(add.Blocks[0].Instrs) > 0 {
			first := add.Blocks[0].Instrs[0]
			up := false
			for _, s := range puts {
				if s == first || an.Reaches(add, first, s, absent, nil) {
					up = true
				}
			}
			c.Check(up, "O5", "R-EXH", an.FuncName(add), "present-entry-can-be-upgraded", add.Pos(),
				"Add can replace an entry that is already present (want-have upgraded to want-block)",
				"Wantlist.Add never replaces an entry that is already present: a want-block requested after a want-have for the same CID is dropped, the peer is never sent the strongest requested type")
		}
		for _, s := range puts {
			c.Check(an.GuardedBy(add, nil, s, q1), "O5", "R-CMP", an.FuncName(add), "put<=absent|existing!=Block", s.Pos(),
				"an existing want-block is never overwritten", "Wantlist.Add can overwrite an existing want-block entry (the put is reachable where the CID is present with type Block): a want-have downgrades a want-block, the strongest requested type is lost")
			c.Check(an.GuardedBy(add, nil, s, q2), "O5", "R-CMP", an.FuncName(add), "put<=absent|new!=Have", s.Pos(),
				"a want-have never replaces an existing entry", "Wantlist.Add lets a want-have replace an existing entry (the put is reachable where the CID is present and the new type is Have): priorities/types of recorded wants are clobbered by weaker requests")
		}
	}
	if rt := p.Func(c35WL, "Wantlist", "RemoveType"); c.Need(rt != nil, "Wantlist.RemoveType") {
		dels := mutSites(rt, "delete")
		c.Min("O5 delete sites in Wantlist.RemoveType", len(dels), 1)
		q := neqEdges(rt, isExistingType(rt), kBlock).Union(neqEdges(rt, isParamType(rt), kHave))
		for _, s := range dels {
			c.Check(an.GuardedBy(rt, nil, s, q), "O5", "R-CMP", an.FuncName(rt), "delete<=!(existing==Block&&type==Have)", s.Pos(),
				"removing a want-have never removes a want-block", "Wantlist.RemoveType deletes the entry where it is a want-block and the removal is for want-have: cancelling/marking a want-have drops the stronger want-block, which is then never (re)sent")
			for _, r := range an.Returns(rt) {
				_ = r
			}
		}
		for _, r := range an.Returns(rt) {
			if k, ok := an.ConstOf(r.Results[0]); ok && k.String() == "true" {
				c.Check(an.MustPrecede(rt, r, dels), "O5", "R-DOM", an.FuncName(rt), "return-true<=delete", r.Pos(),
					"RemoveType reports true only after deleting", "Wantlist.RemoveType can return true without deleting the entry: markSent records a want as sent while it also stays pending")
			}
		}
	}
	_ = strings.Join
}

// c35EntryArgs — O7: the arguments of msg.AddEntry describe one snapshot entry.
func c35EntryArgs(c *an.Ctx, fn *ssa.Function, fill ssa.CallInstruction, cons string) {
	name := an.FuncName(fn)
	args := an.Args(fill)
	if len(args) < 4 {
		return
	}
	cell := c36Cell(args[0])
	lc0, _ := an.LastComp(args[0])
	lc1, _ := an.LastComp(args[1])
	okCP := cell != nil && c36Cell(args[1]) == cell && lc0 == "Cid" && lc1 == "Priority"
	c.Check(okCP, "O7", "R-TABLE", name, cons+":Cid+Priority-of-same-entry", fill.Pos(),
		"the message entry carries Cid and Priority of the same snapshot entry",
		"msg.AddEntry is not given the Cid and the Priority of one and the same snapshot entry: a want is sent for another CID than the one that is later marked as sent")
	// want type
	if lc2, ok := an.LastComp(args[2]); ok && lc2 == "WantType" {
		c.Check(c36Cell(args[2]) == cell, "O7", "R-TABLE", name, cons+":WantType-of-same-entry", fill.Pos(),
			"the want type sent is the one recorded for that entry",
			"msg.AddEntry sends the WantType of a different entry than the one whose Cid it sends: the peer records a weaker/stronger want than the client asked for")
		return
	}
	// constant-formed type: Have exactly where the peer supports HAVE
	var sh *ssa.Parameter
	for _, q := range fn.Params {
		if b, ok := q.Type().Underlying().(*types.Basic); ok && b.Kind() == types.Bool {
			sh = q
		}
	}
	pbPkg := c.P.SSA.ImportedPackage(an.Mod + "/bitswap/message/pb")
	var kBlock, kHave constant.Value
	if pbPkg != nil {
		if k, ok := pbPkg.Pkg.Scope().Lookup("Message_Wantlist_Block").(*types.Const); ok {
			kBlock = k.Val()
		}
		if k, ok := pbPkg.Pkg.Scope().Lookup("Message_Wantlist_Have").(*types.Const); ok {
			kHave = k.Val()
		}
	}
	if sh == nil || kBlock == nil || kHave == nil {
		c.Problem("undecided: C35 O7 cannot relate the constant want type of %s in %s to a have-support flag", cons, name)
		return
	}
	supT, supF := an.BoolEdges(fn, []ssa.Value{sh}, true), an.BoolEdges(fn, []ssa.Value{sh}, false)
	ok, decided := true, true
	seen := map[ssa.Value]bool{}
	var walk func(v ssa.Value, from *ssa.BasicBlock, si int)
	walk = func(v ssa.Value, from *ssa.BasicBlock, si int) {
		switch x := v.(type) {
		case *ssa.Const:
			if x.Value == nil {
				decided = false
				return
			}
			need := supT
			if constant.Compare(x.Value, token.EQL, kBlock) {
				need = supF
			} else if !constant.Compare(x.Value, token.EQL, kHave) {
				decided = false
				return
			}
			if from == nil { // a plain constant: the call itself must sit under the flag
				if !an.GuardedBy(fn, nil, fill.(ssa.Instruction), need) {
					ok = false
				}
				return
			}
			if need[an.Edge{From: from, Succ: si}] {
				return
			}
			if !an.GuardedBy(fn, nil, from.Instrs[len(from.Instrs)-1], need) {
				ok = false
			}
		case *ssa.Phi:
			if seen[x] {
				return
			}
			seen[x] = true
			for i, e := range x.Edges {
				pred := x.Block().Preds[i]
				for sj, sb := range pred.Succs {
					if sb == x.Block() {
						walk(e, pred, sj)
					}
				}
			}
		default:
			decided = false
		}
	}
	walk(args[2], nil, 0)
	if !decided {
		c.Problem("undecided: C35 O7 want type of %s in %s is neither the entry's WantType nor a constant chosen by the have-support flag", cons, name)
		return
	}
	c.Check(ok, "O7", "R-CMP", name, cons+":const-type<=have-support", fill.Pos(),
		"a constant want type is Have where the peer supports HAVE and Block where it does not",
		"the constant want type given to msg.AddEntry is Block on a path where the peer supports HAVE, or Have where it does not: broadcast want-haves go out as want-blocks (every peer that has the block sends it) or peers without HAVE support get want-haves they never answer")
}

// runC35Send — O7: discipline of the send loop around the reusable message.
func runC35Send(c *an.Ctx, fns []*ssa.Function, fMsg *types.Var) {
	R := c35R
	if R == nil || len(R.extract) == 0 || len(R.signal) == 0 {
		c.Need(false, "builder of the outgoing message (MessageQueue method returning BitSwapMessage) and work-ready notifier")
		return
	}
	mExtracts := c35Matchers(R.extract)
	mReset := an.M(c35Msg, "BitSwapMessage", "Reset")
	mSignal := an.M(c35MQ, "MessageQueue", R.signal[0].Name())
	n := 0
	for _, fn := range fns {
		exts := an.Calls(fn, mExtracts...)
		if len(exts) == 0 {
			continue
		}
		n++
		name := an.FuncName(fn)
		resets := map[ssa.Instruction]bool{}
		var deferred []ssa.Instruction
		for _, r := range an.Calls(fn, mReset) {
			if _, ok := c35LoadOfField(an.Recv(r), fMsg); !ok {
				continue
			}
			if _, isDefer := r.(*ssa.Defer); isDefer {
				deferred = append(deferred, r.(ssa.Instruction))
			} else {
				resets[r.(ssa.Instruction)] = true
			}
		}
		okLoop, okExit := true, true
		for _, x := range exts {
			for _, x2 := range exts {
				if an.Reaches(fn, x.(ssa.Instruction), x2.(ssa.Instruction), nil, resets) {
					okLoop = false
				}
			}
			covered := false
			for _, d := range deferred {
				if an.Dominates(d, x.(ssa.Instruction)) {
					covered = true
				}
			}
			if !covered && an.ReachesAnyReturn(fn, x.(ssa.Instruction), nil, resets) != nil {
				okExit = false
			}
		}
		c.Check(okLoop, "O7", "R-POST", name, "extract=>Reset=>extract", fn.Pos(),
			"the outgoing message is Reset before it is filled again",
			"extractOutgoingMessage can be called again without msg.Reset since the previous call: the reused message still holds the previous entries; a sticky CANCEL of the previous round overrides a want re-added meanwhile (addEntry never clears Cancel), so the peer drops a CID the client wants, and old wants are re-sent")
		c.Check(okExit, "O7", "R-POST", name, "extract=>Reset-before-return", fn.Pos(),
			"the outgoing message is Reset on every way out after it was filled",
			"a return is reachable after extractOutgoingMessage without msg.Reset (no deferred Reset registered before, none on the path): the next send starts with the stale entries of this one")
		// leftover work is signalled
		noPendingIn := func(g *ssa.Function) an.EdgeSet {
			var pw, hm []ssa.Value
			for _, call := range an.Calls(g, c35Matchers(R.workCount)...) {
				if cv := an.CallValue(call); cv != nil {
					pw = append(pw, cv)
				}
			}
			for _, call := range an.Calls(g, an.M(c35MQ, "MessageQueue", "HasMessage")) {
				if cv := an.CallValue(call); cv != nil {
					hm = append(hm, cv)
				}
			}
			isPW := func(v ssa.Value) bool {
				for _, x := range pw {
					if x == v {
						return true
					}
				}
				return false
			}
			return an.CondEdges(g, func(atom ssa.Value) (bool, bool) {
				b, ok := atom.(*ssa.BinOp)
				if !ok || !isPW(b.X) {
					return false, false
				}
				k, isK := an.ConstOf(b.Y)
				if !isK || k.Kind() != constant.Int {
					return false, false
				}
				kv, _ := constant.Int64Val(k)
				switch {
				case kv == 0 && (b.Op == token.EQL || b.Op == token.LEQ), kv == 1 && b.Op == token.LSS:
					return true, false
				case kv == 0 && (b.Op == token.NEQ || b.Op == token.GTR), kv == 1 && b.Op == token.GEQ:
					return false, true
				}
				return false, false
			}).Union(an.BoolEdges(g, hm, false))
		}
		noPending := noPendingIn(fn)
		var empties []ssa.Value
		for _, call := range an.Calls(fn, an.M(c35Msg, "BitSwapMessage", "Empty")) {
			if cv := an.CallValue(call); cv != nil {
				empties = append(empties, cv)
			}
		}
		cut := noPending.Union(an.BoolEdges(fn, empties, true))
		sig := map[ssa.Instruction]bool{}
		for _, s := range an.Calls(fn, mSignal) {
			sig[s.(ssa.Instruction)] = true
		}
		// a package-local helper that, on each of its returns, either found no pending work,
		// signalled, or tells its caller (bool true) to go round again, settles the obligation
		for _, call := range an.AllCalls(fn) {
			g := an.Callee(call).Static
			if g == nil || g == fn || g.Blocks == nil || g.Pkg == nil || g.Pkg != fn.Pkg || g.Parent() != nil {
				continue
			}
			if _, isCall := call.(*ssa.Call); !isCall {
				continue
			}
			gsig := map[ssa.Instruction]bool{}
			for _, s2 := range an.Calls(g, mSignal) {
				gsig[s2.(ssa.Instruction)] = true
			}
			gcut := noPendingIn(g)
			if len(gsig) == 0 || len(gcut) == 0 {
				continue
			}
			settles := true
			for _, r := range an.Returns(g) {
				if len(r.Results) == 1 {
					if k, ok := an.ConstOf(r.Results[0]); ok && k.String() == "true" {
						continue // caller is told to continue sending
					}
				}
				if an.Reaches(g, nil, r, gcut, gsig) {
					settles = false
				}
			}
			if !settles {
				continue
			}
			// the "continue" answer must really lead back to sending: its true edge may not reach a return without Reset/extract
			if cv := an.CallValue(call); cv != nil && g.Signature.Results().Len() == 1 {
				cut = cut.Union(an.BoolEdges(fn, []ssa.Value{cv}, false))
				// on the true outcome the loop goes on; returns reached that way are judged by the next SendMsg
				continue
			}
			sig[call.(ssa.Instruction)] = true
		}
		nSend := 0
		for _, call := range an.AllCalls(fn) {
			ci := an.Callee(call)
			if ci.Name != "SendMsg" || !ci.Invoke {
				continue
			}
			nSend++
			cutS := cut.Union(an.NilEdges(fn, an.ErrResult(call), false))
			c.Check(an.ReachesAnyReturn(fn, call.(ssa.Instruction), cutS, sig) == nil, "O7", "R-POST", name, "SendMsg-ok=>no-pending|signalWorkReady", call.Pos(),
				"after a successful send the function returns only with no pending work or after signalling the run loop",
				"after a successful SendMsg a return is reachable where pending work may remain (message size limit) and signalWorkReady() was not called: the rest of the wants/cancels stays unsent until some unrelated event wakes the queue")
		}
		c.Min("O7 SendMsg calls in "+name, nSend, 1)
	}
	c.Min("O7 send loops (callers of extractOutgoingMessage)", n, 1)
}
