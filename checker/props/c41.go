package props

import (
	"go/token"
	"go/types"
	"strings"

	"golang.org/x/tools/go/ssa"

	"verif/checker/an"
)

func init() {
	register("C41", Prop{
		Pkgs: []string{"./filestore"},
		Explain: "Decided (structural necessary condition of 'references stay inside the root'): " +
			"O1 every pb.DataObj that is serialised (proto.Marshal) for the filestore datastore gets its FilePath either from a URL reference (store reachable only where IsURL(<that path>) was true) or from filepath.Rel(<FileManager.root>, <the node's PosInfo.FullPath>) on Rel's nil-error edge AND on the accepting edge of a component-wise locality test of that relative path: filepath.IsLocal(rel) true, or rel != \"..\" together with !strings.HasPrefix(rel, \"../\"). String-prefix tests on the absolute path (filepath.HasPrefix, strings.HasPrefix) are not accepted as containment checks. The stored path is followed backwards through local variables and fields of local structs (every assignment), merges of branches (each alternative where its branch ends), string parameters of unexported helpers (every call site in the package; not when the helper is also used as a function value) and results of unexported (string, error) helpers (used on the nil-error edge; every path returned with a nil error). " +
			"O2 the reader that joins the root with a stored path is called only where IsURL(<stored path of that reference>) is false (the predicate that lets absolute paths be stored verbatim is the one that keeps them away from the file reader). " +
			"O3 the root field of FileManager is assigned only on an object under construction (allocated in the same function, or the parameter of an unexported helper that is such an object at every call site): the root the checks refer to is the configured one. " +
			"NOT decided: symlinked path components (the property is component-wise, not resolved), the read side (paths already stored by older versions), URL references (not files).",
		Assume:    []string{"filepath.Rel and filepath.IsLocal behave as documented (lexical)"},
		Technique: "source -> sanitizer -> sink over SSA: value provenance of the stored path (R-FLOW) and dominance by the sanitizer's accepting edge (R-DOM), callee identity (R-API)",
		Run:       runC41,
	})
}

// c41PathThrough makes the lexical slash conversions transparent.
var c41PathThrough = &an.FlowOpts{Through: func(c *ssa.Call) ([]ssa.Value, bool) {
	ci := an.Callee(c)
	if (ci.Pkg == "path/filepath" || ci.Pkg == "path") && (ci.Name == "ToSlash" || ci.Name == "FromSlash" || ci.Name == "Clean") {
		return []ssa.Value{c.Call.Args[0]}, true
	}
	return nil, false
}}

// c41Contained: the string value v (in fn), used at site, is the path of
// <full> relative to the root, established to be local. It is the result of
// filepath.Rel(root, full) on Rel's nil edge and on the accepting edge of a
// locality test, or the result of an unexported helper of which the same
// holds for every path it returns with a nil error (its <full> being the
// parameter that receives a full path at the call). Returns "" or the reason.
func c41Contained(fn *ssa.Function, v ssa.Value, site ssa.Instruction, fRoot *types.Var, isFull func(ssa.Value) bool, depth int) string {
	roots := an.Roots(v, c41PathThrough)
	if len(roots) == 0 {
		return "no value stored"
	}
	for _, r := range roots {
		e, isE := r.(*ssa.Extract)
		var rc *ssa.Call
		if isE {
			rc, _ = e.Tuple.(*ssa.Call)
		}
		if rc == nil || e.Index != 0 {
			return "the stored path is not the result of filepath.Rel: " + an.PathOf(r)
		}
		if ci := an.Callee(rc); !(ci.Pkg == "path/filepath" && ci.Name == "Rel") {
			// helper
			H := rc.Call.StaticCallee()
			if !an.IsLocalHelper(H) || depth > 2 || H.Signature.Results().Len() != 2 || !an.IsErrorType(H.Signature.Results().At(1).Type()) {
				return "the stored path is not the result of filepath.Rel: " + an.PathOf(r)
			}
			if !an.OnNilEdgeOf(fn, rc, site) {
				return "the path computed by " + H.Name() + " is used although it reported an error"
			}
			isFullH := func(x ssa.Value) bool {
				prm, ok := x.(*ssa.Parameter)
				return ok && prm.Parent() == H && isFull(c01First(an.Roots(rc.Call.Args[an.RawParamIndex(prm)], c41PathThrough)))
			}
			n := 0
			for _, ret := range an.Returns(H) {
				if !an.Reaches(H, nil, ret, nil, nil) || !c01PossiblySuccess(H, ret) {
					continue
				}
				n++
				if w := c41Contained(H, an.RetVal(ret, 0), ret, fRoot, isFullH, depth+1); w != "" {
					return "in " + H.Name() + ": " + w
				}
			}
			if n == 0 {
				return H.Name() + " never returns a path"
			}
			continue
		}
		for _, br := range an.Roots(rc.Call.Args[0], c41PathThrough) {
			if c02LoadOfField(br, fRoot) == nil {
				return "filepath.Rel is not taken relative to FileManager.root"
			}
		}
		for _, tr := range an.Roots(rc.Call.Args[1], c41PathThrough) {
			if !isFull(tr) {
				return "filepath.Rel is not applied to the node's PosInfo.FullPath"
			}
		}
		if !an.OnNilEdgeOf(fn, rc, site) {
			return "the relative path is used although filepath.Rel failed"
		}
		isRelVal := func(x ssa.Value) bool {
			rs := an.Roots(x, c41PathThrough)
			if len(rs) == 0 {
				return false
			}
			for _, rr := range rs {
				ex, isEx := rr.(*ssa.Extract)
				if !isEx || ex.Tuple != ssa.Value(rc) || ex.Index != 0 {
					return false
				}
			}
			return true
		}
		local := an.CallEdges(fn, an.M("path/filepath", "", "IsLocal"), 0, isRelVal, true)
		isDotDot := func(x ssa.Value) bool { k, isK := an.ConstOf(x); return isK && k.ExactString() == `".."` }
		notDotDot := an.RelEdges(fn, isRelVal, isDotDot, an.RelNE)
		var hp []ssa.Value
		for _, call := range an.Calls(fn, an.M("strings", "", "HasPrefix")) {
			args := call.Common().Args
			if k, isK := an.ConstOf(args[1]); isK && isRelVal(args[0]) && (k.ExactString() == `"../"` || k.ExactString() == `"..\\"`) {
				if cv := an.CallValue(call); cv != nil {
					hp = append(hp, cv)
				}
			}
		}
		notUnder := an.BoolEdges(fn, hp, false)
		byIsLocal := len(local) > 0 && an.GuardedBy(fn, rc, site, local)
		byExplicit := len(notDotDot) > 0 && len(notUnder) > 0 && an.GuardedBy(fn, rc, site, notDotDot) && an.GuardedBy(fn, rc, site, notUnder)
		if !byIsLocal && !byExplicit {
			return "the path relative to the root is stored without a component-wise locality test (filepath.IsLocal(rel), or rel != \"..\" && !strings.HasPrefix(rel, \"../\")); a string-prefix test of the absolute path accepts siblings such as <root>-other/x"
		}
	}
	return ""
}

// c41NotURLAt: site (in g) is reached only where IsURL(<dobj>.GetFilePath()) was
// false — tested in g itself, or, when g is an unexported helper that received
// the reference as a parameter, at every call site of g (the dispatch may sit
// in a caller of the function that opens the file).
func c41NotURLAt(pkgFns []*ssa.Function, pkg string, g *ssa.Function, site ssa.Instruction, dobj ssa.Value, depth int) bool {
	if dobj == nil {
		return false
	}
	notURL := an.CallEdges(g, an.Matcher{Pkg: pkg, Name: "IsURL"}, 0, func(v ssa.Value) bool {
		gc, ok := an.IsCallTo(c01First(an.Roots(v, nil)), an.M("filestore/pb", "DataObj", "GetFilePath"))
		return ok && an.SameObj(an.Recv(gc), dobj)
	}, false)
	if len(notURL) > 0 && an.GuardedBy(g, nil, site, notURL) {
		return true
	}
	prm, isP := c01First(an.Roots(dobj, nil)).(*ssa.Parameter)
	if !isP || prm.Parent() != g || !an.IsLocalHelper(g) || depth > 3 {
		return false
	}
	sites := an.CallSitesOf(pkgFns, g)
	if len(sites) == 0 {
		return false
	}
	for _, cs := range sites {
		if _, isCall := cs.Call.(*ssa.Call); !isCall {
			return false
		}
		if !c41NotURLAt(pkgFns, pkg, cs.Caller, cs.Call, cs.Call.Common().Args[an.RawParamIndex(prm)], depth+1) {
			return false
		}
	}
	return true
}

// c41w follows the path string of a reference backwards from the place it is
// stored in the reference object: through local variables and fields of local
// structs (every assignment), parameters of unexported helpers (every call
// site) and results of unexported helpers (every nil-error return).
type c41w struct {
	pkg    string
	pkgFns []*ssa.Function
	fRoot  *types.Var
}

var c41NoCells = &an.FlowOpts{Through: c41PathThrough.Through, NoCells: true, StopAt: func(v ssa.Value) bool { _, isPhi := v.(*ssa.Phi); return isPhi }}

// locStores lists the assignments to a local location: a local variable, or a
// field of a local struct variable (also the field values of struct literals
// assigned to it as a whole). known is false when addr is not such a location
// or when the struct is overwritten by something other than a literal.
func (w *c41w) locStores(addr ssa.Value) (stores []*ssa.Store, known bool) {
	switch a := addr.(type) {
	case *ssa.Alloc:
		for _, ref := range *a.Referrers() {
			if s, ok := ref.(*ssa.Store); ok && s.Addr == ssa.Value(a) {
				stores = append(stores, s)
			}
		}
		return stores, true
	case *ssa.FieldAddr:
		base, ok := a.X.(*ssa.Alloc)
		if !ok {
			return nil, false
		}
		seen := map[*ssa.Alloc]bool{}
		var visit func(b *ssa.Alloc) bool
		visit = func(b *ssa.Alloc) bool {
			if seen[b] {
				return true
			}
			seen[b] = true
			for _, ref := range *b.Referrers() {
				switch r := ref.(type) {
				case *ssa.FieldAddr:
					if r.X != ssa.Value(b) || r.Field != a.Field || r.Referrers() == nil {
						continue
					}
					for _, rr := range *r.Referrers() {
						if s, ok := rr.(*ssa.Store); ok && s.Addr == ssa.Value(r) {
							stores = append(stores, s)
						}
					}
				case *ssa.Store:
					if r.Addr != ssa.Value(b) {
						continue
					}
					// whole-struct assignment: only from a literal built in a temporary
					ld, ok := r.Val.(*ssa.UnOp)
					if !ok || ld.Op != token.MUL {
						return false
					}
					tmp, ok := ld.X.(*ssa.Alloc)
					if !ok || !visit(tmp) {
						return false
					}
				}
			}
			return true
		}
		if !visit(base) {
			return nil, false
		}
		return stores, true
	}
	return nil, false
}

// loc: every value assigned to the location addr (in fn) that can be current
// at target is an acceptable stored path. Returns "" or the reason.
func (w *c41w) loc(fn *ssa.Function, addr ssa.Value, target ssa.Instruction, isFull func(ssa.Value) bool, depth int) string {
	stores, known := w.locStores(addr)
	if !known {
		return "the stored path is read from " + an.PathOf(addr)
	}
	if len(stores) == 0 {
		return "no value stored"
	}
	for _, s := range stores {
		blocked := map[ssa.Instruction]bool{}
		for _, o := range stores {
			if o != s {
				blocked[o] = true
			}
		}
		if why := w.value(fn, s.Val, s, target, blocked, len(stores) == 1, isFull, depth+1); why != "" {
			return why
		}
	}
	return ""
}

// value: the string v (in fn), fixed at instruction at and used as the stored
// path at instruction use, is acceptable: each of its sources is
//   - the node's FullPath as it is, reaching use only where IsURL(<that path>) was true, or
//   - a path made relative to the root and tested local (c41Contained), or
//   - a merge of alternatives (phi) of which this holds for each where its branch ends, or
//   - a local variable / field of a local struct of which this holds for every assignment, or
//   - a string parameter of an unexported helper of which this holds at every call site, or
//   - the result of an unexported helper, used on its nil-error edge, of which
//     this holds for every path returned with a nil error.
//
// Returns "" or the reason.
func (w *c41w) value(fn *ssa.Function, v ssa.Value, at, use ssa.Instruction, blocked map[ssa.Instruction]bool, single bool, isFull func(ssa.Value) bool, depth int) string {
	if depth > 8 {
		return "the stored path could not be followed to its origin"
	}
	roots := an.Roots(v, c41NoCells)
	if len(roots) == 0 {
		return "no value stored"
	}
	for _, r := range roots {
		// a merge of alternatives: each one as it stands where its branch ends
		if phi, ok := r.(*ssa.Phi); ok {
			for i, e := range phi.Edges {
				pred := phi.Block().Preds[i]
				if why := w.value(fn, e, pred.Instrs[len(pred.Instrs)-1], use, blocked, false, isFull, depth+1); why != "" {
					return why
				}
			}
			continue
		}
		// the node's FullPath as it is
		if isFull(r) {
			same := func(x ssa.Value) bool {
				if !isFull(x) {
					return false
				}
				xu, ok1 := x.(*ssa.UnOp)
				ru, ok2 := r.(*ssa.UnOp)
				if ok1 && ok2 {
					return an.PathOf(xu.X) == an.PathOf(ru.X)
				}
				return x == r
			}
			urlEdges := an.CallEdges(fn, an.Matcher{Pkg: w.pkg, Name: "IsURL"}, 0, func(x ssa.Value) bool {
				return same(c01First(an.Roots(x, nil))) || same(x)
			}, true)
			ok := len(urlEdges) > 0 && (an.GuardedBy(fn, nil, at, urlEdges) || an.GuardedBy(fn, nil, use, urlEdges) ||
				(use != at && !an.Reaches(fn, at, use, urlEdges, blocked)))
			if !ok {
				return "the node's FullPath can be stored as it is without IsURL(<that path>) being true"
			}
			continue
		}
		// a local variable or a field of a local struct
		if ld, ok := r.(*ssa.UnOp); ok && ld.Op == token.MUL {
			if _, known := w.locStores(ld.X); known {
				if why := w.loc(fn, ld.X, ld, isFull, depth); why != "" {
					return why
				}
				continue
			}
		}
		// a string parameter of an unexported helper: every call site
		if prm, ok := r.(*ssa.Parameter); ok && prm.Parent() == fn && an.IsLocalHelper(fn) && !c41UsedAsValue(w.pkgFns, fn) {
			sites := an.CallSitesOf(w.pkgFns, fn)
			if len(sites) == 0 {
				return "the stored path is a parameter of " + fn.Name() + ", which has no caller"
			}
			for _, cs := range sites {
				if why := w.value(cs.Caller, cs.Call.Common().Args[an.RawParamIndex(prm)], cs.Call, cs.Call, nil, true, w.fullIn(cs.Caller), depth+1); why != "" {
					return "in " + cs.Caller.Name() + ": " + why
				}
			}
			continue
		}
		// the result of an unexported helper: every nil-error return
		if e, ok := r.(*ssa.Extract); ok && e.Index == 0 {
			if rc, ok := e.Tuple.(*ssa.Call); ok {
				if ci := an.Callee(rc); !(ci.Pkg == "path/filepath" && ci.Name == "Rel") {
					H := rc.Call.StaticCallee()
					if !an.IsLocalHelper(H) || H.Signature.Results().Len() != 2 || !an.IsErrorType(H.Signature.Results().At(1).Type()) {
						return "the stored path is not the result of filepath.Rel: " + an.PathOf(r)
					}
					if !an.OnNilEdgeOf(fn, rc, at) && !(single && at != use && an.Dominates(at, use) && an.OnNilEdgeOf(fn, rc, use)) {
						return "the path computed by " + H.Name() + " is used although it reported an error"
					}
					isFullH := func(x ssa.Value) bool {
						if prm, ok := x.(*ssa.Parameter); ok && prm.Parent() == H {
							return isFull(c01First(an.Roots(rc.Call.Args[an.RawParamIndex(prm)], c41PathThrough)))
						}
						return w.fullIn(H)(x)
					}
					n := 0
					for _, ret := range an.Returns(H) {
						if !an.Reaches(H, nil, ret, nil, nil) || !c01PossiblySuccess(H, ret) {
							continue
						}
						n++
						if why := w.value(H, an.RetVal(ret, 0), ret, ret, nil, true, isFullH, depth+1); why != "" {
							return "in " + H.Name() + ": " + why
						}
					}
					if n == 0 {
						return H.Name() + " never returns a path"
					}
					continue
				}
			}
		}
		// a path made relative to the root
		why := c41Contained(fn, r, at, w.fRoot, isFull, 0)
		if why != "" && single && at != use && an.Dominates(at, use) {
			// the variable is assigned first and checked before it is used
			why = c41Contained(fn, r, use, w.fRoot, isFull, 0)
		}
		if why != "" {
			return why
		}
	}
	return ""
}

// fullIn: the predicate "x is a load of <node>.PosInfo.FullPath" (any function).
func (w *c41w) fullIn(*ssa.Function) func(ssa.Value) bool { return c41IsFullPath }

func c41IsFullPath(v ssa.Value) bool {
	u, ok := v.(*ssa.UnOp)
	if !ok || u.Op != token.MUL {
		return false
	}
	f, _ := an.FieldOf(u.X)
	return f != nil && f.Name() == "FullPath" && f.Pkg() != nil && strings.HasSuffix(f.Pkg().Path(), "filestore/posinfo")
}

// c41UsedAsValue: f is referenced other than as the callee of a static call
// (its call sites are then not all its callers).
func c41UsedAsValue(fns []*ssa.Function, f *ssa.Function) bool {
	used := false
	for _, g := range fns {
		an.Instrs(g, func(in ssa.Instruction) {
			var callee *ssa.Value
			if ci, ok := in.(ssa.CallInstruction); ok && !ci.Common().IsInvoke() {
				callee = &ci.Common().Value
			}
			for _, op := range in.Operands(nil) {
				if op != nil && *op == ssa.Value(f) && op != callee {
					used = true
				}
			}
		})
	}
	return used
}

func runC41(c *an.Ctx) {
	p := c.P
	const pkg = "filestore"
	// role: the string-typed field of FileManager (the configured root)
	var fRoot *types.Var
	if n := p.Named(pkg, "FileManager"); n != nil {
		if st, ok := n.Underlying().(*types.Struct); ok {
			cnt := 0
			for i := 0; i < st.NumFields(); i++ {
				if b, ok := st.Field(i).Type().Underlying().(*types.Basic); ok && b.Kind() == types.String {
					fRoot = st.Field(i)
					cnt++
				}
			}
			if cnt != 1 {
				fRoot = nil
			}
		}
	}
	fPath := p.Field("filestore/pb", "DataObj", "FilePath")
	isURL := p.Func(pkg, "", "IsURL")
	if !c.Need(fRoot != nil && isURL != nil, "the (single) string field of filestore.FileManager (root), filestore.IsURL") {
		return
	}
	if fPath == nil {
		// pb is loaded as a dependency (export data): find the field through a use
		for _, fn := range p.PkgFuncs(pkg) {
			an.Instrs(fn, func(in ssa.Instruction) {
				if fa, ok := in.(*ssa.FieldAddr); ok {
					if f, _ := an.FieldOf(fa); f != nil && f.Name() == "FilePath" && an.TypeIs(fa.X.Type(), "filestore/pb", "DataObj") {
						fPath = f
					}
				}
			})
		}
	}
	if !c.Need(fPath != nil, "filestore/pb.DataObj.FilePath") {
		return
	}
	fns := p.PkgFuncs(pkg)
	if c.Tier == "thorough" {
		fns = p.Funcs
	}
	isFullPath := c41IsFullPath // load of <x>.PosInfo.FullPath
	w := &c41w{pkg: pkg, pkgFns: p.PkgFuncs(pkg), fRoot: fRoot}
	nMarshal, nStores := 0, 0
	for _, fn := range fns {
		name := an.FuncName(fn)
		for _, mc := range an.Calls(fn, an.M("google.golang.org/protobuf/proto", "", "Marshal")) {
			var obj ssa.Value
			for _, r := range an.Roots(mc.Common().Args[0], nil) {
				if an.TypeIs(r.Type(), "filestore/pb", "DataObj") {
					obj = r
				}
			}
			if obj == nil {
				continue
			}
			nMarshal++
			if _, isLocal := obj.(*ssa.Alloc); !isLocal {
				c.Bad("O1", "R-FLOW", name, "Marshal(DataObj)<=path-contained", mc.Pos(), "a filestore reference object built elsewhere is serialised here: its FilePath cannot be related to a containment check")
				continue
			}
			stores := an.StoresToField(fn, fPath, obj)
			// composite literal: `dobj := pb.DataObj{FilePath: ...}` builds a temporary
			// and copies it into the object (`*dobj = *tmp`): the field stores are on the temporary
			seenObj := map[ssa.Value]bool{obj: true}
			work := []ssa.Value{obj}
			for len(work) > 0 {
				o := work[0]
				work = work[1:]
				if refs := o.Referrers(); refs != nil {
					for _, ref := range *refs {
						cp, ok := ref.(*ssa.Store)
						if !ok || cp.Addr != o {
							continue
						}
						if ld, ok := cp.Val.(*ssa.UnOp); ok && ld.Op == token.MUL {
							if tmp, ok := ld.X.(*ssa.Alloc); ok && !seenObj[tmp] {
								seenObj[tmp] = true
								work = append(work, tmp)
								stores = append(stores, an.StoresToField(fn, fPath, tmp)...)
							}
						}
					}
				}
			}
			if len(stores) == 0 {
				c.Bad("O1", "R-FLOW", name, "Marshal(DataObj)<=path-contained", mc.Pos(), "a filestore reference is serialised without a FilePath being set in this function")
			}
			for _, st := range stores {
				nStores++
				// (a) URL reference: address of PosInfo.FullPath, under IsURL(<that path>)
				if f, _ := an.FieldOf(st.Val); f != nil && f.Name() == "FullPath" {
					pth := an.PathOf(st.Val)
					urlEdges := an.CallEdges(fn, an.Matcher{Pkg: pkg, Name: "IsURL"}, 0, func(v ssa.Value) bool {
						return isFullPath(v) && an.PathOf(v.(*ssa.UnOp).X) == pth
					}, true)
					c.Check(len(urlEdges) > 0 && an.GuardedBy(fn, nil, st, urlEdges), "O1", "R-DOM", name, "FilePath=FullPath<=IsURL", st.Pos(),
						"the absolute path is stored unchanged only for URL references",
						"the node's FullPath is stored as it is in a filestore reference without IsURL(<that path>) being true: an arbitrary absolute file path is accepted and later joined to the root")
					continue
				}
				// (b) file reference: a string variable (local, parameter of an unexported
				// helper, or field of a local struct) that holds either a URL or a path made
				// relative to the root
				if _, known := w.locStores(st.Val); !known {
					c.Bad("O1", "R-FLOW", name, "FilePath=<unknown>", st.Pos(), "FilePath of a filestore reference is set from "+an.PathOf(st.Val)+": neither a URL nor a path made relative to the root")
					continue
				}
				why := w.loc(fn, st.Val, st, isFullPath, 0)
				ok := why == ""
				c.Check(ok, "O1", "R-DOM", name, "FilePath=Rel(root,FullPath)<=IsLocal", st.Pos(),
					"file references are stored relative to the root and only when they stay inside it component-wise",
					"a file reference is accepted without establishing that it lies inside the filestore root by path components ("+why+"): the stored reference resolves outside the root")
			}
		}
	}
	// ---- O2: the read side treats a stored path as a file below the root only
	// where the same URL predicate said "not a URL" (absolute paths are stored
	// verbatim exactly for IsURL references)
	nJoin := 0
	for _, fn := range p.PkgFuncs(pkg) {
		joins := false
		for _, jc := range an.Calls(fn, an.M("path/filepath", "", "Join")) {
			if sl, ok := jc.Common().Args[0].(*ssa.Slice); ok {
				if arr, ok := sl.X.(*ssa.Alloc); ok {
					for _, ref := range *arr.Referrers() {
						if ia, ok := ref.(*ssa.IndexAddr); ok {
							for _, rr := range *ia.Referrers() {
								if st, ok := rr.(*ssa.Store); ok && st.Addr == ssa.Value(ia) && c02LoadOfField(st.Val, fRoot) != nil {
									joins = true
								}
							}
						}
					}
				}
			}
		}
		if !joins || fn.Parent() != nil {
			continue
		}
		for _, g := range p.PkgFuncs(pkg) {
			for _, call := range an.AllCalls(g) {
				if call.Common().StaticCallee() != fn {
					continue
				}
				nJoin++
				var dobj ssa.Value
				for _, a := range call.Common().Args {
					if an.TypeIs(a.Type(), "filestore/pb", "DataObj") {
						dobj = a
					}
				}
				c.Check(c41NotURLAt(p.PkgFuncs(pkg), pkg, g, call, dobj, 0), "O2", "R-DOM", an.FuncName(g), "file-reader<=!IsURL(stored path)", call.Pos(),
					"the stored path is joined to the root only for references the URL predicate rejects",
					"the file reader (root joined with the stored path) is reachable without IsURL(<stored path of the same reference>) being false: a reference stored verbatim as a URL is opened as a file path")
			}
		}
	}
	// ---- O3: the configured root is fixed at construction: the root field is
	// written only on an object allocated in the same function (or, in an
	// unexported helper, on a parameter that is such an object at every call site)
	nRootW := 0
	var freshAt func(fn *ssa.Function, base ssa.Value, depth int) bool
	freshAt = func(fn *ssa.Function, base ssa.Value, depth int) bool {
		if an.IsFresh(base) {
			return true
		}
		prm, isP := c01First(an.Roots(base, nil)).(*ssa.Parameter)
		if !isP || len(an.Roots(base, nil)) != 1 || prm.Parent() != fn || !an.IsLocalHelper(fn) || depth > 2 || c41UsedAsValue(p.PkgFuncs(pkg), fn) {
			return false
		}
		sites := an.CallSitesOf(p.PkgFuncs(pkg), fn)
		for _, cs := range sites {
			if !freshAt(cs.Caller, cs.Call.Common().Args[an.RawParamIndex(prm)], depth+1) {
				return false
			}
		}
		return len(sites) > 0
	}
	for _, fn := range p.PkgFuncs(pkg) {
		if fn.Blocks == nil {
			continue
		}
		for _, st := range an.FieldStores(fn, fRoot) {
			fa, ok := st.Addr.(*ssa.FieldAddr)
			if !ok {
				continue
			}
			nRootW++
			c.Check(freshAt(fn, fa.X, 0), "O3", "R-FLOW", an.FuncName(fn), "root assigned only at construction", st.Pos(),
				"the root is set while the FileManager is being constructed",
				"the FileManager's root is reassigned on a live object: references are then checked against (and resolved below) a directory other than the configured root")
		}
	}
	c.Min("O3 assignments of the root field", nRootW, 1)
	c.Min("O2 callers of the root-joining file reader", nJoin, 1)
	c.Min("O1 serialised filestore references", nMarshal, 1)
	c.Min("O1 FilePath stores of serialised references", nStores, 1)
}
