package props

import (
	"fmt"
	"go/token"

	"golang.org/x/tools/go/ssa"

	"verif/checker/an"
)

func init() {
	register("C08", Prop{
		Pkgs: []string{"./ipld/unixfs/importer/trickle", "./ipld/unixfs/importer/helpers"},
		Explain: "Decided (structural necessary conditions of 'append keeps sizes consistent and the trickle layer structure'): " +
			"O1 in the append path (every function of package trickle that can reach the last-child refill) link changes are coupled with block-size changes (via FSNodeOverDag.AddChild/RemoveChild, rule shared with C07-O1), and replacing the last child is RemoveChild(last) followed on every non-error path by AddChild of the re-committed child with the size returned by the same appendRec call; last = NumChildren()-1 and the child fetched is that same index; " +
			"O2 the size argument of every AddChild in the append path comes from the call that produced the node; appendRec returns X.FileSize() of the node it returns (shared with C07-O2); " +
			"O3 layer bookkeeping: after the last-child refill (the callee completes the current layer only when its repeat argument is non-zero) the caller's layer counter that feeds the continuation loop is advanced only on a path where that same repeat value was tested non-zero (or is recomputed); " +
			"O4 constants: depth/repeat inference divides and takes the remainder by the same constant depthRepeat that bounds every layer-filling loop, and subtracts the maxlinks parameter that callers take from db.Maxlinks(); the layer-filling loops pass their own layer counter as depth to fillTrickleRec. " +
			"Advisory (not armed): Append and appendRec pass depth-1 resp. depth to the refill helper (clone disagreement, under-filled last child; the structure verifier accepts shallower subtrees). " +
			"NOT decided: content preservation, exact resulting shape, behaviour for DAGs not built by the trickle layout.",
		Assume:    []string{"FSNodeOverDag.AddChild/RemoveChild keep links and block sizes in step (C07-O1)"},
		Technique: "coupled mutation (R-PAIR), value provenance (R-FLOW), conditional coupling on an edge (R-CMP/R-DOM), constant agreement (R-CONST/R-SIB)",
		Run:       runC08,
	})
}

func runC08(c *an.Ctx) {
	p := c.P
	roles := c07ResolveRoles(c)
	fDag, fFile := roles.fDag, roles.fFile
	if !c.Need(fDag != nil && fFile != nil, "helpers.FSNodeOverDag fields by type (*merkledag.ProtoNode, *unixfs.FSNode)") {
		return
	}
	tfns := p.PkgFuncs(c07Tr)
	if !c.Need(len(tfns) > 0, "package "+c07Tr) {
		return
	}
	addChild := an.M(c07H, "FSNodeOverDag", "AddChild")
	removeChild := an.M(c07H, "FSNodeOverDag", "RemoveChild")
	fillRec := roles.fillRec
	if !c.Need(fillRec != nil, "trickle recursive filler (the self-recursive package-local function trickle.Layout calls)") {
		return
	}
	if !c.Need(roles.depthRepeat != "", "trickle per-layer repeat constant (bound of the counter guarding the child-adding step of the filler)") {
		return
	}
	drStr := roles.depthRepeat

	// ---- role discovery: the refill helper = function whose child-adding loop counts from an int parameter R up to depthRepeat
	var refill *ssa.Function
	refillParam := -1
	var refillSlot an.XBSlot
	for _, fn := range tfns {
		for _, call := range an.Calls(fn, addChild) {
			if !an.XBInCycle(call.Block()) {
				continue
			}
			// the repeat counter of that loop starts at an int parameter: counter = phi(param, counter+1) < depthRepeat
			for e2, r2 := range an.XBEdgeRels(fn) {
				ph, isPhi := r2.X.(*ssa.Phi)
				k2, isK2 := an.XBInt64(r2.Y)
				if !isPhi || !isK2 || r2.Op != token.LSS || fmt.Sprint(k2) != drStr || !an.XBMustCross(fn, nil, call, e2) {
					continue
				}
				for _, pe := range ph.Edges {
					// the start value: a parameter, or a field of a struct-valued parameter
					if sl, ok := an.XBSlotOf(pe); ok && sl.Fn == fn {
						refill, refillParam, refillSlot = fn, sl.Idx, sl
					}
				}
			}
		}
	}
	if !c.Need(refill != nil, "last-child refill helper (function of package trickle whose child-adding loop counts from an int parameter, or a field of a struct parameter, up to the per-layer repeat constant)") {
		return
	}
	// The loop may have been extracted into a helper of its own (top-up function); the refill role belongs to the
	// outermost function that hands one of its own parameters through unchanged as the loop's start value.
	tgraph := an.XBLocalGraph(tfns)
	topUp, topUpSlot := refill, refillSlot
	for hops := 0; hops < 3; hops++ {
		var next an.XBSlot
		found := false
		okClimb := true
		for _, call := range tgraph.Callers[refill] {
			f := call.Parent()
			if f == refill {
				continue
			}
			val, pass, isPass := an.XBArgOf(call, refillSlot)
			if val != nil {
				if _, isK := an.XBInt64(val); isK {
					continue // a fill that starts at a constant (whole-layer fill): not the refill role
				}
				sl, ok := an.XBSlotOf(val)
				if !ok || sl.Fn != f {
					okClimb = false
					break
				}
				pass, isPass = sl, true
			}
			if !isPass || (found && pass != next) {
				okClimb = false
				break
			}
			next, found = pass, true
		}
		if !okClimb || !found {
			break
		}
		refill, refillParam, refillSlot = next.Fn, next.Idx, next
	}
	_ = refillParam
	// append path: functions of package trickle that (transitively) call the refill helper, plus the helper
	inPath := map[*ssa.Function]bool{refill: true, topUp: true}
	for changed := true; changed; {
		changed = false
		for _, fn := range tfns {
			if inPath[fn] {
				continue
			}
			for _, call := range an.AllCalls(fn) {
				if g := an.Callee(call).Static; g != nil && inPath[g] {
					inPath[fn] = true
					changed = true
				}
			}
		}
	}
	// ... and the package-local helpers those functions call (a block of the append path moved into a helper stays in scope)
	for changed := true; changed; {
		changed = false
		for _, fn := range tfns {
			if !inPath[fn] {
				continue
			}
			for _, call := range an.AllCalls(fn) {
				if g := an.Callee(call).Static; g != nil && tgraph.In[g] && !inPath[g] {
					inPath[g] = true
					changed = true
				}
			}
		}
	}
	var path []*ssa.Function
	for _, fn := range tfns {
		if inPath[fn] {
			path = append(path, fn)
		}
	}
	c.Min("append-path functions (callers of the refill helper + helper)", len(path), 1)
	only := func(fn *ssa.Function) bool { return inPath[fn] }

	// ---- O1: shared coupling rule on the helpers the append path relies on, plus replace-last-child
	var helperFns []*ssa.Function
	for _, m := range p.Methods(c07H, "FSNodeOverDag") {
		helperFns = append(helperFns, m)
	}
	c07LinkSizeCoupling(c, helperFns, fDag, fFile, func(fn *ssa.Function) bool { return fn.Name() == "AddChild" || fn.Name() == "RemoveChild" })
	nRepl := 0
	for _, fn := range path {
		for _, rm := range an.Calls(fn, removeChild) {
			nRepl++
			recv := an.Recv(rm)
			idx := an.Args(rm)[0]
			var adds []ssa.Instruction
			for _, ac := range an.Calls(fn, addChild) {
				if an.SameObj(an.Recv(ac), recv) || an.Recv(ac) == recv {
					adds = append(adds, ac)
				}
			}
			c.Check(c07FollowsOnSuccess(fn, rm, adds), "O1", "R-PAIR", an.FuncName(fn), "RemoveChild=>AddChild(recommitted)", rm.Pos(),
				"the removed last child is re-added on every non-error path", "the last child is removed from the node but not added back on every non-error path: its content disappears from the file")
			// index is NumChildren()-1 of the same node and the child fetched is that index
			okIdx := false
			if b, ok := idx.(*ssa.BinOp); ok && b.Op == token.SUB {
				if one, ok := an.XBInt64(b.Y); ok && one == 1 {
					if nc, ok := an.IsCallTo(b.X, an.M(c07H, "FSNodeOverDag", "NumChildren")); ok && (an.Recv(nc) == recv || an.SameObj(an.Recv(nc), recv)) {
						okIdx = true
					}
				}
			}
			c.Check(okIdx, "O1", "R-FLOW", an.FuncName(fn), "removed-index=NumChildren()-1", rm.Pos(), "the removed index is the last child", "RemoveChild is not applied to index NumChildren()-1 of the same node: a child other than the refilled one is dropped")
			sameFetched := false
			for _, gc := range an.Calls(fn, an.M(c07H, "FSNodeOverDag", "GetChild")) {
				if a := an.Args(gc); len(a) >= 2 && a[1] == idx && (an.Recv(gc) == recv || an.SameObj(an.Recv(gc), recv)) {
					sameFetched = true
				}
			}
			c.Check(sameFetched, "O1", "R-FLOW", an.FuncName(fn), "refilled-child=removed-child", rm.Pos(), "the child that is refilled is the child that is replaced", "the child fetched for refilling (GetChild) is not the index that is removed and replaced")
		}
	}
	c.Min("O1 replace-last-child sites", nRepl, 1)
	// the re-committed child (result of the recursive append on an existing child) is added only after that child was removed
	nRe := 0
	for _, fn := range path {
		for _, ac := range an.Calls(fn, addChild) {
			node := an.Args(ac)[0]
			refilled := false
			for _, r := range an.Roots(node, &an.FlowOpts{Through: c07Through}) {
				if call, ok := an.IsCallTo(r, an.M(c07Tr, "", "")); ok && inPath[an.Callee(call).Static] {
					// the producer was given an existing child (GetChild result), not a fresh node
					for _, a := range call.Call.Args {
						for _, ar := range an.Roots(a, nil) {
							if _, isGet := an.IsCallTo(ar, an.M(c07H, "FSNodeOverDag", "GetChild")); isGet {
								refilled = true
							}
						}
					}
				}
			}
			if !refilled {
				continue
			}
			nRe++
			var rms []ssa.Instruction
			for _, rm := range an.Calls(fn, removeChild) {
				if an.Recv(rm) == an.Recv(ac) || an.SameObj(an.Recv(rm), an.Recv(ac)) {
					rms = append(rms, rm)
				}
			}
			c.Check(len(rms) > 0 && an.MustPrecede(fn, ac, rms), "O1", "R-PAIR", an.FuncName(fn), "AddChild(recommitted)<=RemoveChild", ac.Pos(),
				"the refilled child replaces the old one (RemoveChild precedes AddChild)", "a refilled copy of an existing child is added without removing the old child first: its content appears twice in the file")
		}
	}
	c.Min("O1 AddChild of a refilled existing child", nRe, 1)

	// ---- O2: shared provenance rule restricted to the append path
	c07SizeProvenance(c, path, only)
	nAdd := 0
	for _, fn := range path {
		nAdd += len(an.Calls(fn, addChild))
	}
	c.Min("O2 AddChild calls in the append path", nAdd, 1)

	// feedsDepth: the value reaches the depth argument of the layer-filling function, directly or through parameters
	// of package-local helpers
	var feedsDepth func(v ssa.Value, d int) bool
	feedsDepth = func(v ssa.Value, d int) bool {
		for _, u := range an.Uses(v) {
			call, ok := u.(ssa.CallInstruction)
			if !ok {
				continue
			}
			g := an.Callee(call).Static
			if g == fillRec {
				return true
			}
			if g != nil && tgraph.In[g] && d < 2 {
				for i, a := range call.Common().Args {
					if i < len(g.Params) && (a == v || an.XBPhiClosure(v)[a]) && feedsDepth(g.Params[i], d+1) {
						return true
					}
				}
			}
		}
		return false
	}
	// ---- O3: layer counter advanced only where the refill completed the layer
	nO3 := 0
	for _, fn := range path {
		for _, cs := range an.Calls(fn, an.M(c07Tr, "", refill.Name())) {
			if an.Callee(cs).Static != refill {
				continue
			}
			nO3++
			rep, repPass, isPass := an.XBArgOf(cs, refillSlot)
			repAl := map[ssa.Value]bool{}
			if rep != nil {
				repAl = an.Aliases(rep)
				// other loads of the same never-reassigned struct field (pos.repeatNumber read twice)
				an.Instrs(fn, func(in ssa.Instruction) {
					if v, ok := in.(ssa.Value); ok && an.XBSameLocation(rep, v) {
						repAl[v] = true
					}
				})
				if sl, ok := an.XBSlotOf(rep); ok {
					for _, v := range sl.Values() {
						repAl[v] = true
					}
				}
			} else if isPass {
				for _, v := range repPass.Values() {
					repAl[v] = true
				}
			}
			// (repeat argument not visible as a value of this function: no test of it can exist here, so every
			// advance of the layer counter after the call is unguarded)
			nz := an.XBEdgesWhere(fn, func(r an.XBRel) bool {
				x, y, op := r.X, r.Y, r.Op
				if _, isK := an.XBInt64(x); isK {
					x, y, op = y, x, an.XBSwap(op)
				}
				k, isK := an.XBInt64(y)
				if !isK || !repAl[x] {
					return false
				}
				return (op == token.NEQ && k == 0) || (op == token.GTR && k == 0) || (op == token.GEQ && k == 1)
			})
			var bad []string
			pos := cs.Pos()
			an.Instrs(fn, func(in ssa.Instruction) {
				inc, ok := in.(*ssa.BinOp)
				if !ok || inc.Op != token.ADD {
					return
				}
				if one, ok := an.XBInt64(inc.Y); !ok || one != 1 {
					return
				}
				if !an.Reaches(fn, cs, inc, nil, nil) {
					return
				}
				// loop step (i++): the operand is a phi fed by this increment
				if ph, ok := inc.X.(*ssa.Phi); ok {
					for _, e := range ph.Edges {
						if e == ssa.Value(inc) {
							return
						}
					}
				}
				// does it feed the depth argument of a layer-filling call?
				feeds := feedsDepth(inc, 0)
				if !feeds {
					return
				}
				if an.Reaches(fn, cs, inc, nz, nil) {
					bad = append(bad, p.Pos(inc.Pos()))
					pos = inc.Pos()
				}
			})
			c.Check(len(bad) == 0, "O3", "R-PAIR", an.FuncName(fn), "layer++<=repeat!=0", pos,
				"the layer counter is advanced after the refill only where the refill's repeat argument was tested non-zero",
				fmt.Sprintf("after %s(...) the layer counter feeding the continuation loop is incremented (%v) on a path where the repeat argument may be 0; the callee completes the current layer only when repeat != 0, so a layer is skipped and later children are built deeper than their position allows (VerifyTrickleDagStructure: child dag was too deep)", refill.Name(), bad))
		}
	}
	c.Min("O3 calls of the refill helper", nO3, 1)

	// ---- O3b: the refill helper finishes the partially filled layer before it reports success.
	// Its callers advance the layer counter whenever repeat != 0, so a success return that skips the top-up loop
	// leaves the layer short and later sub-trees are built for the wrong depth.
	{
		fn := refill
		parVals := map[ssa.Value]bool{}
		for _, v := range refillSlot.Values() {
			for a := range an.Aliases(v) {
				parVals[a] = true
			}
		}
		db := ssa.Value(nil)
		for _, q := range fn.Params {
			if an.TypeIs(q.Type(), c07H, "DagBuilderHelper") {
				db = q
			}
		}
		// (a) repeat == 0: nothing to top up
		cut := an.XBEdgesWhere(fn, func(r an.XBRel) bool {
			k, isK := an.XBInt64(r.Y)
			return isK && k == 0 && parVals[r.X] && r.Op == token.EQL
		})
		// (b) no sub-trees at all: NumChildren() <= Maxlinks()
		cut = cut.Union(an.XBEdgesWhere(fn, func(r an.XBRel) bool {
			_, a := an.IsCallTo(r.X, an.M(c07H, "FSNodeOverDag", "NumChildren"))
			_, b := an.IsCallTo(r.Y, an.M(c07H, "DagBuilderHelper", "Maxlinks"))
			return a && b && (r.Op == token.LEQ || r.Op == token.LSS)
		}))
		// (c) the input is exhausted
		if db != nil {
			var done []ssa.Value
			for _, call := range an.Calls(fn, an.M(c07H, "DagBuilderHelper", "Done")) {
				if v := an.CallValue(call); v != nil {
					done = append(done, v)
				}
			}
			cut = cut.Union(an.BoolEdges(fn, done, true))
		}
		// (d) the path ran through the top-up loop: edges leaving the cycle of the looped AddChild
		inLoop := map[*ssa.BasicBlock]bool{}
		for _, call := range an.Calls(fn, addChild) {
			if !an.XBInCycle(call.Block()) {
				continue
			}
			hd := call.Block()
			for _, b := range fn.Blocks {
				if an.Reaches(fn, hd.Instrs[0], b.Instrs[0], nil, nil) && an.Reaches(fn, b.Instrs[0], hd.Instrs[0], nil, nil) {
					inLoop[b] = true
				}
			}
			inLoop[hd] = true
		}
		for b := range inLoop {
			for si, sb := range b.Succs {
				if !inLoop[sb] {
					cut[an.Edge{From: b, Succ: si}] = true
				}
			}
		}
		// the top-up loop itself runs only where repeat != 0 (with repeat == 0 the layer is empty and is filled by the caller)
		nz := an.XBEdgesWhere(fn, func(r an.XBRel) bool {
			k, isK := an.XBInt64(r.Y)
			return isK && parVals[r.X] && ((k == 0 && (r.Op == token.NEQ || r.Op == token.GTR)) || (k == 1 && r.Op == token.GEQ))
		})
		_ = nz
		for _, call := range an.Calls(topUp, addChild) {
			if !an.XBInCycle(call.Block()) {
				continue
			}
			// guarded where the repeat value is known non-zero: locally, or at every call site that hands a repeat value on
			// (a call that starts the loop at a constant is a whole-layer fill of the continuation loops, a different role)
			nzGuard := func(f *ssa.Function, at ssa.Instruction, vals map[ssa.Value]bool) bool {
				e := an.XBEdgesWhere(f, func(r an.XBRel) bool {
					k, isK := an.XBInt64(r.Y)
					return isK && vals[r.X] && ((k == 0 && (r.Op == token.NEQ || r.Op == token.GTR)) || (k == 1 && r.Op == token.GEQ))
				})
				return len(e) > 0 && an.GuardedBy(f, nil, at, e)
			}
			var guardedSlot func(sl an.XBSlot, at ssa.Instruction, depth int) bool
			guardedValue := func(f *ssa.Function, at ssa.Instruction, v ssa.Value, depth int) bool {
				if nzGuard(f, at, an.Aliases(v)) {
					return true
				}
				if sl, ok := an.XBSlotOf(an.XBStripConv(v)); ok && sl.Fn == f {
					return guardedSlot(sl, at, depth)
				}
				return false
			}
			guardedSlot = func(sl an.XBSlot, at ssa.Instruction, depth int) bool {
				vals := map[ssa.Value]bool{}
				for _, v := range sl.Values() {
					for a := range an.Aliases(v) {
						vals[a] = true
					}
				}
				if nzGuard(sl.Fn, at, vals) {
					return true
				}
				if depth <= 0 {
					return false
				}
				role := 0
				for _, cs := range tgraph.Callers[sl.Fn] {
					if cs.Parent() == sl.Fn {
						continue
					}
					val, pass, isPass := an.XBArgOf(cs, sl)
					if val != nil {
						if _, isK := an.XBInt64(val); isK {
							continue // starts at a constant: a whole-layer fill, not the refill role
						}
						role++
						if !guardedValue(cs.Parent(), cs, val, depth-1) {
							return false
						}
					} else if isPass {
						role++
						if !guardedSlot(pass, cs, depth-1) {
							return false
						}
					} else {
						return false
					}
				}
				return role > 0
			}
			okNZ := guardedSlot(topUpSlot, call, 3)
			c.Check(okNZ, "O3", "R-DOM", an.FuncName(topUp), "top-up-loop<=repeat!=0", call.Pos(),
				"the top-up loop runs only where repeat != 0", "the refill helper tops the layer up even when repeat == 0: the callers fill that (empty) layer themselves, so it receives twice depthRepeat sub-trees and every later sub-tree sits in the wrong layer")
		}
		nRet := 0
		for _, r := range an.Returns(fn) {
			if c07IsFailureReturn(fn, r) {
				continue
			}
			nRet++
			ran := map[ssa.Instruction]bool{}
			if topUp != fn {
				for _, call := range an.AllCalls(fn) {
					if an.Callee(call).Static == topUp {
						ran[call] = true
					}
				}
			}
			c.Check(!an.Reaches(fn, nil, r, cut, ran), "O3", "R-POST", an.FuncName(fn), "success-return<=layer-topped-up", r.Pos(),
				"success is reported only after the top-up loop ran, or where repeat == 0 / there are no sub-trees / the input is exhausted",
				"the refill helper can return success with repeat != 0 and data left without running the loop that completes the current layer: its callers then move on to the next layer, so the remaining slots of this layer receive sub-trees built for a deeper layer (child dag was too deep)")
		}
		c.Min("O3 success returns of the refill helper", nRet, 1)
	}

	// ---- O1c: the exported Append consumes the whole stream, and nodes are committed after their last change
	if app := p.Func(c07Tr, "", "Append"); c.Need(app != nil, "trickle.Append") {
		ok, esc := c07Drains(app, map[*ssa.Function]bool{})
		pos := app.Pos()
		if esc != nil {
			pos = esc.Pos()
		}
		c.Check(ok, "O1", "R-DOM", an.FuncName(app), "success-return<=builder-drained", pos,
			"Append returns success only where db.Done() was tested true", "Append can return success while the splitter may still hold data: appended bytes are silently dropped")
	}
	c.Min("O1 Commit() calls in the append path", c07CommitAfterMutations(c, path, only), 1)

	// ---- O4: constants and layer arguments
	info := roles.depthInfo
	if c.Need(info != nil, "trickle depth inference (package-local func(*FSNodeOverDag, int) (int, int))") {
		var quo, rem, sub *ssa.BinOp
		an.Instrs(info, func(in ssa.Instruction) {
			if b, ok := in.(*ssa.BinOp); ok {
				switch b.Op {
				case token.QUO:
					quo = b
				case token.REM:
					rem = b
				case token.SUB:
					sub = b
				}
			}
		})
		okK := func(b *ssa.BinOp) bool {
			if b == nil {
				return false
			}
			k, ok := an.XBInt64(b.Y)
			return ok && fmt.Sprint(k) == drStr
		}
		c.Check(okK(quo) && okK(rem) && quo.X == rem.X, "O4", "R-CONST", an.FuncName(info), "depth,repeat=(n-maxlinks)/%depthRepeat", info.Pos(),
			"depth and repeat number are quotient and remainder of the same value by depthRepeat", "trickleDepthInfo does not derive depth and repeatNumber as quotient and remainder of the same count by depthRepeat="+drStr+": the inferred position disagrees with how layers are filled")
		okSub := sub != nil && quo != nil && quo.X == ssa.Value(sub) && sub.Y == ssa.Value(info.Params[1])
		if okSub {
			_, okSub = an.IsCallTo(sub.X, an.M(c07H, "FSNodeOverDag", "NumChildren"))
		}
		c.Check(okSub, "O4", "R-FLOW", an.FuncName(info), "nonLeaf=NumChildren()-maxlinks", info.Pos(), "non-leaf child count is NumChildren() minus the maxlinks parameter", "trickleDepthInfo does not compute the non-leaf child count as NumChildren() - maxlinks")
		// +1 on the quotient (layers are 1-based)
		plus := false
		if quo != nil {
			for _, r := range *quo.Referrers() {
				if b, ok := r.(*ssa.BinOp); ok && b.Op == token.ADD {
					if one, ok := an.XBInt64(b.Y); ok && one == 1 {
						plus = true
					}
				}
			}
		}
		c.Check(plus, "O4", "R-CONST", an.FuncName(info), "depth=quotient+1", info.Pos(), "layers are counted from 1", "trickleDepthInfo no longer adds 1 to the quotient (layers are 1-based in fillTrickleRec)")
		nCall := 0
		for _, fn := range path {
			for _, call := range an.AllCalls(fn) {
				if an.Callee(call).Static != info {
					continue
				}
				nCall++
				_, ok := an.IsCallTo(call.Common().Args[1], an.M(c07H, "DagBuilderHelper", "Maxlinks"))
				c.Check(ok, "O4", "R-FLOW", an.FuncName(fn), "depth-inference(_,db.Maxlinks())", call.Pos(), "depth inference uses the builder's Maxlinks()", "trickleDepthInfo is called with a width that is not db.Maxlinks(): depth inference and layer filling use different widths")
			}
		}
		c.Min("O4 trickleDepthInfo calls", nCall, 1)
	}
	// layer-filling loops: fillTrickleRec(db, <fresh node>, <loop layer counter>) inside a depthRepeat-bounded loop
	nFill := 0
	for _, fn := range tfns {
		for _, call := range an.AllCalls(fn) {
			if an.Callee(call).Static != fillRec || !an.XBInCycle(call.Block()) {
				continue
			}
			nFill++
			depthArg := call.Common().Args[2]
			// bounded by counter < depthRepeat per iteration
			counter := an.XBEdgesWhere(fn, func(r an.XBRel) bool {
				k, isK := an.XBInt64(r.Y)
				_, isPhi := r.X.(*ssa.Phi)
				return isK && isPhi && r.Op == token.LSS && fmt.Sprint(k) == drStr
			})
			bounded := len(counter) > 0 && an.GuardedBy(fn, nil, call, counter) && !an.Reaches(fn, call, call, counter, nil)
			if !bounded {
				var kDR int64
				if _, err := fmt.Sscan(drStr, &kDR); err == nil {
					bounded = an.XBCounterBelow(fn, call, kDR) // rotated counted loop ("for range depthRepeat")
				}
			}
			c.Check(bounded, "O4", "R-CONST", an.FuncName(fn), "layer-loop<depthRepeat", call.Pos(),
				"each layer receives at most depthRepeat sub-DAGs", "a layer-filling loop is not bounded per iteration by counter < depthRepeat="+drStr)
			// the depth argument does not change inside the inner (repeat) loop: it is not a phi of the innermost loop stepped per child
			stepped := false
			if ph, ok := depthArg.(*ssa.Phi); ok {
				for e := range counter {
					if rel := an.XBEdgeRels(fn)[e]; rel.X == ssa.Value(ph) {
						stepped = true
					}
				}
			}
			c.Check(!stepped, "O4", "R-FLOW", an.FuncName(fn), "filler(depth=layer)", call.Pos(),
				"the depth given to fillTrickleRec is the layer counter, not the repeat counter", "fillTrickleRec receives the repeat counter as maximum depth: sub-DAG depth varies inside one layer")
		}
	}
	c.Min("O4 layer-filling calls of fillTrickleRec inside loops", nFill, 1)

	// ---- O6 (round 6): the "unlimited depth" mode of the depth-bounded filler is reachable only for negative depth
	// values, the callers that want it pass such a constant, and every other caller passes a depth that is provably >= 0;
	// a depth of 0 (leaves only) never enters the recursion.
	c08DepthSentinel(c, tfns, tgraph, fillRec)

	// ---- advisory: clone disagreement between the callers of the refill helper
	var shapes []string
	for _, fn := range path {
		for _, cs := range an.Calls(fn, an.M(c07Tr, "", refill.Name())) {
			args := cs.Common().Args
			for i, a := range args {
				if (i == refillSlot.Idx && refillSlot.Field < 0) || !c06IsInt(a.Type()) {
					continue
				}
				shape := "depth"
				if b, ok := a.(*ssa.BinOp); ok && b.Op == token.SUB {
					if k, ok := an.XBInt64(b.Y); ok {
						shape = fmt.Sprintf("depth-%d", k)
					}
				}
				shapes = append(shapes, an.FuncName(fn)+" passes "+shape)
			}
		}
	}
	if len(shapes) >= 2 {
		c.Note("O5 (advisory, not armed): callers of %s disagree on the depth argument: %v — the last child is refilled one level shallower in one of them (not a layout violation: the verifier accepts shallower subtrees)", refill.Name(), shapes)
	}
}

// c08NoBound is "no lower bound known".
const c08NoBound = int64(-1 << 40)

// c08MaxDepth bounds the derivation depth of the lower-bound analysis (cycles over values are cut by the busy set; this
// only protects against pathological chains).
const c08MaxDepth = 24

// c08LB computes a lower bound of integer value v as seen at site (an instruction of v's function; for a phi operand
// the terminator of the predecessor block plus the edge taken). It understands constants, +,-,/,% with constants,
// differences guarded by an ordering test on the same operands, loop counters, parameters (through all static call
// sites in g) and results of package-local calls; comparisons with constants on edges that every path to the site
// crosses refine the bound.
type c08LB struct {
	g     *an.XBGraph
	depth int
	busy  map[ssa.Value]bool
}

func (a *c08LB) factsAt(fn *ssa.Function, site ssa.Instruction, extra *an.Edge) []an.XBRel {
	var out []an.XBRel
	rels := an.XBEdgeRels(fn)
	for e, r := range rels {
		if extra != nil && e == *extra {
			out = append(out, r)
			continue
		}
		if an.XBInCycle(e.From) {
			// a test inside a loop still holds for the current iteration when it dominates the site within the body;
			// keep it only when the site cannot be reached again without re-crossing it (cheap: same-iteration must-cross)
		}
		if site != nil && an.XBMustCross(fn, nil, site, e) {
			out = append(out, r)
		}
	}
	return out
}

func (a *c08LB) refine(v ssa.Value, lb int64, facts []an.XBRel) int64 {
	for _, r := range facts {
		x, y, op := r.X, r.Y, r.Op
		if _, isK := an.XBInt64(x); isK {
			x, y, op = y, x, an.XBSwap(op)
		}
		k, isK := an.XBInt64(y)
		if !isK || x != v {
			continue
		}
		switch op {
		case token.GEQ:
			if k > lb {
				lb = k
			}
		case token.GTR:
			if k+1 > lb {
				lb = k + 1
			}
		case token.EQL:
			if k > lb {
				lb = k
			}
		case token.NEQ:
			if lb == k {
				lb = k + 1
			}
		}
	}
	return lb
}

// cellField: lower bound of field fld of a local struct cell = minimum over everything that can be stored there
// (flow-insensitive): individual field stores, whole-struct stores, and the zero value when no whole struct is stored.
func (a *c08LB) cellField(cell *ssa.Alloc, fld int, fn *ssa.Function, depth int) int64 {
	if depth > c08MaxDepth {
		return -c08NoBound
	}
	lb := -c08NoBound
	whole := false
	take := func(l int64) {
		if l < lb {
			lb = l
		}
	}
	for _, r := range *cell.Referrers() {
		switch x := r.(type) {
		case *ssa.Store:
			if x.Addr == ssa.Value(cell) {
				whole = true
				take(a.structField(x.Val, fld, fn, x, depth+1))
			}
		case *ssa.FieldAddr:
			if x.Field != fld {
				continue
			}
			for _, rr := range *x.Referrers() {
				if st, ok := rr.(*ssa.Store); ok && st.Addr == ssa.Value(x) {
					take(a.at(st.Val, fn, st, nil, depth+1))
				}
			}
		}
	}
	if !whole {
		take(0) // zero-initialised
	}
	if lb == -c08NoBound {
		return c08NoBound
	}
	return lb
}

// cellFieldAt: lower bound of field fld of a local struct cell as read by instruction at (a load of the field or of
// the whole struct): minimum over the definitions (field stores, whole-struct stores) that reach the read without an
// intervening definition, each refined by the tests on reads of the same field that every definition-free path from
// that definition to the read has to pass. Falls back to the flow-insensitive cellField.
func (a *c08LB) cellFieldAt(cell *ssa.Alloc, fld int, fn *ssa.Function, at ssa.Instruction, depth int) int64 {
	if depth > c08MaxDepth {
		return -c08NoBound
	}
	type def struct {
		st    *ssa.Store
		whole bool
	}
	var defs []def
	blocked := map[ssa.Instruction]bool{}
	loads := map[ssa.Value]bool{} // reads of this field
	escapes := false
	for _, r := range *cell.Referrers() {
		switch x := r.(type) {
		case *ssa.Store:
			if x.Addr == ssa.Value(cell) {
				defs = append(defs, def{x, true})
				blocked[x] = true
			} else {
				escapes = true
			}
		case *ssa.FieldAddr:
			for _, rr := range *x.Referrers() {
				switch y := rr.(type) {
				case *ssa.Store:
					if y.Addr == ssa.Value(x) {
						if x.Field == fld {
							defs = append(defs, def{y, false})
							blocked[y] = true
						}
					} else {
						escapes = true
					}
				case *ssa.UnOp:
					if x.Field == fld {
						loads[y] = true
					}
				case *ssa.DebugRef:
				default:
					escapes = true
				}
			}
		case *ssa.UnOp:
		case *ssa.DebugRef:
		default:
			escapes = true
		}
	}
	domWhole := false
	for _, d := range defs {
		if d.whole && an.Dominates(d.st, at) {
			domWhole = true
		}
	}
	if escapes || !domWhole || at.Parent() != fn {
		return a.cellField(cell, fld, fn, depth)
	}
	rels := an.XBEdgeRels(fn)
	lb := -c08NoBound
	n := 0
	for _, d := range defs {
		if !an.Reaches(fn, d.st, at, nil, blocked) {
			continue
		}
		n++
		var l int64
		if d.whole {
			l = a.structField(d.st.Val, fld, fn, d.st, depth+1)
		} else {
			l = a.at(d.st.Val, fn, d.st, nil, depth+1)
		}
		if l != -c08NoBound && l != c08NoBound {
			// tests on a read of the field that sees only this definition and that every definition-free path passes
			var facts []an.XBRel
			for e, r := range rels {
				x, y := r.X, r.Y
				var ld ssa.Value
				if loads[x] {
					ld = x
				} else if loads[y] {
					ld = y
				} else {
					continue
				}
				li, ok := ld.(ssa.Instruction)
				if !ok || !an.Dominates(d.st, li) {
					continue
				}
				sole := true
				for _, o := range defs {
					if o.st != d.st && an.Reaches(fn, o.st, li, nil, blocked) {
						sole = false
					}
				}
				if !sole {
					continue
				}
				cut := an.EdgeSet{}
				cut[e] = true
				if an.Reaches(fn, d.st, at, cut, blocked) {
					continue
				}
				// rewrite the relation onto a placeholder (the cell) standing for the value read at `at`
				if ld == x {
					facts = append(facts, an.XBRel{X: cell, Y: y, Op: r.Op})
				} else {
					facts = append(facts, an.XBRel{X: x, Y: cell, Op: r.Op})
				}
			}
			l = a.refine(cell, l, facts)
		}
		if l < lb {
			lb = l
		}
	}
	if n == 0 || lb == -c08NoBound {
		return a.cellField(cell, fld, fn, depth)
	}
	return lb
}

// structField: lower bound of field fld of a struct value.
func (a *c08LB) structField(v ssa.Value, fld int, fn *ssa.Function, site ssa.Instruction, depth int) int64 {
	if depth > c08MaxDepth {
		return -c08NoBound
	}
	switch x := v.(type) {
	case *ssa.Const:
		return 0 // zero value of the struct
	case *ssa.UnOp:
		if x.Op == token.MUL {
			if cell, ok := x.X.(*ssa.Alloc); ok {
				return a.cellField(cell, fld, fn, depth+1)
			}
		}
	case *ssa.Parameter:
		if i := func() int {
			for i, q := range x.Parent().Params {
				if q == x {
					return i
				}
			}
			return -1
		}(); i >= 0 {
			return a.atSlot(an.XBSlot{Fn: x.Parent(), Idx: i, Field: fld}, depth+1)
		}
	case *ssa.Call:
		if g := an.Callee(x).Static; g != nil && a.g.In[g] {
			lb := -c08NoBound
			for _, r := range an.Returns(g) {
				if len(r.Results) == 1 {
					if l := a.structField(r.Results[0], fld, g, r, depth+1); l < lb {
						lb = l
					}
				}
			}
			if lb != -c08NoBound {
				return lb
			}
		}
	case *ssa.Extract:
		if call, ok := x.Tuple.(*ssa.Call); ok {
			if g := an.Callee(call).Static; g != nil && a.g.In[g] {
				lb := -c08NoBound
				for _, r := range an.Returns(g) {
					if x.Index < len(r.Results) {
						if l := a.structField(r.Results[x.Index], fld, g, r, depth+1); l < lb {
							lb = l
						}
					}
				}
				if lb != -c08NoBound {
					return lb
				}
			}
		}
	case *ssa.Phi:
		lb := -c08NoBound
		for _, e := range x.Edges {
			if l := a.structField(e, fld, fn, site, depth+1); l < lb {
				lb = l
			}
		}
		if lb != -c08NoBound {
			return lb
		}
	}
	return c08NoBound
}

// atSlot: lower bound of a parameter slot = minimum over all static call sites of what they pass
func (a *c08LB) atSlot(sl an.XBSlot, depth int) int64 {
	cs := a.g.Callers[sl.Fn]
	if len(cs) == 0 || depth >= c08MaxDepth-4 {
		return c08NoBound
	}
	lb := -c08NoBound
	n := 0
	for _, call := range cs {
		if call.Parent() == sl.Fn {
			continue
		}
		val, pass, isPass := an.XBArgOf(call, sl)
		var l int64
		switch {
		case val != nil:
			l = a.at(val, call.Parent(), call, nil, depth+1)
		case isPass:
			l = a.atSlot(pass, depth+1)
		default:
			// a struct variable handed over as a whole: bound of that field of the variable
			l = c08NoBound
			if sl.Field >= 0 && sl.Idx < len(call.Common().Args) {
				if u, ok := call.Common().Args[sl.Idx].(*ssa.UnOp); ok && u.Op == token.MUL {
					if cell, ok := u.X.(*ssa.Alloc); ok {
						l = a.cellFieldAt(cell, sl.Field, call.Parent(), u, depth+1)
					}
				}
			}
			if l == c08NoBound {
				return c08NoBound
			}
		}
		n++
		if l < lb {
			lb = l
		}
	}
	if n == 0 || lb == -c08NoBound {
		return c08NoBound
	}
	return lb
}

func (a *c08LB) at(v ssa.Value, fn *ssa.Function, site ssa.Instruction, extra *an.Edge, depth int) int64 {
	if k, ok := an.XBInt64(v); ok {
		return k
	}
	if depth > c08MaxDepth || a.busy[v] {
		return -c08NoBound // on a cycle: neutral element of min (the other operands decide)
	}
	a.busy[v] = true
	defer delete(a.busy, v)
	facts := a.factsAt(fn, site, extra)
	lb := c08NoBound
	switch x := v.(type) {
	case *ssa.Convert:
		lb = a.at(x.X, fn, site, extra, depth+1)
	case *ssa.Phi:
		lb = -c08NoBound
		for i, e := range x.Edges {
			pred := x.Block().Preds[i]
			term := pred.Instrs[len(pred.Instrs)-1]
			var ex *an.Edge
			for si, sb := range pred.Succs {
				if sb == x.Block() {
					ee := an.Edge{From: pred, Succ: si}
					ex = &ee
				}
			}
			if l := a.at(e, fn, term, ex, depth+1); l < lb {
				lb = l
			}
		}
		if lb == -c08NoBound {
			lb = c08NoBound
		}
	case *ssa.BinOp:
		lx := a.at(x.X, fn, site, extra, depth+1)
		ky, yIsK := an.XBInt64(x.Y)
		switch x.Op {
		case token.ADD:
			ly := a.at(x.Y, fn, site, extra, depth+1)
			if lx == -c08NoBound || ly == -c08NoBound {
				// x = phi + k inside a loop: monotone step
				if yIsK && ky >= 0 {
					lb = -c08NoBound
				}
			} else if lx > c08NoBound && ly > c08NoBound {
				lb = lx + ly
			}
		case token.SUB:
			if yIsK && lx > c08NoBound && lx != -c08NoBound {
				lb = lx - ky
			} else {
				// a - b where a >= b (or a > b) holds on the way
				for _, r := range facts {
					if r.X == x.X && r.Y == x.Y {
						if r.Op == token.GEQ {
							lb = 0
						} else if r.Op == token.GTR {
							lb = 1
						}
					}
					if r.X == x.Y && r.Y == x.X {
						if r.Op == token.LEQ {
							lb = 0
						} else if r.Op == token.LSS {
							lb = 1
						}
					}
				}
			}
		case token.QUO:
			if yIsK && ky > 0 && lx >= 0 && lx != -c08NoBound {
				lb = lx / ky
			}
		case token.REM:
			if yIsK && ky > 0 && lx >= 0 && lx != -c08NoBound {
				lb = 0
			}
		}
	case *ssa.Parameter:
		if sl, ok := an.XBSlotOf(x); ok {
			lb = a.atSlot(sl, depth)
		}
	case *ssa.Field:
		if sl, ok := an.XBSlotOf(x); ok {
			lb = a.atSlot(sl, depth)
		} else if fv := an.XBFieldValue(x.X, x.Field); fv != nil {
			lb = a.at(fv, fn, site, extra, depth+1)
		}
	case *ssa.UnOp:
		// field of a struct parameter that was spilled into a local cell
		if sl, ok := an.XBSlotOf(x); ok {
			lb = a.atSlot(sl, depth)
		} else if x.Op == token.MUL {
			// field of a local struct variable (e.g. the result of the depth inference kept in a variable)
			if fa, ok := x.X.(*ssa.FieldAddr); ok {
				if cell, ok := fa.X.(*ssa.Alloc); ok {
					lb = a.cellFieldAt(cell, fa.Field, fn, x, depth+1)
				}
			}
		}
	case *ssa.Extract:
		if call, ok := x.Tuple.(*ssa.Call); ok {
			if g := an.Callee(call).Static; g != nil && a.g.In[g] && depth < c08MaxDepth-4 {
				lb = -c08NoBound
				for _, r := range an.Returns(g) {
					if x.Index < len(r.Results) {
						if l := a.at(r.Results[x.Index], g, r, nil, depth+1); l < lb {
							lb = l
						}
					}
				}
				if lb == -c08NoBound {
					lb = c08NoBound
				}
			}
		}
	case *ssa.Call:
		if x.Common().Value != nil {
			if b, ok := x.Common().Value.(*ssa.Builtin); ok && (b.Name() == "len" || b.Name() == "cap") {
				lb = 0
			}
		}
	}
	if lb == -c08NoBound {
		return lb
	}
	return a.refine(v, lb, facts)
}

// c08DepthSentinel implements O6.
func c08DepthSentinel(c *an.Ctx, tfns []*ssa.Function, g *an.XBGraph, entry *ssa.Function) {
	name := an.FuncName(entry)
	// The depth-bounded loop may live in the recursive filler itself or in a package-local helper on its recursion
	// cycle (filler -> helper -> filler): pick the function of the cycle that holds the bound test counter < parameter.
	cycle := []*ssa.Function{entry}
	{
		reachesEntry := func(from *ssa.Function) bool {
			seen := map[*ssa.Function]bool{}
			var walk func(f *ssa.Function) bool
			walk = func(f *ssa.Function) bool {
				for _, call := range an.AllCalls(f) {
					t := an.Callee(call).Static
					if t == entry {
						return true
					}
					if t != nil && g.In[t] && !seen[t] {
						seen[t] = true
						if walk(t) {
							return true
						}
					}
				}
				return false
			}
			return walk(from)
		}
		seen := map[*ssa.Function]bool{entry: true}
		var collect func(f *ssa.Function)
		collect = func(f *ssa.Function) {
			for _, call := range an.AllCalls(f) {
				t := an.Callee(call).Static
				if t != nil && g.In[t] && !seen[t] && reachesEntry(t) {
					seen[t] = true
					cycle = append(cycle, t)
					collect(t)
				}
			}
		}
		collect(entry)
	}
	hasBound := func(f *ssa.Function) bool {
		for _, r := range an.XBEdgeRels(f) {
			x, y, op := r.X, r.Y, r.Op
			if _, ok := x.(*ssa.Parameter); ok {
				x, y, op = y, x, an.XBSwap(op)
			}
			par, okP := y.(*ssa.Parameter)
			_, okD := x.(*ssa.Phi)
			if okP && okD && (op == token.LSS || op == token.LEQ) && c06IsInt(par.Type()) {
				return true
			}
		}
		return false
	}
	rec := entry
	for _, f := range cycle {
		if hasBound(f) {
			rec = f
		}
	}
	// the depth parameter: the int parameter compared with the loop counter that guards the recursive call
	// the recursive step: a call of rec to itself or to a package-local helper that calls back into rec
	reaches := func(from *ssa.Function) bool {
		seen := map[*ssa.Function]bool{}
		var walk func(f *ssa.Function) bool
		walk = func(f *ssa.Function) bool {
			for _, call := range an.AllCalls(f) {
				t := an.Callee(call).Static
				if t == rec {
					return true
				}
				if t != nil && g.In[t] && !seen[t] {
					seen[t] = true
					if walk(t) {
						return true
					}
				}
			}
			return false
		}
		return walk(from)
	}
	var rcs []ssa.CallInstruction
	for _, call := range an.AllCalls(rec) {
		t := an.Callee(call).Static
		onCycle := false
		for _, cf := range cycle {
			if t == cf {
				onCycle = true
			}
		}
		if t == rec || onCycle || (t != nil && g.In[t] && reaches(t)) {
			rcs = append(rcs, call)
		}
	}
	if !c.Need(len(rcs) > 0, "recursive call of "+rec.Name()) {
		return
	}
	var P *ssa.Parameter
	pIdx := -1
	bound := an.EdgeSet{}
	var counter *ssa.Phi
	for e, r := range an.XBEdgeRels(rec) {
		x, y, op := r.X, r.Y, r.Op
		if _, ok := x.(*ssa.Parameter); ok {
			x, y, op = y, x, an.XBSwap(op)
		}
		par, okP := y.(*ssa.Parameter)
		ph, okD := x.(*ssa.Phi)
		if okP && okD && (op == token.LSS || op == token.LEQ) && c06IsInt(par.Type()) {
			P, counter = par, ph
			bound[e] = true
		}
	}
	if !c.Need(P != nil, "depth bound test (loop counter < depth parameter) in "+rec.Name()) {
		return
	}
	for i, q := range rec.Params {
		if q == P {
			pIdx = i
		}
	}
	// (a) every other test of the depth parameter from which the recursion is reachable without passing the bound test
	// enables the unlimited mode; the set of depth values it accepts must be negative only
	var sentinelOK func(k int64) bool
	nU := 0
	enabling := an.EdgeSet{}
	accepts := []func(int64) bool{}
	for e, r := range an.XBEdgeRels(rec) {
		x, y, op := r.X, r.Y, r.Op
		if _, isK := an.XBInt64(x); isK {
			x, y, op = y, x, an.XBSwap(op)
		}
		k, isK := an.XBInt64(y)
		if !isK || x != ssa.Value(P) {
			continue
		}
		tgt := e.From.Succs[e.Succ]
		reach := false
		for _, rc := range rcs {
			if len(tgt.Instrs) > 0 && (tgt.Instrs[0] == ssa.Instruction(rc) || an.Reaches(rec, tgt.Instrs[0], rc, bound, nil)) {
				reach = true
			}
		}
		if !reach {
			continue
		}
		enabling[e] = true
		nU++
		onlyNeg := false
		var acc func(int64) bool
		switch op {
		case token.EQL:
			onlyNeg = k < 0
			acc = func(v int64) bool { return v == k }
		case token.LSS:
			onlyNeg = k <= 0
			acc = func(v int64) bool { return v < k }
		case token.LEQ:
			onlyNeg = k < 0
			acc = func(v int64) bool { return v <= k }
		case token.NEQ:
			acc = func(v int64) bool { return v != k }
		case token.GTR:
			acc = func(v int64) bool { return v > k }
		case token.GEQ:
			acc = func(v int64) bool { return v >= k }
		}
		if acc != nil {
			accepts = append(accepts, acc)
		}
		tpos := rec.Pos()
		if ifi, ok := e.From.Instrs[len(e.From.Instrs)-1].(*ssa.If); ok && ifi.Cond.Pos().IsValid() {
			tpos = ifi.Cond.Pos()
		}
		c.Check(onlyNeg, "O6", "R-CMP", name, "unlimited-depth-mode<=negative-sentinel-only", tpos,
			"the test that lets the recursion run without a depth bound accepts negative depth values only",
			fmt.Sprintf("the unbounded mode of %s is enabled by a test (%s %s %d) that also accepts a depth >= 0: callers pass 0 for 'leaves only' (append into a partially filled first layer) and would get an unbounded sub-tree in a shallow slot (child dag was too deep)", rec.Name(), P.Name(), op, k))
	}
	sentinelOK = func(k int64) bool {
		for _, a := range accepts {
			if a(k) {
				return true
			}
		}
		return false
	}
	// (c) the recursion is entered only through the bound test or the unlimited-mode test, and the counter starts at >= 1
	lbA := &c08LB{g: g, busy: map[ssa.Value]bool{}}
	for _, rc := range rcs {
		guards := bound.Union(enabling)
		okG := an.GuardedBy(rec, nil, rc, guards)
		init := int64(c08NoBound)
		if counter != nil {
			init = -c08NoBound
			for _, e := range counter.Edges {
				if k, ok := an.XBInt64(e); ok && k < init {
					init = k
				}
			}
		}
		c.Check(okG && init >= 1 && init != -c08NoBound, "O6", "R-DOM", name, "leaf-only-depth-never-recurses", rc.Pos(),
			"the recursive step is reached only through the bound test counter < depth with a counter starting at >= 1 (or the unlimited-mode test): depth 0 adds leaves only",
			"the recursive filling step is not guarded by counter < depth (counter starting at >= 1) or by the unlimited-mode test: a depth of 0 ('leaves only') can create sub-trees")
	}
	// (b) callers: the unlimited-mode constant, or a depth that is provably >= 0. The depth parameter may be handed
	// through by other functions (filler -> helper): such pass-through sites are not origins.
	type dslot struct {
		f *ssa.Function
		i int
	}
	depthSlots := map[dslot]bool{{rec, pIdx}: true}
	for changed := true; changed; {
		changed = false
		for _, fn := range tfns {
			for _, call := range an.AllCalls(fn) {
				t := an.Callee(call).Static
				if t == nil {
					continue
				}
				for i, a := range call.Common().Args {
					if !depthSlots[dslot{t, i}] {
						continue
					}
					if par, ok := a.(*ssa.Parameter); ok && par.Parent() == fn {
						for j, q := range fn.Params {
							if q == par && !depthSlots[dslot{fn, j}] {
								depthSlots[dslot{fn, j}] = true
								changed = true
							}
						}
					}
				}
			}
		}
	}
	// layer counters: phi(start, phi+k)
	layerStep := func(v ssa.Value) (int64, bool) {
		ph, ok := v.(*ssa.Phi)
		if !ok {
			return 0, false
		}
		for _, e := range ph.Edges {
			if b, ok := e.(*ssa.BinOp); ok && b.Op == token.ADD && b.X == ssa.Value(ph) {
				if k, isK := an.XBInt64(b.Y); isK && k > 0 {
					return k, true
				}
			}
		}
		return 0, false
	}
	isLayerCounter := func(v ssa.Value) bool {
		_, ok := layerStep(v)
		return ok
	}
	// boundEdges: edges on which counter < P (strict) / counter <= P for an int parameter P of fn
	boundEdges := func(fn *ssa.Function, counter ssa.Value, strict bool) (an.EdgeSet, bool) {
		any := false
		es := an.XBEdgesWhere(fn, func(r an.XBRel) bool {
			x, y, op := r.X, r.Y, r.Op
			if _, ok := x.(*ssa.Parameter); ok {
				x, y, op = y, x, an.XBSwap(op)
			}
			par, okP := y.(*ssa.Parameter)
			if !okP || x != counter || !c06IsInt(par.Type()) {
				return false
			}
			if op == token.LSS || op == token.LEQ {
				any = true
			}
			return op == token.LSS || (!strict && op == token.LEQ)
		})
		return es, any
	}
	onCycle := map[*ssa.Function]bool{}
	for _, f := range cycle {
		onCycle[f] = true
	}
	// the first layer depth the fresh filler hands to itself (start of its own layer counter)
	freshStart := -c08NoBound
	freshStep, freshStrict := int64(0), false
	for _, f := range cycle {
		for _, call := range an.AllCalls(f) {
			t := an.Callee(call).Static
			if t == nil || !onCycle[t] {
				continue
			}
			for ai, arg := range call.Common().Args {
				if depthSlots[dslot{t, ai}] && isLayerCounter(arg) {
					if l := lbA.at(arg, f, call, nil, 0); l < freshStart {
						freshStart = l
					}
					freshStep, _ = layerStep(arg)
					es, _ := boundEdges(f, arg, true)
					el, _ := boundEdges(f, arg, false)
					if len(es) > 0 && len(es) == len(el) {
						freshStrict = true
					}
				}
			}
		}
	}
	nCalls, nSent, nSib := 0, 0, 0
	for _, fn := range tfns {

		for _, call := range an.AllCalls(fn) {
			t := an.Callee(call).Static
			if t == nil {
				continue
			}
			for ai, arg := range call.Common().Args {
				if !depthSlots[dslot{t, ai}] {
					continue
				}
				if par, ok := arg.(*ssa.Parameter); ok && par.Parent() == fn {
					pass := false
					for j, q := range fn.Params {
						if q == par && depthSlots[dslot{fn, j}] {
							pass = true
						}
					}
					if pass {
						continue
					}
				}
				nCalls++
				if k, isK := an.XBInt64(arg); isK && k < 0 {
					nSent++
					c.Check(sentinelOK(k), "O6", "R-CONST", an.FuncName(fn), "unlimited-depth-constant-is-recognised", call.Pos(),
						"the negative depth constant passed here is the one the unlimited-mode test accepts",
						fmt.Sprintf("%s is called with the negative depth %d, which the unlimited-mode test does not accept: the recursion loop never runs and the rest of the input is dropped", t.Name(), k))
					continue
				}
				lb := lbA.at(arg, fn, call, nil, 0)
				if !onCycle[fn] && isLayerCounter(arg) && freshStart != -c08NoBound && freshStart > c08NoBound {
					// sibling agreement: a layer loop outside the fresh filler continues the progression of the fresh
					// filler's own layer loop; it can never start below the fresh filler's first layer
					nSib++
					c.Check(lb >= freshStart && lb != -c08NoBound, "O4", "R-SIB", an.FuncName(fn), "layer-progression-starts>=fresh-filler-start", call.Pos(),
						"the layer loop of the append path starts at a depth the fresh filler's layer loop also uses",
						fmt.Sprintf("the layer loop here may hand depth %d to %s, but the fresh filler's own layer loop starts at %d (right after it filled the direct-block layer): after the direct blocks were filled here the next layer must be the first one, otherwise an append builds a different layout than a fresh import of the same data", lb, t.Name(), freshStart))
					if step, _ := layerStep(arg); freshStep > 0 {
						c.Check(step == freshStep, "O4", "R-SIB", an.FuncName(fn), "layer-progression-step=fresh-filler-step", call.Pos(),
							"the layer loop of the append path advances the depth like the fresh filler's layer loop",
							fmt.Sprintf("the layer loop here advances the depth by %d per layer, the fresh filler by %d: layers are skipped and sub-trees are built deeper than their position allows", step, freshStep))
					}
					if es, any := boundEdges(fn, arg, freshStrict); any {
						// like the fresh filler, the loop may also run unbounded under a negative sentinel of a parameter
						sent := an.XBEdgesWhere(fn, func(r an.XBRel) bool {
							_, isP := r.X.(*ssa.Parameter)
							k, isK := an.XBInt64(r.Y)
							return isP && isK && k < 0 && r.Op == token.EQL
						})
						es = es.Union(sent)
						c.Check(len(es) > 0 && an.GuardedBy(fn, nil, call, es), "O4", "R-SIB", an.FuncName(fn), "layer-progression-bound-like-fresh-filler", call.Pos(),
							"the depth-bounded layer loop of the append path stops where the fresh filler's loop stops (counter < maximum depth)",
							"the layer loop here is bounded by a depth parameter but a layer is filled where the fresh filler's test (counter < maximum depth) does not hold: the refilled sub-tree becomes deeper than its position allows (child dag was too deep)")
					}
				}
				c.Check(lb >= 0 && lb != -c08NoBound, "O6", "R-CMP", an.FuncName(fn), "depth-argument>=0", call.Pos(),
					"the depth passed to the bounded filler is provably >= 0, so it can never be taken for the unlimited-depth sentinel",
					"the depth passed to "+t.Name()+" is not provably >= 0 (counter, parameter lifted to its call sites, difference guarded by its test, result of the depth inference): a negative depth would switch the filler into unlimited mode")
			}
		}
	}
	c.Min("O6 calls of the depth-bounded filler", nCalls, 1)
	c.Min("O4 layer loops of the append path compared with the fresh filler", nSib, 1)
	_ = nU
	_ = nSent
}
