package props

import (
	"go/constant"
	"go/token"
	"go/types"
	"strings"

	"golang.org/x/tools/go/ssa"

	"verif/checker/an"
)

func init() {
	register("C37", Prop{
		Pkgs: []string{"./bitswap/client", "./bitswap/client/internal/getter", "./bitswap/client/internal/notifications", "./bitswap/client/internal/session", "./bitswap/client/internal/sessionmanager", "./bitswap/client/internal/sessioninterestmanager"},
		Explain: "Decided (structural necessary conditions of 'each requested block is delivered at most once, nothing else is delivered, wants are cleaned up after completion or cancellation'): " +
			"O1 only wanted blocks are published: blocks taken from a received message (BitSwapMessage.Blocks) reach PubSub.Publish only as the `wanted` result of SplitWantedUnwanted; SplitWantedUnwanted appends to `wanted` only on the true edge of the wanted-set test for that block, and the set only gets CIDs some session is registered for; " +
			"O2 single delivery per key: notifications subscribes only through AddSubOnceEach, subscription topics and publication topics are both cid.KeyString of the subscribed key / of the very block that is published; " +
			"O3 getter: the incoming-block handler registers, before its loop, a deferred call of the cancel function with the keys still remaining, removes a block's CID from the remaining set before forwarding that block, AsyncGetBlocks subscribes before it sends the wants and hands the subscription, the set filled with all keys and the cancel function to the handler goroutine; Client.GetBlocks cancels its temporary session on the error return and, deferred, in its forwarding goroutine; " +
			"O4 cleanup chain: the session's cancel callback enqueues opCancel with the same keys; the run loop turns opCancel into sessionWantSender.Cancel of those keys and shutdown into SessionManager.RemoveSession; received wanted keys go to CancelSessionWants; sessionWantSender forwards cancels to CancelSessionWants with its own session id; SessionManager turns RemoveSessionWants/RemoveSession results into PeerManager.SendCancels. " +
			"O5 session want bookkeeping: in sessionWants a key taken out of the fetch queue is either dropped from liveWants too or made live in the same function, a key deleted from liveWants is also removed from the fetch queue, lists built from liveWantsOrder only contain keys still present in liveWants, and the run loop's opCancel also calls sessionWants.CancelPending with the operation's keys; " +
			"O6 SessionInterestManager reports a key as 'no session interested any more' (to be cancelled) only where, after removing the session, the key's session set is empty, and it does report it there. " +
			"NOT decided: delivery itself (network, peers, timing), at-most-once across overlapping sessions at run time, behaviour of github.com/cskr/pubsub, the in-memory test network.",
		Assume:    []string{"cskr/pubsub.AddSubOnceEach delivers at most one message per topic and closes the channel after the last", "SessionInterestManager.wants is only mutated in its package"},
		Technique: "taint from received message to publish sink with sanitizer (R-TAINT), callee identity (R-API), sibling key-function agreement (R-SIB), dominance and deferred-call rules (R-DOM/R-POST), value provenance along the cancel chain (R-FLOW)",
		Run:       runC37,
	})
}

const (
	c37Cl    = "bitswap/client"
	c37Get   = "bitswap/client/internal/getter"
	c37Not   = "bitswap/client/internal/notifications"
	c37Ses   = "bitswap/client/internal/session"
	c37SM    = "bitswap/client/internal/sessionmanager"
	c37SIM   = "bitswap/client/internal/sessioninterestmanager"
	c37PS    = "github.com/cskr/pubsub"
	c37CidP  = "github.com/ipfs/go-cid"
	c37Block = "github.com/ipfs/go-block-format"
)

// c37Varargs returns the element values of a variadic argument built at the
// call site (slice of a fresh array), or nil when v is a forwarded slice.
func c37Varargs(v ssa.Value) []ssa.Value {
	sl, ok := v.(*ssa.Slice)
	if !ok {
		return nil
	}
	arr, ok := sl.X.(*ssa.Alloc)
	if !ok {
		return nil
	}
	var out []ssa.Value
	for _, r := range *arr.Referrers() {
		ia, ok := r.(*ssa.IndexAddr)
		if !ok {
			continue
		}
		for _, r2 := range *ia.Referrers() {
			if st, ok := r2.(*ssa.Store); ok && st.Addr == ssa.Value(ia) {
				out = append(out, st.Val)
			}
		}
	}
	return out
}

// c37Deref: value of a single-store cell load (captured parameter), else v.
func c37Deref(v ssa.Value) ssa.Value {
	for i := 0; i < 4; i++ {
		if ct, ok := v.(*ssa.ChangeType); ok { // chan T -> chan<- T and the like
			v = ct.X
			continue
		}
		u, ok := v.(*ssa.UnOp)
		if !ok || u.Op != token.MUL {
			return v
		}
		cell := an.CellOf(u.X)
		if cell == nil {
			return v
		}
		var only ssa.Value
		n := 0
		for _, r := range *cell.Referrers() {
			if st, ok := r.(*ssa.Store); ok && st.Addr == ssa.Value(cell) {
				only = st.Val
				n++
			}
		}
		if n != 1 {
			return v
		}
		v = only
	}
	return v
}

// c37SubSliced: v is (derived from) a re-sliced part x[a:b] of a list rather than the whole list.
func c37SubSliced(v ssa.Value) bool {
	for i := 0; i < 6; i++ {
		v = c37Deref(v)
		sl, ok := v.(*ssa.Slice)
		if !ok {
			return false
		}
		if sl.Low != nil || sl.High != nil {
			if _, isArr := sl.X.Type().Underlying().(*types.Pointer); !isArr { // not the varargs array
				return true
			}
		}
		v = sl.X
	}
	return false
}

// c37Ref names a value a function works with: one of its parameters, or (fld != nil) a
// field of a struct parameter (passed by value or by pointer) that carries it.
type c37Ref struct {
	par *ssa.Parameter
	fld *types.Var
}

func (r c37Ref) ok() bool { return r.par != nil }

// c37StructOf: the value the struct behind a field address comes from (a by-value
// parameter spilled to a cell and possibly captured, or a pointer parameter).
func c37StructOf(x ssa.Value) ssa.Value {
	if cell := an.CellOf(x); cell != nil {
		var only ssa.Value
		n := 0
		for _, r := range *cell.Referrers() {
			if st, ok := r.(*ssa.Store); ok && st.Addr == ssa.Value(cell) {
				only = st.Val
				n++
			}
		}
		if n == 1 {
			return c37Deref(only)
		}
		return nil
	}
	return c37Deref(x)
}

// is: v is (a load of) the referenced value.
func (r c37Ref) is(v ssa.Value) bool {
	if r.par == nil {
		return false
	}
	v = c37Deref(v)
	if r.fld == nil {
		return v == ssa.Value(r.par)
	}
	switch x := v.(type) {
	case *ssa.Field:
		f, _ := an.FieldOf(x)
		return f == r.fld && c37Deref(x.X) == ssa.Value(r.par)
	case *ssa.UnOp:
		if x.Op != token.MUL {
			return false
		}
		fa, ok := x.X.(*ssa.FieldAddr)
		if !ok {
			return false
		}
		if f, _ := an.FieldOf(fa); f != r.fld {
			return false
		}
		return c37StructOf(fa.X) == ssa.Value(r.par)
	}
	return false
}

// stable: the carrying field is never reassigned in fn or its closures.
func (r c37Ref) stable(fn *ssa.Function) bool {
	if r.fld == nil {
		return true
	}
	okAll := true
	for _, g := range c34Closure(fn) {
		if g != fn && g.Parent() == nil {
			continue
		}
		an.Instrs(g, func(in ssa.Instruction) {
			st, ok := in.(*ssa.Store)
			if !ok {
				return
			}
			if fa, ok := st.Addr.(*ssa.FieldAddr); ok {
				if f, _ := an.FieldOf(fa); f == r.fld && c37StructOf(fa.X) == ssa.Value(r.par) {
					okAll = false
				}
			}
		})
	}
	return okAll
}

// pass: the reference as seen inside callee g when the call hands over args.
func (r c37Ref) pass(args []ssa.Value, g *ssa.Function) c37Ref {
	for i, a := range args {
		if i >= len(g.Params) {
			break
		}
		if r.is(a) {
			return c37Ref{par: g.Params[i]}
		}
		if r.fld != nil && c37Deref(a) == ssa.Value(r.par) {
			return c37Ref{par: g.Params[i], fld: r.fld}
		}
	}
	return c37Ref{}
}

// arg: the value the reference denotes at a call site of its function: the argument, or
// the value stored into the carrying field of the struct built for the argument.
func (r c37Ref) arg(call ssa.CallInstruction, callee *ssa.Function) ssa.Value {
	idx := -1
	for i, q := range callee.Params {
		if q == r.par {
			idx = i
		}
	}
	args := call.Common().Args
	if idx < 0 || idx >= len(args) {
		return nil
	}
	a := args[idx]
	if r.fld == nil {
		return a
	}
	// the struct: a local composite (load of its cell, or its address)
	var cell *ssa.Alloc
	if u, ok := a.(*ssa.UnOp); ok && u.Op == token.MUL {
		cell = an.CellOf(u.X)
	} else {
		cell = an.CellOf(a)
	}
	if cell == nil {
		return nil
	}
	var val ssa.Value
	n := 0
	for _, ref := range *cell.Referrers() {
		switch x := ref.(type) {
		case *ssa.FieldAddr:
			if f, _ := an.FieldOf(x); f != r.fld {
				continue
			}
			for _, r2 := range *x.Referrers() {
				if st, ok := r2.(*ssa.Store); ok && st.Addr == ssa.Value(x) {
					n++
					val = st.Val
					if !an.Dominates(st, call.(ssa.Instruction)) {
						n++
					}
				}
			}
		case *ssa.Store:
			if x.Addr == ssa.Value(cell) {
				n += 2 // whole-struct assignment: not followed
			}
		}
	}
	if n != 1 {
		return nil
	}
	return val
}

// ---------------------------------------------------------------------------
// role-based resolution of the unexported parts of package session (and friends)

type c37Roles struct {
	swT, swsT, queueT, opT     *types.Named
	swName, swsName, queueName string
	fLive, fOrder, fFetch      *types.Var // want bookkeeping: live map, order list, fetch queue
	fOp, fKeys                 *types.Var // operation kind and keys
	fID, fSwsID                *types.Var
	run                        *ssa.Function // the session's run loop (goroutine started by New)
	receive                    *ssa.Function // the Session method feeding received keys to the want bookkeeping
	qRemove, qPop              string
	cancelWants                *ssa.Function // SessionManager's sender of CANCELs
	opConsts                   []*types.Const
}

var c37R *c37Roles

func c37Resolve(p *an.Prog) *c37Roles {
	r := &c37Roles{}
	ses := p.Named(c37Ses, "Session")
	if ses == nil {
		return r
	}
	local := func(t types.Type) *types.Named {
		if pt, ok := t.(*types.Pointer); ok {
			t = pt.Elem()
		}
		n, ok := types.Unalias(t).(*types.Named)
		if !ok || n.Obj().Pkg() == nil || n.Obj().Pkg().Path() != an.Mod+"/"+c37Ses {
			return nil
		}
		if _, isStruct := n.Underlying().(*types.Struct); !isStruct {
			return nil
		}
		return n
	}
	isCidSlice := func(t types.Type) bool {
		sl, ok := t.Underlying().(*types.Slice)
		return ok && an.TypeIs(sl.Elem(), c37CidP, "Cid")
	}
	isU64 := func(t types.Type) bool {
		b, ok := t.Underlying().(*types.Basic)
		return ok && b.Kind() == types.Uint64
	}
	sst := ses.Underlying().(*types.Struct)
	for i := 0; i < sst.NumFields(); i++ {
		f := sst.Field(i)
		if isU64(f.Type()) {
			r.fID = f
		}
		if ch, ok := f.Type().Underlying().(*types.Chan); ok {
			if n := local(ch.Elem()); n != nil {
				st := n.Underlying().(*types.Struct)
				var fo, fk *types.Var
				for j := 0; j < st.NumFields(); j++ {
					g := st.Field(j)
					if isCidSlice(g.Type()) {
						fk = g
					} else if b, ok := g.Type().Underlying().(*types.Basic); ok && b.Info()&types.IsInteger != 0 {
						if _, named := g.Type().(*types.Named); named {
							fo = g
						}
					}
				}
				if fo != nil && fk != nil {
					r.opT, r.fOp, r.fKeys = n, fo, fk
				}
			}
			continue
		}
		n := local(f.Type())
		if n == nil {
			continue
		}
		st := n.Underlying().(*types.Struct)
		// want bookkeeping: map[cid]time.Time + []cid + pointer to a queue struct
		var fl, fo, ff *types.Var
		var u64 []*types.Var
		hasCancelM := false
		for j := 0; j < st.NumFields(); j++ {
			g := st.Field(j)
			switch t := g.Type().Underlying().(type) {
			case *types.Map:
				if an.TypeIs(t.Key(), c37CidP, "Cid") && an.TypeIs(t.Elem(), "time", "Time") {
					fl = g
				}
			case *types.Slice:
				if isCidSlice(g.Type()) {
					fo = g
				}
			case *types.Pointer:
				if q := local(g.Type()); q != nil {
					ff = g
				}
			}
			if isU64(g.Type()) {
				u64 = append(u64, g)
			}
		}
		for j := 0; j < n.NumMethods(); j++ {
			if n.Method(j).Name() == "Cancel" {
				hasCancelM = true
			}
		}
		switch {
		case fl != nil && fo != nil && ff != nil:
			r.swT, r.swName, r.fLive, r.fOrder, r.fFetch = n, n.Obj().Name(), fl, fo, ff
			r.queueT = local(ff.Type())
		case hasCancelM && len(u64) == 1:
			r.swsT, r.swsName, r.fSwsID = n, n.Obj().Name(), u64[0]
		}
	}
	if r.queueT != nil {
		r.queueName = r.queueT.Obj().Name()
		for j := 0; j < r.queueT.NumMethods(); j++ {
			m := r.queueT.Method(j)
			sig := m.Type().(*types.Signature)
			switch {
			case sig.Params().Len() == 1 && sig.Results().Len() == 0 && an.TypeIs(sig.Params().At(0).Type(), c37CidP, "Cid"):
				// remove(c) vs push(c): remove deletes from a map / marks removal, push appends; tell by name-free shape below
				if fn := p.Func(c37Ses, r.queueName, m.Name()); fn != nil && (len(an.Calls(fn, an.M("builtin", "", "delete"))) > 0 || len(an.Calls(fn, an.M(c37CidP, "Set", "Remove"))) > 0) {
					r.qRemove = m.Name()
				}
			case sig.Params().Len() == 0 && sig.Results().Len() == 1 && an.TypeIs(sig.Results().At(0).Type(), c37CidP, "Cid"):
				r.qPop = m.Name()
			}
		}
	}
	if r.opT != nil {
		if pk := p.Pkg(c37Ses); pk != nil {
			for _, name := range pk.Types.Scope().Names() {
				if k, ok := pk.Types.Scope().Lookup(name).(*types.Const); ok && types.Identical(k.Type(), r.fOp.Type()) {
					r.opConsts = append(r.opConsts, k)
				}
			}
		}
	}
	// the run loop: the Session method started with `go` by the exported constructor that selects on the op channel
	if newFn := p.Func(c37Ses, "", "New"); newFn != nil {
		for _, call := range an.AllCalls(newFn) {
			if _, isGo := call.(*ssa.Go); !isGo {
				continue
			}
			g := an.Callee(call).Static
			if g == nil || g.Signature.Recv() == nil || !an.TypeIs(g.Signature.Recv().Type(), c37Ses, "Session") {
				continue
			}
			hasSel := false
			an.Instrs(g, func(in ssa.Instruction) {
				if _, ok := in.(*ssa.Select); ok {
					hasSel = true
				}
			})
			if hasSel {
				r.run = g
			}
		}
	}
	// the receive handler: the Session method calling BlocksReceived of the want bookkeeping
	if r.swT != nil {
		for _, m := range p.Methods(c37Ses, "Session") {
			if len(an.Calls(m, an.M(c37Ses, r.swName, "BlocksReceived"))) > 0 {
				r.receive = m
			}
		}
	}
	// SessionManager: the unexported method through which both exported cleanup entry points
	// (CancelSessionWants, RemoveSession) get rid of wants nobody is interested in any more
	calleesOf := func(name string) map[*ssa.Function]bool {
		out := map[*ssa.Function]bool{}
		if f := p.Func(c37SM, "SessionManager", name); f != nil {
			for _, call := range an.AllCalls(f) {
				if g := an.Callee(call).Static; g != nil && g.Signature.Recv() != nil && an.TypeIs(g.Signature.Recv().Type(), c37SM, "SessionManager") {
					if o, ok := g.Object().(*types.Func); ok && !o.Exported() {
						out[g] = true
					}
				}
			}
		}
		return out
	}
	a, b := calleesOf("CancelSessionWants"), calleesOf("RemoveSession")
	for g := range a {
		if b[g] {
			r.cancelWants = g
		}
	}
	if r.cancelWants == nil {
		// only one of the entry points still uses it (the other one is then reported by the
		// cleanup-chain check): the single unexported method taking exactly a key list
		var cands []*ssa.Function
		for _, set := range []map[*ssa.Function]bool{a, b} {
			for g := range set {
				ps := g.Signature.Params()
				if ps.Len() != 1 || g.Signature.Results().Len() != 0 {
					continue
				}
				if sl, ok := ps.At(0).Type().Underlying().(*types.Slice); ok && an.TypeIs(sl.Elem(), c37CidP, "Cid") {
					cands = append(cands, g)
				}
			}
		}
		if len(cands) == 1 {
			r.cancelWants = cands[0]
		}
	}
	return r
}

func runC37(c *an.Ctx) {
	p := c.P
	if !c.Need(p.Pkg(c37Cl) != nil && p.Pkg(c37Get) != nil && p.Pkg(c37Not) != nil && p.Pkg(c37Ses) != nil && p.Pkg(c37SM) != nil && p.Pkg(c37SIM) != nil, "bitswap client packages (client, getter, notifications, session, sessionmanager, sessioninterestmanager)") {
		return
	}
	c37R = c37Resolve(p)
	mPublish := an.M(c37Not, "PubSub", "Publish")
	mSplit := an.M(c37SIM, "SessionInterestManager", "SplitWantedUnwanted")

	// ============================================================ O1 only wanted blocks published
	{
		fns := p.PkgFuncs(c37Cl)
		tainted := map[ssa.Value]bool{}
		for _, fn := range fns {
			for _, call := range an.Calls(fn, an.M(c34Msg, "BitSwapMessage", "Blocks")) {
				if cv := an.CallValue(call); cv != nil {
					tainted[cv] = true
				}
			}
		}
		nSrc := len(tainted)
		c.Min("O1 reads of BitSwapMessage.Blocks in bitswap/client", nSrc, 1)
		// labels of block slices: tainted = straight from the network, unwanted = result 1 of
		// SplitWantedUnwanted (both must not be published), wanted = result 0; parameters of
		// package-local functions inherit the labels of the arguments at their call sites
		unwanted, wantedV := map[ssa.Value]bool{}, map[ssa.Value]bool{}
		split := func(r ssa.Value) int { // 0 wanted, 1 unwanted, -1 none
			if _, isSplit := an.IsCallTo(r, mSplit); isSplit {
				if e, isE := r.(*ssa.Extract); isE {
					return e.Index
				}
			}
			return -1
		}
		isTainted := func(v ssa.Value) bool {
			for _, r := range an.Roots(v, nil) {
				if tainted[r] {
					return true
				}
			}
			return false
		}
		for changed := true; changed; {
			changed = false
			for _, fn := range fns {
				for _, call := range an.AllCalls(fn) {
					g := an.Callee(call).Static
					if g == nil || g.Pkg == nil || g.Pkg.Pkg.Path() != an.Mod+"/"+c37Cl {
						continue
					}
					for i, a := range call.Common().Args {
						if i >= len(g.Params) {
							continue
						}
						par := g.Params[i]
						if !tainted[par] && isTainted(a) {
							tainted[par] = true
							changed = true
						}
						for _, r := range an.Roots(a, nil) {
							if (split(r) == 1 || unwanted[r]) && !unwanted[par] {
								unwanted[par] = true
								changed = true
							}
							if (split(r) == 0 || wantedV[r]) && !wantedV[par] {
								wantedV[par] = true
								changed = true
							}
						}
					}
				}
			}
		}
		nPub, nWanted := 0, 0
		for _, fn := range fns {
			name := an.FuncName(fn)
			for _, pub := range an.Calls(fn, mPublish) {
				nPub++
				arg := an.Args(pub)[1]
				vals := c37Varargs(arg)
				if vals == nil {
					vals = []ssa.Value{arg}
				}
				ok, why := true, ""
				for _, v := range vals {
					for _, r := range an.Roots(v, nil) {
						if split(r) == 1 || unwanted[r] {
							ok, why = false, "the blocks published are the NOT-wanted result of SplitWantedUnwanted"
							continue
						}
						if split(r) == 0 || (wantedV[r] && !tainted[r]) {
							nWanted++
							continue
						}
						if tainted[r] {
							ok, why = false, "blocks received from the network ("+an.PathOf(r)+") are published without passing SplitWantedUnwanted"
						}
					}
				}
				c.Check(ok, "O1", "R-TAINT", name, "Publish<=wanted", pub.Pos(),
					"blocks from the network are published only as the wanted result of SplitWantedUnwanted",
					"notif.Publish: "+why+": subscribers (GetBlocks callers) can be handed blocks that no session asked for / duplicates of blocks already delivered")
			}
		}
		c.Min("O1 Publish calls in bitswap/client", nPub, 2)
		c.Min("O1 Publish calls fed by SplitWantedUnwanted", nWanted, 1)
	}
	// SplitWantedUnwanted itself
	if sp := p.Func(c37SIM, "SessionInterestManager", "SplitWantedUnwanted"); c.Need(sp != nil, "SessionInterestManager.SplitWantedUnwanted") {
		fWants := c37SimWants(p)
		c.Need(fWants != nil, "SessionInterestManager.wants")
		name := an.FuncName(sp)
		// appends feeding result 0
		var wantedAppends []*ssa.Call
		seen := map[ssa.Value]bool{}
		var collect func(v ssa.Value)
		collect = func(v ssa.Value) {
			if v == nil || seen[v] {
				return
			}
			seen[v] = true
			switch x := v.(type) {
			case *ssa.Phi:
				for _, e := range x.Edges {
					collect(e)
				}
			case *ssa.Slice:
				collect(x.X)
			case *ssa.Call:
				if bi, ok := x.Call.Value.(*ssa.Builtin); ok && bi.Name() == "append" {
					wantedAppends = append(wantedAppends, x)
					collect(x.Call.Args[0])
				}
			}
		}
		for _, r := range an.Returns(sp) {
			collect(r.Results[0])
		}
		c.Min("O1 appends to the wanted result of SplitWantedUnwanted", len(wantedAppends), 1)
		blockOfCid := func(v ssa.Value) ssa.Value { // v = X.Cid()
			if call, ok := an.IsCallTo(v, an.M(c37Block, "", "Cid")); ok {
				return an.Recv(call)
			}
			return nil
		}
		var sets []ssa.Value
		for _, a := range wantedAppends {
			elems := c37Varargs(a.Call.Args[1])
			var has []ssa.Value
			okSame := len(elems) > 0
			for _, h := range an.Calls(sp, an.M(c37CidP, "Set", "Has")) {
				b := blockOfCid(an.Args(h)[0])
				for _, e := range elems {
					if b != nil && an.SameObj(b, e) {
						has = append(has, an.CallValue(h))
						sets = append(sets, an.Recv(h))
					}
				}
			}
			okSame = okSame && len(has) > 0
			c.Check(okSame && an.GuardedByVal(sp, a, an.BoolEdges(sp, has, true), an.BoolIs(has, true)), "O1", "R-DOM", name, "append(wanted,b)<=wantedSet.Has(b.Cid())", a.Pos(),
				"a block is classified wanted only where the wanted-key set has its CID",
				"SplitWantedUnwanted appends a block to the wanted list without the true edge of wantedKs.Has(b.Cid()) for that block: unwanted blocks are published to subscribers")
		}
		// the wanted set only receives CIDs with a registered session
		nAdd := 0
		for _, add := range an.Calls(sp, an.M(c37CidP, "Set", "Add")) {
			isSet := false
			for _, s := range sets {
				if an.SameObj(s, an.Recv(add)) {
					isSet = true
				}
			}
			if !isSet {
				continue
			}
			nAdd++
			k := an.Args(add)[0]
			// guarded by "some session is registered for k": body of a range over sim.wants[k], or found-edge of a lookup in it, or len(...) != 0
			edges := an.EdgeSet{}
			var vals []ssa.Value
			an.Instrs(sp, func(in ssa.Instruction) {
				nx, ok := in.(*ssa.Next)
				if !ok {
					return
				}
				rg, ok := nx.Iter.(*ssa.Range)
				if !ok {
					return
				}
				lk, ok := rg.X.(*ssa.Lookup)
				if !ok || !an.SameObj(lk.Index, k) {
					return
				}
				if _, ok := c35LoadOfField(lk.X, fWants); !ok {
					return
				}
				for _, r := range *nx.Referrers() {
					if e, ok := r.(*ssa.Extract); ok && e.Index == 0 {
						vals = append(vals, e)
					}
				}
			})
			edges = an.BoolEdges(sp, vals, true)
			c.Check(len(vals) > 0 && an.GuardedBy(sp, nil, add.(ssa.Instruction), edges), "O1", "R-DOM", name, "wantedSet.Add(c)<=session-registered", add.Pos(),
				"a CID enters the wanted set only while iterating the sessions registered for it",
				"SplitWantedUnwanted adds a CID to the wanted set without some session being registered for it in sim.wants: every received block counts as wanted")
		}
		c.Min("O1 additions to the wanted set", nAdd, 1)
	}

	// ============================================================ O2 single delivery per key
	{
		fns := p.PkgFuncs(c37Not)
		nSub, nPub := 0, 0
		for _, fn := range fns {
			name := an.FuncName(fn)
			for _, call := range an.AllCalls(fn) {
				ci := an.Callee(call)
				if ci.Pkg != c37PS || ci.Recv != "PubSub" {
					continue
				}
				switch {
				case ci.Name == "AddSubOnceEach":
					nSub++
					// topics = g(keys) with g mapping every element through cid.KeyString
					args := an.Args(call)
					okTopics, why := false, "topics are not derived from the subscribed keys by a package function"
					if tc, ok := args[1].(*ssa.Call); ok {
						if g := an.Callee(tc).Static; g != nil && len(tc.Call.Args) == 1 {
							fromKeys := true
							for _, r := range an.Roots(tc.Call.Args[0], nil) {
								if par, ok := r.(*ssa.Parameter); !ok || par.Parent() != fn {
									fromKeys = false
								}
							}
							okTopics, why = fromKeys, "topics are not computed from Subscribe's own keys"
							if fromKeys && c37SubSliced(tc.Call.Args[0]) {
								fromKeys = false
								okTopics, why = false, "topics are computed from only a part of the subscribed key list"
							}
							if fromKeys {
								n := 0
								for _, ap := range an.Calls(g, an.M("builtin", "", "append")) {
									for _, e := range c37Varargs(ap.Common().Args[1]) {
										n++
										ks, isKS := an.IsCallTo(e, an.M(c37CidP, "Cid", "KeyString"))
										if !isKS {
											okTopics, why = false, "a topic is not cid.KeyString() of a key"
											continue
										}
										el := an.Recv(ks)
										u, isU := el.(*ssa.UnOp)
										if !isU {
											okTopics, why = false, "a topic is not the KeyString of an element of the key list"
											continue
										}
										if ia, ok := u.X.(*ssa.IndexAddr); !ok || ia.X != ssa.Value(g.Params[0]) {
											okTopics, why = false, "a topic is not the KeyString of an element of the key list"
										}
									}
								}
								// topics written by index: out[i] = keys[i].KeyString() in a loop over the keys,
								// out being as long as the key list
								an.Instrs(g, func(in ssa.Instruction) {
									st, isSt := in.(*ssa.Store)
									if !isSt {
										return
									}
									ia, isIA := st.Addr.(*ssa.IndexAddr)
									if !isIA {
										return
									}
									sl, isSl := ia.X.Type().Underlying().(*types.Slice)
									if !isSl || !types.Identical(sl.Elem(), types.Typ[types.String]) {
										return
									}
									n++
									ks, isKS := an.IsCallTo(st.Val, an.M(c37CidP, "Cid", "KeyString"))
									if !isKS {
										okTopics, why = false, "a topic is not cid.KeyString() of a key"
										return
									}
									okLoop := false
									for _, l := range an.SliceLoops(g) {
										if l.Slice != ssa.Value(g.Params[0]) || ia.Index != l.Idx || !l.IsElem(an.Recv(ks)) {
											continue
										}
										if l.Contains(st) && l.EveryIteration(st) {
											okLoop = true
										}
									}
									if !okLoop {
										okTopics, why = false, "a topic slot is not filled with the KeyString of the key at the same index, for every key"
										return
									}
									okLen := false
									for _, r := range an.Roots(ia.X, nil) {
										if mk, isMk := r.(*ssa.MakeSlice); isMk {
											if lc, isLen := an.IsBuiltinCall(mk.Len, "len"); isLen && lc.Call.Args[0] == ssa.Value(g.Params[0]) {
												okLen = true
												continue
											}
										}
										okLen = false
										break
									}
									if !okLen {
										okTopics, why = false, "the topic list written by index is not exactly as long as the key list"
									}
								})
								if n == 0 {
									okTopics, why = false, "the topic function produces no topic"
								}
							}
						}
					}
					c.Check(okTopics, "O2", "R-SIB", name, "AddSubOnceEach(topics=KeyString(keys))", call.Pos(),
						"subscription topics are cid.KeyString of each subscribed key",
						"Subscribe: "+why+": published blocks (topic = KeyString of the block's CID) never match, or match other keys than those requested")
				case strings.HasPrefix(ci.Name, "AddSub") || strings.HasPrefix(ci.Name, "Sub"):
					nSub++
					c.Bad("O2", "R-API", name, "subscribe-with-"+ci.Name, call.Pos(),
						"the block notifier subscribes with pubsub."+ci.Name+" instead of AddSubOnceEach: a key can be delivered more than once to the same request, and the channel is not closed after the last key")
				case ci.Name == "Pub":
					nPub++
					args := an.Args(call)
					// the published value
					var blk ssa.Value
					msg := args[0]
					for {
						if mi, ok := msg.(*ssa.MakeInterface); ok {
							msg = mi.X
						} else if ch, ok := msg.(*ssa.ChangeInterface); ok {
							msg = ch.X
						} else {
							break
						}
					}
					if an.TypeIs(msg.Type(), c37Block, "Block") {
						blk = msg
					} else if u, ok := msg.(*ssa.UnOp); ok && u.Op == token.MUL {
						if a, ok := u.X.(*ssa.Alloc); ok {
							for _, r := range *a.Referrers() {
								if fa, ok := r.(*ssa.FieldAddr); ok {
									if f, _ := an.FieldOf(fa); f != nil && f.Name() == "Block" {
										for _, r2 := range *fa.Referrers() {
											if st, ok := r2.(*ssa.Store); ok {
												blk = st.Val
											}
										}
									}
								}
							}
						}
					}
					topics := c37Varargs(args[1])
					ok := blk != nil && len(topics) == 1
					if ok {
						ks, isKS := an.IsCallTo(topics[0], an.M(c37CidP, "Cid", "KeyString"))
						ok = isKS
						if isKS {
							cc, isCid := an.IsCallTo(an.Recv(ks), an.M(c37Block, "", "Cid"))
							ok = isCid && an.SameObj(an.Recv(cc), blk)
						}
					}
					c.Check(ok, "O2", "R-SIB", name, "Pub(block,KeyString(block.Cid()))", call.Pos(),
						"a block is published under the KeyString of its own CID",
						"Publish: the topic is not exactly cid.KeyString of the CID of the block being published: a subscriber waiting for key K can receive a block that is not K (or never receive K)")
				}
			}
		}
		c.Min("O2 subscriptions in notifications", nSub, 1)
		c.Min("O2 publications in notifications", nPub, 1)
	}

	// ============================================================ O3 getter / GetBlocks
	runC37Getter(c)

	// ============================================================ O4 cleanup chain
	runC37Chain(c)

	// ============================================================ O5/O6 (round 2) want bookkeeping
	runC37Wants(c)
}

func runC37Getter(c *an.Ctx) {
	p := c.P
	fns := p.PkgFuncs(c37Get)
	isCancelFn := func(t types.Type) bool { // func([]cid.Cid)
		sig, ok := t.Underlying().(*types.Signature)
		if !ok || sig.Params().Len() != 1 || sig.Results().Len() != 0 {
			return false
		}
		sl, ok := sig.Params().At(0).Type().Underlying().(*types.Slice)
		return ok && an.TypeIs(sl.Elem(), c37CidP, "Cid")
	}
	isSet := func(t types.Type) bool { return an.TypeIs(t, c37CidP, "Set") }
	// handler: function with a *cid.Set parameter, a cancel-function parameter and an incoming channel
	nH := 0
	var handler *ssa.Function
	var hSet, hIn, hCancel c37Ref
	for _, fn := range fns {
		if fn.Parent() != nil {
			continue
		}
		var pSet, pCancel, pOut, pIn c37Ref
		dup := false
		classify := func(t types.Type, ref c37Ref) {
			set := func(dst *c37Ref) {
				if dst.ok() {
					dup = true
				}
				*dst = ref
			}
			switch {
			case isSet(t):
				set(&pSet)
			case isCancelFn(t):
				set(&pCancel)
			default:
				if ch, ok := t.Underlying().(*types.Chan); ok && an.TypeIs(ch.Elem(), c37Block, "Block") {
					if ch.Dir() == types.RecvOnly {
						set(&pIn)
					} else {
						set(&pOut)
					}
				}
			}
		}
		for _, q := range fn.Params {
			classify(q.Type(), c37Ref{par: q})
			// a request struct of this package carrying the set / channels / cancel function
			t := q.Type()
			if pt, ok := t.Underlying().(*types.Pointer); ok {
				t = pt.Elem()
			}
			nm, isNamed := t.(*types.Named)
			if !isNamed || nm.Obj().Pkg() == nil || fn.Pkg == nil || nm.Obj().Pkg() != fn.Pkg.Pkg {
				continue
			}
			if stt, ok := nm.Underlying().(*types.Struct); ok {
				for i := 0; i < stt.NumFields(); i++ {
					classify(stt.Field(i).Type(), c37Ref{par: q, fld: stt.Field(i)})
				}
			}
		}
		if dup || !pSet.ok() || !pCancel.ok() || !pIn.ok() || !pOut.ok() {
			continue
		}
		// the handler is the function that listens on the incoming channel (or is started as a
		// goroutine), not a helper that merely gets the same state (deferred cleanup, ...)
		listens := false
		an.Instrs(fn, func(in ssa.Instruction) {
			switch x := in.(type) {
			case *ssa.Select:
				for _, st := range x.States {
					if st.Dir == types.RecvOnly && pIn.is(st.Chan) {
						listens = true
					}
				}
			case *ssa.UnOp:
				if x.Op == token.ARROW && pIn.is(x.X) {
					listens = true
				}
			}
		})
		if !listens {
			for _, f2 := range fns {
				for _, g := range an.AllCalls(f2) {
					if _, isGo := g.(*ssa.Go); isGo && an.Callee(g).Static == fn {
						listens = true
					}
				}
			}
		}
		if !listens {
			continue
		}
		nH++
		handler = fn
		hSet, hIn, hCancel = pSet, pIn, pCancel
		name := an.FuncName(fn)
		if pSet.fld != nil || pCancel.fld != nil || pIn.fld != nil || pOut.fld != nil {
			c.Check(pSet.stable(fn) && pCancel.stable(fn) && pIn.stable(fn) && pOut.stable(fn), "O3", "R-FLOW", name, "request-state-not-replaced", fn.Pos(),
				"the handler keeps working with the set, channels and cancel function its starter put into the request",
				"the incoming-block handler overwrites the remaining set, a channel or the cancel function carried by its request struct: it no longer tracks / cancels the keys the request was started for")
		}
		var defers []ssa.Instruction
		an.Instrs(fn, func(in ssa.Instruction) {
			d, ok := in.(*ssa.Defer)
			if !ok {
				return
			}
			// the deferred function: a closure over the parameters, or a helper that is
			// handed the set and the cancel function (Keys() must be evaluated inside it)
			var g *ssa.Function
			isCancelIn := func(v ssa.Value) bool { return false }
			isSetIn := func(v ssa.Value) bool { return false }
			if mc, ok := d.Call.Value.(*ssa.MakeClosure); ok {
				g = mc.Fn.(*ssa.Function)
				isCancelIn = pCancel.is
				isSetIn = pSet.is
			} else if sf, ok := d.Call.Value.(*ssa.Function); ok && sf.Blocks != nil {
				g = sf
				gc, gs := pCancel.pass(d.Call.Args, sf), pSet.pass(d.Call.Args, sf)
				isCancelIn = gc.is
				isSetIn = gs.is
			}
			if g == nil {
				return // e.g. defer cfun(remaining.Keys()): Keys() evaluated too early
			}
			for _, call := range an.AllCalls(g) {
				if !isCancelIn(call.Common().Value) {
					continue
				}
				if len(call.Common().Args) != 1 {
					continue
				}
				kc, ok := an.IsCallTo(call.Common().Args[0], an.M(c37CidP, "Set", "Keys"))
				if ok && isSetIn(an.Recv(kc)) {
					// must run on every exit of the deferred function
					if okF, _ := an.MustFollow(g, g.Blocks[0].Instrs[0], []ssa.Instruction{call.(ssa.Instruction)}); okF || g.Blocks[0].Instrs[0] == call.(ssa.Instruction) {
						defers = append(defers, d)
					}
				}
			}
		})
		okDefer := len(defers) > 0
		for _, r := range an.Returns(fn) {
			if !an.MustPrecede(fn, r, defers) {
				okDefer = false
			}
		}
		// the deferred call must be registered before anything can block / receive
		for _, d := range defers {
			an.Instrs(fn, func(in ssa.Instruction) {
				if _, ok := in.(*ssa.Select); ok && !an.Dominates(d, in) {
					okDefer = false
				}
			})
		}
		c.Check(okDefer, "O3", "R-POST", name, "defer-cancel(remaining.Keys())", fn.Pos(),
			"every exit of the handler runs cancel(remaining.Keys()) (deferred closure registered before the loop)",
			"the incoming-block handler can exit without calling the cancel function with the keys still remaining (or evaluates remaining.Keys() when the defer is registered): after cancellation/timeout the requester's wants stay on the want-list forever")
		// (b) remove before forward
		nSend := 0
		an.Instrs(fn, func(in ssa.Instruction) {
			var sent []ssa.Value
			switch x := in.(type) {
			case *ssa.Select:
				for _, st := range x.States {
					if st.Dir == types.SendOnly && pOut.is(st.Chan) {
						sent = append(sent, st.Send)
					}
				}
			case *ssa.Send:
				if pOut.is(x.Chan) {
					sent = append(sent, x.X)
				}
			case *ssa.Call:
				// a package-local helper that sends one of its parameters on the channel it is given
				if g := an.Callee(x).Static; g != nil && g.Blocks != nil && g.Pkg == fn.Pkg {
					for ci, a := range x.Call.Args {
						if ci >= len(g.Params) || !pOut.is(a) {
							continue
						}
						an.Instrs(g, func(i2 ssa.Instruction) {
							var pairs [][2]ssa.Value
							switch y := i2.(type) {
							case *ssa.Select:
								for _, st := range y.States {
									if st.Dir == types.SendOnly {
										pairs = append(pairs, [2]ssa.Value{st.Chan, st.Send})
									}
								}
							case *ssa.Send:
								pairs = append(pairs, [2]ssa.Value{y.Chan, y.X})
							}
							for _, pr := range pairs {
								if c37Deref(pr[0]) != ssa.Value(g.Params[ci]) {
									continue
								}
								for vi, q := range g.Params {
									if c37Deref(pr[1]) == ssa.Value(q) && vi < len(x.Call.Args) {
										sent = append(sent, x.Call.Args[vi])
									}
								}
							}
						})
					}
				}
			}
			for _, v := range sent {
				nSend++
				var rm []ssa.Instruction
				for _, call := range an.Calls(fn, an.M(c37CidP, "Set", "Remove")) {
					if !pSet.is(an.Recv(call)) {
						continue
					}
					if cc, ok := an.IsCallTo(an.Args(call)[0], an.M(c37Block, "", "Cid")); ok && an.SameObj(an.Recv(cc), v) {
						rm = append(rm, call.(ssa.Instruction))
					}
				}
				okRm := false
				for _, r := range rm {
					if an.Dominates(r, in) {
						okRm = true
					}
				}
				c.Check(okRm, "O3", "R-DOM", name, "remaining.Remove(blk.Cid())-before-forward", in.Pos(),
					"a block's CID leaves the remaining set before the block is forwarded",
					"a block is forwarded to the requester without its CID having been removed from the remaining set first: on exit the cancel function is called for a key that was delivered (and a late duplicate is not recognised)")
			}
		})
		c.Min("O3 forwards of received blocks in the handler", nSend, 1)
	}
	c.Min("O3 incoming-block handlers in getter", nH, 1)

	// (c) AsyncGetBlocks: subscribe before want; goroutine gets subscription, full set, cancel func
	nA := 0
	for _, fn := range fns {
		if handler == nil {
			break
		}
		for _, g := range an.AllCalls(fn) {
			gi, isGo := g.(*ssa.Go)
			if !isGo || an.Callee(g).Static != handler {
				continue
			}
			nA++
			name := an.FuncName(fn)
			subs := an.Calls(fn, an.M(c37Not, "PubSub", "Subscribe"))
			var wantCalls []ssa.Instruction
			var wantPar *ssa.Parameter
			for _, q := range fn.Params {
				if sig, ok := q.Type().Underlying().(*types.Signature); ok && sig.Params().Len() == 2 && sig.Results().Len() == 0 {
					wantPar = q
				}
			}
			for _, call := range an.AllCalls(fn) {
				if wantPar != nil && call.Common().Value == ssa.Value(wantPar) {
					wantCalls = append(wantCalls, call.(ssa.Instruction))
				}
			}
			okOrder := len(subs) == 1 && len(wantCalls) > 0
			for _, w := range wantCalls {
				if len(subs) != 1 || !an.Dominates(subs[0].(ssa.Instruction), w) {
					okOrder = false
				}
			}
			// both the subscription and the want request cover the caller's whole key list
			okKeys := len(subs) == 1
			keyLists := []ssa.Value{}
			if len(subs) == 1 {
				sa := an.Args(subs[0])
				if len(sa) >= 2 {
					keyLists = append(keyLists, sa[len(sa)-1])
				}
			}
			for _, w := range wantCalls {
				wa := w.(ssa.CallInstruction).Common().Args
				if len(wa) == 2 {
					keyLists = append(keyLists, wa[1])
				}
			}
			for _, kl := range keyLists {
				if c37SubSliced(kl) {
					okKeys = false
				}
				for _, r := range an.Roots(kl, nil) {
					if par, ok := r.(*ssa.Parameter); !ok || par.Parent() != fn {
						okKeys = false
					}
				}
			}
			c.Check(okKeys, "O3", "R-FLOW", name, "Subscribe/want<=all-keys", fn.Pos(),
				"the subscription and the want request are made for the caller's complete key list",
				"AsyncGetBlocks subscribes to, or requests, something other than the complete list of keys it was given: some requested blocks are never delivered (or never asked for)")
			c.Check(okOrder, "O3", "R-DOM", name, "Subscribe-before-want", fn.Pos(),
				"the subscription exists before the wants are sent",
				"AsyncGetBlocks sends the wants before (or without) subscribing to the notifier: a block answered quickly is published before anyone listens and is never delivered")
			// arguments of the goroutine
			aSet, aIn, aCancel := hSet.arg(gi, handler), hIn.arg(gi, handler), hCancel.arg(gi, handler)
			okIn := len(subs) == 1 && aIn != nil && an.SameObj(aIn, an.CallValue(subs[0]))
			c.Check(okIn, "O3", "R-FLOW", name, "handler<=Subscribe-channel", gi.Pos(), "the handler listens on the channel returned by Subscribe",
				"the handler goroutine is not given the channel returned by notif.Subscribe for these keys: requested blocks are never forwarded")
			cancelPar, cancelIsParam := c37Deref(aCancel).(*ssa.Parameter)
			cancelIsParam = cancelIsParam && cancelPar.Parent() == fn
			c.Check(cancelIsParam, "O3", "R-FLOW", name, "handler<=cancel-func", gi.Pos(), "the handler gets the caller's cancel function",
				"the handler goroutine is not given the cancel function passed to AsyncGetBlocks: remaining wants are not cancelled on exit")
			// the set holds every key: Add(k) for elements of the keys parameter, in a loop over it, before the go statement
			okSet := false
			for _, add := range an.Calls(fn, an.M(c37CidP, "Set", "Add")) {
				if aSet == nil || !an.SameObj(an.Recv(add), aSet) {
					continue
				}
				if u, ok := an.Args(add)[0].(*ssa.UnOp); ok {
					if ia, ok := u.X.(*ssa.IndexAddr); ok {
						if _, isPar := ia.X.(*ssa.Parameter); isPar && c36IndexDir(ia.Index) == 1 {
							if !an.Reaches(fn, gi, add.(ssa.Instruction), nil, nil) {
								okSet = true
							}
						}
					}
				}
			}
			if !okSet && aSet != nil {
				// remaining := helper(keys): the helper adds every element of its parameter to the set it returns
				if hc, isC := aSet.(*ssa.Call); isC {
					if g := an.Callee(hc).Static; g != nil && g.Blocks != nil && g.Pkg == fn.Pkg {
						for ai, a := range hc.Call.Args {
							if _, isPar := a.(*ssa.Parameter); !isPar || ai >= len(g.Params) {
								continue
							}
							for _, add := range an.Calls(g, an.M(c37CidP, "Set", "Add")) {
								u, ok := an.Args(add)[0].(*ssa.UnOp)
								if !ok {
									continue
								}
								ia, ok := u.X.(*ssa.IndexAddr)
								if !ok || ia.X != ssa.Value(g.Params[ai]) || c36IndexDir(ia.Index) != 1 {
									continue
								}
								returned := true
								for _, r := range an.Returns(g) {
									if len(r.Results) == 0 || !an.SameObj(r.Results[0], an.Recv(add)) {
										returned = false
									}
								}
								if returned {
									okSet = true
								}
							}
						}
					}
				}
			}
			c.Check(okSet, "O3", "R-FLOW", name, "remaining<=all-keys", gi.Pos(), "the remaining set is filled with every requested key before the handler starts",
				"the set of remaining keys handed to the handler is not filled from the requested keys: keys that are never received are not cancelled on exit")
		}
	}
	c.Min("O3 AsyncGetBlocks-like starters of the handler", nA, 1)

	// (d) Client.GetBlocks: temporary session cancelled on every way out
	if gb := p.Func(c37Cl, "Client", "GetBlocks"); c.Need(gb != nil, "Client.GetBlocks") {
		name := an.FuncName(gb)
		var cancelVals []ssa.Value
		for _, call := range an.Calls(gb, an.M("context", "", "WithCancel")) {
			cancelVals = append(cancelVals, an.Result(call, 1)...)
		}
		isCancel := func(v ssa.Value) bool {
			v = c37Deref(v)
			for _, cv := range cancelVals {
				if v == cv {
					return true
				}
			}
			return false
		}
		// the session is created with the cancellable context
		okSess := false
		for _, ns := range an.Calls(gb, an.M(c37Cl, "", "NewSession"), an.M(c37SM, "SessionManager", "NewSession"), an.M("", "", "NewSession")) {
			for _, a := range an.Args(ns) {
				for _, call := range an.Calls(gb, an.M("context", "", "WithCancel")) {
					for _, r := range an.Result(call, 0) {
						if c37Deref(a) == r {
							okSess = true
						}
					}
				}
			}
		}
		c.Check(okSess && len(cancelVals) > 0, "O3", "R-FLOW", name, "NewSession(cancellable-ctx)", gb.Pos(), "the temporary session lives on a context GetBlocks can cancel",
			"Client.GetBlocks does not create its temporary session on the context returned by context.WithCancel: the session (and its wants) cannot be torn down when the request ends")
		var direct []ssa.Instruction
		for _, call := range an.AllCalls(gb) {
			if _, isDefer := call.(*ssa.Defer); isDefer {
				continue
			}
			if _, isGo := call.(*ssa.Go); isGo {
				continue
			}
			if isCancel(call.Common().Value) {
				direct = append(direct, call.(ssa.Instruction))
			}
		}
		var gos []ssa.Instruction
		for _, call := range an.AllCalls(gb) {
			gi, ok := call.(*ssa.Go)
			if !ok {
				continue
			}
			var g *ssa.Function
			isCancelG := isCancel
			if mc, ok := gi.Call.Value.(*ssa.MakeClosure); ok {
				g = mc.Fn.(*ssa.Function)
			} else if sf := an.Callee(gi).Static; sf != nil && sf.Blocks != nil {
				// go helper(..., cancelSession, ...): the cancel function arrives as a parameter
				g = sf
				var pars []ssa.Value
				for i, a := range gi.Call.Args {
					if i < len(sf.Params) && isCancel(a) {
						pars = append(pars, sf.Params[i])
					}
				}
				isCancelG = func(v ssa.Value) bool {
					v = c37Deref(v)
					for _, q := range pars {
						if v == q {
							return true
						}
					}
					return false
				}
			}
			if g == nil {
				continue
			}
			// a deferred (closure) call of cancel registered at the top of the goroutine
			good := false
			an.Instrs(g, func(in ssa.Instruction) {
				d, ok := in.(*ssa.Defer)
				if !ok || d.Block() != g.Blocks[0] {
					return
				}
				if isCancelG(d.Call.Value) {
					good = true
				}
				if mc2, ok := d.Call.Value.(*ssa.MakeClosure); ok {
					h := mc2.Fn.(*ssa.Function)
					for _, cc := range an.AllCalls(h) {
						if isCancelG(cc.Common().Value) {
							if okF, _ := an.MustFollow(h, h.Blocks[0].Instrs[0], []ssa.Instruction{cc.(ssa.Instruction)}); okF || h.Blocks[0].Instrs[0] == cc.(ssa.Instruction) {
								good = true
							}
						}
					}
				}
			})
			if good {
				gos = append(gos, gi)
			}
		}
		okAll := len(gos) > 0
		for _, r := range an.Returns(gb) {
			if !an.MustPrecede(gb, r, append(append([]ssa.Instruction{}, direct...), gos...)) {
				okAll = false
			}
		}
		c.Check(okAll, "O3", "R-POST", name, "cancelSession-on-every-exit", gb.Pos(),
			"every return of GetBlocks has either cancelled the temporary session or started the forwarding goroutine that defers the cancel",
			"Client.GetBlocks can return without cancelling its temporary session and without a goroutine that cancels it when the request ends: the session and its wants leak, the want-list keeps the CIDs after completion or cancellation")
	}
}

// c37Performs lists the instructions of fn that perform an action: a call satisfying
// isTarget, or a synchronous call of a package-local function that performs the action
// before each of its returns (followed two levels down).
func c37Performs(fn *ssa.Function, isTarget func(ssa.CallInstruction) bool, depth int) []ssa.Instruction {
	var out []ssa.Instruction
	for _, call := range an.AllCalls(fn) {
		if _, isGo := call.(*ssa.Go); isGo {
			continue
		}
		if isTarget(call) {
			out = append(out, call.(ssa.Instruction))
			continue
		}
		if _, isCall := call.(*ssa.Call); !isCall || depth >= 2 {
			continue
		}
		g := an.Callee(call).Static
		if g == nil || g.Blocks == nil || g.Pkg != fn.Pkg || g == fn {
			continue
		}
		inner := c37Performs(g, isTarget, depth+1)
		if len(inner) == 0 {
			continue
		}
		always := true
		for _, r := range an.Returns(g) {
			if !an.MustPrecede(g, r, inner) {
				always = false
			}
		}
		if always {
			out = append(out, call.(ssa.Instruction))
		}
	}
	return out
}

func runC37Chain(c *an.Ctx) {
	p := c.P
	R := c37R
	if !c.Need(R != nil && R.fOp != nil && R.fKeys != nil && R.run != nil && R.swT != nil && R.swsT != nil && R.fID != nil && R.fSwsID != nil && R.receive != nil && R.cancelWants != nil,
		"roles in package session: operation struct (kind + keys) carried by the Session's channel, run loop started by New, want bookkeeping and want sender fields, session ids, receive handler; SessionManager's CANCEL sender") {
		return
	}
	fOp, fKeys := R.fOp, R.fKeys
	// the cancel operation: the constant of the operation kind on whose edge the run loop (or the
	// dispatcher it hands the operation to) calls Cancel of the want sender
	var kindsFound []constant.Value
	kindLeadingTo := func(ms ...an.Matcher) constant.Value {
		var kCancel constant.Value
		kindsFound = nil
		isOpRead0 := func(v ssa.Value) bool {
			switch x := v.(type) {
			case *ssa.Field:
				f, _ := an.FieldOf(x)
				return f == fOp
			case *ssa.UnOp:
				if x.Op == token.MUL {
					f, _ := an.FieldOf(x.X)
					return f == fOp
				}
			}
			return false
		}
		for _, d := range c34Closure(R.run) {
			if d.Pkg != R.run.Pkg {
				continue
			}
			// candidate sites: the Cancel call itself, or a call of a helper that (transitively) makes it
			var cands []ssa.CallInstruction
			cands = append(cands, an.Calls(d, ms...)...)
			for _, hc := range an.AllCalls(d) {
				h := an.Callee(hc).Static
				if h == nil || h == d || h.Blocks == nil || h.Pkg != d.Pkg {
					continue
				}
				for _, g := range c34Closure(h) {
					if len(an.Calls(g, ms...)) > 0 {
						cands = append(cands, hc)
						break
					}
				}
			}
			for _, call := range cands {
				for _, kc := range R.opConsts {
					k := kc.Val()
					edges := an.CondEdges(d, func(atom ssa.Value) (bool, bool) {
						b, ok := atom.(*ssa.BinOp)
						if !ok || (b.Op != token.EQL && b.Op != token.NEQ) {
							return false, false
						}
						cv, isK := an.ConstOf(b.Y)
						if !isOpRead0(b.X) || !isK || !constant.Compare(cv, token.EQL, k) {
							return false, false
						}
						if b.Op == token.EQL {
							return true, false
						}
						return false, true
					})
					if len(edges) > 0 && an.GuardedBy(d, nil, call.(ssa.Instruction), edges) {
						kCancel = k
						kindsFound = append(kindsFound, k)
					}
				}
			}
		}
		return kCancel
	}
	// the want operation(s): the kinds on whose edge the run loop registers the session's interest
	kindLeadingTo(an.M(c37SIM, "SessionInterestManager", "RecordSessionInterest"))
	wantKinds := kindsFound
	kCancel := kindLeadingTo(an.M(c37Ses, R.swsName, "Cancel"))
	if kCancel == nil {
		c.Bad("O4", "R-EXH", an.FuncName(R.run), "handles-opCancel", R.run.Pos(), "no operation kind of the session's run loop leads to Cancel of the want sender: cancelled requests keep their wants")
		return
	}
	// L2: cancel callback handed to AsyncGetBlocks sends op{opCancel, keys}
	nL2 := 0
	for _, fn := range p.PkgFuncs(c37Ses) {
		for _, call := range an.Calls(fn, an.M(c37Get, "", "AsyncGetBlocks")) {
			nL2++
			args := call.Common().Args
			last := args[len(args)-1]
			good := false
			// the callback: a function literal, a method value (s.enqueueCancel: closure of the
			// synthetic bound-method wrapper), or a plain function; the operation may also be
			// enqueued by a package-local function the callback hands its keys to
			curKinds := []constant.Value{kCancel}
			var sendsCancel func(g *ssa.Function, keys ssa.Value, depth int) bool
			sendsCancel = func(g *ssa.Function, keys ssa.Value, depth int) bool {
				if g == nil || g.Blocks == nil || keys == nil || depth > 3 {
					return false
				}
				found := false
				an.Instrs(g, func(in ssa.Instruction) {
					var sends []ssa.Value
					switch x := in.(type) {
					case *ssa.Select:
						for _, st := range x.States {
							if st.Dir == types.SendOnly {
								sends = append(sends, st.Send)
							}
						}
					case *ssa.Send:
						sends = append(sends, x.X)
					case *ssa.Call:
						h := an.Callee(x).Static
						if h == nil || h == g || h.Blocks == nil || h.Pkg != fn.Pkg {
							return
						}
						for i, a := range x.Call.Args {
							if i < len(h.Params) && c37Deref(a) == keys && sendsCancel(h, h.Params[i], depth+1) {
								found = true
							}
						}
						return
					}
					for _, v := range sends {
						u, ok := v.(*ssa.UnOp)
						if !ok {
							continue
						}
						a, ok := u.X.(*ssa.Alloc)
						if !ok {
							continue
						}
						okOp, okKeys := false, false
						for _, r := range *a.Referrers() {
							fa, ok := r.(*ssa.FieldAddr)
							if !ok {
								continue
							}
							f, _ := an.FieldOf(fa)
							for _, r2 := range *fa.Referrers() {
								st, ok := r2.(*ssa.Store)
								if !ok {
									continue
								}
								if f == fOp {
									if k, ok := an.ConstOf(st.Val); ok {
										for _, ck := range curKinds {
											if constant.Compare(k, token.EQL, ck) {
												okOp = true
											}
										}
									}
								}
								if f == fKeys && c37Deref(st.Val) == keys {
									okKeys = true
								}
							}
						}
						if okOp && okKeys {
							found = true
						}
					}
				})
				return found
			}
			var cb *ssa.Function
			switch x := c37Deref(last).(type) {
			case *ssa.MakeClosure:
				cb, _ = x.Fn.(*ssa.Function)
			case *ssa.Function:
				cb = x
			}
			if cb != nil && len(cb.Params) == 1 {
				good = sendsCancel(cb, cb.Params[0], 0)
			}
			c.Check(good, "O4", "R-FLOW", an.FuncName(fn), "cancel-callback=>op{opCancel,keys}", call.Pos(),
				"the session's cancel callback enqueues opCancel with the keys it is given",
				"the cancel callback the session hands to AsyncGetBlocks does not enqueue op{opCancel, keys} for its argument: keys remaining when a request ends are never cancelled")
			// the want callback (the argument before it) enqueues the want operation with its keys
			if len(wantKinds) == 0 {
				c.Bad("O4", "R-EXH", an.FuncName(R.run), "handles-opWant=>RecordSessionInterest", R.run.Pos(),
					"no operation kind of the session's run loop registers the session's interest in the requested keys (RecordSessionInterest): received blocks are not recognised as wanted and are never delivered")
			} else if len(args) >= 2 {
				var wcb *ssa.Function
				switch x := c37Deref(args[len(args)-2]).(type) {
				case *ssa.MakeClosure:
					wcb, _ = x.Fn.(*ssa.Function)
				case *ssa.Function:
					wcb = x
				}
				goodW := false
				if wcb != nil {
					curKinds = wantKinds
					for _, q := range wcb.Params {
						if sl, ok := q.Type().Underlying().(*types.Slice); ok && an.TypeIs(sl.Elem(), c37CidP, "Cid") {
							goodW = goodW || sendsCancel(wcb, q, 0)
						}
					}
					curKinds = []constant.Value{kCancel}
				}
				c.Check(goodW, "O4", "R-FLOW", an.FuncName(fn), "want-callback=>op{opWant,keys}", call.Pos(),
					"the session's want callback enqueues the want operation with the keys it is given",
					"the want callback the session hands to AsyncGetBlocks does not enqueue the operation that makes the run loop register and request its keys (it sends another kind, or other keys): the requested blocks are never asked for and never delivered")
			}
		}
	}
	c.Min("O4 Session callers of AsyncGetBlocks", nL2, 1)
	// L3: run loop: opCancel => sws.Cancel(oper.keys); ctx.Done => handleShutdown
	fID := R.fID
	removesSelf := func(call ssa.CallInstruction) bool {
		if an.Callee(call).Name != "RemoveSession" || len(an.Args(call)) != 1 || fID == nil {
			return false
		}
		_, ok := c35LoadOfField(an.Args(call)[0], fID)
		return ok
	}
	if run := R.run; run != nil {
		name := an.FuncName(run)
		// edges where oper.op == opCancel
		isOpRead := func(v ssa.Value) bool {
			switch x := v.(type) {
			case *ssa.Field:
				f, _ := an.FieldOf(x)
				return f == fOp
			case *ssa.UnOp:
				if x.Op == token.MUL {
					f, _ := an.FieldOf(x.X)
					return f == fOp
				}
			}
			return false
		}
		isKeysRead := func(v ssa.Value) bool {
			switch x := v.(type) {
			case *ssa.Field:
				f, _ := an.FieldOf(x)
				return f == fKeys
			case *ssa.UnOp:
				if x.Op == token.MUL {
					f, _ := an.FieldOf(x.X)
					return f == fKeys
				}
			}
			return false
		}
		cancelEdgesOf := func(d *ssa.Function) an.EdgeSet {
			return an.CondEdges(d, func(atom ssa.Value) (bool, bool) {
				b, ok := atom.(*ssa.BinOp)
				if !ok || (b.Op != token.EQL && b.Op != token.NEQ) {
					return false, false
				}
				k, isK := an.ConstOf(b.Y)
				if !isOpRead(b.X) || !isK || !constant.Compare(k, token.EQL, kCancel) {
					return false, false
				}
				if b.Op == token.EQL {
					return true, false
				}
				return false, true
			})
		}
		// sites in run where `target` is applied to the operation's keys: the call itself, or a call of a
		// package-local helper that is given the keys and calls target(param) on every way out
		type site struct {
			d      *ssa.Function
			at     ssa.Instruction
			keysOK bool
		}
		// the operation dispatch: run itself and the package-local functions it (synchronously) hands
		// the received op value to, e.g. a handleOp(ctx, span, oper) holding the switch
		isOpType := func(t types.Type) bool { return an.TypeIs(t, c37Ses, R.opT.Obj().Name()) }
		dispatchers := []*ssa.Function{run}
		for i := 0; i < len(dispatchers) && i < 4; i++ {
			d := dispatchers[i]
			for _, hc := range an.AllCalls(d) {
				h := an.Callee(hc).Static
				if h == nil || h.Blocks == nil || h.Pkg != run.Pkg {
					continue
				}
				if _, isCall := hc.(*ssa.Call); !isCall {
					continue
				}
				takesOp := false
				for _, a := range hc.Common().Args {
					if isOpType(a.Type()) {
						takesOp = true
					}
				}
				known := false
				for _, k := range dispatchers {
					if k == h {
						known = true
					}
				}
				if takesOp && !known {
					dispatchers = append(dispatchers, h)
				}
			}
		}
		sitesIn := func(run *ssa.Function, target an.Matcher) []site {
			var out []site
			for _, call := range an.Calls(run, target) {
				out = append(out, site{run, call.(ssa.Instruction), isKeysRead(an.Args(call)[0])})
			}
			for _, hc := range an.AllCalls(run) {
				h := an.Callee(hc).Static
				if h == nil || h.Blocks == nil || h.Pkg != run.Pkg || h == run {
					continue
				}
				if _, isCall := hc.(*ssa.Call); !isCall {
					continue
				}
				for _, tc := range an.Calls(h, target) {
					arg := an.Args(tc)[0]
					pj := -1
					for j, q := range h.Params {
						if ssa.Value(q) == arg {
							pj = j
						}
					}
					if pj < 0 || pj >= len(hc.Common().Args) {
						continue
					}
					always := true
					for _, r := range an.Returns(h) {
						if !an.MustPrecede(h, r, []ssa.Instruction{tc.(ssa.Instruction)}) {
							always = false
						}
					}
					if always {
						out = append(out, site{run, hc.(ssa.Instruction), isKeysRead(hc.Common().Args[pj])})
					}
				}
			}
			return out
		}
		sitesOf := func(target an.Matcher) []site {
			var out []site
			for _, d := range dispatchers {
				out = append(out, sitesIn(d, target)...)
			}
			return out
		}
		nCancelEdges := 0
		for _, d := range dispatchers {
			nCancelEdges += len(cancelEdgesOf(d))
		}
		n := 0
		for _, st := range sitesOf(an.M(c37Ses, R.swsName, "Cancel")) {
			n++
			ok := st.keysOK && an.GuardedBy(st.d, nil, st.at, cancelEdgesOf(st.d))
			c.Check(ok, "O4", "R-DOM", an.FuncName(st.d), "opCancel=>sws.Cancel(oper.keys)", st.at.Pos(),
				"opCancel is turned into sessionWantSender.Cancel of the operation's keys",
				"Session.run does not call sessionWantSender.Cancel with the keys of the opCancel operation on the opCancel edge: cancelled requests keep their wants")
		}
		nCP := 0
		for _, st := range sitesOf(an.M(c37Ses, R.swName, "CancelPending")) {
			nCP++
			ok := st.keysOK && an.GuardedBy(st.d, nil, st.at, cancelEdgesOf(st.d))
			c.Check(ok, "O5", "R-DOM", an.FuncName(st.d), "opCancel=>sw.CancelPending(oper.keys)", st.at.Pos(),
				"opCancel also drops the keys from the session's own want bookkeeping",
				"Session.run does not call sessionWants.CancelPending with the keys of the opCancel operation on the opCancel edge: the cancelled keys stay in the session's fetch queue / live wants and are (re)broadcast later although nobody waits for them")
		}
		c.Check(nCP > 0, "O5", "R-EXH", name, "opCancel-calls-CancelPending", run.Pos(), "the run loop drops cancelled keys from sessionWants",
			"Session.run no longer calls sessionWants.CancelPending for opCancel: cancelled wants stay live in the session and are re-broadcast on the next idle tick, re-entering the want-list")
		c.Check(n > 0 && nCancelEdges > 0, "O4", "R-EXH", name, "handles-opCancel", run.Pos(), "the run loop handles opCancel", "Session.run no longer handles opCancel by cancelling the wants: cancelled requests keep their wants")
		// shutdown: the run loop ends only after the session removed itself from the SessionManager
		// (directly or through handleShutdown / any helper that does so on all its paths)
		sh := c37Performs(run, removesSelf, 0)
		okSh := len(sh) > 0
		for _, r := range an.Returns(run) {
			if !an.MustPrecede(run, r, sh) {
				okSh = false
			}
		}
		c.Check(okSh, "O4", "R-POST", name, "return<=handleShutdown", run.Pos(), "the run loop ends only after RemoveSession(s.id) (through handleShutdown)",
			"Session.run can return without the session having called RemoveSession with its own id (handleShutdown skipped or no longer doing it): the session stays registered and its wants are never cancelled")
	}
	// L7: handleShutdown => sm.RemoveSession(s.id) (the run-loop obligation above already demands it by role)
	if hs := p.Func(c37Ses, "Session", "handleShutdown"); hs != nil && fID != nil {
		rm := c37Performs(hs, removesSelf, 0)
		ok := len(rm) > 0
		for _, r := range an.Returns(hs) {
			if !an.MustPrecede(hs, r, rm) {
				ok = false
			}
		}
		c.Check(ok, "O4", "R-POST", an.FuncName(hs), "RemoveSession(s.id)", hs.Pos(), "shutdown removes this session from the SessionManager",
			"Session.handleShutdown does not (on every path) call RemoveSession with the session's own id: the wants of a finished GetBlocks stay registered and are never cancelled at the peers")
	}
	// L8: handleReceive => CancelSessionWants(s.id, wanted) with wanted from sessionWants.BlocksReceived
	if hr := R.receive; hr != nil {
		n := 0
		var hrCalls []ssa.CallInstruction
		for _, g := range c34Closure(hr) {
			if g.Pkg == hr.Pkg && (g == hr || g.Signature.Recv() != nil && an.TypeIs(g.Signature.Recv().Type(), c37Ses, "Session")) {
				hrCalls = append(hrCalls, an.AllCalls(g)...)
			}
		}
		for _, call := range hrCalls {
			if an.Callee(call).Name != "CancelSessionWants" {
				continue
			}
			n++
			args := an.Args(call)
			_, okID := c35LoadOfField(args[0], fID)
			br, okW := an.IsCallTo(args[1], an.M(c37Ses, R.swName, "BlocksReceived"))
			okW = okW && br != nil
			if e, isE := args[1].(*ssa.Extract); okW && (!isE || e.Index != 0) {
				okW = false
			}
			c.Check(okID && okW, "O4", "R-FLOW", an.FuncName(hr), "CancelSessionWants(s.id,wanted)", call.Pos(),
				"received wanted keys are cancelled for this session",
				"Session.handleReceive does not pass its own id and the wanted keys returned by sessionWants.BlocksReceived to CancelSessionWants: received blocks stay on the want-list (or another session's wants are cancelled)")
		}
		if n == 0 {
			c.Bad("O4", "R-EXH", an.FuncName(hr), "receive=>CancelSessionWants", hr.Pos(),
				"the session's receive handler never calls CancelSessionWants: blocks that were received stay registered as wanted and are never cancelled at the peers, the want-list keeps their CIDs after the request completed")
		}
	}
	// L4: sessionWantSender forwards cancels with its session id
	fSwsID := R.fSwsID
	if fSwsID != nil {
		n := 0
		for _, fn := range p.Methods(c37Ses, R.swsName) {
			for _, g := range an.WithClosures(fn) {
				for _, call := range an.AllCalls(g) {
					if an.Callee(call).Name != "CancelSessionWants" {
						continue
					}
					n++
					_, okID := c35LoadOfField(an.Args(call)[0], fSwsID)
					c.Check(okID, "O4", "R-FLOW", an.FuncName(g), "CancelSessionWants(sws.sessionID,...)", call.Pos(),
						"cancels are forwarded for the sender's own session", "sessionWantSender forwards cancels with a session id that is not its own: the cancelled request's wants stay registered")
				}
			}
		}
		c.Min("O4 CancelSessionWants in sessionWantSender", n, 1)
	}
	// L5/L6: SessionManager
	mCW := an.M(c37SM, "SessionManager", R.cancelWants.Name())
	for _, spec := range []struct{ method, source string }{{"CancelSessionWants", "RemoveSessionWants"}, {"RemoveSession", "RemoveSession"}} {
		fn := p.Func(c37SM, "SessionManager", spec.method)
		if !c.Need(fn != nil, "SessionManager."+spec.method) {
			continue
		}
		var good []ssa.Instruction
		for _, call := range an.Calls(fn, mCW) {
			src, ok := an.IsCallTo(an.Args(call)[0], an.M(c37SIM, "SessionInterestManager", spec.source))
			if !ok {
				continue
			}
			if par, isPar := an.Args(src)[0].(*ssa.Parameter); isPar && par == fn.Params[1] {
				good = append(good, call.(ssa.Instruction))
			}
		}
		ok := len(good) > 0
		for _, r := range an.Returns(fn) {
			if !an.MustPrecede(fn, r, good) {
				ok = false
			}
		}
		c.Check(ok, "O4", "R-FLOW", an.FuncName(fn), "cancelWants(sim."+spec.source+"(sesid,...))", fn.Pos(),
			"keys no session is interested in any more are cancelled",
			"SessionManager."+spec.method+" does not pass the keys returned by SessionInterestManager."+spec.source+" for this session to cancelWants on every path: wants nobody waits for stay on the peers' want-lists")
	}
	if cw := R.cancelWants; cw != nil {
		var good []ssa.Instruction
		for _, call := range an.AllCalls(cw) {
			if an.Callee(call).Name == "SendCancels" && len(an.Args(call)) == 1 && an.Args(call)[0] == ssa.Value(cw.Params[1]) {
				good = append(good, call.(ssa.Instruction))
			}
		}
		ok := len(good) > 0
		for _, r := range an.Returns(cw) {
			if !an.MustPrecede(cw, r, good) {
				ok = false
			}
		}
		c.Check(ok, "O4", "R-FLOW", an.FuncName(cw), "SendCancels(wants)", cw.Pos(), "cancelWants sends CANCELs for the keys it is given",
			"SessionManager.cancelWants does not call PeerManager.SendCancels with its keys on every path: the client's want-list (GetWantlist) keeps the CIDs after the request ended")
	}
}

// runC37Wants — O5 (sessionWants) and O6 (SessionInterestManager).
func runC37Wants(c *an.Ctx) {
	p := c.P
	R := c37R
	if !c.Need(R != nil && R.swT != nil && R.qRemove != "" && R.qPop != "", "session want bookkeeping (live map, order list, fetch queue with remove/pop)") {
		return
	}
	fFetch, fLive, fOrder := R.fFetch, R.fLive, R.fOrder
	isBuiltin := func(call ssa.CallInstruction, name string) bool {
		bi, ok := call.Common().Value.(*ssa.Builtin)
		return ok && bi.Name() == name
	}
	onFetch := func(call ssa.CallInstruction, names ...string) bool {
		ci := an.Callee(call)
		if ci.Pkg != an.Mod+"/"+c37Ses || ci.Recv != R.queueName {
			return false
		}
		okName := false
		for _, n := range names {
			if n == ci.Name {
				okName = true
			}
		}
		if !okName {
			return false
		}
		_, ok := c35LoadOfField(an.Recv(call), fFetch)
		return ok
	}
	nTake, nDel, nList := 0, 0, 0
	for _, m := range p.Methods(c37Ses, R.swName) {
		for _, fn := range an.WithClosures(m) {
			name := an.FuncName(fn)
			for _, call := range an.AllCalls(fn) {
				switch {
				case onFetch(call, R.qRemove, R.qPop):
					nTake++
					var k ssa.Value
					if an.Callee(call).Name == R.qPop {
						k = an.CallValue(call)
					} else {
						k = an.Args(call)[0]
					}
					var settle []ssa.Instruction
					for _, d := range an.AllCalls(fn) {
						if isBuiltin(d, "delete") {
							a := d.Common().Args
							if _, ok := c35LoadOfField(a[0], fLive); ok && an.SameObj(a[1], k) {
								settle = append(settle, d.(ssa.Instruction))
							}
						}
					}
					an.Instrs(fn, func(in ssa.Instruction) {
						if mu, ok := in.(*ssa.MapUpdate); ok {
							if _, ok := c35LoadOfField(mu.Map, fLive); ok && an.SameObj(mu.Key, k) {
								settle = append(settle, mu)
							}
						}
					})
					c.Check(an.Around(fn, call.(ssa.Instruction), settle), "O5", "R-PAIR", name, "toFetch."+map[bool]string{true: "pop", false: "remove"}[an.Callee(call).Name == R.qPop]+"(k)=>liveWants-drop-or-insert", call.Pos(),
						"a key leaving the fetch queue is dropped from liveWants too, or becomes live",
						"a key is taken out of sessionWants.toFetch without either deleting it from liveWants (the want ends) or inserting it into liveWants (the want was sent) on every path: a cancelled/received key that was already live stays in liveWants and is re-broadcast on the next idle tick (re-entering the want-list), or a sent key is tracked nowhere")
				case isBuiltin(call, "delete"):
					a := call.Common().Args
					if _, ok := c35LoadOfField(a[0], fLive); !ok {
						continue
					}
					nDel++
					var rm []ssa.Instruction
					for _, d := range an.AllCalls(fn) {
						if onFetch(d, R.qRemove) && an.SameObj(an.Args(d)[0], a[1]) {
							rm = append(rm, d.(ssa.Instruction))
						}
					}
					c.Check(an.Around(fn, call.(ssa.Instruction), rm), "O5", "R-PAIR", name, "delete(liveWants,k)=>toFetch.remove(k)", call.Pos(),
						"a key that stops being live is also removed from the fetch queue",
						"a key is deleted from sessionWants.liveWants without removing it from the fetch queue on every path: a received/cancelled key that was queued again is fetched once more")
				}
			}
			// lists built from liveWantsOrder are filtered by liveWants membership
			for _, r := range an.Returns(fn) {
				for _, res := range r.Results {
					c36AppendChain(res, func(ap *ssa.Call) {
						for _, e := range c37Varargs(ap.Call.Args[1]) {
							u, ok := e.(*ssa.UnOp)
							if !ok {
								continue
							}
							ia, ok := u.X.(*ssa.IndexAddr)
							if !ok {
								continue
							}
							if _, ok := c35LoadOfField(ia.X, fOrder); !ok {
								continue
							}
							nList++
							var found []ssa.Value
							an.Instrs(fn, func(in ssa.Instruction) {
								lk, ok := in.(*ssa.Lookup)
								if !ok || !lk.CommaOk || !an.SameObj(lk.Index, e) {
									return
								}
								if _, ok := c35LoadOfField(lk.X, fLive); !ok {
									return
								}
								for _, rr := range *lk.Referrers() {
									if ex, ok := rr.(*ssa.Extract); ok && ex.Index == 1 {
										found = append(found, ex)
									}
								}
							})
							c.Check(len(found) > 0 && an.GuardedByVal(fn, ap, an.BoolEdges(fn, found, true), an.BoolIs(found, true)), "O5", "R-DOM", name, "liveWantsOrder-elem<=in-liveWants", ap.Pos(),
								"a key from the (lazily cleaned) order list is used only where it is still in liveWants",
								"a key read from sessionWants.liveWantsOrder is put into the returned list without the found edge of liveWants[k]: received or cancelled wants are broadcast again")
						}
					})
				}
			}
		}
	}
	c.Min("O5 keys taken out of sessionWants.toFetch", nTake, 3)
	c.Min("O5 deletions from sessionWants.liveWants", nDel, 1)
	c.Min("O5 lists built from liveWantsOrder", nList, 1)

	// ---- O6 SessionInterestManager: keys reported for cancellation
	fWants := c37SimWants(p)
	if !c.Need(fWants != nil, "SessionInterestManager.wants") {
		return
	}
	nRep := 0
	for _, mname := range []string{"RemoveSession", "RemoveSessionWants"} {
		fn := p.Func(c37SIM, "SessionInterestManager", mname)
		if !c.Need(fn != nil, "SessionInterestManager."+mname) {
			continue
		}
		name := an.FuncName(fn)
		seen := map[*ssa.Call]bool{}
		var reps []*ssa.Call
		for _, r := range an.Returns(fn) {
			c36AppendChain(r.Results[0], func(ap *ssa.Call) {
				if !seen[ap] {
					seen[ap] = true
					reps = append(reps, ap)
				}
			})
		}
		c.Check(len(reps) > 0, "O6", "R-EXH", name, "reports-uninteresting-keys", fn.Pos(), "keys nobody is interested in any more are reported",
			"SessionInterestManager."+mname+" never reports a key as no longer wanted: wants are never cancelled at the peers after completion or cancellation")
		for _, ap := range reps {
			elems := c37Varargs(ap.Call.Args[1])
			if len(elems) != 1 {
				continue
			}
			nRep++
			k := elems[0]
			innerOf := func(v ssa.Value) bool { // sim.wants[k]
				lk, ok := v.(*ssa.Lookup)
				if !ok {
					if e, isE := v.(*ssa.Extract); isE {
						lk, ok = e.Tuple.(*ssa.Lookup)
					}
				}
				if !ok || lk == nil || !an.SameObj(lk.Index, k) {
					return false
				}
				_, isW := c35LoadOfField(lk.X, fWants)
				return isW
			}
			empty := an.CondEdges(fn, func(atom ssa.Value) (bool, bool) {
				b, ok := atom.(*ssa.BinOp)
				if !ok {
					return false, false
				}
				lc, ok := b.X.(*ssa.Call)
				if !ok || !isBuiltin(lc, "len") || !innerOf(lc.Call.Args[0]) {
					return false, false
				}
				kc, isK := an.ConstOf(b.Y)
				if !isK || kc.Kind() != constant.Int {
					return false, false
				}
				kv, _ := constant.Int64Val(kc)
				switch {
				case kv == 0 && (b.Op == token.EQL || b.Op == token.LEQ), kv == 1 && b.Op == token.LSS:
					return true, false
				case kv == 0 && (b.Op == token.NEQ || b.Op == token.GTR), kv == 1 && b.Op == token.GEQ:
					return false, true
				}
				return false, false
			})
			// the session was removed from the key's set before the emptiness test
			var dels []ssa.Instruction
			for _, d := range an.AllCalls(fn) {
				if isBuiltin(d, "delete") && innerOf(d.Common().Args[0]) && d.Common().Args[1] == ssa.Value(fn.Params[1]) {
					dels = append(dels, d.(ssa.Instruction))
				}
			}
			okDel := false
			for _, d := range dels {
				if an.Dominates(d, ap) {
					okDel = true
				}
			}
			c.Check(len(empty) > 0 && an.GuardedBy(fn, nil, ap, empty) && okDel, "O6", "R-DOM", name, "report(k)<=delete(wants[k],ses)&&len(wants[k])==0", ap.Pos(),
				"a key is reported for cancellation only where, after removing this session, no session is left for it",
				"SessionInterestManager."+mname+" reports a key as no longer wanted on a path where other sessions may still be registered for it (or before this session was removed): the want is cancelled at the peers while another request still waits for the block, which is then never delivered")
		}
	}
	c.Min("O6 keys reported by SessionInterestManager", nRep, 2)
}

// c37SimWants: the interest table of the SessionInterestManager = its map field.
func c37SimWants(p *an.Prog) *types.Var {
	n := p.Named(c37SIM, "SessionInterestManager")
	if n == nil {
		return nil
	}
	st := n.Underlying().(*types.Struct)
	for i := 0; i < st.NumFields(); i++ {
		if _, ok := st.Field(i).Type().Underlying().(*types.Map); ok {
			return st.Field(i)
		}
	}
	return nil
}
