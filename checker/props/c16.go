package props

import (
	"fmt"
	"go/constant"
	"go/token"
	"go/types"
	"sort"
	"strings"

	"golang.org/x/tools/go/ssa"

	"verif/checker/an"
)

func init() {
	register("C16", Prop{
		Pkgs: []string{"./ipld/unixfs/io", "./mfs"},
		Explain: "Decided (structural necessary conditions of 'root CID depends only on final entries and configuration'): " +
			"O1 (R-SIB) every site that replaces DynamicDirectory.Directory by the result of a Basic<->HAMT conversion hands the full configuration to the new directory: the set of fields written by the options passed to the conversion plus the setters called on the result covers every configuration field (= fields common to BasicDirectory and HAMTDirectory that a Set* method of the Directory interface writes in both), and no option/setter is fed from a different configuration field or getter of the old directory (wrong-variable check); " +
			"O2 (R-CMP) every comparison of a size with getEffectiveShardingSize() is the strict 'size > threshold', and every comparison of a link count with maxLinks is 'links > maxLinks' or its negation 'links <= maxLinks'; " +
			"O3 (R-SIB) per-mode size function: linkSerializedSize/dataFieldSerializedSize are only evaluated where the estimation mode is known to be SizeEstimationBlock, linksize.LinkSizeFunction only where it is known to be Links (or not Block), directly or at every call site of the enclosing helper; " +
			"O4 (R-TAINT) the Name of a link returned by hamt.Shard.Find/Swap/Take (a shard-internal name: hex prefix + entry name, unless an enumeration rewrote it) never reaches the name argument of a size function, directly or through a *Link handed to linkSizeFor; " +
			"O5 (R-FLOW) the HAMT->Basic size gate is exact only if the HAMT directory knows how far it is from the threshold: when the sizeBelowThreshold enumeration is guarded by a comparison on HAMTDirectory.sizeChange, (a) every Basic->HAMT conversion initialises sizeChange from BasicDirectory.estimatedSize, and (b) sizeChange is accumulated with the same (mode-aware) size function as the operation delta it is added to; " +
			"O7 (R-FLOW) size terms of the sharding decisions: a term computed from the entry that already exists under the name (link from GetNodeLink / Shard.Find) takes every field from that link only and enters the compared size negatively; a term computed from the entry being added (ipld.MakeLink(node) / node.Cid()) takes every field from it only and enters positively; the MaxLinks test gets the looked-up entry; " +
			"O8 (R-PAIR) HAMTDirectory.totalLinks is incremented exactly where Shard.Swap returned no previous link and decremented exactly where Shard.Take returned one; " +
			"O9 (R-SIB) recompute vs incremental path of BasicDirectory: the fields the incremental path maintains (totalLinks by +/-1, estimatedSize by +/- one link size) are re-established by the recompute function on every path that is feasible for each estimation mode (node present): totalLinks = len(all links of the node) or +1 on every iteration of a loop over all links (after a reset to 0), in Block, Links and Disabled mode alike; estimatedSize accumulates the mode's link-size function over every link in Block and Links mode; no reset follows; " +
			"O10 (R-FLOW/R-PAIR/R-SIB) the effective-threshold method of each directory type returns the field its exported SetHAMTShardingSize writes on some path; every hamt.Shard.Set/SetLink on a HAMTDirectory's shard is followed on its nil-error path by totalLinks+1 of that directory; a HAMTDirectory size that sums exact block link sizes and is compared with the threshold also contains dataFieldSerializedSize (as the basic side's estimate does); " +
			"O6 (R-SIB, mfs) every function of package mfs that re-applies one of the settings that are not persisted in the DAG node (SetMaxLinks, SetMaxHAMTFanout, SetHAMTShardingSize, SetSizeEstimationMode) on a unixfs directory re-applies all four. " +
			"NOT decided: order-independence of the HAMT layout and of the CID (runtime values), canonical shard collapse (see C15 O4), the arithmetic of the estimators (C17).",
		Assume: []string{
			"the Directory options are only applied through the exported With* constructors (no foreign DirectoryOption closures)",
			"BasicDirectory/HAMTDirectory fields are only reachable from package io (Go visibility)",
		},
		Technique: "option/setter field summaries per conversion site (R-SIB), comparison normalisation (R-CMP), mode-edge guards with caller lifting (R-DOM), link-name taint (R-TAINT), provenance of the size tracker (R-FLOW)",
		Run:       runC16,
	})
}

const c16IO = "ipld/unixfs/io"

// c16SizeKind classifies a call as a size function: "block" (exact dag-pb
// bytes of a link / of the data field) or "links" (legacy name+CID estimate).
func c16SizeKind(call ssa.CallInstruction) string {
	ci := an.Callee(call)
	if ci.Pkg == an.Mod+"/"+c16IO && ci.Recv == "" && ci.Fn != nil {
		// by signature (role), not by name: (name string, c cid.Cid, tsize uint64) int
		// is the exact link size, (mode os.FileMode, mtime time.Time) int the data field size
		if sig, ok := ci.Fn.Type().(*types.Signature); ok && sig.Results().Len() == 1 {
			if b, ok := sig.Results().At(0).Type().Underlying().(*types.Basic); ok && b.Kind() == types.Int {
				ps := sig.Params()
				switch {
				case ps.Len() == 3 && an.IsString(ps.At(0).Type()) && an.TypeIs(ps.At(1).Type(), "github.com/ipfs/go-cid", "Cid"):
					return "block"
				case ps.Len() == 2 && an.TypeIs(ps.At(0).Type(), "io/fs", "FileMode") && an.TypeIs(ps.At(1).Type(), "time", "Time"):
					return "block-data"
				}
			}
		}
	}
	if u, ok := call.Common().Value.(*ssa.UnOp); ok && u.Op == token.MUL {
		if g, ok := u.X.(*ssa.Global); ok && g.Name() == "LinkSizeFunction" && strings.HasSuffix(g.Pkg.Pkg.Path(), "unixfs/private/linksize") {
			return "links"
		}
	}
	return ""
}

func c16StructFields(n *types.Named) map[string]*types.Var {
	out := map[string]*types.Var{}
	if n == nil {
		return out
	}
	st, ok := n.Underlying().(*types.Struct)
	if !ok {
		return out
	}
	for i := 0; i < st.NumFields(); i++ {
		out[st.Field(i).Name()] = st.Field(i)
	}
	return out
}

// c16DirectStores: names of the fields of struct type n that fn stores to.
func c16DirectStores(fn *ssa.Function, n *types.Named) map[string]bool {
	out := map[string]bool{}
	if fn == nil {
		return out
	}
	flds := c16StructFields(n)
	an.Instrs(fn, func(in ssa.Instruction) {
		if st, ok := in.(*ssa.Store); ok {
			if f, _ := an.FieldOf(st.Addr); f != nil && flds[f.Name()] == f {
				out[f.Name()] = true
			}
		}
	})
	return out
}

type c16Ctx struct {
	c       *an.Ctx
	basic   *types.Named
	hamt    *types.Named
	config  []string // configuration field names
	isCfg   map[string]bool
	setters map[string]map[string]bool // setter method name -> config fields written (union over both types)
}

func (x *c16Ctx) named(t types.Type) *types.Named {
	if p, ok := t.(*types.Pointer); ok {
		t = p.Elem()
	}
	n, _ := types.Unalias(t).(*types.Named)
	return n
}

// label: stable role name of a configuration field for obligation keys: the
// exported setter that writes it (plus the field's type when the setter
// writes several fields), never the unexported field name.
func (x *c16Ctx) label(field string) string {
	var setters []string
	for m, fs := range x.setters {
		if fs[field] {
			setters = append(setters, m)
		}
	}
	sort.Strings(setters)
	if len(setters) == 0 {
		return field
	}
	m := setters[0]
	lab := strings.TrimPrefix(m, "Set")
	if len(x.setters[m]) > 1 {
		if st := c15StructOf(x.basic); st != nil {
			for i := 0; i < st.NumFields(); i++ {
				if st.Field(i).Name() == field {
					t := st.Field(i).Type().String()
					if j := strings.LastIndex(t, "."); j >= 0 {
						t = t[j+1:]
					}
					lab += "." + t
				}
			}
		}
	}
	return lab
}

// written: configuration fields of dst written by calling method `name` on it.
func (x *c16Ctx) writtenByMethod(dst *types.Named, name string) map[string]bool {
	fn := x.c.P.Func(c16IO, dst.Obj().Name(), name)
	out := c16DirectStores(fn, dst)
	if fn != nil {
		// same-receiver helper calls, one level
		for _, call := range an.AllCalls(fn) {
			if g := an.Callee(call).Static; g != nil && g.Signature.Recv() != nil && an.Recv(call) == ssa.Value(fn.Params[0]) {
				for k := range c16DirectStores(g, dst) {
					out[k] = true
				}
			}
		}
	}
	for k := range out {
		if !x.isCfg[k] {
			delete(out, k)
		}
	}
	return out
}

// optionWrites: configuration fields of dst written when the option built by
// the With* constructor call is applied, and the setter names it invokes.
func (x *c16Ctx) optionWrites(ctor *ssa.Function, dst *types.Named) (map[string]bool, []string) {
	out := map[string]bool{}
	var setters []string
	for _, cl := range ctor.AnonFuncs {
		for k := range c16DirectStores(cl, dst) {
			if x.isCfg[k] {
				out[k] = true
			}
		}
		for _, call := range an.AllCalls(cl) {
			ci := an.Callee(call)
			if ci.Name == "" || !strings.HasPrefix(ci.Name, "Set") {
				continue
			}
			if r := an.Recv(call); r == nil || len(cl.Params) == 0 || r != ssa.Value(cl.Params[0]) {
				continue
			}
			setters = append(setters, ci.Name)
			for k := range x.writtenByMethod(dst, ci.Name) {
				out[k] = true
			}
		}
	}
	return out, setters
}

func runC16(c *an.Ctx) {
	p := c.P
	c16ResolveIO(p)
	basic, hamt, dyn := p.Named(c16IO, "BasicDirectory"), p.Named(c16IO, "HAMTDirectory"), p.Named(c16IO, "DynamicDirectory")
	iface := p.Named(c16IO, "Directory")
	fDir := p.Field(c16IO, "DynamicDirectory", "Directory")
	if !c.Need(basic != nil && hamt != nil && dyn != nil && iface != nil && fDir != nil, "io.BasicDirectory, HAMTDirectory, DynamicDirectory(.Directory), Directory") {
		return
	}
	x := &c16Ctx{c: c, basic: basic, hamt: hamt, isCfg: map[string]bool{}, setters: map[string]map[string]bool{}}
	fns := p.PkgFuncs(c16IO)

	// ---- configuration fields: common fields written by a Set* interface
	// method in both implementations
	bf, hf := c16StructFields(basic), c16StructFields(hamt)
	it, _ := iface.Underlying().(*types.Interface)
	if !c.Need(it != nil, "Directory is an interface") {
		return
	}
	for i := 0; i < it.NumMethods(); i++ {
		m := it.Method(i).Name()
		if !strings.HasPrefix(m, "Set") {
			continue
		}
		wb := c16DirectStores(p.Func(c16IO, "BasicDirectory", m), basic)
		wh := c16DirectStores(p.Func(c16IO, "HAMTDirectory", m), hamt)
		for k := range wb {
			if wh[k] && bf[k] != nil && hf[k] != nil {
				if !x.isCfg[k] {
					x.isCfg[k] = true
					x.config = append(x.config, k)
				}
				if x.setters[m] == nil {
					x.setters[m] = map[string]bool{}
				}
				x.setters[m][k] = true
			}
		}
	}
	sort.Strings(x.config)
	c.Min("configuration fields common to BasicDirectory and HAMTDirectory ("+strings.Join(x.config, ",")+")", len(x.config), 1)

	// ---- O1: conversion sites
	nSites := 0
	sweep := fns
	if c.Tier == "thorough" {
		sweep = p.Funcs
	}
	for _, f := range sweep {
		for _, st := range an.FieldStores(f, fDir) {
			_, base := an.FieldOf(st.Addr)
			if an.IsFresh(base) {
				continue // constructor of a new DynamicDirectory
			}
			nSites++
			x.site(f, st)
		}
	}
	c.Min("O1 conversion sites (stores to DynamicDirectory.Directory of an existing directory)", nSites, 1)

	// ---- O2: comparators
	x.comparators(fns)

	// ---- O3: per-mode size function
	x.modeGuards(fns)

	// ---- O4: shard-internal link names
	x.prefixTaint(fns)

	// ---- O5: exactness of the downgrade gate
	x.gate(fns)

	// ---- O6: mfs re-applies all non-persisted settings
	x.mfs()

	// ---- O7: size terms of the sharding decisions
	x.terms(fns, 1, 1)

	// ---- O8: HAMT link counter
	x.hamtCount(fns)

	// ---- O9: the recompute path re-establishes what the incremental path maintains
	x.recompute(fns)

	// ---- O10: per-directory threshold, HAMT bulk insertion count, data-field term
	x.extra(fns)
}

// site checks one store `d.Directory = <result of a conversion>`.
func (x *c16Ctx) site(f *ssa.Function, st *ssa.Store) {
	c := x.c
	name := an.FuncName(f)
	// the new directory value and the conversion call that produced it
	var conv *ssa.Call
	var newDir ssa.Value
	for _, r := range an.Roots(st.Val, nil) {
		if e, ok := r.(*ssa.Extract); ok {
			if call, ok := e.Tuple.(*ssa.Call); ok {
				conv, newDir = call, e
			}
		} else if call, ok := r.(*ssa.Call); ok {
			conv, newDir = call, call
		}
	}
	if conv == nil || an.Recv(conv) == nil {
		c.Bad("O1", "R-SIB", name, "conversion-site-shape", st.Pos(), "DynamicDirectory.Directory is replaced by a value that is not the result of a conversion method of the old directory: configuration propagation cannot be established")
		return
	}
	src := an.Recv(conv)
	srcT, dstT := x.named(src.Type()), x.named(newDir.Type())
	if srcT == nil || dstT == nil || (dstT != x.basic && dstT != x.hamt) {
		c.Bad("O1", "R-SIB", name, "conversion-site-shape", st.Pos(), "conversion result is neither *BasicDirectory nor *HAMTDirectory")
		return
	}
	tag := srcT.Obj().Name() + "->" + dstT.Obj().Name()
	written := map[string]bool{}
	type feed struct {
		call    ssa.CallInstruction
		fields  map[string]bool
		setters []string
		fn      *ssa.Function
		src     ssa.Value
	}
	var feeds []feed
	isCtor := func(v ssa.Value) bool {
		call, ok := v.(*ssa.Call)
		if !ok {
			return false
		}
		g := an.Callee(call).Static
		if g == nil {
			return false
		}
		if len(g.AnonFuncs) > 0 {
			return true
		}
		_, retSlice := call.Type().Underlying().(*types.Slice)
		return retSlice && g.Pkg != nil && g.Pkg.Pkg.Path() == an.Mod+"/"+c16IO
	}
	takesOptions := func(g *ssa.Function) bool {
		for _, par := range g.Params {
			if sl, ok := par.Type().Underlying().(*types.Slice); ok {
				if n, ok := types.Unalias(sl.Elem()).(*types.Named); ok && n.Obj().Name() == "DirectoryOption" {
					return true
				}
			}
		}
		return false
	}
	// gather: everything that configures the directory value nd, which in
	// function fn is the result of the call cv, up to the instruction `until`
	// (the install / the return). A package-local helper that builds the
	// directory itself (it does not receive the options from its caller) is
	// looked into: what it applies before returning counts for its caller.
	var gather func(fn *ssa.Function, cv *ssa.Call, nd ssa.Value, until ssa.Instruction, depth int)
	gather = func(fn *ssa.Function, cv *ssa.Call, nd ssa.Value, until ssa.Instruction, depth int) {
		lsrc := an.Recv(cv)
		var collect func(v ssa.Value, local bool, d int)
		collect = func(v ssa.Value, local bool, d int) {
			for _, l := range an.Deps(v, &an.DepOpts{Stop: isCtor}) {
				call, ok := l.(*ssa.Call)
				if !ok || !isCtor(call) {
					continue
				}
				g := an.Callee(call).Static
				if len(g.AnonFuncs) == 0 {
					// helper returning []DirectoryOption: look at what it returns
					if d < 2 {
						for _, rs := range an.ResultSites(g, 0) {
							collect(rs.Val, false, d+1)
						}
					}
					continue
				}
				w, setters := x.optionWrites(g, dstT)
				for k := range w {
					written[k] = true
				}
				if local {
					feeds = append(feeds, feed{call, w, setters, fn, lsrc})
				}
			}
		}
		for _, a := range an.Args(cv) {
			if _, isSlice := a.Type().Underlying().(*types.Slice); isSlice {
				collect(a, true, 0)
			}
		}
		// setters / direct stores applied to the new directory before `until`
		for _, call := range an.AllCalls(fn) {
			r := an.Recv(call)
			if r == nil || !an.SameObj(r, nd) || call == ssa.CallInstruction(cv) {
				continue
			}
			if !an.Reaches(fn, call, until, nil, nil) {
				continue
			}
			ci := an.Callee(call)
			w := x.writtenByMethod(dstT, ci.Name)
			if len(w) == 0 {
				continue
			}
			for k := range w {
				written[k] = true
			}
			feeds = append(feeds, feed{call, w, []string{ci.Name}, fn, lsrc})
		}
		an.Instrs(fn, func(in ssa.Instruction) {
			if s2, ok := in.(*ssa.Store); ok {
				if fl, b := an.FieldOf(s2.Addr); fl != nil && x.isCfg[fl.Name()] && an.SameObj(b, nd) {
					written[fl.Name()] = true
				}
			}
		})
		// the conversion is itself a helper of this package that builds the
		// new directory: continue inside it
		g := an.Callee(cv).Static
		if g == nil || depth >= 3 || g.Blocks == nil || g.Pkg == nil || g.Pkg.Pkg.Path() != an.Mod+"/"+c16IO || takesOptions(g) {
			return
		}
		for _, rs := range an.ResultSites(g, 0) {
			if an.IsNilConst(rs.Val) {
				continue
			}
			for _, r := range an.Roots(rs.Val, nil) {
				var inner *ssa.Call
				if e, ok := r.(*ssa.Extract); ok {
					inner, _ = e.Tuple.(*ssa.Call)
				} else if call, ok := r.(*ssa.Call); ok {
					inner = call
				}
				if inner != nil && x.named(r.Type()) == dstT {
					gather(g, inner, r, rs.At, depth+1)
				}
			}
		}
	}
	gather(f, conv, newDir, st, 0)
	for _, k := range x.config {
		c.Check(written[k], "O1", "R-SIB", name, tag+":propagates-"+x.label(k), st.Pos(),
			"configuration field "+k+" is handed to the new directory",
			fmt.Sprintf("conversion %s in %s installs a new directory without propagating the configuration field %q (no option or setter writing it is applied to the new directory): the setting silently falls back to its default after the conversion, so later sharding decisions and the root CID depend on the edit history", tag, name, k))
	}
	// wrong-variable check: the value fed to an option/setter must not come
	// from a different configuration field / getter of the old directory
	for _, fd := range feeds {
		ok, why := true, ""
		for _, a := range an.Args(fd.call) {
			for _, l := range an.Deps(a, &an.DepOpts{Stop: func(v ssa.Value) bool {
				call, isCall := v.(*ssa.Call)
				return isCall && fd.src != nil && an.Recv(call) != nil && an.SameObj(an.Recv(call), fd.src)
			}}) {
				if fd.src == nil {
					continue
				}
				if fl, b := an.LoadedField(l); fl != nil && an.SameObj(b, fd.src) && x.isCfg[fl.Name()] && !fd.fields[fl.Name()] {
					ok, why = false, "reads field "+fl.Name()
				}
				if call, isCall := l.(*ssa.Call); isCall && an.Recv(call) != nil && an.SameObj(an.Recv(call), fd.src) {
					g := an.Callee(call).Name
					if !strings.HasPrefix(g, "Get") {
						continue
					}
					// getter Get<X> pairs with setter Set<X>: it reads the
					// setting that Set<X> writes
					gf := x.setters["Set"+strings.TrimPrefix(g, "Get")]
					paired := false
					for k := range gf {
						if fd.fields[k] {
							paired = true
						}
					}
					if !paired && gf != nil {
						ok, why = false, "reads "+g+"()"
					}
				}
			}
		}
		var fl []string
		for k := range fd.fields {
			fl = append(fl, k)
		}
		sort.Strings(fl)
		c.Check(ok, "O1", "R-FLOW", an.FuncName(fd.fn), tag+":"+an.Callee(fd.call).Name+"<=same-setting", fd.call.Pos(),
			"value written to {"+strings.Join(fl, ",")+"} comes from the same setting of the old directory",
			fmt.Sprintf("%s writes {%s} of the new directory but %s of the old directory: a different setting is copied across the conversion", an.Callee(fd.call).Name, strings.Join(fl, ","), why))
	}
}

// comparators: O2.
func (x *c16Ctx) comparators(fns []*ssa.Function) {
	c := x.c
	isThr := func(v ssa.Value) bool {
		for _, l := range an.Deps(v, &an.DepOpts{Stop: func(w ssa.Value) bool {
			call, ok := w.(*ssa.Call)
			return ok && c16IsThresholdCall(call)
		}}) {
			if call, ok := l.(*ssa.Call); ok && c16IsThresholdCall(call) {
				return true
			}
		}
		return false
	}
	hasMaxLinks := func(v ssa.Value) bool {
		for _, l := range an.Deps(v, nil) {
			if fl, _ := an.LoadedField(l); fl != nil && (fl == c16IOR.bMaxLinks || fl == c16IOR.hMaxLinks) {
				return true
			}
		}
		return false
	}
	isConst := func(v ssa.Value) bool { _, ok := v.(*ssa.Const); return ok }
	nThr, nMax := 0, 0
	for _, f := range fns {
		an.Instrs(f, func(in ssa.Instruction) {
			b, ok := in.(*ssa.BinOp)
			if !ok {
				return
			}
			switch b.Op {
			case token.LSS, token.LEQ, token.GTR, token.GEQ:
			default:
				return
			}
			if isConst(b.X) || isConst(b.Y) {
				return
			}
			op, l, r := b.Op, b.X, b.Y
			// threshold comparisons, normalised to  size OP threshold
			if isThr(l) != isThr(r) {
				if isThr(l) {
					op, l, r = an.SwapCmp(op), r, l
				}
				nThr++
				c.Check(op == token.GTR, "O2", "R-CMP", an.FuncName(f), "size-vs-threshold-strict", b.Pos(),
					"size compared with the sharding threshold as 'size > threshold'",
					fmt.Sprintf("size is compared with getEffectiveShardingSize() as 'size %s threshold' instead of the documented strict 'size > threshold': a directory exactly at the threshold is sharded by one decision and not by the other (upgrade and downgrade disagree => CID depends on history)", op))
				return
			}
			lm, rm := hasMaxLinks(l), hasMaxLinks(r)
			if lm != rm {
				if lm {
					op, l, r = an.SwapCmp(op), r, l
				}
				nMax++
				c.Check(op == token.GTR || op == token.LEQ, "O2", "R-CMP", an.FuncName(f), "links-vs-maxLinks", b.Pos(),
					"link count compared with maxLinks as 'links > maxLinks' / 'links <= maxLinks'",
					fmt.Sprintf("link count is compared with maxLinks as 'links %s maxLinks': the other sites treat exactly maxLinks links as allowed, so the basic/HAMT decision at the boundary depends on which path was taken", op))
				// the count that is compared before an operation is the count after it
				if fl, _ := an.LoadedField(l); fl != nil && (fl == c16IOR.bTot || fl == c16IOR.hTot) {
					c.Check(false, "O2", "R-CMP", an.FuncName(f), "links-vs-maxLinks:post-operation-count", b.Pos(), "",
						"the stored link count itself (not the count after the pending addition/removal) is compared with maxLinks: the check is off by the entry being added, so one site allows maxLinks+1 links while the others shard at maxLinks+1 — the layout at the boundary depends on the path taken")
				} else {
					c.OK("O2", "R-CMP", an.FuncName(f), "links-vs-maxLinks:post-operation-count", b.Pos(), "count compared with maxLinks is a post-operation count")
				}
				// a pre-check that knows both the node to add and the entry found under
				// the name counts +1 for the addition and -1 for the replaced entry
				hasNode, hasFind := false, len(an.Calls(f, an.M("ipld/unixfs/hamt", "Shard", "Find"))) > 0
				for _, par := range f.Params {
					if an.TypeIs(par.Type(), "github.com/ipfs/go-ipld-format", "Node") {
						hasNode = true
					}
				}
				if hasNode && hasFind {
					inc, dec := false, false
					for _, bo := range c16BinOpsOf(l) {
						k, isK := an.ConstOf(bo.Y)
						if !isK || k.String() != "1" {
							continue
						}
						if bo.Op == token.ADD {
							inc = true
						}
						if bo.Op == token.SUB {
							dec = true
						}
					}
					c.Check(inc && dec, "O2", "R-CMP", an.FuncName(f), "links-vs-maxLinks:counts-addition-and-replaced-entry", b.Pos(),
						"post-operation count adds the new entry and subtracts the replaced one",
						"the link count compared with maxLinks in the HAMT->basic pre-check does not account for both the entry being added (+1) and the entry found under the name (-1): a replacement or a removal is counted wrongly, so the downgrade happens at a different count than a fresh build has")
				}
			}
		})
	}
	c.Min("O2 size-vs-threshold comparisons", nThr, 1)
	c.Min("O2 links-vs-maxLinks comparisons", nMax, 1)
}

// modeEdges returns the edges on which the size estimation mode is known to be
// (eq=true) / known not to be (eq=false) the constant k.
func (x *c16Ctx) modeEdges(f *ssa.Function, k constant.Value, eq bool) an.EdgeSet {
	var modes []ssa.Value
	for _, call := range an.AllCalls(f) {
		if an.Callee(call).Name == "GetSizeEstimationMode" {
			if v := an.CallValue(call); v != nil {
				modes = append(modes, v)
			}
		}
	}
	if len(modes) == 0 {
		return an.EdgeSet{}
	}
	al := an.Aliases(modes...)
	return an.CmpEdges(f, func(op token.Token, a, b ssa.Value) (bool, bool) {
		if op != token.EQL && op != token.NEQ {
			return false, false
		}
		var kv constant.Value
		if al[a] {
			kk, ok := an.ConstOf(b)
			if !ok {
				return false, false
			}
			kv = kk
		} else if al[b] {
			kk, ok := an.ConstOf(a)
			if !ok {
				return false, false
			}
			kv = kk
		} else {
			return false, false
		}
		if !constant.Compare(kv, token.EQL, k) {
			return false, false
		}
		isEqOnTrue := op == token.EQL
		if eq {
			return isEqOnTrue, !isEqOnTrue
		}
		return !isEqOnTrue, isEqOnTrue
	})
}

func (x *c16Ctx) modeConst(name string) constant.Value {
	pk := x.c.P.Pkg(c16IO)
	if pk == nil {
		return nil
	}
	if k, ok := pk.Types.Scope().Lookup(name).(*types.Const); ok {
		return k.Val()
	}
	return nil
}

// guardedIn: `at` in f is reached only across one of the mode edge sets; if f
// has no such guard, every package-local call site of f must be guarded.
func (x *c16Ctx) guardedIn(fns []*ssa.Function, f *ssa.Function, at ssa.Instruction, edges func(*ssa.Function) an.EdgeSet, depth int) bool {
	if e := edges(f); len(e) > 0 && an.GuardedBy(f, nil, at, e) {
		return true
	}
	if depth >= 2 {
		return false
	}
	if f.Parent() != nil {
		// a closure confined to its parent's activation runs only where it was
		// both created and called: enough if all creations, or all calls, are guarded
		sites, calls, confined := c16ClosureUse(f)
		if !confined {
			return false
		}
		all := len(sites) > 0
		for _, mk := range sites {
			if !x.guardedIn(fns, f.Parent(), mk, edges, depth+1) {
				all = false
			}
		}
		if all {
			return true
		}
		all = len(calls) > 0
		for _, cs := range calls {
			if !x.guardedIn(fns, f.Parent(), cs, edges, depth+1) {
				all = false
			}
		}
		return all
	}
	callers := an.LocalCallers(fns, f)
	if len(callers) == 0 {
		return false
	}
	for _, cs := range callers {
		if !x.guardedIn(fns, cs.Parent(), cs, edges, depth+1) {
			return false
		}
	}
	return true
}

func (x *c16Ctx) feedsSizeChange(call ssa.CallInstruction) bool {
	v := an.CallValue(call)
	if v == nil {
		return false
	}
	for _, u := range an.Uses(v) {
		if b, ok := u.(*ssa.BinOp); ok {
			for _, u2 := range an.Uses(b) {
				if st, ok := u2.(*ssa.Store); ok {
					if fl, _ := an.FieldOf(st.Addr); fl != nil && fl == c16IOR.hSizeChange {
						return true
					}
				}
			}
		}
	}
	return false
}

func (x *c16Ctx) modeGuards(fns []*ssa.Function) {
	c := x.c
	kBlock, kLinks := x.modeConst("SizeEstimationBlock"), x.modeConst("SizeEstimationLinks")
	if !c.Need(kBlock != nil && kLinks != nil, "constants SizeEstimationBlock, SizeEstimationLinks") {
		return
	}
	blockOnly := func(f *ssa.Function) an.EdgeSet { return x.modeEdges(f, kBlock, true) }
	linksOK := func(f *ssa.Function) an.EdgeSet {
		return x.modeEdges(f, kLinks, true).Union(x.modeEdges(f, kBlock, false))
	}
	nB, nL := 0, 0
	for _, f := range fns {
		if f.Signature.Recv() == nil && f.Parent() == nil {
			continue // the size functions themselves, constructors
		}
		for _, call := range an.AllCalls(f) {
			switch c16SizeKind(call) {
			case "block", "block-data":
				nB++
				c.Check(x.guardedIn(fns, f, call, blockOnly, 0), "O3", "R-SIB", an.FuncName(f), c16CallName(call)+"<=mode-block", call.Pos(),
					"exact dag-pb size function used only in SizeEstimationBlock mode",
					"the exact block-size function "+an.Callee(call).Name+" is evaluated on a path where the estimation mode is not known to be SizeEstimationBlock: sizes in different units are mixed in one estimate, so the basic/HAMT decision differs from the one a fresh build takes")
			case "links":
				if x.feedsSizeChange(call) {
					continue // the HAMT size tracker: see O5
				}
				nL++
				c.Check(x.guardedIn(fns, f, call, linksOK, 0), "O3", "R-SIB", an.FuncName(f), "LinkSizeFunction<=mode-links", call.Pos(),
					"legacy link-size estimate used only where the mode is Links (or not Block)",
					"linksize.LinkSizeFunction is evaluated on a path where the estimation mode may be SizeEstimationBlock: the estimate mixes units, so the basic/HAMT decision differs from the one a fresh build takes")
			}
		}
	}
	c.Min("O3 block-size calls", nB, 1)
	c.Min("O3 legacy link-size calls", nL, 1)
}

// prefixTaint: O4.
func (x *c16Ctx) prefixTaint(fns []*ssa.Function) {
	c := x.c
	isShardLink := func(v ssa.Value) bool {
		call, ok := an.IsCallTo(v, an.M("ipld/unixfs/hamt", "Shard", "Find"), an.M("ipld/unixfs/hamt", "Shard", "Swap"), an.M("ipld/unixfs/hamt", "Shard", "Take"))
		return ok && call != nil
	}
	fromShard := func(v ssa.Value) bool {
		for _, l := range an.Deps(v, &an.DepOpts{Stop: isShardLink}) {
			if isShardLink(l) {
				return true
			}
		}
		return false
	}
	// links made by ipld.MakeLink have an empty Name until one is assigned
	isMadeLink := func(v ssa.Value) bool {
		_, ok := an.IsCallTo(v, an.M("github.com/ipfs/go-ipld-format", "", "MakeLink"))
		return ok
	}
	unnamed := func(f *ssa.Function, v ssa.Value, at ssa.Instruction) bool {
		made := false
		for _, l := range an.Deps(v, &an.DepOpts{Stop: isMadeLink}) {
			if isMadeLink(l) {
				made = true
			}
		}
		if !made {
			return false
		}
		// a store to <link>.Name on every path before the use names it
		var named []ssa.Instruction
		an.Instrs(f, func(in ssa.Instruction) {
			if st, ok := in.(*ssa.Store); ok {
				if fl, b := an.FieldOf(st.Addr); fl != nil && fl.Name() == "Name" && an.SameObj(b, v) {
					named = append(named, st)
				}
			}
		})
		return !an.MustPrecede(f, at, named)
	}
	isLinkName := func(v ssa.Value) (ssa.Value, bool) {
		fl, base := an.LoadedField(v)
		if fl != nil && fl.Name() == "Name" && an.TypeIs(base.Type(), "github.com/ipfs/go-ipld-format", "Link") {
			return base, true
		}
		return nil, false
	}
	// parameters (of type *Link) whose Name reaches a size function
	nameSensitive := map[*ssa.Function]map[int]bool{}
	for iter := 0; iter < 3; iter++ {
		for _, f := range fns {
			for _, call := range an.AllCalls(f) {
				var nameArgs []ssa.Value
				if k := c16SizeKind(call); k == "block" || k == "links" {
					nameArgs = append(nameArgs, call.Common().Args[0])
				}
				for _, na := range nameArgs {
					for _, l := range an.Deps(na, nil) {
						if base, ok := isLinkName(l); ok {
							if par, ok := base.(*ssa.Parameter); ok && par.Parent() == f {
								if nameSensitive[f] == nil {
									nameSensitive[f] = map[int]bool{}
								}
								nameSensitive[f][an.ParamIndex(f, par)] = true
							}
						}
					}
				}
				if g := an.Callee(call).Static; g != nil && nameSensitive[g] != nil {
					for i := range nameSensitive[g] {
						if a := an.ArgAt(call, i); a != nil {
							if par, ok := a.(*ssa.Parameter); ok && par.Parent() == f {
								if nameSensitive[f] == nil {
									nameSensitive[f] = map[int]bool{}
								}
								nameSensitive[f][an.ParamIndex(f, par)] = true
							}
						}
					}
				}
			}
		}
	}
	nSrc, nMade := 0, 0
	for _, f := range fns {
		hasSrc := len(an.Calls(f, an.M("ipld/unixfs/hamt", "Shard", "Find"), an.M("ipld/unixfs/hamt", "Shard", "Swap"), an.M("ipld/unixfs/hamt", "Shard", "Take"))) > 0
		hasMade := len(an.Calls(f, an.M("github.com/ipfs/go-ipld-format", "", "MakeLink"))) > 0
		if hasMade {
			nMade++
			badM := ""
			var posM token.Pos = f.Pos()
			for _, call := range an.AllCalls(f) {
				if g := an.Callee(call).Static; g != nil {
					for i := range nameSensitive[g] {
						if a := an.ArgAt(call, i); a != nil && unnamed(f, a, call) {
							badM, posM = "the link made by ipld.MakeLink (empty Name, never assigned) is passed to "+an.Callee(call).Name+", which sizes link.Name", call.Pos()
						}
					}
				}
				if k := c16SizeKind(call); k == "block" || k == "links" {
					for _, l := range an.Deps(call.Common().Args[0], nil) {
						if base, ok := isLinkName(l); ok && unnamed(f, base, call) {
							badM, posM = "the empty Name of the link made by ipld.MakeLink is passed as the entry name to "+c16CallName(call), call.Pos()
						}
					}
				}
			}
			c.Check(badM == "", "O4", "R-TAINT", an.FuncName(f), "made-link-empty-name=/=>size-function", posM,
				"links made by ipld.MakeLink are sized under the entry name",
				badM+": the entry that is added is sized without its name, so the size after the operation is understated by the name length; a sharded directory that stays above the threshold is converted to a basic directory (a fresh build of the same entries is sharded => different root CID)")
		}
		if !hasSrc {
			continue
		}
		nSrc++
		bad := ""
		var pos token.Pos = f.Pos()
		for _, call := range an.AllCalls(f) {
			// (a) shard link's Name flows into a size function / a name parameter of a size helper
			var nameArgs []ssa.Value
			if k := c16SizeKind(call); k == "block" || k == "links" {
				nameArgs = append(nameArgs, call.Common().Args[0])
			}
			if g := an.Callee(call).Static; g != nil && g.Pkg != nil && g.Pkg.Pkg.Path() == an.Mod+"/"+c16IO {
				for i, a := range an.Args(call) {
					if an.IsString(a.Type()) && x.nameParamFeedsSize(g, i) {
						nameArgs = append(nameArgs, a)
					}
				}
				// (b) the shard link itself is handed to a helper that sizes link.Name
				for i := range nameSensitive[g] {
					if a := an.ArgAt(call, i); a != nil && fromShard(a) {
						bad, pos = "the link returned by the shard is passed to "+an.Callee(call).Name+", which sizes link.Name", call.Pos()
					}
				}
			}
			for _, na := range nameArgs {
				for _, l := range an.Deps(na, nil) {
					if base, ok := isLinkName(l); ok && fromShard(base) {
						bad, pos = "the Name of the link returned by the shard is passed as the entry name to "+c16CallName(call), call.Pos()
					}
				}
			}
		}
		c.Check(bad == "", "O4", "R-TAINT", an.FuncName(f), "shard-link-name=/=>size-function", pos,
			"links returned by Shard.Find/Swap/Take are sized under the entry name, not under their shard-internal Name",
			bad+": links stored in a shard are named <hex prefix><entry name> (and lose the prefix only after an enumeration rewrote them), so the size delta is off by the prefix length; the HAMT->Basic decision is taken on a wrong size and the final basic/HAMT form depends on the edit history")
	}
	c.Min("O4 HAMTDirectory functions querying the shard by name", nSrc, 1)
	c.Min("O4 functions making links with ipld.MakeLink", nMade, 1)
}

func c16CallName(call ssa.CallInstruction) string {
	switch c16SizeKind(call) {
	case "links":
		return "linksize.LinkSizeFunction"
	case "block":
		return "link-size-fn"
	case "block-data":
		return "data-size-fn"
	}
	return c15KeyName(call, "size-helper")
}

// nameParamFeedsSize: string parameter i of g reaches the name argument of a
// size function (one level).
func (x *c16Ctx) nameParamFeedsSize(g *ssa.Function, i int) bool {
	off := 0
	if g.Signature.Recv() != nil {
		off = 1
	}
	if i+off >= len(g.Params) {
		return false
	}
	par := g.Params[i+off]
	for _, call := range an.AllCalls(g) {
		if k := c16SizeKind(call); k == "block" || k == "links" {
			for _, l := range an.Deps(call.Common().Args[0], nil) {
				if l == ssa.Value(par) {
					return true
				}
			}
		}
	}
	return false
}

// gate: O5.
func (x *c16Ctx) gate(fns []*ssa.Function) {
	c := x.c
	p := c.P
	fSC := c16IOR.hSizeChange
	fEst := c16IOR.bEst
	below := p.Func(c16IO, "HAMTDirectory", "sizeBelowThreshold")
	if below == nil {
		// by role: the HAMTDirectory method that enumerates the links to measure the directory
		for _, f := range p.Methods(c16IO, "HAMTDirectory") {
			rs := f.Signature.Results()
			if rs.Len() == 2 && an.IsErrorType(rs.At(1).Type()) && len(an.Calls(f, an.M(c16IO, "HAMTDirectory", "EnumLinksAsync"))) > 0 {
				if b, ok := rs.At(0).Type().Underlying().(*types.Basic); ok && b.Kind() == types.Bool {
					below = f
				}
			}
		}
	}
	if !c.Need(fSC != nil && fEst != nil && below != nil, "HAMTDirectory.sizeChange, BasicDirectory.estimatedSize, HAMTDirectory.sizeBelowThreshold") {
		return
	}
	// is the enumeration gated by a comparison on sizeChange?
	type gateSite struct {
		f    *ssa.Function
		call ssa.CallInstruction
		ops  map[string]bool // size functions feeding the operand added to sizeChange
	}
	var gates []gateSite
	for _, f := range fns {
		for _, call := range an.LocalCallers([]*ssa.Function{f}, below) {
			var operands []ssa.Value
			edges := an.CmpEdges(f, func(op token.Token, a, b ssa.Value) (bool, bool) {
				dep := false
				for _, side := range []ssa.Value{a, b} {
					for _, l := range an.Deps(side, nil) {
						if fl, _ := an.LoadedField(l); fl == fSC {
							dep = true
							operands = append(operands, side)
						}
					}
				}
				return dep, dep
			})
			if len(edges) > 0 && an.GuardedBy(f, nil, call, edges) {
				ops := map[string]bool{}
				for _, o := range operands {
					x.sizeFnsOf(fns, o, ops, 0)
				}
				gates = append(gates, gateSite{f, call, ops})
			}
		}
	}
	if len(gates) == 0 {
		c.OK("O5", "R-FLOW", "ipld/unixfs/io.HAMTDirectory.needsToSwitchToBasicDir", "downgrade-not-gated-by-tracker", below.Pos(), "the HAMT->Basic decision always measures the directory (no sizeChange gate)")
		return
	}
	for _, g := range gates {
		// role name, not the (unexported) function name: these keys are listed as known findings
		name := "ipld/unixfs/io.HAMTDirectory.switch-to-basic-gate"
		// (0) the gate looks at the tracker after the pending operation: the size
		// change handed to the enumeration is also part of the gated value
		argOps := map[string]bool{}
		for _, a := range an.Args(g.call) {
			if c15IsIntT(a.Type()) {
				x.sizeFnsOf(fns, a, argOps, 0)
			}
		}
		if len(argOps) > 0 {
			c.Check(len(g.ops) > 0, "O5", "R-FLOW", name, "size-gate<=includes-operation-delta", g.call.Pos(),
				"the gated value contains the size change of the pending operation",
				"the HAMT->basic gate tests the size tracker without the size change of the pending operation, although that change is handed to the enumeration: a removal/replacement that brings the directory below the threshold is not even measured while the tracker is still positive, so the directory stays sharded where a fresh build is basic")
		}
		// (a) conversions initialise the tracker from the basic directory's estimate
		nConv, okInit := 0, true
		for _, f := range fns {
			if f.Signature.Recv() == nil || x.named(f.Signature.Recv().Type()) != x.basic {
				continue
			}
			for _, call := range an.Calls(f, an.M(c16IO, "", "NewHAMTDirectory")) {
				nConv++
				fromEst := false
				for _, l := range an.Deps(an.Args(call)[1], nil) {
					if fl, _ := an.LoadedField(l); fl == fEst {
						fromEst = true
					}
				}
				if !fromEst {
					okInit = false
				}
			}
		}
		c.Min("O5 Basic->HAMT constructions (NewHAMTDirectory in a BasicDirectory method)", nConv, 1)
		c.Check(okInit, "O5", "R-FLOW", name, "size-gate<=tracker-initialised-from-estimate", g.call.Pos(),
			"sizeChange starts from the basic directory's estimated size at conversion",
			"the sizeBelowThreshold enumeration only runs when HAMTDirectory.sizeChange (+ operation delta) is negative, but a Basic->HAMT conversion creates the HAMT directory with a sizeChange that does not depend on BasicDirectory.estimatedSize (constant 0): the tracker measures growth since an unknown size at or below the threshold, so after removals that bring the directory back under the threshold without undoing all growth the gate stays closed and the directory remains sharded although a fresh build of the same entries is basic (different root CID)")
		// (b) same size function on both sides
		tracker := map[string]bool{}
		for _, f := range fns {
			for _, st := range an.FieldStores(f, fSC) {
				x.sizeFnsOf(fns, st.Val, tracker, 0)
			}
		}
		same := len(tracker) > 0 && len(g.ops) > 0
		for k := range tracker {
			if !g.ops[k] {
				same = false
			}
		}
		for k := range g.ops {
			if !tracker[k] {
				same = false
			}
		}
		c.Check(same, "O5", "R-FLOW", name, "size-gate<=tracker-units=operand-units", g.call.Pos(),
			"sizeChange and the operation delta are computed by the same size functions",
			fmt.Sprintf("HAMTDirectory.sizeChange is accumulated with %s but is added to an operation delta computed with %s: in SizeEstimationBlock mode the two are in different units (name+CID bytes vs exact dag-pb bytes), so the sign test of the gate does not reflect the real size change and the basic/HAMT form depends on the edit history", c16Set(tracker), c16Set(g.ops)))
	}
}

func c16Set(m map[string]bool) string {
	var ks []string
	for k := range m {
		ks = append(ks, k)
	}
	sort.Strings(ks)
	return "{" + strings.Join(ks, ",") + "}"
}

// sizeFnsOf collects the size-function kinds v depends on; helper calls whose
// body switches on the mode contribute all their kinds.
func (x *c16Ctx) sizeFnsOf(fns []*ssa.Function, v ssa.Value, out map[string]bool, depth int) {
	inU := map[*ssa.Function]bool{}
	for _, f := range fns {
		inU[f] = true
	}
	for _, l := range an.Deps(v, &an.DepOpts{Stop: func(w ssa.Value) bool {
		call, ok := w.(*ssa.Call)
		if !ok {
			return false
		}
		if c16SizeKind(call) != "" {
			return true
		}
		g := an.Callee(call).Static
		return g != nil && inU[g]
	}}) {
		call, ok := l.(*ssa.Call)
		if !ok {
			continue
		}
		if k := c16SizeKind(call); k != "" {
			out[k] = true
			continue
		}
		if g := an.Callee(call).Static; g != nil && inU[g] && depth < 2 {
			for _, inner := range an.AllCalls(g) {
				if k := c16SizeKind(inner); k != "" {
					out[k] = true
				}
			}
		}
	}
}

// mfs: O6.
func (x *c16Ctx) mfs() {
	c := x.c
	fns := c.P.PkgFuncs("mfs")
	if !c.Need(len(fns) > 0, "package mfs") {
		return
	}
	want := []string{"SetMaxLinks", "SetMaxHAMTFanout", "SetHAMTShardingSize", "SetSizeEstimationMode"}
	n := 0
	for _, f := range fns {
		got := map[string]map[string]bool{} // receiver path -> setters
		var first ssa.CallInstruction
		for _, call := range an.AllCalls(f) {
			ci := an.Callee(call)
			if !ci.Invoke || ci.Recv != "Directory" || ci.Pkg != an.Mod+"/"+c16IO {
				continue
			}
			for _, w := range want {
				if ci.Name == w {
					k := an.PathOf(an.Recv(call))
					if got[k] == nil {
						got[k] = map[string]bool{}
					}
					got[k][w] = true
					if first == nil {
						first = call
					}
				}
			}
		}
		// settings supplied as With* options to the constructor in the same function
		for _, call := range an.AllCalls(f) {
			ci := an.Callee(call)
			if ci.Pkg == an.Mod+"/"+c16IO && ci.Recv == "" && strings.HasPrefix(ci.Name, "With") {
				for k := range got {
					got[k]["Set"+strings.TrimPrefix(ci.Name, "With")] = true
				}
			}
		}
		for _, set := range got {
			n++
			var missing []string
			for _, w := range want {
				if !set[w] {
					missing = append(missing, w)
				}
			}
			c.Check(len(missing) == 0, "O6", "R-SIB", an.FuncName(f), "reapplies-all-unpersisted-settings", first.Pos(),
				"all four non-persisted directory settings are re-applied together",
				"a unixfs directory loaded from its node gets some of the non-persisted settings re-applied but not "+strings.Join(missing, ", ")+": after a reload the directory decides sharding with default values, so the root CID depends on whether the directory was reloaded in between")
		}
	}
	c.Min("O6 mfs functions re-applying directory settings", n, 1)
}

// ---- O7: provenance and sign of the size terms that enter a sharding decision.

// c16Origin classifies where the link data of a size term comes from:
// "existing" (GetNodeLink / Shard.Find result), "incoming" (ipld.MakeLink
// result or a parameter of interface type Node), both, or neither.
func c16Origin(fns []*ssa.Function, vals []ssa.Value) (existing, incoming bool) {
	return c16OriginL(fns, vals, true)
}

// c16OriginL: lift=false does not follow parameters of helpers to their call sites.
func c16OriginL(fns []*ssa.Function, vals []ssa.Value, lift bool) (existing, incoming bool) {
	inU := map[*ssa.Function]bool{}
	for _, f := range fns {
		inU[f] = true
	}
	isLocalCall := func(v ssa.Value) (*ssa.Call, int) {
		idx := 0
		if e, ok := v.(*ssa.Extract); ok {
			v, idx = e.Tuple, e.Index
		}
		call, ok := v.(*ssa.Call)
		if !ok {
			return nil, 0
		}
		if g := an.Callee(call).Static; g != nil && inU[g] && g.Blocks != nil {
			return call, idx
		}
		return nil, 0
	}
	isLookup := func(v ssa.Value) bool {
		_, ok := an.IsCallTo(v, an.M("ipld/merkledag", "ProtoNode", "GetNodeLink"), an.M("ipld/unixfs/hamt", "Shard", "Find"))
		return ok
	}
	isMade := func(v ssa.Value) bool {
		_, ok := an.IsCallTo(v, an.M("github.com/ipfs/go-ipld-format", "", "MakeLink"))
		return ok
	}
	seen := map[ssa.Value]bool{}
	var visit func(v ssa.Value, depth int)
	visit = func(v ssa.Value, depth int) {
		if v == nil || seen[v] || depth > 6 {
			return
		}
		seen[v] = true
		for _, l := range an.Deps(v, &an.DepOpts{Stop: func(w ssa.Value) bool {
			lc, _ := isLocalCall(w)
			return isLookup(w) || isMade(w) || lc != nil
		}}) {
			switch {
			case isLookup(l):
				existing = true
			case isMade(l):
				incoming = true
			default:
				// result of a helper of this package: what the helper returns there
				if lc, idx := isLocalCall(l); lc != nil {
					g := an.Callee(lc).Static
					for _, rs := range an.ResultSites(g, idx) {
						visit(rs.Val, depth+1)
					}
					continue
				}
				if par, ok := l.(*ssa.Parameter); ok && an.TypeIs(par.Type(), "github.com/ipfs/go-ipld-format", "Node") {
					incoming = true
				} else if ok && lift && par.Parent() != nil && par.Parent().Object() != nil && !par.Parent().Object().Exported() {
					// parameter of an unexported helper: what its callers pass
					// (ignored when the callers disagree: context dependent)
					h := par.Parent()
					var as []ssa.Value
					for _, cs := range an.LocalCallers(fns, h) {
						if a := an.ArgAt(cs, an.ParamIndex(h, par)); a != nil {
							as = append(as, a)
						}
					}
					if depth < 3 {
						pe, pi := c16OriginL(fns, as, true)
						if pe != pi {
							existing = existing || pe
							incoming = incoming || pi
						}
					}
				}
				if fl, b := an.LoadedField(l); fl != nil && b != nil {
					visit(b, depth+1)
				}
			}
		}
	}
	for _, v := range vals {
		visit(v, 0)
	}
	return
}

// sizeTermArgs: the operands of a size term that carry link data (everything
// but the entry name), for direct size calls and for package-local helpers
// that return a size call on their *Link parameter (linkSizeFor).
func (x *c16Ctx) sizeTermArgs(fns []*ssa.Function, call *ssa.Call) ([]ssa.Value, bool) {
	if k := c16SizeKind(call); k == "block" || k == "links" {
		return call.Call.Args[1:], true
	}
	if !c16IsSizeHelper(an.Callee(call).Static) {
		return nil, false
	}
	var out []ssa.Value
	for _, a := range an.Args(call) {
		if an.TypeIs(a.Type(), "github.com/ipfs/go-ipld-format", "Link") {
			out = append(out, a)
		}
	}
	return out, len(out) > 0
}

// c16IsSizeHelper: every result of g is a size call (g only selects the size
// function, like linkSizeFor).
func c16IsSizeHelper(g *ssa.Function) bool {
	if g == nil || g.Blocks == nil || g.Pkg == nil || g.Pkg.Pkg.Path() != an.Mod+"/"+c16IO || g.Signature.Results().Len() != 1 {
		return false
	}
	rs := an.ResultSites(g, 0)
	if len(rs) == 0 {
		return false
	}
	for _, r := range rs {
		inner, ok := r.Val.(*ssa.Call)
		if !ok || (c16SizeKind(inner) != "block" && c16SizeKind(inner) != "links") {
			return false
		}
	}
	return true
}

func (x *c16Ctx) terms(fns []*ssa.Function, minTerms, minSigned int) {
	c := x.c
	fSC := c16IOR.hSizeChange
	isThr := func(v ssa.Value) bool {
		for _, l := range an.Deps(v, &an.DepOpts{Stop: func(w ssa.Value) bool {
			call, ok := w.(*ssa.Call)
			return ok && c16IsThresholdCall(call)
		}}) {
			if call, ok := l.(*ssa.Call); ok && c16IsThresholdCall(call) {
				return true
			}
		}
		return false
	}
	dependsOnTracker := func(v ssa.Value) bool {
		for _, l := range an.Deps(v, nil) {
			if fl, _ := an.LoadedField(l); fl != nil && fl == fSC {
				return true
			}
		}
		return false
	}
	nTerms, nSigned := 0, 0
	for _, f := range fns {
		name := an.FuncName(f)
		for _, ci := range an.AllCalls(f) {
			call, ok := ci.(*ssa.Call)
			if !ok {
				continue
			}
			args, isTerm := x.sizeTermArgs(fns, call)
			if !isTerm {
				continue
			}
			// the calls inside a size helper (linkSizeFor) are not terms of
			// their own: the helper call is
			if c16IsSizeHelper(f) {
				continue
			}
			existing, incoming := c16Origin(fns, args)
			if !existing && !incoming {
				continue
			}
			nTerms++
			what := c16CallName(call)
			c.Check(!(existing && incoming), "O7", "R-FLOW", name, what+":one-entry-per-size-term", call.Pos(),
				"size term computed from one entry only",
				"a size term passed to "+what+" mixes fields of the entry that already exists under the name (GetNodeLink/Find result) with fields of the entry being added (MakeLink/node): the size of the replaced (or of the new) entry is mis-computed whenever the two differ in CID length or Tsize varint length, so a replacement crossing the threshold is decided differently from a fresh build")
			if existing && incoming {
				continue
			}
			// sign with which the term enters a threshold / gate comparison
			type key struct {
				v   ssa.Value
				neg bool
			}
			seen := map[key]bool{}
			var signs []bool
			var walk func(v ssa.Value, neg bool)
			walk = func(v ssa.Value, neg bool) {
				if seen[key{v, neg}] || v.Referrers() == nil {
					return
				}
				seen[key{v, neg}] = true
				for _, r := range *v.Referrers() {
					switch r := r.(type) {
					case *ssa.BinOp:
						switch r.Op {
						case token.ADD:
							walk(r, neg)
						case token.SUB:
							if r.Y == v && r.X != v {
								walk(r, !neg)
							} else {
								walk(r, neg)
							}
						case token.LSS, token.LEQ, token.GTR, token.GEQ:
							mine, other := r.X, r.Y
							if r.Y == v {
								mine, other = r.Y, r.X
							}
							_, otherConst := other.(*ssa.Const)
							if (isThr(other) && !isThr(mine)) || (otherConst && dependsOnTracker(mine)) {
								signs = append(signs, neg)
							}
						}
					case *ssa.Return:
						// the term leaves a helper as (part of) a result: go on at
						// the helper's call sites
						h := r.Parent()
						for i, res := range r.Results {
							if res != v {
								continue
							}
							for _, cs := range an.LocalCallers(fns, h) {
								for _, rv := range an.Result(cs, i) {
									walk(rv, neg)
								}
							}
						}
					case *ssa.Phi:
						walk(r, neg)
					case *ssa.Convert:
						walk(r, neg)
					case *ssa.ChangeType:
						walk(r, neg)
					case *ssa.Store:
						if r.Val == v {
							// a field of a local struct variable: go on at the loads of that field
							if fa, isFA := r.Addr.(*ssa.FieldAddr); isFA {
								if base, isAl := fa.X.(*ssa.Alloc); isAl && base.Referrers() != nil {
									for _, u := range *base.Referrers() {
										if fa2, ok := u.(*ssa.FieldAddr); ok && fa2.Field == fa.Field && fa2.Referrers() != nil {
											for _, u2 := range *fa2.Referrers() {
												if ld, ok := u2.(*ssa.UnOp); ok && ld.Op == token.MUL {
													walk(ld, neg)
												}
											}
										}
									}
								}
							}
							if cell := an.CellOf(r.Addr); cell != nil {
								for _, u := range *cell.Referrers() {
									if ld, ok := u.(*ssa.UnOp); ok && ld.Op == token.MUL {
										walk(ld, neg)
									}
								}
							}
						}
					}
				}
			}
			walk(call, false)
			if len(signs) == 0 {
				continue
			}
			nSigned++
			ok2 := true
			for _, neg := range signs {
				if neg != existing {
					ok2 = false
				}
			}
			role, want := "entry being added", "added to"
			if existing {
				role, want = "entry that is replaced/removed", "subtracted from"
			}
			c.Check(ok2, "O7", "R-FLOW", name, what+":sign-of-"+map[bool]string{true: "existing", false: "incoming"}[existing]+"-entry-term", call.Pos(),
				"size of the "+role+" is "+want+" the compared size",
				"the size of the "+role+" is not "+want+" the size that is compared with the sharding threshold: the post-operation size is wrong by twice that entry, so the basic/HAMT decision differs from a fresh build")
		}
		// MaxLinks test gets the looked-up entry
		for _, cc := range an.AllCalls(f) {
			// the MaxLinks test, by role: BasicDirectory method (ipld.Node, *ipld.Link) bool
			g := an.Callee(cc).Static
			as := an.Args(cc)
			if g == nil || g.Signature.Recv() == nil || !an.TypeIs(g.Signature.Recv().Type(), c16IO, "BasicDirectory") || len(as) != 2 ||
				!an.TypeIs(as[0].Type(), "github.com/ipfs/go-ipld-format", "Node") || !an.TypeIs(as[1].Type(), "github.com/ipfs/go-ipld-format", "Link") || g.Signature.Results().Len() != 1 {
				continue
			}
			if b, ok := g.Signature.Results().At(0).Type().Underlying().(*types.Basic); !ok || b.Kind() != types.Bool {
				continue
			}
			ex, _ := c16Origin(fns, []ssa.Value{as[1]})
			_, inc := c16Origin(fns, []ssa.Value{as[0]})
			c.Check(ex && inc, "O7", "R-FLOW", name, "checkMaxLinksExceeded(node-to-add,looked-up-entry)", cc.Pos(),
				"MaxLinks test is given the node being added and the entry found under the name",
				"checkMaxLinksExceeded is not given the entry looked up under the name (or the node being added): a replacement is counted as a new link (or a new link as a replacement), so the MaxLinks rule shards at a different count than a fresh build")
		}
	}
	c.Min("O7 size terms with a classified origin", nTerms, minTerms)
	c.Min("O7 size terms entering a threshold/gate comparison", nSigned, minSigned)
}

// ---- O8
func (x *c16Ctx) hamtCount(fns []*ssa.Function) {
	c := x.c
	fTot := c16IOR.hTot
	if !c.Need(fTot != nil, "HAMTDirectory.totalLinks") {
		return
	}
	n := 0
	for _, f := range fns {
		for _, kind := range []struct {
			m      an.Matcher
			op     token.Token
			wantNl bool
			what   string
		}{
			{an.M("ipld/unixfs/hamt", "Shard", "Swap"), token.ADD, true, "incremented exactly when Swap returned no previous link"},
			{an.M("ipld/unixfs/hamt", "Shard", "Take"), token.SUB, false, "decremented exactly when Take returned the removed link"},
		} {
			for _, call := range an.Calls(f, kind.m) {
				n++
				old := an.Result(call, 0)
				var sts []ssa.Instruction
				for _, st := range an.FieldStores(f, fTot) {
					if b, ok := st.Val.(*ssa.BinOp); ok && b.Op == kind.op {
						if k, ok := an.ConstOf(b.Y); ok && k.String() == "1" {
							sts = append(sts, st)
						}
					}
				}
				ok := len(sts) > 0
				want := an.NilEdges(f, old, kind.wantNl)
				other := an.NilEdges(f, old, !kind.wantNl)
				for _, st := range sts {
					if !an.OnNilEdgeOf(f, call, st) || !an.GuardedBy(f, call, st, want) {
						ok = false
					}
				}
				// and on the wanted edge the update is not skipped
				if ok {
					blocked := map[ssa.Instruction]bool{}
					for _, st := range sts {
						blocked[st] = true
					}
					for e := range want {
						for _, r := range an.Returns(f) {
							if an.ReachesFromBlock(e.To(), r, other, blocked) {
								if rs := r.Results; len(rs) > 0 && an.IsNilConst(rs[len(rs)-1]) {
									ok = false
								}
							}
						}
					}
				}
				c.Check(ok, "O8", "R-PAIR", an.FuncName(f), an.Callee(call).Name+"=>totalLinks"+kind.op.String()+"1", call.Pos(),
					"totalLinks "+kind.what,
					"HAMTDirectory.totalLinks is not "+kind.what+": the link count drifts, so the MaxLinks rule converts HAMT<->Basic at a different count than a fresh build of the same entries")
			}
		}
	}
	c.Min("O8 Swap/Take sites of HAMTDirectory", n, 1)
}

// c16IsThresholdCall: the call yields the effective sharding threshold — by
// role: a parameterless int method of a directory type that falls back to the
// package-level HAMTShardingSize.
func c16IsThresholdCall(call ssa.CallInstruction) bool {
	g := an.Callee(call).Static
	if g == nil || g.Blocks == nil || g.Signature.Recv() == nil || g.Signature.Params().Len() != 0 || g.Signature.Results().Len() != 1 {
		return false
	}
	if g.Pkg == nil || g.Pkg.Pkg.Path() != an.Mod+"/"+c16IO {
		return false
	}
	found := false
	an.Instrs(g, func(in ssa.Instruction) {
		if u, ok := in.(*ssa.UnOp); ok && u.Op == token.MUL {
			if gl, ok := u.X.(*ssa.Global); ok && gl.Name() == "HAMTShardingSize" {
				found = true
			}
		}
	})
	return found
}

// ---- function values selected at run time (closures picked per mode)

// c16FuncTargets: the functions a func-typed value can denote when it is
// called: closures and plain functions merged through phis (a nil constant is
// no target: calling it panics). ok=false if some source is not resolvable.
func c16FuncTargets(v ssa.Value) (mks []*ssa.MakeClosure, fns []*ssa.Function, ok bool) {
	seen := map[ssa.Value]bool{}
	ok = true
	var visit func(v ssa.Value)
	visit = func(v ssa.Value) {
		if seen[v] {
			return
		}
		seen[v] = true
		switch v := v.(type) {
		case *ssa.Phi:
			for _, e := range v.Edges {
				visit(e)
			}
		case *ssa.MakeClosure:
			if g, isF := v.Fn.(*ssa.Function); isF {
				mks = append(mks, v)
				fns = append(fns, g)
			} else {
				ok = false
			}
		case *ssa.Function:
			fns = append(fns, v)
		case *ssa.ChangeType:
			visit(v.X)
		case *ssa.Const:
			if !v.IsNil() {
				ok = false
			}
		default:
			ok = false
		}
	}
	visit(v)
	if len(fns) == 0 {
		ok = false
	}
	return
}

// c16ClosureUse: the creation sites of the anonymous function g in its parent
// and the dynamic calls that may run it, provided the closure value never
// leaves the parent's activation (it is only called, merged by phis or
// compared with nil): then g runs only in an activation that both created and
// called it.
func c16ClosureUse(g *ssa.Function) (sites []*ssa.MakeClosure, calls []ssa.CallInstruction, confined bool) {
	par := g.Parent()
	if par == nil {
		return nil, nil, false
	}
	confined = true
	seen := map[ssa.Value]bool{}
	var follow func(v ssa.Value)
	follow = func(v ssa.Value) {
		if seen[v] || v.Referrers() == nil {
			return
		}
		seen[v] = true
		for _, r := range *v.Referrers() {
			switch r := r.(type) {
			case *ssa.Phi:
				follow(r)
			case *ssa.ChangeType:
				follow(r)
			case *ssa.DebugRef:
			case *ssa.BinOp:
				if r.Op != token.EQL && r.Op != token.NEQ {
					confined = false
				}
			case ssa.CallInstruction:
				cc := r.Common()
				if cc.IsInvoke() || cc.Value != v {
					confined = false
					continue
				}
				for _, a := range cc.Args {
					if a == v {
						confined = false
					}
				}
				if _, isCall := r.(*ssa.Call); !isCall {
					confined = false // go / defer: runs outside the guarded region
					continue
				}
				calls = append(calls, r)
			default:
				confined = false
			}
		}
	}
	an.Instrs(par, func(in ssa.Instruction) {
		if mk, ok := in.(*ssa.MakeClosure); ok && mk.Fn == ssa.Value(g) {
			sites = append(sites, mk)
			follow(mk)
		}
	})
	if len(sites) == 0 {
		confined = false
	}
	return
}

// ---- O9: sibling agreement between the incremental updater and the recompute function.

func (x *c16Ctx) recompute(fns []*ssa.Function) {
	c := x.c
	p := c.P
	comp := c17Comp(p)
	fTot, fEst, fNode := c16IOR.bTot, c16IOR.bEst, c16IOR.bNode
	kBlock, kLinks := x.modeConst("SizeEstimationBlock"), x.modeConst("SizeEstimationLinks")
	if !c.Need(comp != nil && fTot != nil && fEst != nil && fNode != nil && kBlock != nil && kLinks != nil && len(comp.Blocks) > 0, "BasicDirectory recompute function, totalLinks, estimatedSize, node") {
		return
	}
	name := an.FuncName(comp)
	// the incremental path maintains the fields at all (otherwise nothing to agree with)
	maintained := map[*types.Var]bool{}
	for _, f := range fns {
		if f == comp {
			continue
		}
		for _, fl := range []*types.Var{fTot, fEst} {
			for _, st := range an.FieldStores(f, fl) {
				if b, ok := st.Val.(*ssa.BinOp); ok && (b.Op == token.ADD || b.Op == token.SUB) {
					if l, _ := an.LoadedField(b.X); l == fl {
						maintained[fl] = true
					}
				}
			}
		}
	}
	// all links of this directory's node: node.Links() / the node's link slice, unsliced
	isAllLinks := func(v ssa.Value) bool {
		for _, l := range an.Deps(v, &an.DepOpts{Stop: func(w ssa.Value) bool { _, is := w.(*ssa.Slice); return is }}) {
			if _, is := l.(*ssa.Slice); is {
				return false // a sub-slice: not all links
			}
		}
		rs := an.Roots(v, nil)
		if len(rs) == 0 {
			return false
		}
		for _, r := range rs {
			if call, ok := r.(*ssa.Call); ok && an.Callee(call).Recv == "ProtoNode" && an.Callee(call).Name == "Links" {
				if fl, _ := an.LoadedField(an.Recv(call)); fl == fNode {
					continue
				}
			}
			if fl, base := an.LoadedField(r); fl != nil && fl == c16IOR.pnLinks && base != nil {
				if fl2, _ := an.LoadedField(base); fl2 == fNode {
					continue
				}
			}
			return false
		}
		return true
	}
	kinds := map[string]string{"Block": "block", "Links": "links"}
	// estab: on every path through f that is feasible in mode m (node present),
	// the field is established from all links — by a statement of f or by a
	// helper method called on the same directory that does so itself.
	var estab func(f *ssa.Function, fl *types.Var, m string, depth int) (bool, string)
	estab = func(f *ssa.Function, fl *types.Var, m string, depth int) (bool, string) {
		if len(f.Blocks) == 0 || len(f.Params) == 0 {
			return false, "no body"
		}
		var nodeLoads []ssa.Value
		an.Instrs(f, func(in ssa.Instruction) {
			if v, ok := in.(ssa.Value); ok {
				if l, _ := an.LoadedField(v); l == fNode {
					nodeLoads = append(nodeLoads, v)
				}
			}
		})
		cut := an.NilEdges(f, nodeLoads, true)
		switch m {
		case "Block":
			cut = cut.Union(x.modeEdges(f, kBlock, false)).Union(x.modeEdges(f, kLinks, true))
		case "Links":
			cut = cut.Union(x.modeEdges(f, kLinks, false)).Union(x.modeEdges(f, kBlock, true))
		default:
			cut = cut.Union(x.modeEdges(f, kBlock, true)).Union(x.modeEdges(f, kLinks, true))
		}
		loops := an.RangeLoops(f)
		loopOf := func(in ssa.Instruction) *an.RangeLoop {
			for _, l := range loops {
				if l.Contains(in) && l.Slice != nil && isAllLinks(l.Slice) {
					return l
				}
			}
			return nil
		}
		events := map[ssa.Instruction]bool{}
		var resets []*ssa.Store
		for _, st := range an.FieldStores(f, fl) {
			if _, base := an.FieldOf(st.Addr); base == nil || !an.SameObj(base, f.Params[0]) {
				continue
			}
			if k, ok := an.ConstOf(st.Val); ok && k.String() == "0" {
				resets = append(resets, st)
				continue
			}
			if fl == fTot {
				if lc, ok := an.IsBuiltinCall(st.Val, "len"); ok && isAllLinks(lc.Call.Args[0]) {
					events[st] = true
					continue
				}
			}
			b, ok := st.Val.(*ssa.BinOp)
			if !ok || b.Op != token.ADD {
				continue
			}
			if l, _ := an.LoadedField(b.X); l != fl {
				continue
			}
			lp := loopOf(st)
			if lp == nil {
				continue
			}
			good := false
			if fl == fTot {
				k, isK := an.ConstOf(b.Y)
				good = isK && k.String() == "1"
			} else {
				isTerm, same, _, base := c17SizeTerm(b.Y)
				good = isTerm && same && base != nil && lp.IsElem(base)
				if call, isCall := b.Y.(*ssa.Call); good && isCall {
					if kind := c16SizeKind(call); kind != "" {
						// the mode's own size function, given the element's own name
						nf, nb := an.LoadedField(call.Call.Args[0])
						if kind != kinds[m] || nf == nil || nf.Name() != "Name" || !lp.IsElem(nb) {
							good = false
						}
					}
				}
			}
			cc := an.EdgeSet{an.Edge{From: lp.Header, Succ: 1}: true}.Union(cut)
			if good && !an.Reaches(f, lp.If, lp.Header.Instrs[0], cc, map[ssa.Instruction]bool{st: true}) {
				// zero links: the loop leaves the value of the preceding reset / data-field store
				events[lp.If] = true
			}
		}
		if depth < 2 {
			for _, call := range an.AllCalls(f) {
				g := an.Callee(call).Static
				if g == nil || g == f || g.Blocks == nil || g.Signature.Recv() == nil || !an.TypeIs(g.Signature.Recv().Type(), c16IO, "BasicDirectory") {
					continue
				}
				if r := an.Recv(call); r == nil || !an.SameObj(r, f.Params[0]) {
					continue
				}
				if _, isCall := call.(*ssa.Call); !isCall {
					continue
				}
				if ok, _ := estab(g, fl, m, depth+1); ok {
					events[call] = true
				}
			}
		}
		if len(events) == 0 {
			return false, "no statement of the recompute path establishes it from all links of the node"
		}
		for _, r := range an.Returns(f) {
			if f.Recover != nil && r.Block() == f.Recover {
				continue
			}
			if an.Reaches(f, nil, r, cut, events) {
				return false, "a path that is taken in this mode returns without it"
			}
		}
		for _, rs := range resets {
			for e := range events {
				if an.Reaches(f, e, rs, cut, nil) {
					return false, "it is reset to 0 after it was established"
				}
			}
		}
		return true, ""
	}
	for _, fld := range []struct {
		fl    *types.Var
		label string
	}{{fTot, "totalLinks"}, {fEst, "estimatedSize"}} {
		if !maintained[fld.fl] {
			continue
		}
		for _, m := range []struct{ name string }{{"Block"}, {"Links"}, {"Disabled"}} {
			if fld.fl == fEst && m.name == "Disabled" {
				continue
			}
			ok, why := estab(comp, fld.fl, m.name, 0)
			c.Check(ok, "O9", "R-SIB", name, "recompute:"+fld.label+"-reestablished-in-mode-"+m.name, comp.Pos(),
				fld.label+" is re-established from all links of the node in mode "+m.name,
				"the recompute function of BasicDirectory does not re-establish "+fld.label+" from all links of the node when the size estimation mode is "+m.name+" ("+why+"), although the incremental path (AddChild/RemoveChild) maintains it: after a reload / mode change the MaxLinks and size rules decide on a stale value, so the basic/HAMT layout differs from a fresh build")
		}
	}
}

// c16BinOpsOf: the arithmetic operators a value is computed with (through phis
// and conversions).
func c16BinOpsOf(v ssa.Value) []*ssa.BinOp {
	var out []*ssa.BinOp
	seen := map[ssa.Value]bool{}
	var walk func(v ssa.Value)
	walk = func(v ssa.Value) {
		if v == nil || seen[v] {
			return
		}
		seen[v] = true
		switch v := v.(type) {
		case *ssa.Phi:
			for _, e := range v.Edges {
				walk(e)
			}
		case *ssa.BinOp:
			out = append(out, v)
			walk(v.X)
			walk(v.Y)
		case *ssa.Convert:
			walk(v.X)
		case *ssa.ChangeType:
			walk(v.X)
		case *ssa.UnOp:
			if v.Op != token.MUL {
				return
			}
			// a local variable, or a field of a local struct variable: the values stored there
			switch a := v.X.(type) {
			case *ssa.Alloc:
				if a.Referrers() != nil {
					for _, r := range *a.Referrers() {
						if st, ok := r.(*ssa.Store); ok && st.Addr == ssa.Value(a) {
							walk(st.Val)
						}
					}
				}
			case *ssa.FieldAddr:
				base, ok := a.X.(*ssa.Alloc)
				if !ok || base.Referrers() == nil {
					return
				}
				for _, r := range *base.Referrers() {
					fa, ok := r.(*ssa.FieldAddr)
					if !ok || fa.Field != a.Field || fa.Referrers() == nil {
						continue
					}
					for _, rr := range *fa.Referrers() {
						if st, ok := rr.(*ssa.Store); ok && st.Addr == ssa.Value(fa) {
							walk(st.Val)
						}
					}
				}
			}
		}
	}
	walk(v)
	return out
}

// ---- O10
func (x *c16Ctx) extra(fns []*ssa.Function) {
	c := x.c
	p := c.P
	// (a) the effective threshold honours the per-directory setting
	nThr := 0
	for _, typ := range []string{"BasicDirectory", "HAMTDirectory"} {
		set := p.Func(c16IO, typ, "SetHAMTShardingSize")
		if set == nil {
			continue
		}
		var fld *types.Var
		an.Instrs(set, func(in ssa.Instruction) {
			if st, ok := in.(*ssa.Store); ok {
				if fl, base := an.FieldOf(st.Addr); fl != nil && base != nil && an.SameObj(base, set.Params[0]) {
					fld = fl
				}
			}
		})
		if fld == nil {
			continue
		}
		for _, g := range p.Methods(c16IO, typ) {
			if g.Signature.Params().Len() != 0 || g.Signature.Results().Len() != 1 {
				continue
			}
			readsGlobal := false
			an.Instrs(g, func(in ssa.Instruction) {
				if u, ok := in.(*ssa.UnOp); ok && u.Op == token.MUL {
					if gl, ok := u.X.(*ssa.Global); ok && gl.Name() == "HAMTShardingSize" {
						readsGlobal = true
					}
				}
			})
			if !readsGlobal {
				continue
			}
			nThr++
			ok := false
			for _, rs := range an.ResultSites(g, 0) {
				for _, r := range an.Roots(rs.Val, nil) {
					if fl, _ := an.LoadedField(r); fl == fld {
						ok = true
					}
				}
			}
			c.Check(ok, "O10", "R-FLOW", an.FuncName(g), "effective-threshold<=per-directory-setting", g.Pos(),
				"effective threshold returns the per-directory HAMTShardingSize when set",
				typ+"'s effective sharding threshold never returns the value stored by SetHAMTShardingSize: a per-directory threshold is lost (after a basic/HAMT conversion the directory decides with the global threshold), so the layout depends on the conversions it went through")
		}
	}
	c.Min("O10 effective-threshold methods", nThr, 1)

	// (b) bulk insertion into a HAMTDirectory's shard keeps totalLinks
	fTot, fShard := c16IOR.hTot, c16IOR.hShard
	if fTot != nil && fShard != nil {
		for _, f := range fns {
			for _, call := range an.Calls(f, an.M("ipld/unixfs/hamt", "Shard", "Set"), an.M("ipld/unixfs/hamt", "Shard", "SetLink")) {
				fl, base := an.LoadedField(an.Recv(call))
				if fl != fShard || base == nil {
					continue
				}
				blocked := map[ssa.Instruction]bool{}
				for _, st := range an.FieldStores(f, fTot) {
					_, b2 := an.FieldOf(st.Addr)
					bo, isB := st.Val.(*ssa.BinOp)
					if b2 == nil || !an.SameObj(b2, base) || !isB || bo.Op != token.ADD {
						continue
					}
					if k, isK := an.ConstOf(bo.Y); isK && k.String() == "1" {
						blocked[st] = true
					}
				}
				cut := an.NilEdges(f, an.ErrResult(call), false)
				ok := len(blocked) > 0
				for _, r := range an.Returns(f) {
					if f.Recover != nil && r.Block() == f.Recover {
						continue
					}
					if ok && an.Reaches(f, call, r, cut, blocked) {
						ok = false
					}
				}
				c.Check(ok, "O10", "R-PAIR", an.FuncName(f), an.Callee(call).Name+"=>totalLinks+1", call.Pos(),
					"entry inserted into the HAMT directory's shard is counted",
					"an entry is inserted into a HAMTDirectory's shard ("+an.Callee(call).Name+") without totalLinks being incremented on the success path: the MaxLinks rule of the HAMT->basic decision works on a wrong count, so the layout differs from a fresh build")
			}
		}
	}

	// (c) a HAMT-side size made of exact block link sizes contains the data field
	for _, f := range fns {
		if f.Signature.Recv() == nil || !an.TypeIs(f.Signature.Recv().Type(), c16IO, "HAMTDirectory") {
			continue
		}
		an.Instrs(f, func(in ssa.Instruction) {
			b, ok := in.(*ssa.BinOp)
			if !ok || (b.Op != token.GTR && b.Op != token.LSS && b.Op != token.GEQ && b.Op != token.LEQ) {
				return
			}
			thrOf := func(v ssa.Value) bool {
				for _, l := range an.Deps(v, &an.DepOpts{Stop: func(w ssa.Value) bool { _, is := w.(*ssa.Call); return is }}) {
					if call, is := l.(*ssa.Call); is && c16IsThresholdCall(call) {
						return true
					}
				}
				return false
			}
			size := b.X
			if thrOf(b.X) == thrOf(b.Y) {
				return
			}
			if thrOf(b.X) {
				size = b.Y
			}
			block, data := false, false
			for _, l := range an.Deps(size, &an.DepOpts{Stop: func(w ssa.Value) bool { _, is := w.(*ssa.Call); return is }}) {
				call, is := l.(*ssa.Call)
				if !is {
					continue
				}
				switch c16SizeKind(call) {
				case "block":
					block = true
				case "block-data":
					data = true
				default:
					if g := an.Callee(call).Static; c16IsSizeHelper(g) {
						for _, rs := range an.ResultSites(g, 0) {
							if inner, isC := rs.Val.(*ssa.Call); isC && c16SizeKind(inner) == "block" {
								block = true
							}
						}
					}
				}
			}
			if !block {
				return
			}
			c.Check(data, "O10", "R-SIB", an.FuncName(f), "block-size-sum-includes-data-field", b.Pos(),
				"HAMT-side block size includes the data field",
				"a HAMTDirectory size that sums exact link sizes (linkSerializedSize) is compared with the threshold without dataFieldSerializedSize: the basic side's estimate contains the data field, so the two directions decide differently near the threshold (CID depends on history)")
		})
	}
}
