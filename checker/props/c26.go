package props

import (
	"fmt"
	"go/constant"
	"go/token"
	"go/types"
	"sort"
	"strings"

	"golang.org/x/tools/go/ssa"

	"verif/checker/an"
)

func init() {
	register("C26", Prop{
		Pkgs: []string{"./ipns", "./util"},
		Explain: "Decided (structural necessary conditions of 'IPNS records round-trip through creation, encoding and validation'): " +
			"O1 the record builder writes exactly the five spec keys {Value,Validity,ValidityType,Sequence,TTL} (each also appended to the emitted key list, each from the builder's own parameter), the reserved-key table holds exactly the same five keys, each accessor Value/Validity/ValidityType/Sequence/TTL looks its own spec key up in rec.node with the scalar kind the builder wrote (NewBytes<->AsBytes, NewInt<->AsInt), the legacy v1 protobuf fields written by the constructor derive from the same inputs through the same transformers as their CBOR twins (so a fresh record passes the CBOR/protobuf match), the embedded public key is the signer's, and the time layout used to format and to parse the expiry is one and the same nanosecond layout; " +
			"O2 a metadata entry reaches the CBOR map only where its key is known non-empty and known absent from the reserved table and its value conversion succeeded, the same key is emitted; every scalar kind the value converter can produce is recognised by MetadataValue.Kind() (distinct, not Invalid) and has a typed As accessor; " +
			"O3 UnmarshalRecord succeeds only with len(data) <= MaxRecordSize, proto.Unmarshal of that data into the stored protobuf on its nil edge and non-empty Data; MarshalRecord marshals rec.pb. " +
			"O5 (sibling agreement) the constructor's embed decision and ExtractPublicKey relate a public key to a name only through the libp2p derivation peer.IDFromPublicKey/IDFromPrivateKey (or ID.MatchesPublicKey on the name's ID): no peer ID that is used as a key's identity (receiver of ExtractPublicKey/MatchesPublicKey, argument of NameFromPeer, ID comparison) on either side is computed locally from bytes, and both sides use the derivation at least once. " +
			"NOT decided: equality of values after a round trip (expiry precision beyond the shared layout, uint64<->int64 sequence casts), DAG-CBOR codec behaviour, sentinel wrapping of errors (errors.Join with ErrInvalidRecord).",
		Assume:    []string{"go-ipld-prime basicnode.NewX builds a node of kind X and dagcbor round-trips basic scalar nodes", "time.Format/Parse with one layout are inverse at that layout's precision"},
		Technique: "writer/reader tables over SSA constants (R-TABLE), value provenance through whitelisted wrappers (R-FLOW), edge dominance (R-DOM), relation normalisation (R-CMP)",
		Run:       runC26,
	})
}

const c26Basic = "github.com/ipld/go-ipld-prime/node/basic"

var c26SpecKeys = []string{"Sequence", "TTL", "Validity", "ValidityType", "Value"}

// node constructor -> reader method of the same scalar kind
var c26CtorReader = map[string]string{"NewBytes": "AsBytes", "NewInt": "AsInt", "NewString": "AsString", "NewBool": "AsBool", "NewFloat": "AsFloat"}
var c26CtorKind = map[string]string{"NewBytes": "Kind_Bytes", "NewInt": "Kind_Int", "NewString": "Kind_String", "NewBool": "Kind_Bool", "NewFloat": "Kind_Float"}

type c26MapWrite struct {
	at    ssa.Instruction // the map update, or the append of a (key, node) entry struct
	keyV  ssa.Value       // key stored
	val   ssa.Value       // value stored (the table row's value when the write is table-driven)
	key   string          // constant key ("" if dynamic)
	isK   bool
	ctor  string
	ctorC *ssa.Call
	fn    *ssa.Function // function containing the write (the builder or a helper it calls)
	chain []c26Hop      // calls leading from fn up to the constructor
}

// c26Hop: callee was entered through call (made in the caller one level up).
type c26Hop struct {
	call   *ssa.Call
	callee *ssa.Function
}

// c26Lift translates provenance roots found in the innermost callee of chain up to the constructor: a root that is
// a parameter of a hop's callee is replaced by the provenance of the corresponding argument; constants stay.
func c26Lift(roots []ssa.Value, chain []c26Hop) ([]ssa.Value, bool) {
	cur := roots
	for _, hop := range chain {
		var next []ssa.Value
		for _, r := range cur {
			switch x := r.(type) {
			case *ssa.Parameter:
				found := false
				for i, q := range hop.callee.Params {
					if q == x && i < len(hop.call.Call.Args) {
						rs, _ := c26Sig(hop.call.Call.Args[i])
						next = append(next, rs...)
						found = true
					}
				}
				if !found {
					return nil, false
				}
			case *ssa.Const:
				next = append(next, x)
			default:
				return nil, false
			}
		}
		cur = next
	}
	for _, r := range cur {
		switch r.(type) {
		case *ssa.Parameter, *ssa.Const:
		default:
			if len(chain) > 0 {
				// a non-parameter root at constructor level is fine (e.g. max(0, ttl)); below it is not
			}
		}
	}
	return cur, true
}

// c26Helpers: unexported package-local functions called from fn with an argument satisfying passes (depth 1).
func c26Helpers(fn *ssa.Function, passes func(ssa.Value) bool, takeIf func(*ssa.Function) bool) []c26Hop {
	var out []c26Hop
	seen := map[*ssa.Function]bool{}
	for _, call := range an.AllCalls(fn) {
		cv := an.CallValue(call)
		h := call.Common().StaticCallee()
		if cv == nil || !c25InPkgHelper(fn, h) || seen[h] {
			continue
		}
		take := false
		for _, a := range cv.Call.Args {
			if passes(a) {
				take = true
			}
		}
		if !take && takeIf != nil && takeIf(h) {
			take = true
		}
		if take {
			seen[h] = true
			out = append(out, c26Hop{cv, h})
		}
	}
	return out
}

func runC26(c *an.Ctx) {
	p := c.P
	const ip = "ipns"
	fPB, fNode := c25RecordFields(p)
	fSig2 := c25PBField(p, "SignatureV2")
	if !c.Need(fNode != nil && fPB != nil && fSig2 != nil, "ipns.Record.node/pb, pb.IpnsRecord.SignatureV2") {
		return
	}
	// constructor = the function storing pb.SignatureV2; builder = callee producing Record.node there
	var ctor, builder *ssa.Function
	var builderCall *ssa.Call
	for _, fn := range p.PkgFuncs(ip) {
		if len(an.FieldStores(fn, fSig2)) == 0 {
			continue
		}
		for _, st := range an.FieldStores(fn, fNode) {
			if call, ok := c25RootCall(st.Val, an.M(ip, "-", "")); ok && call.Call.StaticCallee() != nil {
				ctor, builder, builderCall = fn, call.Call.StaticCallee(), call
			}
		}
	}
	if !c.Need(ctor != nil && builder != nil, "record constructor (stores pb.SignatureV2 and Record.node) and its node builder") {
		return
	}
	bname := an.FuncName(builder)

	// ---- O1.a keys written by the builder (or by helpers the builder hands its value map to)
	var writes []c26MapWrite
	var appended []ssa.Value
	appendedIn := map[*ssa.Function][]ssa.Value{}
	var entryKeys []c26EntryKey
	bHop := c26Hop{builderCall, builder}
	mkWrite := func(fn *ssa.Function, chain []c26Hop, at ssa.Instruction, key, val ssa.Value) c26MapWrite {
		w := c26MapWrite{at: at, keyV: key, val: val, fn: fn, chain: chain}
		if k, ok := an.ConstOf(key); ok && k.Kind() == constant.String {
			w.key, w.isK = constant.StringVal(k), true
		}
		if call, ok := c25RootCall(val, an.M(c26Basic, "", "")); ok {
			w.ctor, w.ctorC = an.Callee(call).Name, call
		}
		return w
	}
	collect := func(fn *ssa.Function, chain []c26Hop) []ssa.Value {
		var maps []ssa.Value
		// entries kept as (key, node) structs appended to a slice instead of a map plus a parallel key list: every
		// appended element is one write; the key travels with its node, so it counts as emitted where the family
		// feeds the map assembler from the two fields of one element
		for _, ea := range c26EntryAppends(fn) {
			for _, row := range ea.rows {
				k, v := row[ea.fKey], row[ea.fNode]
				if k == nil || v == nil {
					continue
				}
				writes = append(writes, mkWrite(fn, chain, ea.call, k, v))
				entryKeys = append(entryKeys, c26EntryKey{fn, k, ea.styp, ea.fKey, ea.fNode})
			}
		}
		an.Instrs(fn, func(in ssa.Instruction) {
			mu, ok := in.(*ssa.MapUpdate)
			if !ok {
				return
			}
			maps = append(maps, mu.Map)
			mk := func(key, val ssa.Value) c26MapWrite { return mkWrite(fn, chain, mu, key, val) }
			// table-driven form: for _, e := range []struct{key; node}{...} { m[e.key] = e.node }: one write per row
			if rk, okK := c25RowRead(mu.Key); okK {
				if rv, okV := c25RowRead(mu.Value); okV && rk.arr == rv.arr && rk.idx == rv.idx {
					rows, okT := c25TableRows(rk.arr)
					if l := c25RowLoop(fn, &rk); okT && l != nil && l.EveryIteration(mu) {
						var ws []c26MapWrite
						for _, row := range rows {
							if row[rk.fld] == nil || row[rv.fld] == nil {
								ws = nil
								break
							}
							ws = append(ws, mk(row[rk.fld], row[rv.fld]))
						}
						if len(ws) > 0 {
							writes = append(writes, ws...)
							return
						}
					}
				}
			}
			writes = append(writes, mk(mu.Key, mu.Value))
		})
		appendedIn[fn] = c26AppendedStrings(fn)
		appended = append(appended, appendedIn[fn]...)
		return maps
	}
	bMaps := collect(builder, []c26Hop{bHop})
	isMapVal := func(v ssa.Value) bool {
		if _, ok := v.Type().Underlying().(*types.Map); !ok {
			return false
		}
		if len(bMaps) == 0 {
			return false // the map is filled entirely by helpers: they are found by their own map writes
		}
		for _, m := range bMaps {
			if c25SameValue(v, m) {
				return true
			}
		}
		return false
	}
	var bFamily []*ssa.Function
	bFamily = append(bFamily, builder)
	for _, hop := range c26Helpers(builder, isMapVal, func(h *ssa.Function) bool {
		// a helper that fills a map itself (the value map is created and filled in a helper)
		found := len(c26EntryAppends(h)) > 0
		an.Instrs(h, func(in ssa.Instruction) {
			if _, ok := in.(*ssa.MapUpdate); ok {
				found = true
			}
		})
		return found
	}) {
		collect(hop.callee, []c26Hop{hop, bHop})
		bFamily = append(bFamily, hop.callee)
	}
	// entry structs: emitted where some family member assigns key and node of one element to the map assembler
	for _, ek := range entryKeys {
		if c26EntryEmitted(bFamily, ek) {
			appended = append(appended, ek.key)
			appendedIn[ek.fn] = append(appendedIn[ek.fn], ek.key)
		}
	}
	written := map[string]c26MapWrite{}
	for _, w := range writes {
		if w.isK {
			written[w.key] = w
		}
	}
	for _, k := range c26SpecKeys {
		w, ok := written[k]
		if !ok {
			c.Bad("O1", "R-TABLE", bname, "writes cbor."+k, builder.Pos(), "the record builder does not write the spec key "+k+": the "+k+" accessor fails on freshly created records")
			continue
		}
		emitted := false
		for _, a := range appended {
			if kk, ok := an.ConstOf(a); ok && kk.Kind() == constant.String && constant.StringVal(kk) == k {
				emitted = true
			}
		}
		c.Check(emitted, "O1", "R-TABLE", bname, "writes cbor."+k, w.at.Pos(), "key "+k+" stored and appended to the emitted key list", "key "+k+" is stored in the value map but never appended to the emitted key list: it is missing from the signed CBOR")
	}
	var extra []string
	for k := range written {
		if _, spec := c26Index(c26SpecKeys, k); !spec {
			extra = append(extra, k)
		}
	}
	sort.Strings(extra)
	c.Check(len(extra) == 0, "O1", "R-TABLE", bname, "no non-spec constant keys", builder.Pos(), "only spec keys are written as constants", "the record builder writes constant keys outside the spec set: "+strings.Join(extra, ","))

	// ---- O1.b reserved table = spec set
	var reserved *ssa.Global
	for _, bf := range bFamily {
		for _, fn := range an.WithClosures(bf) {
			an.Instrs(fn, func(in ssa.Instruction) {
				if lk, ok := in.(*ssa.Lookup); ok && lk.CommaOk {
					if g, ok := c26GlobalOf(lk.X); ok {
						reserved = g
					}
				}
			})
		}
	}
	if reserved == nil {
		// the consultation itself is an O2 obligation; the table is then found by role: the package-level
		// map[string]... consulted (comma-ok) by the methods of Record
		for _, m := range p.Methods(ip, "Record") {
			for _, g := range an.WithClosures(m) {
				an.Instrs(g, func(in ssa.Instruction) {
					if lk, ok := in.(*ssa.Lookup); ok && lk.CommaOk {
						if gl, ok := c26GlobalOf(lk.X); ok {
							reserved = gl
						}
					}
				})
			}
		}
	}
	if c.Need(reserved != nil, "reserved-key table consulted by the record builder") {
		keys, ok := c26GlobalMapKeys(p, reserved)
		if c.Need(ok, "initialiser of "+reserved.Name()) {
			sort.Strings(keys)
			c.Check(strings.Join(keys, ",") == strings.Join(c26SpecKeys, ","), "O1", "R-TABLE", "ipns."+reserved.Name(), "reserved keys = spec keys", reserved.Pos(),
				"reserved table = {"+strings.Join(keys, ",")+"}", "reserved-key table {"+strings.Join(keys, ",")+"} differs from the keys the builder writes {"+strings.Join(c26SpecKeys, ",")+"}: metadata can overwrite a signed field or a legal key is refused")
		}
	}

	// ---- O1.c accessors read their own key with the kind written
	for _, k := range c26SpecKeys {
		m := p.Func(ip, "Record", k)
		if !c.Need(m != nil, "ipns.Record."+k) {
			continue
		}
		reads := c26KeyReads(m, nil, 0)
		var got []string
		kindOK, found := false, false
		for _, r := range reads {
			got = append(got, r.key+":"+strings.Join(r.as, "+"))
			if r.key == k {
				found = true
				if w, ok := written[k]; ok && len(r.as) == 1 && c26CtorReader[w.ctor] == r.as[0] {
					kindOK = true
				}
			}
		}
		sort.Strings(got)
		c.Check(found && kindOK, "O1", "R-TABLE", an.FuncName(m), "reads cbor."+k, m.Pos(), "accessor reads rec.node["+k+"] with the kind written ("+strings.Join(got, " ")+")",
			fmt.Sprintf("accessor %s reads {%s} from rec.node but the builder writes %s with %s: the accessor does not return the input", k, strings.Join(got, " "), k, written[k].ctor))
	}

	// ---- O1.c' integer accessors are the pure inverse cast of what the builder writes: the builder stores
	// NewInt(cast(input)) for the whole input range (uint64 sequence numbers above MaxInt64 become negative
	// CBOR integers), so once the integer is read the accessor must return cast(raw) with a nil error on every path
	for _, k := range c26SpecKeys {
		w, ok := written[k]
		m := p.Func(ip, "Record", k)
		if !ok || w.ctor != "NewInt" || m == nil || len(m.Params) == 0 {
			continue
		}
		// only for keys written as an unclamped cast of a constructor input (the full input range is stored)
		fullRange := true
		broots, _ := c26Sig(w.val)
		if lifted, ok := c26Lift(broots, w.chain); !ok {
			fullRange = false
		} else {
			for _, x := range lifted {
				if _, isCP := x.(*ssa.Parameter); !isCP {
					fullRange = false
				}
			}
		}
		_ = fullRange // (the value part is required of every integer key, clamped on the way in or not)
		if len(broots) == 0 {
			continue
		}
		var raws, errs []ssa.Value
		for _, call := range an.AllCalls(m) {
			cv := an.CallValue(call)
			if cv == nil {
				continue
			}
			isRead := false
			if cv.Call.IsInvoke() && cv.Call.Method.Name() == "AsInt" {
				isRead = true
			} else if sc := cv.Call.StaticCallee(); sc != nil && sc.Signature.Recv() != nil && len(cv.Call.Args) == 2 && an.SameObj(cv.Call.Args[0], m.Params[0]) {
				if kk, ok := an.ConstOf(cv.Call.Args[1]); ok && kk.Kind() == constant.String && constant.StringVal(kk) == k {
					isRead = true
				}
			}
			if isRead && len(an.ErrResult(cv)) > 0 {
				raws = append(raws, an.Result(cv, 0)...)
				errs = append(errs, an.ErrResult(cv)...)
			}
		}
		if len(raws) == 0 {
			continue // reported by O1.c
		}
		okEdges := an.NilEdges(m, errs, true)
		good := true
		at := m.Pos()
		for _, r := range an.Returns(m) {
			if len(r.Results) != 2 || !an.GuardedBy(m, nil, r, okEdges) {
				continue
			}
			if !an.IsNilConst(r.Results[1]) || !c25RootsIn(r.Results[0], raws) {
				good = false
				at = r.Pos()
			}
		}
		c.Check(good, "O1", "R-FLOW", an.FuncName(m), "returns cast(raw "+k+") on every path after the read", at, "accessor is the pure inverse cast of the builder's NewInt(cast(input))",
			"after the integer "+k+" has been read successfully the accessor can still fail or return something other than the converted raw value (range guard, clamp, mask): values the constructor accepts and stores — e.g. sequence numbers above MaxInt64, stored as negative integers — do not come back from the accessor")
	}

	// ---- O1.d values written come from the builder's own parameters; legacy twins agree
	c26Twins(c, ctor, builder, builderCall, written)

	// ---- O1.e embedded public key is the signer's
	if fPK := c25PBField(p, "PubKey"); c.Need(fPK != nil, "pb.IpnsRecord.PubKey") && len(ctor.Params) > 0 {
		sk := ctor.Params[0]
		for _, st := range an.FieldStores(ctor, fPK) {
			good := false
			if mc, ok := c25RootCall(st.Val, an.M("github.com/libp2p/go-libp2p/core/crypto", "", "MarshalPublicKey")); ok {
				if gp, ok := c25RootCall(mc.Call.Args[0], an.M("", "", "GetPublic")); ok && gp.Call.IsInvoke() && c25RootsIn(gp.Call.Value, []ssa.Value{sk}) {
					good = true
				}
			}
			c.Check(good, "O1", "R-FLOW", an.FuncName(ctor), "pb.PubKey=Marshal(sk.GetPublic())", st.Pos(), "embedded key is the signer's public key", "the embedded public key is not MarshalPublicKey(sk.GetPublic()) of the signing key: the record does not validate against its name")
		}
		for _, call := range an.Calls(ctor, an.M("", "", "Sign")) {
			if call.Common().IsInvoke() {
				c.Check(c25RootsIn(call.Common().Value, []ssa.Value{sk}), "O1", "R-FLOW", an.FuncName(ctor), "Sign by sk", call.Pos(), "signed with the key parameter", "the record is signed with a key other than the constructor's key parameter")
			}
		}
	}

	// ---- O1.e' the embed decision: without an explicit option the key is embedded exactly when it cannot be
	// extracted from the peer ID of the signer (otherwise RSA/ECDSA records do not validate against their name)
	if fPK := c25PBField(p, "PubKey"); fPK != nil && len(ctor.Params) > 0 {
		sk := ctor.Params[0]
		for _, st := range an.FieldStores(ctor, fPK) {
			// the store is guarded by the true edge of a bool whose roots are the decision helper's result / the option
			var decide *ssa.Call
			guardOK := false
			for _, b := range ctor.Blocks {
				ifi, ok := b.Instrs[len(b.Instrs)-1].(*ssa.If)
				if !ok {
					continue
				}
				okRoots := true
				var dc *ssa.Call
				// resolve the condition through package-local helpers: every alternative is the need-to-embed
				// helper applied to sk.GetPublic(), the explicit option (pointer dereferenced), or a bool constant
				ipFns := p.PkgFuncs(ip)
				isSk := func(fn *ssa.Function, v ssa.Value) bool {
					if c25RootsIn(v, []ssa.Value{sk}) {
						return true
					}
					return c28DeepAll(ipFns, fn, v, func(l c28DV) bool {
						prm, ok := l.v.(*ssa.Parameter)
						return ok && (prm == sk || types.Identical(prm.Type(), sk.Type()))
					})
				}
				isOption := func(fn *ssa.Function, v ssa.Value) bool {
					return c28DeepAll(ipFns, fn, v, func(l c28DV) bool {
						f, _ := c28FieldRead(l.v)
						if f == nil {
							return false
						}
						// the explicit embed option: a *bool field of the (unexported) options struct
						pt, ok := f.Type().Underlying().(*types.Pointer)
						if !ok {
							return false
						}
						b, ok := pt.Elem().Underlying().(*types.Basic)
						return ok && b.Kind() == types.Bool
					})
				}
				var resolve func(fn *ssa.Function, v ssa.Value, depth int)
				resolve = func(fn *ssa.Function, v ssa.Value, depth int) {
					for _, r := range an.Roots(v, nil) {
						call, isCall := r.(*ssa.Call)
						ridx := 0
						if ex, isEx := r.(*ssa.Extract); isEx {
							if cc, ok := ex.Tuple.(*ssa.Call); ok {
								call, isCall, ridx = cc, true, ex.Index
							}
						}
						if isCall && c25InPkgHelper(fn, call.Call.StaticCallee()) {
							h := call.Call.StaticCallee()
							if len(call.Call.Args) == 1 {
								if gp, ok := c25RootCall(call.Call.Args[0], an.M("", "", "GetPublic")); ok && gp.Call.IsInvoke() && isSk(fn, gp.Call.Value) {
									dc = call
									continue
								}
							}
							if depth < 2 {
								n := 0
								for _, hr := range an.Returns(h) {
									if ridx < len(hr.Results) {
										n++
										resolve(h, hr.Results[ridx], depth+1)
									}
								}
								if n > 0 {
									continue
								}
							}
						}
						if u, ok := r.(*ssa.UnOp); ok && u.Op == token.MUL && isOption(fn, u.X) {
							continue
						}
						if isOption(fn, r) {
							continue
						}
						if k, ok := r.(*ssa.Const); ok && k.Value != nil && k.Value.Kind() == constant.Bool {
							continue
						}
						okRoots = false
					}
				}
				resolve(ctor, ifi.Cond, 0)
				if okRoots && dc != nil && an.GuardedBy(ctor, nil, st, an.EdgeSet{an.Edge{From: b, Succ: 0}: true}) {
					guardOK, decide = true, dc
				}
			}
			c.Check(guardOK, "O1", "R-DOM", an.FuncName(ctor), "PubKey embedded on the decision's true edge", st.Pos(), "public key embedded only where the option or the need-to-embed helper says so",
				"the public key is embedded without the true edge of the embed decision (explicit option or the need-to-embed helper on sk.GetPublic())")
			if decide == nil || decide.Call.StaticCallee() == nil {
				continue
			}
			df := decide.Call.StaticCallee()
			var exErrs []ssa.Value
			for _, call := range an.Calls(df, an.M(c25Peer, "ID", "ExtractPublicKey")) {
				if idc, ok := c25RootCall(an.Recv(call), an.M(c25Peer, "", "IDFromPublicKey")); ok && len(df.Params) == 1 && c25RootsIn(idc.Call.Args[0], []ssa.Value{df.Params[0]}) {
					exErrs = append(exErrs, an.ErrResult(call)...)
				}
			}
			good := len(exErrs) > 0
			for _, r := range an.Returns(df) {
				if len(r.Results) != 2 || !an.IsNilConst(r.Results[1]) {
					continue
				}
				k, ok := an.ConstOf(r.Results[0])
				if !ok || k.Kind() != constant.Bool {
					good = false
					continue
				}
				if constant.BoolVal(k) {
					good = good && an.GuardedBy(df, nil, r, an.NilEdges(df, exErrs, false))
				} else {
					good = good && an.GuardedBy(df, nil, r, an.NilEdges(df, exErrs, true))
				}
			}
			c.Check(good, "O1", "R-DOM", an.FuncName(df), "embed iff key not extractable from the peer ID", df.Pos(), "true only where IDFromPublicKey(pk).ExtractPublicKey() failed, false only where it succeeded",
				"the need-to-embed decision is not 'true exactly where the key cannot be extracted from its own peer ID': records for RSA/ECDSA keys are created without the public key and do not validate against their name (or small keys are embedded needlessly)")
		}
	}

	// ---- O1.e'' the exported constructor forwards its inputs: value as []byte(value.String()), the rest unchanged
	if nrf := p.Func(ip, "", "NewRecord"); nrf != nil && nrf != ctor {
		good, n := true, 0
		for _, call := range an.Calls(nrf, an.M(ip, "-", ctor.Name())) {
			n++
			a := call.Common().Args
			if len(a) != len(nrf.Params) {
				good = false
				continue
			}
			for i, prm := range nrf.Params {
				if an.TypeIs(prm.Type(), "path", "Path") {
					sc, ok := c25RootCall(a[i], an.M("", "", "String"))
					if !ok || !c25RootsIn(an.Recv(sc), []ssa.Value{prm}) {
						good = false
					}
				} else if !c25RootsIn(a[i], []ssa.Value{prm}) {
					good = false
				}
			}
		}
		c.Check(good && n > 0, "O1", "R-FLOW", an.FuncName(nrf), "NewRecord forwards its inputs", nrf.Pos(), "value passed as []byte(value.String()), all other inputs unchanged and in position",
			"NewRecord does not hand its own inputs (value.String() bytes, seq, eol, ttl, options) unchanged to the record constructor")
	}

	// ---- O5 creator and extractor relate key and name through the same derivation
	c26KeyNameSiblings(c, ctor)

	// ---- O1.f one time layout for format and parse
	c26Layout(c)

	// ---- O2 metadata admission
	c26Metadata(c, builder, writes, appendedIn, reserved)

	// ---- O2' readers filter like the builder admits: an entry is delivered only for keys absent from the reserved table
	if reserved != nil {
		c26MetadataReaders(c, reserved)
	}

	// ---- O3 decoding
	c26Unmarshal(c, fPB)
}

// c26KeyNameSiblings: the record constructor decides whether to embed the signer's key from the libp2p peer ID of
// that key (peer.IDFromPublicKey), and IPNS names are such peer IDs. The extractor of the validation side must relate
// an embedded key to the name through the same library derivation (peer.IDFromPublicKey / ID.MatchesPublicKey), never
// through a peer ID computed locally (hashing or converting bytes): the two derivations differ for some key type
// (identity-inlined small keys) and records the constructor produces then fail validation against their own name.
func c26KeyNameSiblings(c *an.Ctx, ctor *ssa.Function) {
	p := c.P
	const ip = "ipns"
	isID := func(t types.Type) bool { return an.TypeIs(t, c25Peer, "ID") && !c26IsPtr(t) }
	type side struct {
		what string
		fns  []*ssa.Function
	}
	family := func(root *ssa.Function) []*ssa.Function {
		// the function and the unexported package-local helpers it reaches (three levels)
		out := []*ssa.Function{root}
		seen := map[*ssa.Function]bool{root: true}
		frontier := []*ssa.Function{root}
		for depth := 0; depth < 3 && len(frontier) > 0; depth++ {
			var next []*ssa.Function
			for _, f := range frontier {
				for _, g := range an.WithClosures(f) {
					for _, call := range an.AllCalls(g) {
						h := call.Common().StaticCallee()
						if h != nil && !seen[h] && c25InPkgHelper(root, h) {
							seen[h] = true
							out = append(out, h)
							next = append(next, h)
						}
					}
				}
			}
			frontier = next
		}
		return out
	}
	ex := p.Func(ip, "", "ExtractPublicKey")
	if !c.Need(ex != nil, "ipns.ExtractPublicKey") {
		return
	}
	sides := []side{{"creator", family(ctor)}, {"extractor", family(ex)}}
	derivedOn := map[string]int{}
	for _, sd := range sides {
		for _, fn := range sd.fns {
			// uses of a peer ID as the key's identity
			type use struct {
				v    ssa.Value
				at   ssa.Instruction
				kind string
			}
			var uses []use
			for _, g := range an.WithClosures(fn) {
				an.Instrs(g, func(in ssa.Instruction) {
					switch x := in.(type) {
					case ssa.CallInstruction:
						cm := x.Common()
						ci := an.Callee(x)
						if ci.Pkg == c25Peer && ci.Recv == "ID" && (ci.Name == "ExtractPublicKey" || ci.Name == "MatchesPublicKey") && len(cm.Args) > 0 {
							uses = append(uses, use{cm.Args[0], in, ci.Name})
						}
						if ci.Pkg == an.Mod+"/ipns" && ci.Name == "NameFromPeer" && len(cm.Args) == 1 {
							uses = append(uses, use{cm.Args[0], in, "NameFromPeer"})
						}
					case *ssa.BinOp:
						if (x.Op == token.EQL || x.Op == token.NEQ) && isID(x.X.Type()) && isID(x.Y.Type()) {
							uses = append(uses, use{x.X, in, "=="}, use{x.Y, in, "=="})
						}
					}
				})
			}
			if len(uses) == 0 {
				continue
			}
			var foreign []string
			at := fn.Pos()
			for _, u := range uses {
				roots := an.Roots(u.v, &an.FlowOpts{StopAt: func(v ssa.Value) bool {
					switch y := v.(type) {
					case *ssa.Convert:
						return !isID(y.X.Type())
					case *ssa.ChangeType:
						return !isID(y.X.Type())
					}
					return false
				}})
				for _, r := range roots {
					call, _ := r.(*ssa.Call)
					if exr, isEx := r.(*ssa.Extract); isEx {
						call, _ = exr.Tuple.(*ssa.Call)
					}
					if call != nil {
						ci := an.Callee(call)
						switch {
						case ci.Pkg == c25Peer && (ci.Name == "IDFromPublicKey" || ci.Name == "IDFromPrivateKey"):
							derivedOn[sd.what]++
							continue
						case ci.Pkg == an.Mod+"/ipns" && ci.Recv == "Name" && ci.Name == "Peer":
							if u.kind == "MatchesPublicKey" {
								derivedOn[sd.what]++ // name.Peer().MatchesPublicKey(key): the library derivation applied to the key
							}
							continue
						}
					}
					switch y := r.(type) {
					case *ssa.Parameter, *ssa.Const, *ssa.FreeVar:
						continue
					case *ssa.UnOp:
						if y.Op == token.MUL {
							continue // a stored ID
						}
					}
					foreign = append(foreign, c25Desc(r))
					at = u.at.Pos()
				}
			}
			sort.Strings(foreign)
			c.Check(len(foreign) == 0, "O5", "R-SIB", an.FuncName(fn), "peer IDs of keys come from the libp2p derivation", at,
				"every peer ID related to a key or name on the "+sd.what+" side is peer.IDFromPublicKey/IDFromPrivateKey of the key, the name's own ID, or an input",
				"the "+sd.what+" side relates a key to a name through a peer ID computed locally ("+strings.Join(foreign, ", ")+") instead of the libp2p derivation (peer.IDFromPublicKey / ID.MatchesPublicKey) the other side uses: the two disagree for key types whose ID inlines the key (Ed25519, Secp256k1), so records the constructor creates with an embedded key are rejected for their own name")
		}
	}
	c.Check(derivedOn["creator"] > 0, "O5", "R-SIB", an.FuncName(ctor), "embed decision uses the libp2p key->ID derivation", ctor.Pos(), "the constructor side derives the signer's peer ID with peer.IDFromPublicKey",
		"the constructor side never derives the signer's peer ID with peer.IDFromPublicKey: whether the key must be embedded is decided by a rule the extractor does not share")
	c.Check(derivedOn["extractor"] > 0, "O5", "R-SIB", an.FuncName(ex), "embedded key related to the name by the creator's derivation", ex.Pos(), "the extractor derives the embedded key's peer ID with peer.IDFromPublicKey / MatchesPublicKey",
		"ExtractPublicKey never relates the embedded key to the name through peer.IDFromPublicKey / ID.MatchesPublicKey, the derivation the constructor's embed decision (and every name) is based on")
}

// c26MetadataReaders: every exported method of Record (and its closures) that consults the reserved table hands out a
// metadata entry — a successful return carrying a value, a `true`, or a call of the caller's yield function — only on
// the edge where the key was NOT found in the table; the builder admits exactly those keys.
func c26MetadataReaders(c *an.Ctx, reserved *ssa.Global) {
	p := c.P
	n := 0
	for _, m := range p.Methods("ipns", "Record") {
		if o := m.Object(); o == nil || !o.Exported() {
			continue
		}
		for _, g := range an.WithClosures(m) {
			var oks []ssa.Value
			an.Instrs(g, func(in ssa.Instruction) {
				if lk, ok := in.(*ssa.Lookup); ok && lk.CommaOk {
					if gl, ok := c26GlobalOf(lk.X); ok && gl == reserved {
						for _, r := range *lk.Referrers() {
							if e, ok := r.(*ssa.Extract); ok && e.Index == 1 {
								oks = append(oks, e)
							}
						}
					}
				}
			})
			if len(oks) == 0 {
				continue
			}
			notRes := an.BoolEdges(g, oks, false)
			good := true
			at := g.Pos()
			nSites := 0
			for _, r := range an.Returns(g) {
				if len(r.Results) == 0 {
					continue
				}
				last := r.Results[len(r.Results)-1]
				deliver := false
				switch {
				case len(r.Results) >= 2 && an.IsErrorType(last.Type()):
					deliver = an.IsNilConst(last) // success carrying a value
				case len(r.Results) == 1:
					if k, isK := an.ConstOf(r.Results[0]); isK && k.Kind() == constant.Bool {
						deliver = constant.BoolVal(k)
					} else if bt, isB := r.Results[0].Type().Underlying().(*types.Basic); isB && bt.Kind() == types.Bool {
						deliver = true // a computed answer (may be true)
					}
				}
				if deliver {
					nSites++
					if !an.GuardedBy(g, nil, r, notRes) {
						good, at = false, r.Pos()
					}
				}
			}
			for _, call := range an.AllCalls(g) {
				// a call of a function value that is a parameter or captured variable: the caller's yield
				cm := call.Common()
				if cm.IsInvoke() || cm.StaticCallee() != nil {
					continue
				}
				switch cm.Value.(type) {
				case *ssa.Parameter, *ssa.FreeVar:
					nSites++
					if !an.GuardedBy(g, nil, call, notRes) {
						good, at = false, call.Pos()
					}
				}
			}
			if nSites == 0 {
				continue
			}
			n++
			c.Check(good, "O2", "R-SIB", an.FuncName(g), "metadata delivered only for keys outside the reserved table", at, "entries are handed out only on the not-reserved edge of the table lookup",
				"a metadata reader hands out an entry (or answers true) on an edge where the key is not known to be absent from the reserved table — the filter is missing or inverted: metadata stored at creation cannot be read back (or signed IPNS fields are exposed as metadata)")
		}
	}
	c.Min("O2 metadata readers consulting the reserved table", n, 1)
}

// c26IntSize: byte size of an integer type (0 for others; int/uint counted as 8).
func c26IntSize(t types.Type) int {
	b, ok := t.Underlying().(*types.Basic)
	if !ok {
		return 0
	}
	switch b.Kind() {
	case types.Int8, types.Uint8:
		return 1
	case types.Int16, types.Uint16:
		return 2
	case types.Int32, types.Uint32:
		return 4
	case types.Int, types.Uint, types.Int64, types.Uint64, types.Uintptr:
		return 8
	}
	return 0
}

func c26IsPtr(t types.Type) bool { _, ok := t.Underlying().(*types.Pointer); return ok }

func c26Index(xs []string, x string) (int, bool) {
	for i, y := range xs {
		if x == y {
			return i, true
		}
	}
	return -1, false
}

// c26AppendedStrings: the string values appended (one at a time, variadic
// form) to any []string in fn.
// c26EntryAppend: append(entries, E1, E2, ...) of structs carrying a string key and an IPLD node.
type c26EntryAppend struct {
	call        *ssa.Call
	styp        *types.Struct
	fKey, fNode int
	rows        []map[int]ssa.Value
}

type c26EntryKey struct {
	fn          *ssa.Function
	key         ssa.Value
	styp        *types.Struct
	fKey, fNode int
}

// c26EntryShape: a struct with exactly one string field and exactly one datamodel.Node field.
func c26EntryShape(t types.Type) (st *types.Struct, fKey, fNode int, ok bool) {
	st, ok = t.Underlying().(*types.Struct)
	if !ok {
		return nil, 0, 0, false
	}
	fKey, fNode = -1, -1
	for i := 0; i < st.NumFields(); i++ {
		ft := st.Field(i).Type()
		if b, isB := ft.Underlying().(*types.Basic); isB && b.Kind() == types.String {
			if fKey >= 0 {
				return nil, 0, 0, false
			}
			fKey = i
		}
		if an.TypeIs(ft, "github.com/ipld/go-ipld-prime/datamodel", "Node") {
			if fNode >= 0 {
				return nil, 0, 0, false
			}
			fNode = i
		}
	}
	return st, fKey, fNode, fKey >= 0 && fNode >= 0
}

func c26EntryAppends(fn *ssa.Function) []c26EntryAppend {
	var out []c26EntryAppend
	for _, call := range an.Calls(fn, an.M("builtin", "", "append")) {
		cv := an.CallValue(call)
		if cv == nil || len(cv.Call.Args) != 2 {
			continue
		}
		sl, ok := cv.Call.Args[1].(*ssa.Slice)
		if !ok {
			continue
		}
		arr, ok := sl.X.(*ssa.Alloc)
		if !ok {
			continue
		}
		pt, ok := arr.Type().Underlying().(*types.Pointer)
		if !ok {
			continue
		}
		at, ok := pt.Elem().Underlying().(*types.Array)
		if !ok {
			continue
		}
		st, fk, fn2, ok := c26EntryShape(at.Elem())
		if !ok {
			continue
		}
		rows, ok := c25TableRowsOpt(arr, true)
		if !ok {
			continue
		}
		out = append(out, c26EntryAppend{cv, st, fk, fn2, rows})
	}
	return out
}

// c26EntryEmitted: a family member hands field fKey of an element of the entry type to AssignString and field fNode
// of the same element to AssignNode (the map assembler is fed from the pair).
func c26EntryEmitted(family []*ssa.Function, ek c26EntryKey) bool {
	base := func(v ssa.Value, fld int) (ssa.Value, bool) {
		for {
			switch x := v.(type) {
			case *ssa.ChangeInterface:
				v = x.X
				continue
			case *ssa.ChangeType:
				v = x.X
				continue
			}
			break
		}
		switch x := v.(type) {
		case *ssa.Field:
			if x.Field == fld && types.Identical(x.X.Type().Underlying(), ek.styp) {
				return x.X, true
			}
		case *ssa.UnOp:
			if fa, ok := x.X.(*ssa.FieldAddr); ok && x.Op == token.MUL && fa.Field == fld {
				if pt, ok := fa.X.Type().Underlying().(*types.Pointer); ok && types.Identical(pt.Elem().Underlying(), ek.styp) {
					return fa.X, true
				}
			}
		}
		return nil, false
	}
	for _, f := range family {
		for _, g := range an.WithClosures(f) {
			var keyBases, nodeBases []ssa.Value
			for _, call := range an.AllCalls(g) {
				cm := call.Common()
				if !cm.IsInvoke() || len(cm.Args) != 1 {
					continue
				}
				switch cm.Method.Name() {
				case "AssignString":
					if b, ok := base(cm.Args[0], ek.fKey); ok {
						keyBases = append(keyBases, b)
					}
				case "AssignNode":
					if b, ok := base(cm.Args[0], ek.fNode); ok {
						nodeBases = append(nodeBases, b)
					}
				}
			}
			for _, kb := range keyBases {
				for _, nb := range nodeBases {
					if kb == nb {
						return true
					}
				}
			}
		}
	}
	return false
}

func c26AppendedStrings(fn *ssa.Function) []ssa.Value {
	var out []ssa.Value
	for _, call := range an.Calls(fn, an.M("builtin", "", "append")) {
		args := call.Common().Args
		if len(args) != 2 {
			continue
		}
		sl, ok := args[1].(*ssa.Slice)
		if !ok {
			continue
		}
		arr, ok := sl.X.(*ssa.Alloc)
		if !ok || arr.Referrers() == nil {
			continue
		}
		for _, r := range *arr.Referrers() {
			ia, ok := r.(*ssa.IndexAddr)
			if !ok || ia.Referrers() == nil {
				continue
			}
			for _, rr := range *ia.Referrers() {
				if st, ok := rr.(*ssa.Store); ok && st.Addr == ia {
					out = append(out, st.Val)
					// appended from the rows of a local literal table: every row's value
					if rd, isRow := c25RowRead(st.Val); isRow {
						if rows, okT := c25TableRows(rd.arr); okT && c25RowLoop(fn, &rd) != nil {
							for _, row := range rows {
								if row[rd.fld] != nil {
									out = append(out, row[rd.fld])
								}
							}
						}
					}
				}
			}
		}
	}
	return out
}

func c26GlobalOf(v ssa.Value) (*ssa.Global, bool) {
	u, ok := v.(*ssa.UnOp)
	if !ok || u.Op != token.MUL {
		return nil, false
	}
	g, ok := u.X.(*ssa.Global)
	return g, ok
}

// c26GlobalMapKeys: constant keys of the map literal a package-level variable
// is initialised with (package initialiser in SSA).
func c26GlobalMapKeys(p *an.Prog, g *ssa.Global) ([]string, bool) {
	init := g.Pkg.Func("init")
	if init == nil {
		return nil, false
	}
	var keys []string
	found := false
	an.Instrs(init, func(in ssa.Instruction) {
		st, ok := in.(*ssa.Store)
		if !ok || st.Addr != g {
			return
		}
		mm, ok := st.Val.(*ssa.MakeMap)
		if !ok || mm.Referrers() == nil {
			return
		}
		found = true
		for _, r := range *mm.Referrers() {
			if mu, ok := r.(*ssa.MapUpdate); ok && mu.Map == mm {
				if k, ok := an.ConstOf(mu.Key); ok && k.Kind() == constant.String {
					keys = append(keys, constant.StringVal(k))
				} else {
					found = false
				}
			}
		}
	})
	// any other store to the table anywhere in the package makes it undecidable
	for _, f := range p.Funcs {
		if f == init {
			continue
		}
		an.Instrs(f, func(in ssa.Instruction) {
			if st, ok := in.(*ssa.Store); ok && st.Addr == g {
				found = false
			}
			if mu, ok := in.(*ssa.MapUpdate); ok {
				if gg, ok := c26GlobalOf(mu.Map); ok && gg == g {
					found = false
				}
			}
		})
	}
	return keys, found
}

type c26Read struct {
	key string
	as  []string
}

// c26KeyReads: (key, As-methods) pairs that f reads from <recv>.node, following
// static calls to methods of the same receiver with constant / forwarded keys.
func c26KeyReads(f *ssa.Function, bind map[*ssa.Parameter]string, depth int) []c26Read {
	var out []c26Read
	if f == nil || depth > 3 || len(f.Params) == 0 {
		return nil
	}
	recv := f.Params[0]
	keyOf := func(v ssa.Value) (string, bool) {
		if k, ok := an.ConstOf(v); ok && k.Kind() == constant.String {
			return constant.StringVal(k), true
		}
		if pr, ok := v.(*ssa.Parameter); ok {
			s, ok := bind[pr]
			return s, ok
		}
		return "", false
	}
	for _, call := range an.AllCalls(f) {
		cv := an.CallValue(call)
		if cv == nil {
			continue
		}
		cc := cv.Common()
		if cc.IsInvoke() && cc.Method.Name() == "LookupByString" {
			if an.PathOf(cc.Value) != "p:"+recv.Name()+"."+c25NodeName {
				continue
			}
			k, ok := keyOf(cc.Args[0])
			if !ok {
				continue
			}
			rd := c26Read{key: k}
			for _, nv := range an.Result(cv, 0) {
				for _, u := range an.Uses(nv) {
					if uc, ok := u.(*ssa.Call); ok && uc.Call.IsInvoke() && strings.HasPrefix(uc.Call.Method.Name(), "As") && c25RootsIn(uc.Call.Value, []ssa.Value{nv}) {
						rd.as = append(rd.as, uc.Call.Method.Name())
					}
				}
			}
			sort.Strings(rd.as)
			out = append(out, rd)
			continue
		}
		sc := cc.StaticCallee()
		if sc == nil || sc.Signature.Recv() == nil || len(cc.Args) == 0 || !an.SameObj(cc.Args[0], recv) || len(sc.Params) != len(cc.Args) {
			continue
		}
		nb := map[*ssa.Parameter]string{}
		for i, a := range cc.Args {
			if s, ok := keyOf(a); ok {
				nb[sc.Params[i]] = s
			}
		}
		out = append(out, c26KeyReads(sc, nb, depth+1)...)
	}
	return out
}

// c26Sig: provenance of v through identity wrappers; transformers that change
// the representation are recorded by name.
func c26Sig(v ssa.Value) (roots []ssa.Value, xf []string) {
	seenX := map[string]bool{}
	opts := &an.FlowOpts{Through: func(call *ssa.Call) ([]ssa.Value, bool) {
		ci := an.Callee(call)
		switch {
		case ci.Pkg == c26Basic && strings.HasPrefix(ci.Name, "New") && len(call.Call.Args) == 1:
			return call.Call.Args[:1], true
		case ci.Pkg == "google.golang.org/protobuf/proto" && (ci.Name == "Uint64" || ci.Name == "Int64") && len(call.Call.Args) == 1:
			return call.Call.Args[:1], true
		case ci.Pkg == "time" && ci.Recv == "Duration" && ci.Name == "Nanoseconds":
			return call.Call.Args[:1], true
		case ci.Pkg == an.Mod+"/util" && ci.Name == "FormatRFC3339":
			seenX[ci.Name] = true
			return call.Call.Args[:1], true
		}
		return nil, false
	}}
	var walk func(v ssa.Value, d int)
	walk = func(v ssa.Value, d int) {
		for _, r := range an.Roots(v, opts) {
			// pointer to a local cell (proto optional fields): the pointee's values
			if al, ok := r.(*ssa.Alloc); ok && d < 4 && al.Referrers() != nil {
				n := 0
				for _, ref := range *al.Referrers() {
					if st, ok := ref.(*ssa.Store); ok && st.Addr == al {
						n++
						walk(st.Val, d+1)
					}
				}
				if n > 0 {
					continue
				}
			}
			roots = append(roots, r)
		}
	}
	walk(v, 0)
	for x := range seenX {
		xf = append(xf, x)
	}
	sort.Strings(xf)
	return
}

func c26RootKey(v ssa.Value) string {
	if k, ok := v.(*ssa.Const); ok {
		if k.Value == nil {
			return "const:nil"
		}
		return "const:" + k.Value.ExactString()
	}
	return fmt.Sprintf("%p", v)
}

func c26Descs(vs []ssa.Value) string {
	var out []string
	for _, v := range vs {
		out = append(out, c25Desc(v))
	}
	return "{" + strings.Join(out, ", ") + "}"
}

func c26RootSet(vs []ssa.Value) string {
	var ks []string
	seen := map[string]bool{}
	for _, v := range vs {
		k := c26RootKey(v)
		if !seen[k] {
			seen[k] = true
			ks = append(ks, k)
		}
	}
	sort.Strings(ks)
	return strings.Join(ks, "|")
}

// c26Twins: each spec key's value derives from a parameter of the builder (or a
// constant); the legacy protobuf field written by the constructor derives from
// the same constructor-level value through the same transformers.
func c26Twins(c *an.Ctx, ctor, builder *ssa.Function, bcall *ssa.Call, written map[string]c26MapWrite) {
	p := c.P
	cname := an.FuncName(ctor)
	var gs []string
	for g := range c25Legacy {
		gs = append(gs, g)
	}
	sort.Strings(gs)
	// functions that may write the legacy fields: the constructor and helpers it hands its protobuf to
	type pbWriter struct {
		fn    *ssa.Function
		chain []c26Hop
	}
	pbWriters := []pbWriter{{ctor, nil}}
	for _, hop := range c26Helpers(ctor, func(v ssa.Value) bool { return an.TypeIs(v.Type(), c25PB, "IpnsRecord") }, nil) {
		pbWriters = append(pbWriters, pbWriter{hop.callee, []c26Hop{hop}})
	}
	for _, g := range gs {
		key := c25Legacy[g]
		w, ok := written[key]
		if !ok {
			continue // reported by O1.a
		}
		broots, bxf := c26Sig(w.val)
		// lift to the constructor
		lifted, liftOK := c26Lift(broots, w.chain)
		// NewRecord's inputs have pairwise distinct types, so the type identifies the input
		wantT := map[string]string{"Value": "[]byte", "Validity": "time.Time", "Sequence": "uint64", "TTL": "time.Duration"}[key]
		var descs []string
		typeOK := true
		for _, r := range lifted {
			descs = append(descs, c25Desc(r)+" "+r.Type().String())
			if _, isK := r.(*ssa.Const); wantT != "" && (isK || r.Type().String() != wantT) {
				typeOK = false
			}
			if _, isK := r.(*ssa.Const); wantT == "" && !isK {
				typeOK = false
			}
		}
		c.Check(liftOK && len(lifted) > 0 && typeOK, "O1", "R-FLOW", an.FuncName(builder), "cbor."+key+" from parameter", w.at.Pos(),
			"value of "+key+" derives from the constructor input of type "+wantT+" ("+strings.Join(descs, ", ")+")", "the CBOR value of "+key+" derives from {"+strings.Join(descs, ", ")+"}, not (only) from the constructor's "+wantT+" input: the "+key+" accessor does not return the caller's input")
		if !liftOK {
			continue
		}
		fld := c25PBField(p, g)
		if fld == nil {
			c.Problem("unresolved anchor: pb.IpnsRecord.%s", g)
			continue
		}
		nSt := 0
		for _, pw := range pbWriters {
			for _, st := range an.FieldStores(pw.fn, fld) {
				nSt++
				lroots0, lxf := c26Sig(st.Val)
				lroots, okL := c26Lift(lroots0, pw.chain)
				same := okL && c26RootSet(lroots) == c26RootSet(lifted) && strings.Join(lxf, ",") == strings.Join(bxf, ",")
				c.Check(same, "O1", "R-FLOW", an.FuncName(pw.fn), "pb."+g+"~cbor."+key, st.Pos(), "legacy "+g+" and CBOR "+key+" derive from the same input through the same transformers ["+strings.Join(bxf, ",")+"]",
					fmt.Sprintf("legacy field %s and CBOR key %s are built from different inputs or transformers (legacy from "+c26Descs(lroots)+" via [%s], CBOR from "+c26Descs(lifted)+" via [%s]): a freshly created v1-compatible record fails the CBOR/protobuf match or reports other values than given", g, key, strings.Join(lxf, ","), strings.Join(bxf, ",")))
			}
		}
		if nSt == 0 {
			c.Bad("O1", "R-TABLE", cname, "pb."+g+"~cbor."+key, ctor.Pos(), "the constructor never writes the legacy field "+g+" although the validator compares it with CBOR "+key+" for v1-compatible records")
		}
	}
}

// c26Layout: util.FormatRFC3339 and util.ParseRFC3339 (used to write / read the
// expiry) use one layout, and that layout is time.RFC3339Nano.
func c26Layout(c *an.Ctx) {
	p := c.P
	ff, pf := p.Func("util", "", "FormatRFC3339"), p.Func("util", "", "ParseRFC3339")
	if !c.Need(ff != nil && pf != nil, "util.FormatRFC3339 / util.ParseRFC3339") {
		return
	}
	// the expiry accessor parses with pf, the builder formats with ff
	usesParse := false
	if v := p.Func("ipns", "Record", "Validity"); v != nil {
		usesParse = len(an.CallsDeep(v, an.M("util", "", "ParseRFC3339"))) > 0
	}
	c.Check(usesParse, "O1", "R-API", "ipns.Record.Validity", "parses with util.ParseRFC3339", pf.Pos(), "expiry parsed with the inverse of the formatter used at creation", "Record.Validity no longer parses with util.ParseRFC3339 (inverse of FormatRFC3339 used at creation)")
	layout := func(f *ssa.Function, m an.Matcher, idx int) (string, string, bool) {
		calls := an.Calls(f, m)
		if len(calls) != 1 {
			return "", "", false
		}
		a := an.Args(calls[0])[idx]
		if k, ok := an.ConstOf(a); ok && k.Kind() == constant.String {
			return "const", constant.StringVal(k), true
		}
		if g, ok := c26GlobalOf(a); ok {
			// value stored by the package initialiser
			var val string
			n := 0
			for _, fn := range p.Funcs {
				an.Instrs(fn, func(in ssa.Instruction) {
					if st, ok := in.(*ssa.Store); ok && st.Addr == g {
						n++
						if k, ok := an.ConstOf(st.Val); ok && k.Kind() == constant.String {
							val = constant.StringVal(k)
						}
					}
				})
			}
			if n == 1 && val != "" {
				return g.Name(), val, true
			}
		}
		return "", "", false
	}
	fn1, fv, ok1 := layout(ff, an.M("time", "Time", "Format"), 0)
	pn1, pv, ok2 := layout(pf, an.M("time", "", "Parse"), 0)
	if !ok1 || !ok2 {
		c.Problem("undecided: time layout of util.FormatRFC3339/ParseRFC3339 is not a constant or a once-initialised package variable")
		return
	}
	_ = fn1
	_ = pn1
	nano := ""
	for _, imp := range p.Pkg("util").Types.Imports() {
		if imp.Path() == "time" {
			if k, ok := imp.Scope().Lookup("RFC3339Nano").(*types.Const); ok {
				nano = constant.StringVal(k.Val())
			}
		}
	}
	c.Check(fv == pv, "O1", "R-TABLE", "util.FormatRFC3339", "format layout = parse layout", ff.Pos(), "one layout for Format and Parse", fmt.Sprintf("FormatRFC3339 uses layout %q but ParseRFC3339 uses %q: the expiry does not round-trip", fv, pv))
	c.Check(nano != "" && fv == nano, "O1", "R-CONST", "util.FormatRFC3339", "layout = time.RFC3339Nano", ff.Pos(), "nanosecond layout", fmt.Sprintf("expiry is formatted with layout %q, not time.RFC3339Nano: sub-second precision of the expiry is lost", fv))
}

// c26Metadata: admission of metadata entries and kind table agreement.
func c26Metadata(c *an.Ctx, builder0 *ssa.Function, writes []c26MapWrite, appendedIn map[*ssa.Function][]ssa.Value, reserved *ssa.Global) {
	p := c.P
	const ip = "ipns"
	n := 0
	var conv *ssa.Function
	for _, w := range writes {
		if w.isK {
			continue
		}
		n++
		builder := w.fn
		bname := an.FuncName(builder)
		appended := appendedIn[builder]
		key := w.keyV
		isKey := func(v ssa.Value) bool { return c25SameValue(v, key) }
		nonEmpty := c25RelEdges(builder, isKey, func(v ssa.Value) bool {
			k, ok := an.ConstOf(v)
			return ok && k.Kind() == constant.String && constant.StringVal(k) == ""
		}, c25NE, 0)
		// also len(key) > 0
		nonEmpty = nonEmpty.Union(c25RelEdges(builder, func(v ssa.Value) bool {
			b, ok := c25RootBuiltin(v, "len")
			return ok && isKey(b.Call.Args[0])
		}, c25IsInt(0), c25GT, c25LT))
		c.Check(len(nonEmpty) > 0 && an.GuardedBy(builder, nil, w.at, nonEmpty), "O2", "R-DOM", bname, "metadata key != \"\"", w.at.Pos(), "metadata stored only where key != \"\"", "a metadata entry can be stored without the key being known non-empty: empty keys are not rejected at creation")
		// reserved lookup, !ok edge
		var oks []ssa.Value
		an.Instrs(builder, func(in ssa.Instruction) {
			if lk, ok := in.(*ssa.Lookup); ok && lk.CommaOk && isKey(lk.Index) {
				if g, ok := c26GlobalOf(lk.X); ok && g == reserved {
					for _, r := range *lk.Referrers() {
						if e, ok := r.(*ssa.Extract); ok && e.Index == 1 {
							oks = append(oks, e)
						}
					}
				}
			}
		})
		notRes := an.BoolEdges(builder, oks, false)
		c.Check(len(oks) > 0 && an.GuardedBy(builder, nil, w.at, notRes), "O2", "R-DOM", bname, "metadata key not reserved", w.at.Pos(), "metadata stored only where the key is absent from the reserved table", "a metadata entry can be stored without the key being known absent from the reserved table: metadata can replace a signed IPNS field")
		// conversion on nil edge
		if call, ok := c25RootCall(w.val, an.M(ip, "-", "")); ok && call.Call.StaticCallee() != nil {
			conv = call.Call.StaticCallee()
			c.Check(an.OnNilEdgeOf(builder, call, w.at), "O2", "R-DOM", bname, "metadata value converted", w.at.Pos(), "value stored on the nil edge of the converter", "a metadata value is stored although its conversion failed (unsupported type not rejected)")
		} else {
			c.Bad("O2", "R-FLOW", bname, "metadata value converted", w.at.Pos(), "metadata value stored without going through the package's value converter")
		}
		emitted := false
		for _, a := range appended {
			if c25SameValue(a, key) {
				emitted = true
			}
		}
		c.Check(emitted, "O2", "R-TABLE", bname, "metadata key emitted", w.at.Pos(), "metadata key appended to the emitted key list", "a metadata entry is stored in the value map but its key is never appended to the emitted key list: metadata silently dropped")
	}
	c.Min("O2 dynamic-key (metadata) writes in the builder", n, 1)
	if conv == nil {
		return
	}
	// kinds the converter can produce
	kinds := map[string]bool{}
	for _, call := range an.Calls(conv, an.M(c26Basic, "", "")) {
		kinds[an.Callee(call).Name] = true
	}
	c.Min("O2 node constructors in the metadata converter", len(kinds), 1)
	// every node the converter builds is the constructor of the asserted Go type's kind applied to the asserted value
	// itself (integers only widened): string->NewString, []byte->NewBytes, signed ints->NewInt, bool->NewBool
	for _, call := range an.Calls(conv, an.M(c26Basic, "", "")) {
		cv := an.CallValue(call)
		ctorName := an.Callee(call).Name
		if cv == nil || len(cv.Call.Args) != 1 || c26CtorReader[ctorName] == "" {
			continue
		}
		v := cv.Call.Args[0]
		narrowed := false
		for {
			cvt, isC := v.(*ssa.Convert)
			if !isC {
				break
			}
			if c26IntSize(cvt.Type()) < c26IntSize(cvt.X.Type()) {
				narrowed = true
			}
			v = cvt.X
		}
		var asserted types.Type
		switch x := v.(type) {
		case *ssa.Extract:
			if ta, ok := x.Tuple.(*ssa.TypeAssert); ok && x.Index == 0 {
				asserted = ta.AssertedType
			}
		case *ssa.TypeAssert:
			asserted = x.AssertedType
		}
		want := ""
		if asserted != nil {
			switch t := asserted.Underlying().(type) {
			case *types.Basic:
				switch {
				case t.Kind() == types.String:
					want = "NewString"
				case t.Kind() == types.Bool:
					want = "NewBool"
				case t.Info()&types.IsInteger != 0 && t.Info()&types.IsUnsigned == 0:
					want = "NewInt"
				case t.Info()&types.IsFloat != 0:
					want = "NewFloat"
				}
			case *types.Slice:
				if bt, ok := t.Elem().Underlying().(*types.Basic); ok && bt.Kind() == types.Uint8 {
					want = "NewBytes"
				}
			}
		}
		at := "a value that is not the type-asserted input"
		if asserted != nil {
			at = asserted.String()
		}
		c.Check(asserted != nil && want == ctorName && !narrowed, "O2", "R-TABLE", an.FuncName(conv), "converter builds "+ctorName+" from the asserted value of its kind", cv.Pos(),
			ctorName+" applied to the asserted "+at, "the metadata converter builds "+ctorName+" from "+at+" (narrowed: "+fmt.Sprint(narrowed)+"): the typed accessor of the input's kind does not return the caller's value")
	}
	kindFn := p.Func(ip, "MetadataValue", "Kind")
	if !c.Need(kindFn != nil, "ipns.MetadataValue.Kind") {
		return
	}
	// table: datamodel kind constant value -> returned MetadataKind constant
	table := map[string]string{}
	for _, b := range kindFn.Blocks {
		ifi, ok := b.Instrs[len(b.Instrs)-1].(*ssa.If)
		if !ok {
			continue
		}
		bo, ok := ifi.Cond.(*ssa.BinOp)
		if !ok || bo.Op != token.EQL {
			continue
		}
		k, ok := an.ConstOf(bo.Y)
		x := bo.X
		if !ok {
			k, ok = an.ConstOf(bo.X)
			x = bo.Y
		}
		if !ok {
			continue
		}
		if call, okc := x.(*ssa.Call); !okc || !call.Call.IsInvoke() || call.Call.Method.Name() != "Kind" {
			continue
		}
		t := b.Succs[0]
		if ret, ok := t.Instrs[len(t.Instrs)-1].(*ssa.Return); ok && len(ret.Results) == 1 {
			if rk, ok := an.ConstOf(ret.Results[0]); ok {
				table[k.ExactString()] = rk.ExactString()
			}
		}
	}
	dm := map[string]string{}
	for _, imp := range p.Pkg(ip).Types.Imports() {
		if imp.Path() == "github.com/ipld/go-ipld-prime/datamodel" {
			for _, kn := range c26CtorKind {
				if k, ok := imp.Scope().Lookup(kn).(*types.Const); ok {
					dm[kn] = k.Val().ExactString()
				}
			}
		}
	}
	var ctors []string
	for k := range kinds {
		ctors = append(ctors, k)
	}
	sort.Strings(ctors)
	seenRet := map[string]string{}
	for _, ct := range ctors {
		kn := c26CtorKind[ct]
		ret, ok := table[dm[kn]]
		good := kn != "" && dm[kn] != "" && ok && ret != "0"
		if good {
			if prev, dup := seenRet[ret]; dup {
				good = false
				_ = prev
			}
			seenRet[ret] = ct
		}
		c.Check(good, "O2", "R-TABLE", an.FuncName(kindFn), "Kind() recognises "+ct, kindFn.Pos(), "kind produced by the converter maps to a distinct valid MetadataKind", "MetadataValue.Kind() does not map the node kind produced by "+ct+" to a distinct non-Invalid MetadataKind: metadata of that type is accepted at creation but unreadable afterwards")
		rd := c26CtorReader[ct]
		am := p.Func(ip, "MetadataValue", rd)
		okA := false
		if am != nil {
			for _, call := range an.AllCalls(am) {
				if call.Common().IsInvoke() && call.Common().Method.Name() == rd {
					okA = true
				}
			}
		}
		c.Check(okA, "O2", "R-TABLE", "ipns.MetadataValue."+rd, "typed accessor for "+ct, kindFn.Pos(), "typed accessor exists and reads the node with "+rd, "no MetadataValue."+rd+" accessor reading the node with "+rd+" for values created by "+ct)
	}
}

// c26Unmarshal: decoding guards.
func c26Unmarshal(c *an.Ctx, fPB *types.Var) {
	p := c.P
	const ip = "ipns"
	um := p.Func(ip, "", "UnmarshalRecord")
	if !c.Need(um != nil && len(um.Params) == 1, "ipns.UnmarshalRecord(data)") {
		return
	}
	name := an.FuncName(um)
	data := um.Params[0]
	maxSize, _ := c25ConstInt(p, ip, "MaxRecordSize")
	succ, undec := c25SuccessReturns(um, 1)
	c.Min("O3 possibly successful returns of UnmarshalRecord", len(succ)+len(undec), 1)
	// the returned record's pb
	var pbv ssa.Value
	for _, r := range succ {
		for _, st := range an.StoresToField(um, fPB, r.Results[0]) {
			pbv = st.Val
		}
		if pbv == nil {
			if rt := c25Root1(r.Results[0]); rt != nil {
				for _, st := range an.StoresToField(um, fPB, rt) {
					pbv = st.Val
				}
			}
		}
	}
	if pbv == nil {
		c.Bad("O3", "R-FLOW", name, "protobuf set", um.Pos(), "UnmarshalRecord returns a Record whose pb is not set in this function")
		return
	}
	root := c25Env{fn: um, vals: map[string][]ssa.Value{"data": {data}, "pb": {pbv}}}
	// facts may be established in UnmarshalRecord or in package-local helpers it calls (c25Holds)
	req := func(construct string, pos token.Pos, mk c25Req, okD, badD string) {
		good := true
		for _, r := range append(append([]*ssa.Return{}, succ...), undec...) {
			if !c25Holds(root, r, 1, mk, 0) {
				good = false
			}
		}
		c.Check(good, "O3", "R-DOM", name, construct, pos, okD, badD)
	}
	inVals := func(e c25Env, role string) func(ssa.Value) bool {
		return func(v ssa.Value) bool { return len(e.vals[role]) > 0 && c25RootsIn(v, e.vals[role]) }
	}
	req("len(data)<=MaxRecordSize", um.Pos(), func(e c25Env) (an.EdgeSet, []ssa.CallInstruction) {
		isLenData := func(v ssa.Value) bool {
			b, ok := c25RootBuiltin(v, "len")
			return ok && inVals(e, "data")(b.Call.Args[0])
		}
		return c25RelEdges(e.fn, isLenData, c25IsInt(maxSize), c25LE, 0), nil
	}, "success only for inputs within the size limit", "UnmarshalRecord can succeed without the edge len(data) <= MaxRecordSize")
	req("proto.Unmarshal(data, pb):err==nil", um.Pos(), func(e c25Env) (an.EdgeSet, []ssa.CallInstruction) {
		out := an.EdgeSet{}
		var calls []ssa.CallInstruction
		for _, call := range an.Calls(e.fn, an.M("google.golang.org/protobuf/proto", "", "Unmarshal")) {
			a := call.Common().Args
			samePB := false
			for _, pv := range e.vals["pb"] {
				if c25SameValue(a[1], pv) {
					samePB = true
				}
			}
			if inVals(e, "data")(a[0]) && samePB {
				out = out.Union(an.NilEdges(e.fn, an.ErrResult(call), true))
				calls = append(calls, call)
			}
		}
		return out, calls
	}, "success only on the nil edge of proto.Unmarshal(data, pb)", "UnmarshalRecord can succeed without the nil edge of proto.Unmarshal(input, the protobuf stored in the Record)")
	req("len(pb.Data)>0", um.Pos(), func(e c25Env) (an.EdgeSet, []ssa.CallInstruction) {
		isLenPbData := func(v ssa.Value) bool {
			b, ok := c25RootBuiltin(v, "len")
			if !ok {
				return false
			}
			pbOf, ok := c25PbOfData(b.Call.Args[0])
			if !ok {
				return false
			}
			for _, pv := range e.vals["pb"] {
				if c25SameValue(pbOf, pv) {
					return true
				}
			}
			return false
		}
		return c25RelEdges(e.fn, isLenPbData, c25IsInt(0), c25GT, c25LT), nil
	}, "success only with non-empty Data", "UnmarshalRecord can succeed with empty Data: accessors of such a record have nothing signed to read")

	if mr := p.Func(ip, "", "MarshalRecord"); c.Need(mr != nil && len(mr.Params) == 1, "ipns.MarshalRecord(rec)") {
		good := false
		for _, call := range an.Calls(mr, an.M("google.golang.org/protobuf/proto", "", "Marshal"), an.M("google.golang.org/protobuf/proto", "MarshalOptions", "Marshal")) {
			a := an.Args(call)
			if an.PathOf(a[len(a)-1]) == "p:"+mr.Params[0].Name()+"."+c25PBName {
				for _, r := range an.Returns(mr) {
					if c25RootsIn(r.Results[0], an.Result(call, 0)) {
						good = true
					}
				}
			}
		}
		c.Check(good, "O3", "R-FLOW", an.FuncName(mr), "return proto.Marshal(rec.pb)", mr.Pos(), "serialises the record's own protobuf", "MarshalRecord does not return proto.Marshal(rec.pb)")
	}
}
