package props

import (
	"fmt"
	"go/token"
	"go/types"
	"strings"

	"golang.org/x/tools/go/ssa"

	"verif/checker/an"
)

func init() {
	register("C07", Prop{
		Pkgs: []string{"./ipld/unixfs", "./ipld/unixfs/importer/helpers", "./ipld/unixfs/importer/balanced", "./ipld/unixfs/importer/trickle", "./ipld/unixfs/mod"},
		Explain: "Decided (structural necessary conditions of 'sizes recorded in every node are consistent, width bounded, attributes applied'): " +
			"O1 links <-> blocksizes: in importer/helpers, balanced, trickle and unixfs/mod every call that adds/removes/replaces links of a dag-pb node is coupled, in the same function and on every non-error path, with the matching FSNode bookkeeping (AddNodeLink<->AddBlockSize, SetLinks/RemoveNodeLink<->RemoveBlockSize/RemoveAllBlockSizes) on the FSNode paired with that node (fields of one FSNodeOverDag, FSNodeFromBytes(node.Data()), or NodeWithData(fsnode.GetBytes())); RemoveChild removes the same index on both sides; an FSNode decoded from a node and mutated is written back (SetData/NodeWithData of GetBytes()) before every success return; " +
			"O2 size provenance: the size argument of every FSNodeOverDag.AddChild(node,size,db) is the size result of the very call that produced node (edge-wise through phis, through Commit/ProcessFileStore), and every producer returning (node,size,err) returns X.FileSize() with X/X.Commit(), or len(data) with the leaf built from the same data; " +
			"O3 width: every AddChild inside a loop is guarded, per iteration, by NumChildren() < Maxlinks()/maxlinks on the same node (balanced, FillNodeLayer) or by a counter < depthRepeat (trickle); NewLeafNode rejects len(data) > BlockSizeLimit before building; " +
			"O4 attributes: in every Layout the root is handed to db.Add only after SetFileAttributes(root) succeeded whenever HasFileAttributes() is true; " +
			"O5 FSNode: every mutator of Blocksizes/Data updates Filesize (UpdateFilesize with the matching delta, or a direct Filesize store). " +
			"NOT decided: content equality, depth/shape rules beyond width, CID determinism, that SetFileAttributes can represent attributes on a raw-leaf root (see report).",
		Assume:    []string{"merkledag.ProtoNode link mutators behave as named", "FSNodeOverDag fields are only reachable from package importer/helpers"},
		Technique: "coupled mutation with object pairing (R-PAIR), value provenance through tuple results and phis (R-FLOW), per-iteration edge guards (R-DOM/R-CMP), callee tables (R-TABLE)",
		Run:       runC07,
	})
}

const (
	c07MD  = "ipld/merkledag"
	c07FT  = "ipld/unixfs"
	c07H   = "ipld/unixfs/importer/helpers"
	c07Bal = "ipld/unixfs/importer/balanced"
	c07Tr  = "ipld/unixfs/importer/trickle"
	c07Mod = "ipld/unixfs/mod"
)

// c07IsFailureReturn: the return carries an error that is non-nil by construction or by the guarding test.
func c07IsFailureReturn(fn *ssa.Function, r *ssa.Return) bool {
	if len(r.Results) == 0 {
		return false
	}
	e := r.Results[len(r.Results)-1]
	if !an.IsErrorType(e.Type()) || an.IsNilConst(e) {
		return false
	}
	for _, root := range an.Roots(e, nil) {
		switch x := root.(type) {
		case *ssa.UnOp:
			if _, ok := x.X.(*ssa.Global); ok && x.Op == token.MUL {
				continue // sentinel error
			}
		case *ssa.Call:
			ci := an.Callee(x)
			if (ci.Pkg == "errors" && ci.Name == "New") || (ci.Pkg == "fmt" && ci.Name == "Errorf") {
				continue
			}
		}
		if an.IsNilConst(root) {
			return false
		}
		if !an.GuardedBy(fn, nil, r, an.XBNilEdgesVia(fn, root, false)) {
			return false
		}
	}
	return true
}

// c07FollowsOnSuccess: every success return reachable from `from` (on paths where from itself did not fail) executes one of set first.
func c07FollowsOnSuccess(fn *ssa.Function, from ssa.Instruction, set []ssa.Instruction) bool {
	if len(set) == 0 {
		return false
	}
	cut := an.EdgeSet{}
	if c, ok := from.(ssa.CallInstruction); ok {
		for _, e := range an.ErrResult(c) {
			cut = cut.Union(an.XBNilEdgesVia(fn, e, false))
		}
	}
	blocked := map[ssa.Instruction]bool{}
	for _, s := range set {
		blocked[s] = true
	}
	for _, r := range an.Returns(fn) {
		if ssa.Instruction(r) == from || c07IsFailureReturn(fn, r) {
			continue
		}
		if an.Reaches(fn, from, r, cut, blocked) {
			return false
		}
	}
	return true
}

func c07Coupled(fn *ssa.Function, at ssa.Instruction, set []ssa.Instruction) bool {
	if len(set) == 0 {
		return false
	}
	return an.MustPrecede(fn, at, set) || c07FollowsOnSuccess(fn, at, set)
}

func c07FieldLoad(v ssa.Value) (*types.Var, ssa.Value) {
	u, ok := v.(*ssa.UnOp)
	if !ok || u.Op != token.MUL {
		return nil, nil
	}
	return an.FieldOf(u.X)
}

// c07PairedFS returns the FSNode-valued receivers/values in fn that describe the same UnixFS node as proto node value pn.
func c07PairedFS(fn *ssa.Function, pn ssa.Value, fDag, fFile *types.Var) func(fs ssa.Value) bool {
	// (1) two fields of one FSNodeOverDag
	var overBase ssa.Value
	if f, base := c07FieldLoad(pn); f == fDag && fDag != nil {
		overBase = base
	}
	fromBytes := an.M(c07FT, "", "FSNodeFromBytes")
	return func(fs ssa.Value) bool {
		if overBase != nil {
			if f, base := c07FieldLoad(fs); f == fFile && an.SameObj(base, overBase) {
				return true
			}
		}
		for _, r := range an.Roots(fs, nil) {
			// (2) fs = FSNodeFromBytes(pn.Data())
			if call, ok := an.IsCallTo(r, fromBytes); ok {
				if dc, ok := an.IsCallTo(call.Call.Args[0], an.M(c07MD, "ProtoNode", "Data")); ok && an.SameObj(an.Recv(dc), pn) {
					return true
				}
			}
		}
		// (3) pn = NodeWithData(fs.GetBytes()) or pn.SetData(fs.GetBytes())
		isBytesOf := func(v ssa.Value) bool {
			gb, ok := an.IsCallTo(v, an.M(c07FT, "FSNode", "GetBytes"))
			return ok && an.SameObj(an.Recv(gb), fs)
		}
		for _, r := range an.Roots(pn, nil) {
			if call, ok := an.IsCallTo(r, an.M(c07MD, "", "NodeWithData")); ok && isBytesOf(call.Call.Args[0]) {
				return true
			}
		}
		for _, call := range an.Calls(fn, an.M(c07MD, "ProtoNode", "SetData")) {
			if an.SameObj(an.Recv(call), pn) && isBytesOf(an.Args(call)[0]) {
				return true
			}
		}
		return false
	}
}

// c07Through makes Commit()/ProcessFileStore() transparent for node provenance.
func c07Through(c *ssa.Call) ([]ssa.Value, bool) {
	ci := an.Callee(c)
	switch {
	case ci.Recv == "FSNodeOverDag" && ci.Name == "Commit":
		return []ssa.Value{an.Recv(c)}, true
	case ci.Recv == "DagBuilderHelper" && ci.Name == "ProcessFileStore":
		return []ssa.Value{an.Args(c)[0]}, true
	}
	return nil, false
}

// c07NodeSizePair: node and size come from the same producing call (results #0 and #1), edge-wise through phis.
func c07NodeSizePair(node, size ssa.Value, depth int) (bool, string) {
	if depth > 6 {
		return false, "too deep"
	}
	// look through Commit / ProcessFileStore / conversions on the node side
	for {
		switch x := node.(type) {
		case *ssa.Extract:
			if call, ok := x.Tuple.(*ssa.Call); ok {
				if ops, ok := c07Through(call); ok && x.Index == 0 {
					node = ops[0]
					continue
				}
			}
		case *ssa.Call:
			if ops, ok := c07Through(x); ok {
				node = ops[0]
				continue
			}
		case *ssa.MakeInterface:
			node = x.X
			continue
		case *ssa.ChangeInterface:
			node = x.X
			continue
		}
		break
	}
	pn, okN := node.(*ssa.Phi)
	ps, okS := size.(*ssa.Phi)
	if okN && okS {
		if pn.Block() != ps.Block() || len(pn.Edges) != len(ps.Edges) {
			return false, "node and size are merged at different points"
		}
		for i := range pn.Edges {
			// a loop-carried edge referring to the phi itself is trivially consistent
			if pn.Edges[i] == ssa.Value(pn) && ps.Edges[i] == ssa.Value(ps) {
				continue
			}
			if ok, why := c07NodeSizePair(pn.Edges[i], ps.Edges[i], depth+1); !ok {
				return false, why
			}
		}
		return true, ""
	}
	en, okN := node.(*ssa.Extract)
	es, okS := size.(*ssa.Extract)
	if okN && okS && en.Tuple == es.Tuple && en.Index == 0 && es.Index == 1 {
		return true, ""
	}
	// size taken directly from the node being added: X.FileSize() with node = X or X.Commit()
	if fsz, ok := an.IsCallTo(size, an.M(c07H, "FSNodeOverDag", "FileSize")); ok {
		if x := an.Recv(fsz); x == node || an.SameObj(x, node) {
			return true, ""
		}
	}
	if an.IsNilConst(node) {
		if k, ok := an.XBInt64(size); ok && k == 0 {
			return true, ""
		}
	}
	return false, fmt.Sprintf("node comes from %s but size from %s", an.PathOf(node), an.PathOf(size))
}

func runC07(c *an.Ctx) {
	p := c.P
	roles := c07ResolveRoles(c)
	fDag, fFile := roles.fDag, roles.fFile
	if !c.Need(fDag != nil && fFile != nil, "helpers.FSNodeOverDag fields by type (*merkledag.ProtoNode, *unixfs.FSNode)") {
		return
	}
	var scope []*ssa.Function
	for _, rel := range []string{c07H, c07Bal, c07Tr, c07Mod} {
		if c.Need(p.Pkg(rel) != nil, "package "+rel) {
			scope = append(scope, p.PkgFuncs(rel)...)
		}
	}
	c07LinkSizeCoupling(c, scope, fDag, fFile, nil)
	c07DataReplacement(c, scope, fDag, fFile)
	c07SizeProvenance(c, scope, nil)
	c.Min("O2 Commit() calls", c07CommitAfterMutations(c, scope, nil), 1)

	// O2: the whole stream is consumed: balanced layout functions return success only once the builder is drained
	drains := map[*ssa.Function]bool{}
	nDr := 0
	for _, ln := range []struct{ rel, name string }{{c07Bal, "Layout"}, {c07Tr, "Layout"}} {
		fn := p.Func(ln.rel, "", ln.name)
		if !c.Need(fn != nil, ln.rel+"."+ln.name) {
			continue
		}
		nDr++
		ok, esc := c07Drains(fn, drains)
		pos := fn.Pos()
		if esc != nil {
			pos = esc.Pos()
		}
		if ok {
			drains[fn] = true
		}
		c.Check(ok, "O2", "R-DOM", an.FuncName(fn), "success-return<=builder-drained", pos,
			"success is returned only where db.Done() was tested true (or after a draining callee)",
			"a success return is reachable while the splitter may still hold data (not guarded by db.Done() being true): the tail of the input is silently dropped from the file")
	}
	c.Min("O2 layout entry points", nDr, 1)

	// O3: the leaf size limit of the importer is the block size limit of the chunker package
	if hp := p.Pkg(c07H); hp != nil {
		okLim := false
		var pos token.Pos
		if imp := hp.Imports[an.Mod+"/chunker"]; imp != nil && imp.Types != nil {
			if k, ok := imp.Types.Scope().Lookup("BlockSizeLimit").(*types.Const); ok {
				for _, fn := range p.PkgFuncs(c07H) {
					if fn.Name() != "init" {
						continue
					}
					an.Instrs(fn, func(in ssa.Instruction) {
						st, ok := in.(*ssa.Store)
						if !ok {
							return
						}
						g, ok := st.Addr.(*ssa.Global)
						if !ok || g.Name() != "BlockSizeLimit" {
							return
						}
						pos = st.Pos()
						if kv, ok := an.ConstOf(st.Val); ok && kv.ExactString() == k.Val().ExactString() {
							okLim = true
						}
					})
				}
			}
		}
		if pos == token.NoPos {
			if o := hp.Types.Scope().Lookup("BlockSizeLimit"); o != nil {
				pos = o.Pos()
			}
		}
		c.Check(okLim, "O3", "R-CONST", c07H, "BlockSizeLimit=chunker.BlockSizeLimit", pos,
			"helpers.BlockSizeLimit is initialised with chunker.BlockSizeLimit", "helpers.BlockSizeLimit is not initialised with chunker.BlockSizeLimit: the importer accepts leaves the chunker limit (and the wire block limit) forbids")
	}

	// ---------------- O3: width guards
	addChild := an.M(c07H, "FSNodeOverDag", "AddChild")
	okDR := roles.depthRepeat != ""
	c.Need(okDR, "trickle per-layer repeat constant (bound of the counter guarding the child-adding step of the recursive filler)")
	nO3 := 0
	// adder helpers: package-local functions that add a child to one of their parameters outside any loop of their own;
	// a call to them inside a loop is a child-adding site for the corresponding argument
	adderParam := map[*ssa.Function]int{}
	for _, fn := range scope {
		for _, call := range an.Calls(fn, addChild) {
			if an.XBInCycle(call.Block()) {
				continue
			}
			if par, ok := an.Recv(call).(*ssa.Parameter); ok {
				for i, q := range fn.Params {
					if q == par {
						adderParam[fn] = i
					}
				}
			}
		}
	}
	type addSite struct {
		call ssa.CallInstruction
		recv ssa.Value
	}
	for _, fn := range scope {
		var sites []addSite
		for _, call := range an.Calls(fn, addChild) {
			sites = append(sites, addSite{call, an.Recv(call)})
		}
		for _, call := range an.AllCalls(fn) {
			if g := an.Callee(call).Static; g != nil && g != fn {
				if i, ok := adderParam[g]; ok && i < len(call.Common().Args) {
					sites = append(sites, addSite{call, call.Common().Args[i]})
				}
			}
		}
		for _, site := range sites {
			call, recv := site.call, site.recv
			if !an.XBInCycle(call.Block()) {
				continue
			}
			// a node created inside the loop body receives its first child (balanced layoutData)
			if nc, ok := an.IsCallTo(recv, an.M(c07H, "DagBuilderHelper", "NewFSNodeOverDag")); ok && an.XBInCycle(nc.Block()) {
				continue
			}
			nO3++
			width := an.XBEdgesWhere(fn, func(r an.XBRel) bool {
				x, y, op := r.X, r.Y, r.Op
				isNum := func(v ssa.Value) bool {
					nc, ok := an.IsCallTo(v, an.M(c07H, "FSNodeOverDag", "NumChildren"))
					return ok && an.SameObj(an.Recv(nc), recv)
				}
				isMax := func(v ssa.Value) bool {
					if _, ok := an.IsCallTo(v, an.M(c07H, "DagBuilderHelper", "Maxlinks")); ok {
						return true
					}
					f, _ := c07FieldLoad(v)
					return f != nil && f == roles.fMaxlinks
				}
				return (isNum(x) && isMax(y) && op == token.LSS) || (isMax(x) && isNum(y) && op == token.GTR)
			})
			counter := an.EdgeSet{}
			if okDR {
				counter = an.XBEdgesWhere(fn, func(r an.XBRel) bool {
					k, isK := an.XBInt64(r.Y)
					if !isK || r.Op != token.LSS || fmt.Sprint(k) != roles.depthRepeat {
						return false
					}
					// the counter: a phi stepped by +1 inside the loop
					ph, ok := r.X.(*ssa.Phi)
					if !ok {
						return false
					}
					for _, e := range ph.Edges {
						if b, ok := e.(*ssa.BinOp); ok && b.Op == token.ADD && b.X == ssa.Value(ph) {
							if one, ok := an.XBInt64(b.Y); ok && one == 1 {
								return true
							}
						}
					}
					return false
				})
			}
			guards := width.Union(counter)
			perIter := len(guards) > 0 && an.GuardedBy(fn, nil, call, guards) && !an.Reaches(fn, call, call, guards, nil)
			if !perIter && okDR {
				// rotated counted loops ("for range depthRepeat", do-while): bounded by construction
				var kDR int64
				if _, err := fmt.Sscan(roles.depthRepeat, &kDR); err == nil {
					perIter = an.XBCounterBelow(fn, call, kDR)
				}
			}
			c.Check(perIter, "O3", "R-DOM", an.FuncName(fn), "loop-AddChild<=width-guard", call.Pos(),
				"every iteration that adds a child first passes NumChildren() < Maxlinks() on that node (or counter < depthRepeat)",
				"a child is added inside a loop without a per-iteration guard NumChildren() < Maxlinks() on the same node (or counter < depthRepeat): a node can get more children than the DAG width allows")
		}
	}
	c.Min("O3 child-adding sites inside loops", nO3, 1)
	if nl := p.Func(c07H, "DagBuilderHelper", "NewLeafNode"); c.Need(nl != nil, "DagBuilderHelper.NewLeafNode") {
		data := ssa.Value(nl.Params[1])
		limit := an.XBEdgesWhere(nl, func(r an.XBRel) bool {
			lc, ok := r.X.(*ssa.Call)
			if !ok || an.Callee(lc).Builtin != "len" || lc.Call.Args[0] != data {
				return false
			}
			u, ok := r.Y.(*ssa.UnOp)
			if !ok || u.Op != token.MUL {
				return false
			}
			g, ok := u.X.(*ssa.Global)
			return ok && g.Name() == "BlockSizeLimit" && r.Op == token.LEQ
		})
		n := 0
		for _, call := range an.AllCalls(nl) {
			uses := false
			for _, a := range call.Common().Args {
				if a == data {
					uses = true
				}
			}
			if !uses || an.Callee(call).Builtin == "len" {
				continue
			}
			n++
			c.Check(len(limit) > 0 && an.GuardedBy(nl, nil, call, limit), "O3", "R-DOM", an.FuncName(nl), "leaf-data<=BlockSizeLimit:"+an.Callee(call).Name, call.Pos(),
				"leaf data is used only where len(data) <= BlockSizeLimit", "NewLeafNode builds a leaf from data whose length was not tested against BlockSizeLimit: oversized blocks can be produced")
		}
		c.Min("O3 uses of leaf data in NewLeafNode", n, 1)
	}

	// ---------------- O4: attributes before Add in every Layout
	nO4 := 0
	{
		var layFns []*ssa.Function
		for _, rel := range []string{c07Bal, c07Tr} {
			c.Need(p.Func(rel, "", "Layout") != nil, rel+".Layout")
			layFns = append(layFns, p.PkgFuncs(rel)...)
		}
		lg := an.XBLocalGraph(layFns)
		// every db.Add(x) made by the layout packages themselves stores a root (children are stored by AddChild in helpers)
		for _, fn := range layFns {
			for _, add := range an.Calls(fn, an.M(c07H, "DagBuilderHelper", "Add")) {
				nO4++
				ok := lg.HeldUpV(fn, add, an.Args(add)[0], func(f *ssa.Function, at ssa.Instruction, root ssa.Value) bool {
					if root == nil {
						return false
					}
					has := an.CallEdges(f, an.M(c07H, "DagBuilderHelper", "HasFileAttributes"), -1, nil, false)
					blocked := map[ssa.Instruction]bool{}
					nSet := 0
					for _, set := range an.Calls(f, an.M(c07H, "DagBuilderHelper", "SetFileAttributes")) {
						if a0 := an.Args(set)[0]; !(a0 == root || an.SameObj(a0, root) || an.XBStripConv(a0) == root) {
							continue
						}
						nSet++
						if an.XBOnNilEdge(f, set, at) {
							blocked[set] = true
						}
					}
					return nSet > 0 && len(has) > 0 && !an.Reaches(f, nil, at, has, blocked)
				}, 2)
				c.Check(ok, "O4", "R-POST", an.FuncName(fn), "Add(root)<=SetFileAttributes(root)", add.Pos(),
					"the root is stored only after SetFileAttributes(root) succeeded whenever attributes were requested",
					"a layout can reach db.Add(root) with HasFileAttributes() true without a successful SetFileAttributes(root) on the same root: requested mode/mtime are missing from the stored root")
			}
		}
	}
	c.Min("O4 db.Add(root) in Layout functions", nO4, 1)
	if sfa := p.Func(c07H, "DagBuilderHelper", "SetFileAttributes"); c.Need(sfa != nil, "DagBuilderHelper.SetFileAttributes") {
		// the attributes must not be dropped silently: a success return may only be reached through a
		// type-assertion/type-switch edge of a node type the function annotates
		handled := []string{}
		var oks []ssa.Value
		an.Instrs(sfa, func(in ssa.Instruction) {
			if ta, ok := in.(*ssa.TypeAssert); ok && ta.CommaOk && ta.X == ssa.Value(sfa.Params[1]) {
				handled = append(handled, types.TypeString(ta.AssertedType, func(p *types.Package) string { return p.Name() }))
				for _, r := range *ta.Referrers() {
					if e, ok := r.(*ssa.Extract); ok && e.Index == 1 {
						oks = append(oks, e)
					}
				}
			}
		})
		okEdges := an.BoolEdges(sfa, oks, true)
		setters := an.Calls(sfa, an.M(c07FT, "FSNode", "SetMode"), an.M(c07FT, "FSNode", "SetModTime"))
		silent := false
		pos := sfa.Pos()
		for _, r := range an.Returns(sfa) {
			if len(r.Results) == 1 && an.IsNilConst(r.Results[0]) && an.Reaches(sfa, nil, r, okEdges, nil) {
				silent = true
				pos = r.Pos()
			}
		}
		c.Check(len(setters) >= 2 && !silent, "O4", "R-EXH", an.FuncName(sfa), "unsupported-root-type-not-silently-ignored", pos,
			"SetFileAttributes reports success only for node types it annotates",
			"SetFileAttributes returns nil without storing mode/mtime for every node type other than "+strings.Join(handled, ",")+": a root that is a raw leaf (balanced layout, RawLeaves, file of at most one chunk or empty) silently loses the requested mode/mtime")
	}

	// ---------------- O5: FSNode mutators update Filesize
	c07FSNodeFilesize(c, roles.fFormat)
	c07Round11(c)
}

// c07LinkSizeCoupling implements O1 over the given functions; only (if non-nil) restricts to some of them.
func c07LinkSizeCoupling(c *an.Ctx, scope []*ssa.Function, fDag, fFile *types.Var, only func(*ssa.Function) bool) {
	linkAdd := []an.Matcher{an.M(c07MD, "ProtoNode", "AddNodeLink"), an.M(c07MD, "ProtoNode", "AddRawLink"), an.M(c07MD, "ProtoNode", "AddNodeLinkClean")}
	linkDel := []an.Matcher{an.M(c07MD, "ProtoNode", "SetLinks"), an.M(c07MD, "ProtoNode", "RemoveNodeLink")}
	sizeAdd := []an.Matcher{an.M(c07FT, "FSNode", "AddBlockSize")}
	sizeDel := []an.Matcher{an.M(c07FT, "FSNode", "RemoveBlockSize"), an.M(c07FT, "FSNode", "RemoveAllBlockSizes")}
	nLinks, nSizes, nWB := 0, 0, 0
	for _, fn := range scope {
		if only != nil && !only(fn) {
			continue
		}
		name := an.FuncName(fn)
		for _, dir := range []struct {
			links, sizes []an.Matcher
			what         string
		}{{linkAdd, sizeAdd, "add"}, {linkDel, sizeDel, "remove"}} {
			for _, lc := range an.Calls(fn, dir.links...) {
				pn := an.Recv(lc)
				if pn == nil {
					continue
				}
				nLinks++
				paired := c07PairedFS(fn, pn, fDag, fFile)
				var partners []ssa.Instruction
				for _, sc := range an.Calls(fn, dir.sizes...) {
					if paired(an.Recv(sc)) {
						partners = append(partners, sc)
					}
				}
				ln := an.Callee(lc).Name
				if dir.what == "add" && len(partners) > 0 {
					// rebuild idiom (dagTruncate): sizes were cleared with RemoveAllBlockSizes and are re-added in a
					// scan loop whose exit condition is data dependent; require that a paired AddBlockSize can precede.
					rebuild, some := false, false
					for _, sc := range partners {
						if c07RebuildsSizes(fn, an.Recv(sc.(ssa.CallInstruction))) {
							rebuild = true
						}
						if an.Reaches(fn, sc, lc, nil, nil) {
							some = true
						}
					}
					if rebuild {
						c.Check(some, "O1", "R-PAIR", name, "links."+ln+"=>blocksizes.rebuilt", lc.Pos(),
							"link added after the block sizes were rebuilt (RemoveAllBlockSizes + AddBlockSize scan) for the paired FSNode",
							"a link is added to a node whose block sizes were cleared, and no AddBlockSize on the paired FSNode can precede it")
						continue
					}
				}
				c.Check(c07Coupled(fn, lc, partners), "O1", "R-PAIR", name, "links."+ln+"=>blocksizes."+dir.what, lc.Pos(),
					"link "+dir.what+" coupled with the block-size bookkeeping of the paired FSNode on every non-error path",
					"ProtoNode."+ln+" changes the links of a UnixFS file node without the matching FSNode block-size "+dir.what+" on the paired FSNode on every non-error path: Blocksizes/Filesize no longer describe the children (wrong size, broken Seek)")
			}
			// reverse direction: a block-size change on an FSNode paired with a node whose links do not change
			for _, sc := range an.Calls(fn, dir.sizes...) {
				fs := an.Recv(sc)
				if fs == nil {
					continue
				}
				// find paired proto nodes: receivers of any ProtoNode call / loads of the dag field in this function
				var partners []ssa.Instruction
				pairedSomewhere := false
				for _, lc := range an.Calls(fn, dir.links...) {
					if pn := an.Recv(lc); pn != nil && c07PairedFS(fn, pn, fDag, fFile)(fs) {
						partners = append(partners, lc)
						pairedSomewhere = true
					}
				}
				if !pairedSomewhere {
					// is there any proto node paired with fs at all? (FSNodeOverDag or FromBytes(pn.Data()))
					hasPair := false
					if f, _ := c07FieldLoad(fs); f == fFile {
						hasPair = true
					}
					for _, r := range an.Roots(fs, nil) {
						if _, ok := an.IsCallTo(r, an.M(c07FT, "", "FSNodeFromBytes")); ok {
							hasPair = true
						}
					}
					if !hasPair {
						// a fresh FSNode (NewFSNode): paired through NodeWithData(GetBytes()) => link side checks it
						continue
					}
				}
				nSizes++
				// RemoveAllBlockSizes followed by re-adding sizes needs link adds only for what is re-added: handled by the link side
				if an.Callee(sc).Name == "AddBlockSize" && c07RebuildsSizes(fn, fs) {
					c.OK("O1", "R-PAIR", name, "blocksizes.rebuild", sc.Pos(), "block sizes rebuilt from scratch after RemoveAllBlockSizes (links replaced by SetLinks in the same function)")
					continue
				}
				c.Check(c07Coupled(fn, sc, partners), "O1", "R-PAIR", name, "blocksizes."+an.Callee(sc).Name+"=>links."+dir.what, sc.Pos(),
					"block-size "+dir.what+" coupled with the link "+dir.what+" of the paired node",
					"FSNode."+an.Callee(sc).Name+" changes the recorded child sizes without the matching link "+dir.what+" on the paired dag node on every non-error path: Blocksizes and Links get out of step")
			}
		}
		// same index on both sides of a removal
		for _, sc := range an.Calls(fn, an.M(c07FT, "FSNode", "RemoveBlockSize")) {
			idx := an.Args(sc)[0]
			for _, lc := range an.Calls(fn, an.M(c07MD, "ProtoNode", "SetLinks")) {
				ap, ok := an.Args(lc)[0].(*ssa.Call)
				if !ok || an.Callee(ap).Builtin != "append" {
					continue
				}
				head, ok1 := ap.Call.Args[0].(*ssa.Slice)
				tail, ok2 := ap.Call.Args[1].(*ssa.Slice)
				okIdx := ok1 && ok2 && head.Low == nil && head.High == idx && tail.High == nil
				if okIdx {
					b, ok := tail.Low.(*ssa.BinOp)
					one := int64(0)
					if ok {
						one, _ = an.XBInt64(b.Y)
					}
					okIdx = ok && b.Op == token.ADD && b.X == idx && one == 1
				}
				c.Check(okIdx, "O1", "R-FLOW", name, "remove-same-index", lc.Pos(),
					"links[:i]+links[i+1:] removes the same index i as RemoveBlockSize(i)", "the link removed by SetLinks(append(links[:a], links[b:]...)) is not the index passed to RemoveBlockSize: sizes and links are shifted against each other")
			}
		}
		// write-back of a decoded and mutated FSNode
		mutators := map[string]bool{"AddBlockSize": true, "RemoveBlockSize": true, "RemoveAllBlockSizes": true, "SetData": true, "SetModTime": true, "SetMode": true, "UpdateFilesize": true, "SetModeFromUnixPermissions": true, "SetExtendedMode": true}
		for _, dec := range an.Calls(fn, an.M(c07FT, "", "FSNodeFromBytes")) {
			fsv := an.Result(dec, 0)
			if len(fsv) == 0 {
				continue
			}
			isFS := func(v ssa.Value) bool {
				for _, r := range an.Roots(v, nil) {
					for _, f := range fsv {
						if r == f {
							return true
						}
					}
				}
				return false
			}
			var muts []ssa.CallInstruction
			for _, call := range an.AllCalls(fn) {
				ci := an.Callee(call)
				if ci.Recv == "FSNode" && mutators[ci.Name] && isFS(an.Recv(call)) {
					muts = append(muts, call)
				}
			}
			if len(muts) == 0 {
				continue
			}
			var wbs []ssa.Instruction
			for _, call := range an.AllCalls(fn) {
				ci := an.Callee(call)
				isSet := ci.Recv == "ProtoNode" && ci.Name == "SetData"
				isNew := ci.Recv == "" && ci.Name == "NodeWithData" && strings.HasSuffix(ci.Pkg, c07MD)
				if !isSet && !isNew {
					continue
				}
				arg := call.Common().Args[len(call.Common().Args)-1]
				if gb, ok := an.IsCallTo(arg, an.M(c07FT, "FSNode", "GetBytes")); ok && isFS(an.Recv(gb)) {
					// the bytes must be taken after the last mutation: no mutation between GetBytes and the write-back is checked below
					wbs = append(wbs, call)
				}
			}
			for _, m := range muts {
				nWB++
				c.Check(c07FollowsOnSuccess(fn, m, wbs), "O1", "R-POST", name, "FSNode."+an.Callee(m).Name+"=>write-back", m.Pos(),
					"the mutated FSNode is serialised back into the node before every success return",
					"an FSNode decoded from a node's Data is modified ("+an.Callee(m).Name+") but not written back with SetData/NodeWithData(GetBytes()) on every success path: the stored node keeps stale sizes/metadata")
				// and its bytes are taken after the mutation
				okOrder := true
				for _, wb := range wbs {
					call := wb.(ssa.CallInstruction)
					arg := call.Common().Args[len(call.Common().Args)-1]
					gb, _ := an.IsCallTo(arg, an.M(c07FT, "FSNode", "GetBytes"))
					if gb != nil && an.Reaches(fn, gb, m, nil, nil) && !an.Reaches(fn, m, gb, nil, nil) {
						okOrder = false
					}
				}
				if !okOrder {
					c.Bad("O1", "R-POST", name, "FSNode."+an.Callee(m).Name+"<GetBytes", m.Pos(), "the FSNode is serialised (GetBytes) before it is modified: the modification never reaches the node")
				}
			}
		}
	}
	if only == nil {
		c.Min("O1 link mutations on file nodes", nLinks, 1)
		c.Min("O1 block-size mutations with a paired node", nSizes, 1)
		c.Min("O1 mutations of decoded FSNodes needing write-back", nWB, 1)
	}
}

// c07RebuildsSizes: the FSNode had RemoveAllBlockSizes called on it in fn (sizes are rebuilt from scratch).
func c07RebuildsSizes(fn *ssa.Function, fs ssa.Value) bool {
	for _, call := range an.Calls(fn, an.M(c07FT, "FSNode", "RemoveAllBlockSizes")) {
		if an.SameObj(an.Recv(call), fs) || an.Recv(call) == fs {
			return true
		}
	}
	return false
}

// c07SizeProvenance implements O2.
func c07SizeProvenance(c *an.Ctx, scope []*ssa.Function, only func(*ssa.Function) bool) {
	addChild := an.M(c07H, "FSNodeOverDag", "AddChild")
	nCons, nProd := 0, 0
	for _, fn := range scope {
		if only != nil && !only(fn) {
			continue
		}
		name := an.FuncName(fn)
		for _, call := range an.Calls(fn, addChild) {
			args := an.Args(call)
			nCons++
			ok, why := c07NodeSizePair(args[0], args[1], 0)
			c.Check(ok, "O2", "R-FLOW", name, "AddChild(node,size)", call.Pos(),
				"size argument is the size result of the call that produced the node",
				"AddChild records a size that does not belong to the child node ("+why+"): the parent's Blocksizes/Filesize disagree with the child's content")
		}
		// producers
		res := fn.Signature.Results()
		if res.Len() != 3 || !an.IsErrorType(res.At(2).Type()) {
			continue
		}
		if b, ok := res.At(1).Type().Underlying().(*types.Basic); !ok || b.Kind() != types.Uint64 {
			continue
		}
		for _, r := range an.Returns(fn) {
			if c07IsFailureReturn(fn, r) || an.IsNilConst(r.Results[0]) {
				continue
			}
			nProd++
			node, size := r.Results[0], r.Results[1]
			ok, why := false, "size is neither X.FileSize() of the returned node nor the length of the leaf data"
			sizeRoots := an.Roots(size, nil)
			allOK := len(sizeRoots) > 0
			for _, sr := range sizeRoots {
				one := false
				if fsz, isFS := an.IsCallTo(sr, an.M(c07H, "FSNodeOverDag", "FileSize")); isFS {
					x := an.Recv(fsz)
					nroots := an.Roots(node, &an.FlowOpts{Through: c07Through, StopAt: func(v ssa.Value) bool { return v == x }})
					one = len(nroots) > 0
					for _, nr := range nroots {
						if !(an.SameObj(nr, x) || nr == x) {
							one = false
						}
					}
					// ... and it is taken after the last change of the node's children
					if one {
						for _, m := range an.Calls(fn, an.M(c07H, "FSNodeOverDag", "AddChild"), an.M(c07H, "FSNodeOverDag", "RemoveChild"), an.M(c07H, "DagBuilderHelper", "FillNodeLayer")) {
							tgt := an.Recv(m)
							if an.Callee(m).Name == "FillNodeLayer" {
								tgt = an.Args(m)[0]
							}
							if (tgt == x || an.SameObj(tgt, x)) && an.Reaches(fn, fsz, m, nil, nil) && an.Reaches(fn, m, r, nil, nil) {
								one = false
								why = "FileSize() is read before " + an.Callee(m).Name + " changes the node's children (stale size)"
							}
						}
					}
					if !one && !strings.Contains(why, "stale size") {
						why = "FileSize() is taken from " + an.PathOf(x) + ", not from the returned node"
					}
				} else if lc, isLen := sr.(*ssa.Call); isLen && an.Callee(lc).Builtin == "len" {
					data := lc.Call.Args[0]
					for _, nr := range an.Roots(node, &an.FlowOpts{Through: c07Through}) {
						if mk, ok := an.IsCallTo(nr, an.M(c07H, "DagBuilderHelper", "NewLeafNode")); ok && an.Args(mk)[0] == data {
							one = true
						}
					}
					if !one {
						why = "size is len(" + an.PathOf(data) + ") but the leaf is not built from that data"
					}
				} else if e, isX := sr.(*ssa.Extract); isX {
					// forwarded pair from another producer
					if okp, _ := c07NodeSizePair(node, e, 0); okp {
						one = true
					}
				}
				if !one {
					allOK = false
				}
			}
			ok = allOK
			c.Check(ok, "O2", "R-FLOW", name, "return(node,size)", r.Pos(),
				"returned size describes the returned node", "producer returns a (node, size) pair where "+why)
		}
	}
	if only == nil {
		c.Min("O2 AddChild calls", nCons, 1)
		c.Min("O2 producer success returns", nProd, 1)
	}
}

// c07FSNodeFilesize implements O5 in package unixfs.
func c07FSNodeFilesize(c *an.Ctx, fFormat *types.Var) {
	p := c.P
	if !c.Need(fFormat != nil, "unixfs.FSNode field of type pb.Data") {
		return
	}
	pbRel := "ipld/unixfs/pb"
	_ = pbRel
	nO5 := 0
	for _, fn := range p.Methods(c07FT, "FSNode") {
		name := an.FuncName(fn)
		var content []*ssa.Store
		var sizeStores []ssa.Instruction
		an.Instrs(fn, func(in ssa.Instruction) {
			st, ok := in.(*ssa.Store)
			if !ok {
				return
			}
			f, base := an.FieldOf(st.Addr)
			if f == nil || f.Pkg() == nil || !strings.HasSuffix(f.Pkg().Path(), "ipld/unixfs/pb") {
				return
			}
			if ff, _ := an.FieldOf(base); ff == nil || ff != fFormat {
				return
			}
			switch f.Name() {
			case "Blocksizes", "Data":
				content = append(content, st)
			case "Filesize":
				sizeStores = append(sizeStores, st)
			}
		})
		for _, call := range an.Calls(fn, an.M(c07FT, "FSNode", "UpdateFilesize")) {
			if an.SameObj(an.Recv(call), fn.Params[0]) {
				sizeStores = append(sizeStores, call)
			}
		}
		for _, st := range content {
			f, _ := an.FieldOf(st.Addr)
			nO5++
			c.Check(an.Around(fn, st, sizeStores), "O5", "R-PAIR", name, f.Name()+"=>Filesize", st.Pos(),
				"a change of "+f.Name()+" is coupled with a Filesize update", "FSNode."+fn.Name()+" changes format."+f.Name()+" without updating format.Filesize on every path: FileSize() no longer equals data length + sum of block sizes")
		}
		// delta agreement for the appending mutator
		for _, st := range content {
			f, _ := an.FieldOf(st.Addr)
			if f.Name() != "Blocksizes" {
				continue
			}
			ap, ok := st.Val.(*ssa.Call)
			if !ok || an.Callee(ap).Builtin != "append" {
				continue
			}
			// append(blocksizes, s): delta must be +s ; append(bs[:i], bs[i+1:]...): delta must be -bs[i]
			for _, call := range an.Calls(fn, an.M(c07FT, "FSNode", "UpdateFilesize")) {
				delta := an.Args(call)[0]
				if head, isRemoval := ap.Call.Args[0].(*ssa.Slice); isRemoval && head.High != nil {
					neg, ok := delta.(*ssa.UnOp)
					okDelta := ok && neg.Op == token.SUB && head != nil
					if okDelta {
						l, ok := an.XBStripConv(neg.X).(*ssa.UnOp)
						okDelta = ok && l.Op == token.MUL
						if okDelta {
							ia, ok := l.X.(*ssa.IndexAddr)
							okDelta = ok && ia.Index == head.High
						}
					}
					c.Check(okDelta, "O5", "R-FLOW", name, "Filesize-=removed-size", call.Pos(), "Filesize is decreased by the size of the removed entry", "RemoveBlockSize does not decrease Filesize by Blocksizes[i] of the removed index")
				} else {
					// variadic single element: the slice literal holds the appended value
					okDelta := false
					for _, r := range an.Roots(an.XBStripConv(delta), nil) {
						if r == ssa.Value(fn.Params[1]) {
							okDelta = true
						}
					}
					c.Check(okDelta, "O5", "R-FLOW", name, "Filesize+=added-size", call.Pos(), "Filesize is increased by the appended size", "AddBlockSize does not increase Filesize by the appended block size")
				}
			}
		}
	}
	c.Min("O5 stores to Blocksizes/Data in FSNode methods", nO5, 1)
}

// ---------------------------------------------------------------------------
// round 2 additions

// c07DecodedFrom: fs is the FSNode view of proto node pn: the file field of the same FSNodeOverDag, or decoded in
// fn from pn's own Data (FSNodeFromBytes(pn.Data()) / ExtractFSNode(pn)).
func c07DecodedFrom(pn, fs ssa.Value, fDag, fFile *types.Var) bool {
	if f, base := c07FieldLoad(pn); f == fDag && fDag != nil {
		if f2, base2 := c07FieldLoad(fs); f2 == fFile && an.SameObj(base, base2) {
			return true
		}
	}
	for _, r := range an.Roots(fs, nil) {
		if call, ok := an.IsCallTo(r, an.M(c07FT, "", "FSNodeFromBytes")); ok {
			if dc, ok := an.IsCallTo(call.Call.Args[0], an.M(c07MD, "ProtoNode", "Data")); ok && (an.SameObj(an.Recv(dc), pn) || an.Recv(dc) == pn) {
				return true
			}
		}
		if call, ok := an.IsCallTo(r, an.M(c07FT, "", "ExtractFSNode")); ok {
			pnRoots := map[ssa.Value]bool{pn: true}
			for _, pr := range an.Roots(pn, nil) {
				pnRoots[pr] = true
			}
			for _, ar := range an.Roots(call.Call.Args[0], nil) {
				if pnRoots[ar] || an.SameObj(ar, pn) {
					return true
				}
			}
		}
	}
	return false
}

// c07DataReplacement (O1): the Data of an existing (possibly link-carrying) dag-pb node is replaced only by the
// re-serialisation of the complete FSNode decoded from that very node; a rebuilt message would drop fields
// (Blocksizes, mode, mtime ...).
func c07DataReplacement(c *an.Ctx, scope []*ssa.Function, fDag, fFile *types.Var) {
	n := 0
	for _, fn := range scope {
		for _, call := range an.Calls(fn, an.M(c07MD, "ProtoNode", "SetData")) {
			pn := an.Recv(call)
			if pn == nil || an.IsFresh(pn) {
				continue // a node created here has no links yet
			}
			n++
			arg := an.Args(call)[0]
			gb, ok := an.IsCallTo(arg, an.M(c07FT, "FSNode", "GetBytes"))
			okSrc := ok && c07DecodedFrom(pn, an.Recv(gb), fDag, fFile)
			what := "a value that is not FSNode.GetBytes()"
			if ok && !okSrc {
				what = "the bytes of an FSNode that was not decoded from this node"
			} else if cc, isCall := arg.(*ssa.Call); isCall {
				what = an.Callee(cc).String() + "(...)"
			} else if ex, isX := arg.(*ssa.Extract); isX {
				if cc, isCall := ex.Tuple.(*ssa.Call); isCall && !ok {
					what = an.Callee(cc).String() + "(...)"
				}
			}
			c.Check(okSrc, "O1", "R-FLOW", an.FuncName(fn), "SetData<=GetBytes(FSNode-of-same-node)", call.Pos(),
				"the node's Data is replaced by the re-serialised FSNode decoded from the same node (all fields survive)",
				"the Data of an existing dag-pb file node is replaced by "+what+" instead of the re-serialisation of the FSNode decoded from that node: fields the new message does not carry (Blocksizes of an internal node, mode, mtime) are lost — links without recorded child sizes break Seek and the size invariants")
		}
	}
	c.Min("O1 SetData on existing nodes", n, 1)
}

// c07CommitAfterMutations (O2): Commit() serialises the FSNode into the dag node; a child added/removed or data/metadata
// set afterwards on the same FSNodeOverDag never reaches the stored node.
func c07CommitAfterMutations(c *an.Ctx, scope []*ssa.Function, only func(*ssa.Function) bool) int {
	muts := []an.Matcher{an.M(c07H, "FSNodeOverDag", "AddChild"), an.M(c07H, "FSNodeOverDag", "RemoveChild"), an.M(c07H, "FSNodeOverDag", "SetFileData"), an.M(c07H, "FSNodeOverDag", "SetMode"), an.M(c07H, "FSNodeOverDag", "SetModTime"), an.M(c07H, "DagBuilderHelper", "FillNodeLayer")}
	n := 0
	for _, fn := range scope {
		if only != nil && !only(fn) {
			continue
		}
		for _, cm := range an.Calls(fn, an.M(c07H, "FSNodeOverDag", "Commit")) {
			x := an.Recv(cm)
			n++
			late := ""
			for _, m := range an.Calls(fn, muts...) {
				var tgt ssa.Value
				if an.Callee(m).Name == "FillNodeLayer" {
					tgt = an.Args(m)[0]
				} else {
					tgt = an.Recv(m)
				}
				if tgt == nil || !(tgt == x || an.SameObj(tgt, x)) {
					continue
				}
				if an.Reaches(fn, cm, m, nil, nil) {
					// a node re-created in each loop iteration is a different object: both calls must then lie in the cycle of its definition
					if def, ok := x.(ssa.Instruction); ok && an.XBInCycle(def.Block()) && !an.Reaches(fn, cm, m, nil, map[ssa.Instruction]bool{def: true}) {
						continue
					}
					late = an.Callee(m).Name
				}
			}
			c.Check(late == "", "O2", "R-POST", an.FuncName(fn), "Commit-after-last-mutation", cm.Pos(),
				"no child/data/metadata change of the node can follow its Commit()",
				"FSNodeOverDag."+late+" can run after Commit() of the same node: the committed dag node keeps the FSNode bytes taken before that change (stale Blocksizes/Filesize/metadata)")
		}
	}
	return n
}

// c07Drains: every success return of fn is reached only where db.Done() was tested true, or after a call to a
// package-local function that drains the same builder. Constant arguments are propagated into callees (a loop bound
// "maxDepth == -1 || i < maxDepth" is unbounded for the call f(..., -1)); the map argument is kept for compatibility.
func c07Drains(fn *ssa.Function, _ map[*ssa.Function]bool) (bool, *ssa.Return) {
	return c07DrainsK(fn, nil, 0)
}

func c07DrainsK(fn *ssa.Function, consts map[int]int64, depth int) (bool, *ssa.Return) {
	var db ssa.Value
	for _, p := range fn.Params {
		if an.TypeIs(p.Type(), c07H, "DagBuilderHelper") {
			db = p
		}
	}
	if db == nil || fn.Blocks == nil {
		return false, nil
	}
	var doneCalls []ssa.Value
	for _, call := range an.Calls(fn, an.M(c07H, "DagBuilderHelper", "Done")) {
		if v := an.CallValue(call); v != nil && an.SameObj(an.Recv(call), db) {
			doneCalls = append(doneCalls, v)
		}
	}
	cut := an.BoolEdges(fn, doneCalls, true)
	// edges that cannot be taken for the known constant parameters
	parIdx := map[ssa.Value]int{}
	for i, q := range fn.Params {
		parIdx[q] = i
	}
	for e, r := range an.XBEdgeRels(fn) {
		i, isPar := parIdx[r.X]
		k, isK := an.XBInt64(r.Y)
		v, known := consts[i]
		if !isPar || !isK || !known {
			continue
		}
		holds := false
		switch r.Op {
		case token.EQL:
			holds = v == k
		case token.NEQ:
			holds = v != k
		case token.LSS:
			holds = v < k
		case token.LEQ:
			holds = v <= k
		case token.GTR:
			holds = v > k
		case token.GEQ:
			holds = v >= k
		default:
			continue
		}
		if !holds {
			cut[e] = true
		}
	}
	blocked := map[ssa.Instruction]bool{}
	if depth < 3 {
		for _, call := range an.AllCalls(fn) {
			g := an.Callee(call).Static
			if g == nil || g == fn || g.Blocks == nil || g.Pkg == nil || fn.Pkg == nil || g.Pkg != fn.Pkg {
				continue
			}
			passes := false
			kc := map[int]int64{}
			for i, a := range call.Common().Args {
				if a == db || an.SameObj(a, db) {
					passes = true
				}
				if k, ok := an.XBInt64(a); ok {
					kc[i] = k
				} else if par, ok := a.(*ssa.Parameter); ok {
					// a parameter whose constant value is known in this context is handed on
					if j, ok := parIdx[par]; ok {
						if k, known := consts[j]; known {
							kc[i] = k
						}
					}
				}
			}
			if !passes {
				continue
			}
			if ok, _ := c07DrainsK(g, kc, depth+1); ok {
				blocked[call] = true
			}
		}
	}
	for _, r := range an.Returns(fn) {
		if c07IsFailureReturn(fn, r) {
			continue
		}
		if an.Reaches(fn, nil, r, cut, blocked) {
			return false, r
		}
	}
	return true, nil
}

// ---------------------------------------------------------------------------
// Round 7: unexported identifiers of the importer packages are resolved by role.

type c07Roles struct {
	fDag, fFile *types.Var    // FSNodeOverDag: the *merkledag.ProtoNode and the *unixfs.FSNode
	fMaxlinks   *types.Var    // DagBuilderHelper: the field Maxlinks() returns
	fFormat     *types.Var    // FSNode: the pb.Data message
	fillRec     *ssa.Function // trickle: the recursive filler Layout starts
	depthInfo   *ssa.Function // trickle: (node, int) -> (int, int)
	depthRepeat string        // the constant bounding the per-layer counter of the filler
}

func c07ResolveRoles(c *an.Ctx) *c07Roles {
	p := c.P
	r := &c07Roles{}
	if n := p.Named(c07H, "FSNodeOverDag"); n != nil {
		if st, ok := n.Underlying().(*types.Struct); ok {
			for i := 0; i < st.NumFields(); i++ {
				f := st.Field(i)
				if an.TypeIs(f.Type(), c07MD, "ProtoNode") {
					r.fDag = f
				}
				if an.TypeIs(f.Type(), c07FT, "FSNode") {
					r.fFile = f
				}
			}
		}
	}
	if m := p.Func(c07H, "DagBuilderHelper", "Maxlinks"); m != nil {
		for _, ret := range an.Returns(m) {
			if len(ret.Results) == 1 {
				if f, _ := c07FieldLoad(ret.Results[0]); f != nil {
					r.fMaxlinks = f
				}
			}
		}
	}
	if n := p.Named(c07FT, "FSNode"); n != nil {
		if st, ok := n.Underlying().(*types.Struct); ok {
			for i := 0; i < st.NumFields(); i++ {
				if an.TypeIs(st.Field(i).Type(), "ipld/unixfs/pb", "Data") {
					r.fFormat = st.Field(i)
				}
			}
		}
	}
	tfns := p.PkgFuncs(c07Tr)
	if len(tfns) == 0 {
		return r
	}
	g := an.XBLocalGraph(tfns)
	reachFrom := func(f *ssa.Function) map[*ssa.Function]bool {
		seen := map[*ssa.Function]bool{}
		var walk func(x *ssa.Function)
		walk = func(x *ssa.Function) {
			for _, call := range an.AllCalls(x) {
				if t := an.Callee(call).Static; t != nil && g.In[t] && !seen[t] {
					seen[t] = true
					walk(t)
				}
			}
		}
		walk(f)
		return seen
	}
	if lay := p.Func(c07Tr, "", "Layout"); lay != nil {
		for _, call := range an.AllCalls(lay) {
			if t := an.Callee(call).Static; t != nil && g.In[t] && t.Parent() == nil && reachFrom(t)[t] {
				r.fillRec = t
			}
		}
	}
	for _, fn := range tfns {
		sig := fn.Signature
		if fn.Parent() != nil || sig.Recv() != nil || sig.Params().Len() != 2 {
			continue
		}
		if sig.Results().Len() == 1 {
			// the (depth, repeat) pair carried in a small struct
			if st, ok := sig.Results().At(0).Type().Underlying().(*types.Struct); ok && st.NumFields() == 2 {
				b0, ok0 := st.Field(0).Type().Underlying().(*types.Basic)
				b1, ok1 := st.Field(1).Type().Underlying().(*types.Basic)
				if ok0 && ok1 && b0.Kind() == types.Int && b1.Kind() == types.Int && an.TypeIs(sig.Params().At(0).Type(), c07H, "FSNodeOverDag") {
					if b, ok := sig.Params().At(1).Type().Underlying().(*types.Basic); ok && b.Kind() == types.Int {
						r.depthInfo = fn
					}
				}
			}
			continue
		}
		if sig.Results().Len() != 2 {
			continue
		}
		isInt := func(t types.Type) bool {
			b, ok := t.Underlying().(*types.Basic)
			return ok && b.Kind() == types.Int
		}
		if an.TypeIs(sig.Params().At(0).Type(), c07H, "FSNodeOverDag") && isInt(sig.Params().At(1).Type()) && isInt(sig.Results().At(0).Type()) && isInt(sig.Results().At(1).Type()) {
			r.depthInfo = fn
		}
	}
	// the per-layer repeat constant: bound of the counter that guards the child-adding step of the filler (the step may
	// live in a helper the filler calls)
	if r.fillRec != nil {
		scope := reachFrom(r.fillRec)
		scope[r.fillRec] = true
		vals := map[string]bool{}
		for fn := range scope {
			for _, call := range an.Calls(fn, an.M(c07H, "FSNodeOverDag", "AddChild")) {
				if !an.XBInCycle(call.Block()) {
					continue
				}
				for e, rel := range an.XBEdgeRels(fn) {
					ph, isPhi := rel.X.(*ssa.Phi)
					k, isK := an.XBInt64(rel.Y)
					if !isPhi || !isK || rel.Op != token.LSS || !an.XBMustCross(fn, nil, call, e) {
						continue
					}
					// a counter: phi(init, phi+1)
					step := false
					for _, pe := range ph.Edges {
						if b, ok := pe.(*ssa.BinOp); ok && b.Op == token.ADD && b.X == ssa.Value(ph) {
							step = true
						}
					}
					if step {
						vals[fmt.Sprint(k)] = true
					}
					_ = e
				}
			}
		}
		if len(vals) == 1 {
			for v := range vals {
				r.depthRepeat = v
			}
		}
	}
	return r
}

// c07Round11: obligations added after mutation probing (round 11), all in the importer packages.
func c07Round11(c *an.Ctx) {
	p := c.P
	var fns []*ssa.Function
	for _, rel := range []string{c07H, c07Bal, c07Tr} {
		fns = append(fns, p.PkgFuncs(rel)...)
	}
	const fmtPkg = "github.com/ipfs/go-ipld-format"
	nSer, nLink, nNext, nRec := 0, 0, 0, 0
	for _, fn := range fns {
		name := an.FuncName(fn)
		// (a) serialised FSNode bytes reach the DAG node: after FSNode.GetBytes succeeded, every success return is preceded
		// by handing the bytes to ProtoNode.SetData / NodeWithData
		for _, call := range an.Calls(fn, an.M("ipld/unixfs", "FSNode", "GetBytes")) {
			bs := an.Result(call, 0)
			blocked := map[ssa.Instruction]bool{}
			for _, use := range an.AllCalls(fn) {
				ci := an.Callee(use)
				if !(ci.Name == "SetData" || ci.Name == "NodeWithData") {
					continue
				}
				for _, a := range use.Common().Args {
					for _, b := range bs {
						if a == b || an.Aliases(b)[a] {
							blocked[use] = true
						}
					}
				}
			}
			failE := an.NilEdges(fn, an.ErrResult(call), false)
			var bad *ssa.Return
			nSucc := 0
			for _, ret := range an.Returns(fn) {
				n := len(ret.Results)
				if n == 0 || !an.IsErrorType(ret.Results[n-1].Type()) || !an.IsNilConst(ret.Results[n-1]) {
					continue
				}
				if !an.Reaches(fn, call, ret, nil, nil) {
					continue
				}
				nSucc++
				// the bytes may also be the result itself
				direct := false
				for _, r := range ret.Results {
					for _, b := range bs {
						if r == b {
							direct = true
						}
					}
				}
				if !direct && an.Reaches(fn, call, ret, failE, blocked) {
					bad = ret
				}
			}
			if nSucc == 0 {
				continue
			}
			nSer++
			pos := call.Pos()
			if bad != nil {
				pos = bad.Pos()
			}
			c.Check(bad == nil, "O1", "R-POST", name, "GetBytes=>SetData-before-success", pos,
				"the serialised FSNode is stored into the DAG node before success is reported", "success is returned after FSNode.GetBytes without storing the bytes into the DAG node (SetData / NodeWithData): the node keeps stale Data (sizes, type, mode/mtime are lost)")
		}
		// (b) a child linked into a node is also added to the DAG service
		for _, call := range an.Calls(fn, an.M("ipld/merkledag", "ProtoNode", "AddNodeLink")) {
			args := an.Args(call)
			if len(args) < 2 {
				continue
			}
			child, isPar := args[1].(*ssa.Parameter)
			if !isPar {
				continue
			}
			hasDB := false
			for _, q := range fn.Params {
				if an.TypeIs(q.Type(), c07H, "DagBuilderHelper") {
					hasDB = true
				}
			}
			if !hasDB {
				continue
			}
			nLink++
			blocked := map[ssa.Instruction]bool{}
			for _, use := range an.AllCalls(fn) {
				ci := an.Callee(use)
				if ci.Name != "Add" {
					continue
				}
				for _, a := range use.Common().Args {
					if a == ssa.Value(child) {
						blocked[use] = true
					}
				}
			}
			failE := an.NilEdges(fn, an.ErrResult(call), false)
			ok := true
			for _, ret := range an.Returns(fn) {
				if an.Reaches(fn, call, ret, failE, blocked) {
					ok = false
				}
			}
			c.Check(ok, "O1", "R-POST", name, "AddNodeLink(child)=>Add(child)", call.Pos(),
				"a child linked into the node is handed to the DAG service", "a child is linked into the node but a return is reached without adding that child to the DAG service: the file cannot be read back (block not found)")
		}
		// (c) the chunk handed out by the builder is consumed: the function that returns the pending chunk clears it
		for _, ret := range an.Returns(fn) {
			if fn.Signature.Recv() == nil || !an.TypeIs(fn.Signature.Recv().Type(), c07H, "DagBuilderHelper") {
				continue
			}
			for _, r := range ret.Results {
				u, ok := r.(*ssa.UnOp)
				if !ok || u.Op != token.MUL {
					continue
				}
				f, base := an.FieldOf(u.X)
				if f == nil {
					continue
				}
				if sl, ok := f.Type().Underlying().(*types.Slice); !ok || !types.Identical(sl.Elem(), types.Typ[types.Byte]) {
					continue
				}
				nNext++
				var clears []ssa.Instruction
				for _, st := range an.StoresToField(fn, f, base) {
					if an.IsNilConst(st.Val) {
						clears = append(clears, st)
					}
				}
				okF, _ := an.MustFollow(fn, u, clears)
				c.Check(len(clears) > 0 && okF, "O2", "R-PAIR", name, "pending-chunk-returned=>cleared", ret.Pos(),
					"the pending chunk is cleared when it is handed out", "the pending chunk is returned without being cleared: the same chunk is handed out again on the next call (duplicated data, the import never ends)")
			}
		}
		// (d) the balanced filler descends one level per recursion: the depth handed to itself is its depth parameter - 1
		if fn.Pkg != nil && strings.HasSuffix(fn.Pkg.Pkg.Path(), c07Bal) {
			for _, call := range an.AllCalls(fn) {
				if an.Callee(call).Static != fn {
					continue
				}
				for i, a := range call.Common().Args {
					if i >= len(fn.Params) || !c06IsInt(fn.Params[i].Type()) {
						continue
					}
					nRec++
					b, ok := a.(*ssa.BinOp)
					k := int64(0)
					if ok {
						k, _ = an.XBInt64(b.Y)
					}
					c.Check(ok && b.Op == token.SUB && b.X == ssa.Value(fn.Params[i]) && k == 1, "O3", "R-CONST", name, "recursion-depth=depth-1", call.Pos(),
						"the recursive filler builds its children one level below itself", "the recursive filler hands itself a depth other than (its own depth - 1): leaves end up at different depths / the import fails for multi-level files")
				}
			}
		}
	}
	_ = fmtPkg
	c.Min("O1 serialisations of an FSNode in the importer", nSer, 1)
	// (b)-(d) are anchored on one particular shape (link and add in one function, direct self-recursion); a refactor may
	// legitimately move the pieces apart, in which case these obligations do not apply: no vacuity minimum for them.
	c.Note("round-11 shapes engaged: linked children %d, pending-chunk returns %d, direct recursive calls of the balanced filler %d", nLink, nNext, nRec)
}
