package props

import (
	"fmt"
	"go/constant"
	"go/token"
	"go/types"
	"sort"
	"strings"

	"golang.org/x/tools/go/ssa"

	"verif/checker/an"
)

func init() {
	register("C34", Prop{
		Pkgs: []string{"./bitswap/message", "./bitswap/message/pb"},
		Explain: "Decided (structural necessary conditions of 'v1/v0 round trip, decoded blocks self-certifying, malformed input rejected'): " +
			"O1 self-certification: in package bitswap/message every blocks.NewBlockWithCid gets the CID computed by prefix.Sum of the very bytes it wraps, on Sum's nil-error edge; every AddBlock in the package receives a block built by blocks.NewBlock or NewWantlistBlock (on its nil-error edge); every insertion into impl.blocks is keyed by Cid() of the inserted block; " +
			"O2 wire tables: every exported field of pb.Message, Message_Wantlist, Message_Wantlist_Entry, Message_Block, Message_BlockPresence is written by ToProtoV1 (Blocks: by ToProtoV0) and read by the decoder; each encoder store and each decoder hand-over pairs the wire field with the in-memory field of the same meaning (Priority/Cancel/WantType/SendDontHave/Cid<->Block, Data+Prefix of the same block, Cid+Type of the same presence, Full, PendingBytes), addEntry stores every parameter into one Entry field only; Clone and Reset cover every field of impl; every want-list entry literal built by an encoder carries, on every path on which it is returned, each wire field either stored from the entry field of the same meaning or holding a constant (explicit, or the implicit zero of a skipped store) that a guard on that same entry field proves equal — a fast path that drops a field under a condition on another field is a violation; " +
			"O3 error discipline: in every decoder function of the package (result list ends in error, first result a message/block) every call that can fail is followed by a success return only across its nil-error edge, and every error return carries a nil first result; every successful decode has read every top-level field of pb.Message (no fast path skipping a section); the pooled receive buffer is released only after its last use; " +
			"O4 blocks and block presences stay disjoint: inserting a block deletes the presence of the same CID, inserting a presence happens only where the block map was probed for the same CID and missed. " +
			"NOT decided: value equality of round-tripped entries (runtime), protobuf (un)marshalling itself, addEntry merge semantics for colliding CIDs, hash functions.",
		Assume:    []string{"google.golang.org/protobuf marshals/unmarshals the generated structs faithfully", "cid.Prefix.Sum hashes the bytes it is given", "unexported fields of message.impl are only reachable from package bitswap/message"},
		Technique: "SSA value provenance (R-FLOW), nil-edge dominance (R-DOM), writer/reader field tables (R-TABLE), coupled map mutation (R-PAIR)",
		Run:       runC34,
	})
}

const (
	c34Msg    = "bitswap/message"
	c34Pb     = "bitswap/message/pb"
	c34Cid    = "github.com/ipfs/go-cid"
	c34Blocks = "github.com/ipfs/go-block-format"
)

// c34PbRead: v is a read of an exported field of a generated pb struct, either
// a load of &x.F or a call of the generated getter x.GetF().
func c34PbRead(v ssa.Value) (*types.Var, ssa.Value) {
	switch x := v.(type) {
	case *ssa.UnOp:
		if x.Op != token.MUL {
			return nil, nil
		}
		f, base := an.FieldOf(x.X)
		if f != nil && f.Pkg() != nil && f.Pkg().Path() == an.Mod+"/"+c34Pb {
			return f, base
		}
	case *ssa.Call:
		ci := an.Callee(x)
		if ci.Pkg != an.Mod+"/"+c34Pb || ci.Recv == "" || !strings.HasPrefix(ci.Name, "Get") {
			return nil, nil
		}
		recv := an.Recv(x)
		if recv == nil {
			return nil, nil
		}
		t := recv.Type()
		if pt, ok := t.Underlying().(*types.Pointer); ok {
			t = pt.Elem()
		}
		st, ok := t.Underlying().(*types.Struct)
		if !ok {
			return nil, nil
		}
		for i := 0; i < st.NumFields(); i++ {
			if st.Field(i).Name() == strings.TrimPrefix(ci.Name, "Get") {
				return st.Field(i), recv
			}
		}
	}
	return nil, nil
}

// c34Closure: fn, its nested closures and every function of the same package it
// statically calls, transitively.
func c34Closure(fn *ssa.Function) []*ssa.Function {
	seen := map[*ssa.Function]bool{}
	var out []*ssa.Function
	var visit func(f *ssa.Function)
	visit = func(f *ssa.Function) {
		if f == nil || seen[f] || f.Blocks == nil {
			return
		}
		seen[f] = true
		out = append(out, f)
		for _, a := range f.AnonFuncs {
			visit(a)
		}
		for _, call := range an.AllCalls(f) {
			if g := an.Callee(call).Static; g != nil && g.Pkg != nil && fn.Pkg != nil && g.Pkg == fn.Pkg {
				visit(g)
			}
		}
	}
	visit(fn)
	return out
}

// c34PbWrites: pb struct fields stored to in the functions.
func c34PbWrites(fns []*ssa.Function) map[*types.Var][]*ssa.Store {
	out := map[*types.Var][]*ssa.Store{}
	for _, fn := range fns {
		an.Instrs(fn, func(in ssa.Instruction) {
			st, ok := in.(*ssa.Store)
			if !ok {
				return
			}
			f, _ := an.FieldOf(st.Addr)
			if f != nil && f.Pkg() != nil && f.Pkg().Path() == an.Mod+"/"+c34Pb && f.Exported() {
				out[f] = append(out[f], st)
			}
		})
	}
	return out
}

func c34PbReads(fns []*ssa.Function) map[*types.Var]bool {
	out := map[*types.Var]bool{}
	for _, fn := range fns {
		an.Instrs(fn, func(in ssa.Instruction) {
			if v, ok := in.(ssa.Value); ok {
				if f, _ := c34PbRead(v); f != nil {
					out[f] = true
				}
			}
		})
	}
	return out
}

// c34MapOfField: v is a load of field fld (a map) of some object.
func c34MapOfField(v ssa.Value, fld *types.Var) bool {
	u, ok := v.(*ssa.UnOp)
	if !ok || u.Op != token.MUL {
		return false
	}
	f, _ := an.FieldOf(u.X)
	return f == fld
}

// ---------------------------------------------------------------------------
// role-based resolution of the unexported parts of package bitswap/message

// c34MsgTypes returns the types.Package of bitswap/message (from source or export data).
func c34MsgTypes(p *an.Prog) *types.Package {
	if pk := p.Pkg(c34Msg); pk != nil {
		return pk.Types
	}
	if sp := p.SSA.ImportedPackage(an.Mod + "/" + c34Msg); sp != nil {
		return sp.Pkg
	}
	return nil
}

// c34ImplType: the concrete message type = the struct behind the result of the exported New.
func c34ImplType(p *an.Prog) *types.Named {
	tp := c34MsgTypes(p)
	if tp == nil {
		return nil
	}
	if f, ok := tp.Scope().Lookup("New").(*types.Func); ok {
		res := f.Type().(*types.Signature).Results()
		if res.Len() == 1 {
			t := res.At(0).Type()
			if pt, ok := t.(*types.Pointer); ok {
				t = pt.Elem()
			}
			if n, ok := types.Unalias(t).(*types.Named); ok {
				if _, isStruct := n.Underlying().(*types.Struct); isStruct {
					return n
				}
			}
		}
	}
	// fallback: the struct type of the package whose pointer implements BitSwapMessage
	iface, _ := tp.Scope().Lookup("BitSwapMessage").(*types.TypeName)
	if iface == nil {
		return nil
	}
	it, _ := iface.Type().Underlying().(*types.Interface)
	for _, name := range tp.Scope().Names() {
		tn, ok := tp.Scope().Lookup(name).(*types.TypeName)
		if !ok {
			continue
		}
		n, ok := tn.Type().(*types.Named)
		if !ok {
			continue
		}
		if _, isStruct := n.Underlying().(*types.Struct); isStruct && it != nil && types.Implements(types.NewPointer(n), it) {
			return n
		}
	}
	return nil
}

// c34ImplName: current name of the concrete message type ("impl" today).
func c34ImplName(p *an.Prog) string {
	if n := c34ImplType(p); n != nil {
		return n.Obj().Name()
	}
	return "impl"
}

// c34ImplFields resolves the fields of the concrete message type by their types.
func c34ImplFields(n *types.Named) (blocks, pres, pending, full, wl *types.Var) {
	if n == nil {
		return
	}
	st := n.Underlying().(*types.Struct)
	for i := 0; i < st.NumFields(); i++ {
		f := st.Field(i)
		switch t := f.Type().Underlying().(type) {
		case *types.Map:
			switch {
			case an.TypeIs(t.Elem(), c34Blocks, "Block"):
				blocks = f
			case an.TypeIs(t.Elem(), c34Pb, "Message_BlockPresenceType"):
				pres = f
			case an.TypeIs(t.Elem(), c34Msg, "Entry"):
				wl = f
			}
		case *types.Basic:
			switch t.Kind() {
			case types.Int32:
				pending = f
			case types.Bool:
				full = f
			}
		}
	}
	return
}

func runC34(c *an.Ctx) {
	p := c.P
	fns := p.PkgFuncs(c34Msg)
	if !c.Need(len(fns) > 0 && p.Pkg(c34Pb) != nil, "packages bitswap/message and bitswap/message/pb") {
		return
	}
	implT := c34ImplType(p)
	if !c.Need(implT != nil, "the concrete message type (result of message.New)") {
		return
	}
	implN := implT.Obj().Name()
	fBlocks, fPres, fPending, fFull, fWl := c34ImplFields(implT)
	if !c.Need(fBlocks != nil && fPres != nil && fPending != nil && fFull != nil && fWl != nil, "fields of the concrete message type: block map, presence map, int32 pending bytes, bool full flag, want-list map") {
		return
	}
	mNewBlock := an.M(c34Blocks, "", "NewBlock")
	mNewBlockWithCid := an.M(c34Blocks, "", "NewBlockWithCid")
	mNWB := an.M(c34Msg, "", "NewWantlistBlock")
	mSum := an.M(c34Cid, "Prefix", "Sum")
	mBlockCid := an.M(c34Blocks, "", "Cid")

	// ---------------------------------------------------------------- O1
	// (a) NewBlockWithCid(bs, k): k = prefix.Sum(bs) of the same bs, nil-edge
	nA := 0
	for _, fn := range fns {
		for _, call := range an.Calls(fn, mNewBlockWithCid) {
			nA++
			args := an.Args(call)
			name := an.FuncName(fn)
			ok, why := true, ""
			for _, r := range an.Roots(args[1], nil) {
				sum, isSum := an.IsCallTo(r, mSum)
				if e, isE := r.(*ssa.Extract); !isSum || !isE || e.Index != 0 {
					ok, why = false, "CID argument comes from "+an.PathOf(r)+", not from prefix.Sum(...)"
					break
				}
				if !an.SameObj(an.Args(sum)[0], args[0]) {
					ok, why = false, "CID is the hash of "+an.PathOf(an.Args(sum)[0])+" but the block wraps "+an.PathOf(args[0])
					break
				}
				if !an.OnNilEdgeOf(fn, sum, call.(ssa.Instruction)) {
					ok, why = false, "block is built although prefix.Sum may have failed (error not tested nil on this path)"
					break
				}
			}
			c.Check(ok, "O1", "R-FLOW", name, "NewBlockWithCid<=prefix.Sum(same-bytes)", call.Pos(),
				"block CID is prefix.Sum of the bytes wrapped, on Sum's nil-error edge",
				"blocks.NewBlockWithCid in the message codec: "+why+" — a decoded block could claim a CID its bytes do not hash to")
		}
	}
	c.Min("O1 NewBlockWithCid calls in bitswap/message", nA, 1)

	// (b) every AddBlock in the package receives a self-certified block
	var certified func(fn *ssa.Function, v ssa.Value, site ssa.Instruction, depth int) (bool, string)
	certified = func(fn *ssa.Function, v ssa.Value, site ssa.Instruction, depth int) (bool, string) {
		rs := an.Roots(v, nil)
		if len(rs) == 0 {
			return false, "no producer found"
		}
		for _, r := range rs {
			if _, ok := an.IsCallTo(r, mNewBlock); ok {
				continue
			}
			if call, ok := an.IsCallTo(r, mNWB); ok {
				if e, isE := r.(*ssa.Extract); isE && e.Index == 0 {
					if site != nil && !an.OnNilEdgeOf(fn, call, site) {
						return false, "result of NewWantlistBlock used although its error was not tested nil"
					}
					continue
				}
			}
			if par, ok := r.(*ssa.Parameter); ok && depth < 2 && fn.Object() != nil && !fn.Object().Exported() {
				// unexported helper: every call site in the package must pass a certified block
				idx := -1
				for i, q := range fn.Params {
					if q == par {
						idx = i
					}
				}
				n := 0
				good := true
				why := ""
				for _, g := range fns {
					for _, cs := range an.AllCalls(g) {
						if an.Callee(cs).Static != fn || idx >= len(cs.Common().Args) {
							continue
						}
						n++
						if ok2, w := certified(g, cs.Common().Args[idx], cs.(ssa.Instruction), depth+1); !ok2 {
							good, why = false, w
						}
					}
				}
				if n > 0 && good {
					continue
				}
				if why == "" {
					why = "block parameter " + par.Name() + " of a helper without certified callers"
				}
				return false, why
			}
			return false, "block comes from " + an.PathOf(r) + " (neither blocks.NewBlock(data) nor NewWantlistBlock(data, _, prefix))"
		}
		return true, ""
	}
	nB := 0
	for _, fn := range fns {
		for _, call := range an.Calls(fn, an.M(c34Msg, implN, "AddBlock"), an.M(c34Msg, "BitSwapMessage", "AddBlock")) {
			nB++
			ok, why := certified(fn, an.Args(call)[0], call.(ssa.Instruction), 0)
			c.Check(ok, "O1", "R-FLOW", an.FuncName(fn), "AddBlock<=NewBlock|NewWantlistBlock", call.Pos(),
				"block added while decoding is built from its own data (NewBlock / NewWantlistBlock)",
				"AddBlock in the message codec: "+why+" — the block's CID is not recomputed from its bytes")
		}
	}
	c.Min("O1 AddBlock calls in bitswap/message", nB, 2)

	// (c) insertions into impl.blocks keyed by Cid() of the inserted block
	nC := 0
	for _, fn := range fns {
		an.Instrs(fn, func(in ssa.Instruction) {
			mu, ok := in.(*ssa.MapUpdate)
			if !ok || !c34MapOfField(mu.Map, fBlocks) {
				return
			}
			nC++
			kc, isCid := an.IsCallTo(mu.Key, mBlockCid)
			good := isCid && an.Recv(kc) != nil && an.SameObj(an.Recv(kc), mu.Value)
			c.Check(good, "O1", "R-FLOW", an.FuncName(fn), "blocks[b.Cid()]=b", mu.Pos(),
				"block map keyed by the block's own CID",
				"insertion into impl.blocks under key "+an.PathOf(mu.Key)+" which is not Cid() of the stored block: blocks would be sent/looked up under a foreign CID")
		})
	}
	c.Min("O1 insertions into impl.blocks", nC, 1)

	// ---------------------------------------------------------------- O2 tables
	pbStructs := []string{"Message", "Message_Wantlist", "Message_Wantlist_Entry", "Message_Block", "Message_BlockPresence"}
	pbField := func(typ, name string) *types.Var { return p.Field(c34Pb, typ, name) }
	var decoders []*ssa.Function
	for _, fn := range fns {
		if fn.Parent() != nil || fn.Signature.Recv() != nil {
			continue
		}
		sig := fn.Signature
		hasPb, retMsg := false, false
		for i := 0; i < sig.Params().Len(); i++ {
			if an.TypeIs(sig.Params().At(i).Type(), c34Pb, "Message") {
				hasPb = true
			}
		}
		for i := 0; i < sig.Results().Len(); i++ {
			if an.TypeIs(sig.Results().At(i).Type(), c34Msg, "BitSwapMessage") {
				retMsg = true
			}
		}
		if hasPb && retMsg {
			decoders = append(decoders, fn)
		}
	}
	v1, v0, toPB := p.Func(c34Msg, implN, "ToProtoV1"), p.Func(c34Msg, implN, "ToProtoV0"), p.Func(c34Msg, "Entry", "ToPB")
	// the merge routine behind AddEntry/Cancel: the method of the message type that the exported AddEntry calls
	newFn := p.Func(c34Msg, "", "New")
	var addEntry *ssa.Function
	if ae := p.Func(c34Msg, implN, "AddEntry"); ae != nil {
		for _, call := range an.AllCalls(ae) {
			if g := an.Callee(call).Static; g != nil && g.Signature.Recv() != nil && an.TypeIs(g.Signature.Recv().Type(), c34Msg, implN) && g.Object() != nil && !g.Object().Exported() && len(g.Params) >= 3 {
				addEntry = g
			}
		}
	}
	if !c.Need(len(decoders) >= 1 && v1 != nil && v0 != nil && toPB != nil && addEntry != nil && newFn != nil, "decoder func(*pb.Message) BitSwapMessage, impl.ToProtoV1, impl.ToProtoV0, Entry.ToPB, impl.addEntry, New") {
		return
	}
	var decClosure []*ssa.Function
	for _, d := range decoders {
		decClosure = append(decClosure, c34Closure(d)...)
	}
	w1, w0, rd := c34PbWrites(c34Closure(v1)), c34PbWrites(c34Closure(v0)), c34PbReads(decClosure)
	nT := 0
	for _, sn := range pbStructs {
		n := p.Named(c34Pb, sn)
		if !c.Need(n != nil, "pb."+sn) {
			return
		}
		st := n.Underlying().(*types.Struct)
		for i := 0; i < st.NumFields(); i++ {
			f := st.Field(i)
			if !f.Exported() {
				continue
			}
			nT++
			cons := sn + "." + f.Name()
			v0only := sn == "Message" && f.Name() == "Blocks"
			if v0only {
				c.Check(len(w0[f]) > 0, "O2", "R-TABLE", an.FuncName(v0), "v0-writes-"+cons, v0.Pos(),
					"legacy block list written by ToProtoV0", "ToProtoV0 no longer writes pb.Message.Blocks: v0 peers receive no block bytes")
			} else {
				c.Check(len(w1[f]) > 0, "O2", "R-TABLE", an.FuncName(v1), "v1-writes-"+cons, v1.Pos(),
					"wire field written by ToProtoV1", "wire field pb."+cons+" is never written by ToProtoV1 (nor by a function it calls): that part of the message is lost on the wire")
			}
			if sn == "Message_Wantlist" || sn == "Message_Wantlist_Entry" || (sn == "Message" && f.Name() == "Wantlist") {
				c.Check(len(w0[f]) > 0, "O2", "R-TABLE", an.FuncName(v0), "v0-writes-"+cons, v0.Pos(),
					"want-list field written by ToProtoV0", "want-list field pb."+cons+" is never written by ToProtoV0: v0 format loses want-list data")
			}
			c.Check(rd[f], "O2", "R-TABLE", an.FuncName(decoders[0]), "decoder-reads-"+cons, decoders[0].Pos(),
				"wire field read back by the decoder", "wire field pb."+cons+" is written by the encoder but never read by the decoder: it does not survive a round trip")
		}
	}
	c.Min("O2 exported pb fields", nT, 16)

	// encoder value agreement
	type undec struct {
		fn   *ssa.Function
		what string
	}
	var undecided []undec
	encCheck := func(enc *ssa.Function, writes map[*types.Var][]*ssa.Store) {
		// group Message_Block / Message_BlockPresence stores by literal
		for _, sn := range pbStructs {
			n := p.Named(c34Pb, sn)
			st := n.Underlying().(*types.Struct)
			for i := 0; i < st.NumFields(); i++ {
				f := st.Field(i)
				for _, s := range writes[f] {
					fn := s.Parent()
					name := an.FuncName(fn)
					cons := "encode-" + sn + "." + f.Name()
					switch {
					case sn == "Message_Wantlist_Entry" && f.Name() == "Block":
						call, ok := an.IsCallTo(s.Val, an.M(c34Cid, "Cid", "Bytes"))
						if !ok {
							if what, foreign := c34ForeignCall(s.Val); foreign {
								c.Bad("O2", "R-TABLE", name, cons, s.Pos(), "wire field Block of a want-list entry is encoded with "+what+" instead of entry.Cid.Bytes(): the receiver cannot rebuild the same CID")
								continue
							}
							undecided = append(undecided, undec{fn, cons})
							continue
						}
						last, rec := an.LastComp(an.Recv(call))
						if !rec {
							undecided = append(undecided, undec{fn, cons})
							continue
						}
						c.Check(last == "Cid", "O2", "R-TABLE", name, cons, s.Pos(), "Block = entry.Cid.Bytes()",
							"wire field Block is encoded from "+an.PathOf(an.Recv(call))+" instead of the entry's Cid")
					case sn == "Message_Wantlist_Entry":
						if _, isConst := s.Val.(*ssa.Const); isConst {
							continue // a constant: decided per path by the entry-encoder rule below (value known from a guard on the same field)
						}
						last, rec := an.LastComp(s.Val)
						if !rec {
							undecided = append(undecided, undec{fn, cons})
							continue
						}
						c.Check(last == f.Name(), "O2", "R-TABLE", name, cons, s.Pos(), "wire field encoded from the entry field of the same name",
							"wire field "+f.Name()+" of a want-list entry is encoded from "+an.PathOf(s.Val)+": the decoded entry differs from the one sent")
					case sn == "Message_Block" && f.Name() == "Data":
						// paired with Prefix of the same literal
						_, lit := an.FieldOf(s.Addr)
						data, ok := an.IsCallTo(s.Val, an.M(c34Blocks, "", "RawData"))
						var pre *ssa.Store
						for _, s2 := range writes[pbField("Message_Block", "Prefix")] {
							if _, l2 := an.FieldOf(s2.Addr); l2 == lit {
								pre = s2
							}
						}
						if !ok || pre == nil {
							if what, foreign := c34ForeignCall(s.Val); !ok && foreign {
								c.Bad("O2", "R-TABLE", name, "encode-Message_Block.Data+Prefix", s.Pos(), "v1 payload Data is encoded with "+what+" instead of the block's RawData(): the receiver rebuilds a block from other bytes")
								continue
							}
							undecided = append(undecided, undec{fn, cons})
							continue
						}
						good, why := false, "Prefix is not <block>.Cid().Prefix().Bytes()"
						if b1, ok := an.IsCallTo(pre.Val, an.M(c34Cid, "Prefix", "Bytes")); ok {
							if b2, ok := an.IsCallTo(an.Recv(b1), an.M(c34Cid, "Cid", "Prefix")); ok {
								if b3, ok := an.IsCallTo(an.Recv(b2), mBlockCid); ok {
									if an.SameObj(an.Recv(b3), an.Recv(data)) {
										good = true
									} else {
										why = "Data comes from block " + an.PathOf(an.Recv(data)) + " but Prefix from block " + an.PathOf(an.Recv(b3))
									}
								}
							}
						}
						c.Check(good, "O2", "R-TABLE", name, "encode-Message_Block.Data+Prefix", s.Pos(), "payload Data and Prefix come from the same block",
							"v1 payload: "+why+" — the receiver recomputes a different CID for these bytes")
					case sn == "Message_BlockPresence" && f.Name() == "Cid":
						_, lit := an.FieldOf(s.Addr)
						var typ *ssa.Store
						for _, s2 := range writes[pbField("Message_BlockPresence", "Type")] {
							if _, l2 := an.FieldOf(s2.Addr); l2 == lit {
								typ = s2
							}
						}
						call, ok := an.IsCallTo(s.Val, an.M(c34Cid, "Cid", "Bytes"))
						if !ok || typ == nil {
							undecided = append(undecided, undec{fn, cons})
							continue
						}
						k, okK := an.Recv(call).(*ssa.Extract)
						v, okV := typ.Val.(*ssa.Extract)
						if _, isConst := typ.Val.(*ssa.Const); okK && isConst {
							c.Bad("O2", "R-TABLE", name, cons+"+Type", s.Pos(), "v1 block presence Type is a constant instead of the type stored for that CID: every presence is decoded as the same kind (HAVE / DONT_HAVE confused)")
							continue
						}
						if !okK || !okV {
							undecided = append(undecided, undec{fn, cons})
							continue
						}
						nx, okN := k.Tuple.(*ssa.Next)
						good := okN && v.Tuple == k.Tuple && k.Index == 1 && v.Index == 2
						if good {
							rg, okR := nx.Iter.(*ssa.Range)
							good = okR && c34MapOfField(rg.X, fPres)
						}
						c.Check(good, "O2", "R-TABLE", name, "encode-Message_BlockPresence.Cid+Type", s.Pos(), "presence Cid and Type are key and value of the same blockPresences entry",
							"v1 block presence is not encoded from key and value of one entry of impl.blockPresences: HAVE/DONT_HAVE is attributed to the wrong CID")
					case sn == "Message" && f.Name() == "PendingBytes":
						good := false
						if u, ok := s.Val.(*ssa.UnOp); ok && u.Op == token.MUL {
							if ff, _ := an.FieldOf(u.X); ff == fPending {
								good = true
							}
						}
						if call, ok := an.IsCallTo(s.Val, an.M(c34Msg, implN, "PendingBytes")); ok && call != nil {
							if g := an.Callee(call).Static; g != nil {
								good = true
								for _, r := range an.Returns(g) {
									u, ok := r.Results[0].(*ssa.UnOp)
									if !ok {
										good = false
										continue
									}
									if ff, _ := an.FieldOf(u.X); ff != fPending {
										good = false
									}
								}
							}
						}
						c.Check(good, "O2", "R-TABLE", name, cons, s.Pos(), "PendingBytes encoded from impl.pendingBytes",
							"wire field PendingBytes is encoded from "+an.PathOf(s.Val)+", not from impl.pendingBytes")
					case sn == "Message_Wantlist" && f.Name() == "Full":
						good := false
						if u, ok := s.Val.(*ssa.UnOp); ok && u.Op == token.MUL {
							if ff, _ := an.FieldOf(u.X); ff == fFull {
								good = true
							}
						}
						if call, ok := an.IsCallTo(s.Val, an.M(c34Msg, implN, "Full")); ok && call != nil {
							good = true
						}
						c.Check(good, "O2", "R-TABLE", name, cons+"@"+enc.Name(), s.Pos(), "Full encoded from impl.full",
							"wire field Wantlist.Full is encoded from "+an.PathOf(s.Val)+", not from impl.full: a patch want-list is taken for an authoritative one or vice versa")
					}
				}
			}
		}
	}
	encCheck(v1, w1)
	// ToProtoV0 shares ToPB; only its Full store is distinct
	w0only := map[*types.Var][]*ssa.Store{}
	if f := pbField("Message_Wantlist", "Full"); f != nil {
		w0only[f] = w0[f]
	}
	encCheck(v0, w0only)

	c34EntryEncoders(c, fns)

	// addEntry: slot -> Entry field mapping. A slot is a parameter of the merge routine, or a field of
	// a parameter of a package-local struct type (the settings may be carried in a small struct).
	type slot struct {
		par *ssa.Parameter
		fld *types.Var
	}
	slotName := func(sl slot) string {
		if sl.fld != nil {
			return sl.par.Name() + "." + sl.fld.Name()
		}
		return sl.par.Name()
	}
	slotOf := func(v ssa.Value) (slot, bool) {
		switch x := v.(type) {
		case *ssa.Parameter:
			return slot{x, nil}, true
		case *ssa.Field:
			if par, ok := x.X.(*ssa.Parameter); ok {
				f, _ := an.FieldOf(x)
				return slot{par, f}, true
			}
		case *ssa.UnOp:
			if x.Op == token.MUL {
				if fa, ok := x.X.(*ssa.FieldAddr); ok {
					f, base := an.FieldOf(fa)
					var par *ssa.Parameter
					switch bb := base.(type) {
					case *ssa.Parameter: // pointer to the settings struct
						par = bb
					case *ssa.Alloc: // by-value parameter spilled into a cell
						n := 0
						for _, r := range *bb.Referrers() {
							if st, ok := r.(*ssa.Store); ok && st.Addr == ssa.Value(bb) {
								n++
								par, _ = st.Val.(*ssa.Parameter)
							}
						}
						if n != 1 {
							par = nil
						}
					}
					if par != nil && par.Parent() == addEntry {
						return slot{par, f}, true
					}
				}
			}
		}
		return slot{}, false
	}
	parField := map[slot]*types.Var{}
	fieldPar := map[*types.Var]slot{}
	mapOK := true
	an.Instrs(addEntry, func(in ssa.Instruction) {
		st, ok := in.(*ssa.Store)
		if !ok {
			return
		}
		sl, ok := slotOf(st.Val)
		if !ok {
			return
		}
		f, _ := an.FieldOf(st.Addr)
		if f == nil {
			return
		}
		if prev, ok := parField[sl]; ok && prev != f {
			mapOK = false
			c.Bad("O2", "R-TABLE", an.FuncName(addEntry), "param=>one-field", st.Pos(),
				fmt.Sprintf("the merge routine stores %s into Entry.%s and Entry.%s: merged entries mix up two attributes", slotName(sl), prev.Name(), f.Name()))
			return
		}
		if prev, ok := fieldPar[f]; ok && prev != sl {
			mapOK = false
			c.Bad("O2", "R-TABLE", an.FuncName(addEntry), "field-"+f.Name()+"<=one-param", st.Pos(),
				fmt.Sprintf("the merge routine stores both %s and %s into Entry.%s: merged entries mix up two attributes", slotName(prev), slotName(sl), f.Name()))
			return
		}
		parField[sl], fieldPar[f] = f, sl
	})
	if mapOK {
		var names []string
		for f := range fieldPar {
			names = append(names, f.Name())
		}
		sort.Strings(names)
		want := []string{"Cancel", "Cid", "Priority", "SendDontHave", "WantType"}
		c.Check(strings.Join(names, ",") == strings.Join(want, ","), "O2", "R-TABLE", an.FuncName(addEntry), "params=>Entry-fields", addEntry.Pos(),
			"the merge routine stores each of its inputs into exactly one of Cid, Priority, WantType, Cancel, SendDontHave",
			"the merge routine fills Entry fields {"+strings.Join(names, ",")+"} from its inputs, expected {"+strings.Join(want, ",")+"}: an attribute of a want is dropped or doubled")
	}
	// a NEW entry gets every attribute: the fresh Entry literal of the merge routine is filled from the
	// inputs for all five fields (the merge branch for existing entries may legitimately skip some)
	{
		fresh := map[string]bool{}
		an.Instrs(addEntry, func(in ssa.Instruction) {
			st, ok := in.(*ssa.Store)
			if !ok {
				return
			}
			if _, isSlot := slotOf(st.Val); !isSlot {
				return
			}
			f, base := an.FieldOf(st.Addr)
			if f != nil && an.IsFresh(base) {
				fresh[f.Name()] = true
			}
		})
		var missing []string
		for _, w := range []string{"Cancel", "Cid", "Priority", "SendDontHave", "WantType"} {
			if !fresh[w] {
				missing = append(missing, w)
			}
		}
		c.Check(len(missing) == 0, "O2", "R-TABLE", an.FuncName(addEntry), "new-entry<=all-inputs", addEntry.Pos(),
			"a newly created entry takes Cid, Priority, WantType, Cancel and SendDontHave from the inputs",
			"the entry created for a CID not yet in the message does not take {"+strings.Join(missing, ",")+"} from the inputs of the merge routine: every first want/cancel for a CID loses that attribute, on the wire and after decoding")
	}
	// value handed over for a slot at a call site: the argument, or the value stored into the field of
	// the settings literal passed as argument (nil = field left at its zero value)
	slotArg := func(args []ssa.Value, sl slot) (ssa.Value, bool) {
		idx := -1
		for i, q := range addEntry.Params {
			if q == sl.par {
				idx = i
			}
		}
		if idx < 0 || idx >= len(args) {
			return nil, false
		}
		a := args[idx]
		if sl.fld == nil {
			return a, true
		}
		var lit *ssa.Alloc
		switch x := a.(type) {
		case *ssa.UnOp:
			if x.Op == token.MUL {
				lit, _ = x.X.(*ssa.Alloc)
			}
		case *ssa.Alloc:
			lit = x
		}
		if lit == nil {
			return nil, false
		}
		var val ssa.Value
		for _, r := range *lit.Referrers() {
			fa, ok := r.(*ssa.FieldAddr)
			if !ok {
				continue
			}
			if f, _ := an.FieldOf(fa); f != sl.fld {
				continue
			}
			for _, r2 := range *fa.Referrers() {
				if st, ok := r2.(*ssa.Store); ok && st.Addr == ssa.Value(fa) {
					val = st.Val
				}
			}
		}
		return val, true
	}

	// decoder hand-over agreement
	nD := 0
	for _, fn := range decClosure {
		name := an.FuncName(fn)
		for _, call := range an.Calls(fn, an.M(c34Msg, implN, addEntry.Name())) {
			nD++
			args := call.Common().Args // incl. receiver
			var base ssa.Value
			var slots []slot
			for sl := range parField {
				slots = append(slots, sl)
			}
			sort.Slice(slots, func(i, j int) bool { return parField[slots[i]].Name() < parField[slots[j]].Name() })
			for _, sl := range slots {
				if sl.par == addEntry.Params[0] {
					continue
				}
				tf := parField[sl]
				cons := "decode-entry-" + tf.Name()
				a, okA := slotArg(args, sl)
				if !okA {
					undecided = append(undecided, undec{fn, cons})
					continue
				}
				if a == nil {
					c.Bad("O2", "R-TABLE", name, cons, call.Pos(), "decoder leaves "+tf.Name()+" of a decoded want at its zero value instead of taking it from the wire entry")
					continue
				}
				wantWire := tf.Name()
				if tf.Name() == "Cid" {
					wantWire = "Block"
					cast, ok := an.IsCallTo(a, an.M(c34Cid, "", "Cast"))
					if !ok {
						undecided = append(undecided, undec{fn, cons})
						continue
					}
					a = an.Args(cast)[0]
				}
				wf, b := c34PbRead(a)
				if wf == nil {
					if _, isConst := a.(*ssa.Const); !isConst {
						undecided = append(undecided, undec{fn, cons})
						continue
					}
					c.Bad("O2", "R-TABLE", name, cons, call.Pos(), "decoder passes the constant "+a.String()+" as "+tf.Name()+" of a decoded want instead of the wire field "+wantWire)
					continue
				}
				same := base == nil || an.SameObj(base, b)
				if base == nil {
					base = b
				}
				c.Check(wf.Name() == wantWire && same, "O2", "R-TABLE", name, cons, call.Pos(), "Entry."+tf.Name()+" decoded from wire field "+wantWire+" of the same entry",
					fmt.Sprintf("decoder fills Entry.%s from wire field %s (same wire entry: %v), expected %s: the decoded want differs from the one sent", tf.Name(), wf.Name(), same, wantWire))
			}
		}
		for _, call := range an.Calls(fn, an.M(c34Msg, implN, "AddBlockPresence"), an.M(c34Msg, "BitSwapMessage", "AddBlockPresence")) {
			nD++
			args := an.Args(call)
			cast, ok := an.IsCallTo(args[0], an.M(c34Cid, "", "Cast"))
			if !ok {
				undecided = append(undecided, undec{fn, "decode-presence"})
				continue
			}
			f1, b1 := c34PbRead(an.Args(cast)[0])
			f2, b2 := c34PbRead(args[1])
			if f1 == nil || f2 == nil {
				undecided = append(undecided, undec{fn, "decode-presence"})
				continue
			}
			c.Check(f1.Name() == "Cid" && f2.Name() == "Type" && an.SameObj(b1, b2), "O2", "R-TABLE", name, "decode-presence-Cid+Type", call.Pos(),
				"presence decoded from Cid and Type of the same wire record",
				"block presence decoded from wire fields "+f1.Name()+"/"+f2.Name()+" of "+an.PathOf(b1)+"/"+an.PathOf(b2)+": HAVE/DONT_HAVE attributed to the wrong CID")
		}
		for _, call := range an.Calls(fn, mNWB) {
			nD++
			args := an.Args(call)
			f1, b1 := c34PbRead(args[0])
			pfb, ok := an.IsCallTo(args[2], an.M(c34Cid, "", "PrefixFromBytes"))
			if f1 == nil || !ok {
				undecided = append(undecided, undec{fn, "decode-payload"})
				continue
			}
			f2, b2 := c34PbRead(an.Args(pfb)[0])
			if f2 == nil {
				undecided = append(undecided, undec{fn, "decode-payload"})
				continue
			}
			c.Check(f1.Name() == "Data" && f2.Name() == "Prefix" && an.SameObj(b1, b2), "O2", "R-TABLE", name, "decode-payload-Data+Prefix", call.Pos(),
				"payload block rebuilt from Data and Prefix of the same wire record",
				"payload block rebuilt from wire fields "+f1.Name()+"/"+f2.Name()+" of "+an.PathOf(b1)+"/"+an.PathOf(b2)+": block bytes are paired with another block's prefix")
		}
		for _, call := range an.Calls(fn, mNewBlock) {
			nD++
			good := false
			for _, r := range an.Roots(an.Args(call)[0], nil) {
				if u, ok := r.(*ssa.UnOp); ok && u.Op == token.MUL {
					if ia, ok := u.X.(*ssa.IndexAddr); ok {
						if f, _ := c34PbRead(ia.X); f != nil && f.Name() == "Blocks" {
							good = true
							continue
						}
					}
				}
				good = false
				break
			}
			c.Check(good, "O2", "R-TABLE", name, "decode-v0-Blocks", call.Pos(), "v0 blocks rebuilt from the elements of pb.Message.Blocks",
				"v0 decoder builds a block from "+an.PathOf(an.Args(call)[0])+", not from an element of pb.Message.Blocks")
		}
		for _, st := range an.FieldStores(fn, fPending) {
			nD++
			f, _ := c34PbRead(st.Val)
			c.Check(f != nil && f.Name() == "PendingBytes", "O2", "R-TABLE", name, "decode-PendingBytes", st.Pos(), "pendingBytes decoded from wire field PendingBytes",
				"decoder stores "+an.PathOf(st.Val)+" into impl.pendingBytes instead of the wire field PendingBytes")
		}
		for _, call := range an.Calls(fn, an.M(c34Msg, implN, "SetPendingBytes")) {
			nD++
			f, _ := c34PbRead(an.Args(call)[0])
			c.Check(f != nil && f.Name() == "PendingBytes", "O2", "R-TABLE", name, "decode-PendingBytes", call.Pos(), "pendingBytes decoded from wire field PendingBytes",
				"decoder sets pending bytes from "+an.PathOf(an.Args(call)[0])+" instead of the wire field PendingBytes")
		}
		for _, call := range an.Calls(fn, an.M(c34Msg, "", "New")) {
			nD++
			seenFull, good := false, true
			for _, r := range an.Roots(an.Args(call)[0], nil) {
				if k, ok := an.ConstOf(r); ok && k.String() == "false" {
					continue
				}
				if f, _ := c34PbRead(r); f != nil && f.Name() == "Full" {
					seenFull = true
					continue
				}
				good = false
			}
			c.Check(good && seenFull, "O2", "R-TABLE", name, "decode-Full", call.Pos(), "full flag decoded from wire field Wantlist.Full (false when no want-list)",
				"decoder creates the message with a full flag that is not the wire field Wantlist.Full: a patch want-list is taken for an authoritative one or vice versa")
		}
	}
	c.Min("O2 decoder hand-over sites", nD, 6)
	// New(full) stores its parameter into impl.full
	{
		good := false
		for _, st := range an.FieldStores(newFn, fFull) {
			if par, ok := st.Val.(*ssa.Parameter); ok && par == newFn.Params[0] {
				good = true
			}
		}
		c.Check(good, "O2", "R-TABLE", an.FuncName(newFn), "New(full)=>impl.full", newFn.Pos(), "New stores its argument into impl.full", "New(full) does not store its argument into impl.full")
	}
	for _, u := range undecided {
		c.Problem("undecided: %s in %s has a shape the C34 table rule does not understand", u.what, an.FuncName(u.fn))
	}

	// Clone / Reset cover every field of impl
	roleOf := func(f *types.Var) string { // rename-proof names for obligation keys
		switch f {
		case fBlocks:
			return "blocks"
		case fPres:
			return "blockPresences"
		case fPending:
			return "pendingBytes"
		case fFull:
			return "full"
		case fWl:
			return "wantlist"
		}
		return f.Name()
	}
	if clone, reset := p.Func(c34Msg, implN, "Clone"), p.Func(c34Msg, implN, "Reset"); c.Need(implT != nil && clone != nil && reset != nil, "impl, impl.Clone, impl.Reset") {
		st := implT.Underlying().(*types.Struct)
		for i := 0; i < st.NumFields(); i++ {
			f := st.Field(i)
			// Clone: store into a fresh impl
			cl := false
			for _, s := range an.FieldStores(clone, f) {
				_, base := an.FieldOf(s.Addr)
				if an.IsFresh(base) {
					// value must derive from the same field of the receiver
					ok := false
					for _, l := range an.FieldReads(clone, f) {
						if u, isU := l.(*ssa.UnOp); isU {
							if _, b := an.FieldOf(u.X); b == clone.Params[0] {
								ok = ok || l == s.Val
								if call, isCall := s.Val.(*ssa.Call); isCall {
									for _, a := range call.Call.Args {
										ok = ok || a == l
									}
								}
							}
						}
					}
					cl = cl || ok
				}
			}
			c.Check(cl, "O2", "R-TABLE", an.FuncName(clone), "Clone-covers-"+roleOf(f), clone.Pos(), "Clone copies the field from the receiver",
				"impl.Clone does not copy field "+f.Name()+" from the receiver: a cloned message loses or mixes up that part")
			rs := len(an.StoresToField(reset, f, reset.Params[0])) > 0
			for _, call := range an.Calls(reset, an.M("builtin", "", "clear")) {
				if c34MapOfField(call.Common().Args[0], f) {
					rs = true
				}
			}
			c.Check(rs, "O2", "R-TABLE", an.FuncName(reset), "Reset-covers-"+roleOf(f), reset.Pos(), "Reset clears the field",
				"impl.Reset does not reset field "+f.Name()+": a reused message carries stale "+f.Name()+" into the next send")
		}
	}

	// ---------------------------------------------------------------- O2 framing: the length prefix
	// is the size of the very message that is marshalled behind it (the reader takes exactly that
	// many bytes as the message)
	for _, fn := range p.PkgFuncs(c34Msg) {
		for _, put := range an.Calls(fn, an.M("encoding/binary", "", "PutUvarint"), an.M("encoding/binary", "", "AppendUvarint")) {
			args := an.Args(put)
			if len(args) != 2 {
				continue
			}
			isMarshal := func(v ssa.Value) (ssa.CallInstruction, bool) {
				if e, ok := v.(*ssa.Extract); ok {
					v = e.Tuple
				}
				call, ok := v.(*ssa.Call)
				if !ok {
					return nil, false
				}
				ci := an.Callee(call)
				return call, strings.HasSuffix(ci.Pkg, "protobuf/proto") && strings.HasPrefix(ci.Name, "Marshal")
			}
			var marshalled []ssa.Value
			for _, call := range an.AllCalls(fn) {
				ci := an.Callee(call)
				if strings.HasSuffix(ci.Pkg, "protobuf/proto") && strings.HasPrefix(ci.Name, "Marshal") {
					a := an.Args(call)
					if len(a) > 0 {
						marshalled = append(marshalled, a[len(a)-1])
					}
				}
			}
			bad := ""
			var strip func(v ssa.Value) ssa.Value
			strip = func(v ssa.Value) ssa.Value {
				for {
					switch x := v.(type) {
					case *ssa.Convert:
						v = x.X
						continue
					case *ssa.ChangeType:
						v = x.X
						continue
					}
					return v
				}
			}
			for _, r := range an.Roots(strip(args[1]), nil) {
				r = strip(r)
				if _, isK := an.ConstOf(r); isK {
					bad = "a constant"
					continue
				}
				if lc, isLen := an.IsBuiltinCall(r, "len"); isLen {
					okSrc := true
					for _, r2 := range an.Roots(lc.Call.Args[0], nil) {
						if _, isM := isMarshal(r2); !isM {
							okSrc = false
						}
					}
					if !okSrc {
						bad = "the length of " + an.PathOf(lc.Call.Args[0]) + ", which is not the marshalled message"
					}
					continue
				}
				if call, ok := r.(*ssa.Call); ok {
					ci := an.Callee(call)
					if strings.HasSuffix(ci.Pkg, "protobuf/proto") && ci.Name == "Size" && len(marshalled) > 0 {
						same := false
						sa := an.Args(call)
						for _, m := range marshalled {
							if len(sa) > 0 && an.SameObj(sa[len(sa)-1], m) {
								same = true
							}
						}
						if !same {
							bad = "the size of a different message than the one marshalled"
						}
					}
				}
			}
			c.Check(bad == "", "O2", "R-SIB", an.FuncName(fn), "length-prefix=size-of-marshalled-message", put.Pos(),
				"the varint length prefix is the size of the message marshalled behind it",
				"the frame's length prefix is "+bad+": the receiver cuts the frame at the wrong place and fails to parse (or mis-parses) the message")
		}
	}

	// ---------------------------------------------------------------- O3 error discipline
	nE := 0
	for _, fn := range fns {
		if fn.Parent() != nil {
			continue
		}
		res := fn.Signature.Results()
		if res.Len() < 1 || !an.IsErrorType(res.At(res.Len()-1).Type()) {
			continue
		}
		inDec := false
		for _, g := range decClosure {
			inDec = inDec || g == fn
		}
		if !inDec && !(res.Len() >= 2 && (an.TypeIs(res.At(0).Type(), c34Msg, "BitSwapMessage") || an.TypeIs(res.At(0).Type(), c34Blocks, "Block"))) {
			continue
		}
		name := an.FuncName(fn)
		rets := an.Returns(fn)
		last := res.Len() - 1
		forwards := func(r *ssa.Return) bool {
			var tup ssa.Value
			for _, v := range r.Results {
				for {
					if mi, ok := v.(*ssa.MakeInterface); ok {
						v = mi.X
					} else if ci, ok := v.(*ssa.ChangeInterface); ok {
						v = ci.X
					} else {
						break
					}
				}
				e, ok := v.(*ssa.Extract)
				if !ok || (tup != nil && e.Tuple != tup) {
					return false
				}
				tup = e.Tuple
			}
			return tup != nil
		}
		for _, call := range an.AllCalls(fn) {
			errs := an.ErrResult(call)
			if len(errs) == 0 || an.CallValue(call) == nil {
				continue
			}
			ci := an.Callee(call)
			nE++
			nilE := an.NilEdges(fn, errs, true)
			ok := true
			for _, r := range rets {
				if forwards(r) {
					if e, isE := r.Results[last].(*ssa.Extract); isE && e.Tuple == ssa.Value(an.CallValue(call)) {
						continue // return f(...): error forwarded as is
					}
				}
				if !an.IsNilConst(r.Results[last]) {
					// error return: fine unless it returns *this* call's success as another error... not our concern
					continue
				}
				if an.Reaches(fn, call.(ssa.Instruction), r, nilE, nil) {
					ok = false
				}
			}
			calleeKey := ci.String()
			if ci.Fn != nil && !ci.Fn.Exported() && ci.Static != nil {
				// unexported callee: a role name keeps the key stable under renames
				calleeKey = "bitswap/message.<helper>"
				for _, d := range decoders {
					if d == ci.Static {
						calleeKey = "bitswap/message.<pb-decoder>"
					}
				}
			}
			c.Check(ok, "O3", "R-DOM", name, "err-of-"+calleeKey+"=>no-success-return", call.Pos(),
				"success return reachable only across the nil-error edge of "+ci.String(),
				"the error of "+ci.String()+" is not checked on some path to a success return: malformed input yields a partially decoded message instead of an error")
		}
		for _, r := range rets {
			if last == 0 || an.IsNilConst(r.Results[last]) || forwards(r) {
				continue
			}
			c.Check(an.IsNilConst(r.Results[0]), "O3", "R-DOM", name, "error-return=>nil-result", r.Pos(),
				"error return carries no partial result", "an error return of the decoder also returns a non-nil message/block: callers may use partially decoded garbage")
		}
	}
	c.Min("O3 fallible calls in decoder functions", nE, 7)

	// round 2: a decoded message is complete — every success return of the decoder has read every top-level wire field
	if msgT := p.Named(c34Pb, "Message"); msgT != nil {
		st := msgT.Underlying().(*types.Struct)
		for _, d := range decoders {
			for i := 0; i < st.NumFields(); i++ {
				f := st.Field(i)
				if !f.Exported() {
					continue
				}
				var reads []ssa.Instruction
				an.Instrs(d, func(in ssa.Instruction) {
					if v, ok := in.(ssa.Value); ok {
						if rf, _ := c34PbRead(v); rf == f {
							reads = append(reads, in)
						}
					}
					// a read inside a package-local helper counts at its call site
					if call, ok := in.(ssa.CallInstruction); ok {
						if g := an.Callee(call).Static; g != nil && g.Pkg == d.Pkg && g != d {
							if c34PbReads(c34Closure(g))[f] {
								reads = append(reads, in)
							}
						}
					}
				})
				ok := len(reads) > 0
				for _, r := range an.Returns(d) {
					if an.IsNilConst(r.Results[len(r.Results)-1]) && !an.MustPrecede(d, r, reads) {
						ok = false
					}
				}
				c.Check(ok, "O3", "R-POST", an.FuncName(d), "success-return<=read-"+f.Name(), d.Pos(),
					"every successful decode has looked at wire field "+f.Name(),
					"the decoder can return a message successfully on a path that never reads pb.Message."+f.Name()+" (early return / fast path): that part of a received message is silently dropped")
			}
		}
	}
	// round 2: the receive buffer is not released before it was parsed
	nRel := 0
	for _, fn := range fns {
		for _, rel := range an.AllCalls(fn) {
			ci := an.Callee(rel)
			if ci.Name != "ReleaseMsg" || len(an.Args(rel)) != 1 {
				continue
			}
			nRel++
			if _, deferred := rel.(*ssa.Defer); deferred {
				c.OK("O3", "R-DOM", an.FuncName(fn), "ReleaseMsg-after-last-use", rel.Pos(), "the pooled receive buffer is released by a defer, after every use in the function")
				continue
			}
			buf := an.Args(rel)[0]
			ok := true
			what := ""
			for _, use := range an.AllCalls(fn) {
				if use == rel {
					continue
				}
				if bi, isB := use.Common().Value.(*ssa.Builtin); isB && (bi.Name() == "len" || bi.Name() == "cap") {
					continue
				}
				for _, a := range use.Common().Args {
					if a == buf && an.Reaches(fn, rel.(ssa.Instruction), use.(ssa.Instruction), nil, nil) {
						ok, what = false, an.Callee(use).String()
					}
				}
			}
			c.Check(ok, "O3", "R-DOM", an.FuncName(fn), "ReleaseMsg-after-last-use", rel.Pos(),
				"the pooled receive buffer is released only after its last use",
				"the receive buffer is handed back to the pool (ReleaseMsg) and then still passed to "+what+": the bytes may already be overwritten by the next message, the decoded message is garbage that still parses")
		}
	}
	c.Min("O3 ReleaseMsg calls", nRel, 1)

	// ---------------------------------------------------------------- O4 blocks / presences disjoint
	nP := 0
	for _, fn := range fns {
		an.Instrs(fn, func(in ssa.Instruction) {
			mu, ok := in.(*ssa.MapUpdate)
			if !ok {
				return
			}
			name := an.FuncName(fn)
			switch {
			case c34MapOfField(mu.Map, fBlocks):
				nP++
				var dels []ssa.Instruction
				for _, call := range an.Calls(fn, an.M("builtin", "", "delete")) {
					a := call.Common().Args
					if !c34MapOfField(a[0], fPres) {
						continue
					}
					kc, ok1 := an.IsCallTo(a[1], mBlockCid)
					if (ok1 && an.SameObj(an.Recv(kc), mu.Value)) || an.SameObj(a[1], mu.Key) {
						dels = append(dels, call.(ssa.Instruction))
					}
				}
				c.Check(an.Around(fn, mu, dels), "O4", "R-PAIR", name, "blocks[k]=b=>delete(blockPresences,k)", mu.Pos(),
					"adding a block drops the presence entry of the same CID",
					"a block is inserted into impl.blocks without deleting blockPresences for the same CID: the message carries both a block and a HAVE/DONT_HAVE for it and does not round-trip")
			case c34MapOfField(mu.Map, fPres):
				nP++
				var miss []ssa.Value
				an.Instrs(fn, func(i2 ssa.Instruction) {
					lk, ok := i2.(*ssa.Lookup)
					if !ok || !lk.CommaOk || !c34MapOfField(lk.X, fBlocks) || !an.SameObj(lk.Index, mu.Key) {
						return
					}
					for _, r := range *lk.Referrers() {
						if e, ok := r.(*ssa.Extract); ok && e.Index == 1 {
							miss = append(miss, e)
						}
					}
				})
				// the probe may be wrapped: a package-local bool function returning the found flag of blocks[param]
				for _, pc := range an.AllCalls(fn) {
					g := an.Callee(pc).Static
					if g == nil || g.Blocks == nil || g.Pkg != fn.Pkg || g.Signature.Results().Len() != 1 || an.CallValue(pc) == nil {
						continue
					}
					probes := true
					nRet := 0
					for _, r := range an.Returns(g) {
						nRet++
						e, ok := r.Results[0].(*ssa.Extract)
						if !ok || e.Index != 1 {
							probes = false
							continue
						}
						lk, ok := e.Tuple.(*ssa.Lookup)
						if !ok || !c34MapOfField(lk.X, fBlocks) {
							probes = false
							continue
						}
						pj := -1
						for j, q := range g.Params {
							if ssa.Value(q) == lk.Index {
								pj = j
							}
						}
						if pj < 0 || pj >= len(pc.Common().Args) || !an.SameObj(pc.Common().Args[pj], mu.Key) {
							probes = false
						}
					}
					if probes && nRet > 0 {
						miss = append(miss, an.CallValue(pc))
					}
				}
				ok2 := len(miss) > 0 && an.GuardedByVal(fn, mu, an.BoolEdges(fn, miss, false), an.BoolIs(miss, false))
				c.Check(ok2, "O4", "R-PAIR", name, "blockPresences[k]=t<=blocks[k]-miss", mu.Pos(),
					"presence recorded only where the block map has no block for the same CID",
					"a HAVE/DONT_HAVE is recorded without (or regardless of) probing impl.blocks for the same CID: the message carries both a block and a presence for it and does not round-trip")
			}
		})
	}
	c.Min("O4 insertions into impl.blocks / impl.blockPresences", nP, 2)
}

// c34EntryEncoders — O2 (round 5): per-path completeness of want-list entry encoders.
// For every fresh pb.Message_Wantlist_Entry built in the package and every wire field F:
// on each path from the literal to a return of the function, F is stored from the source
// entry's field of the same meaning, or it holds a constant k (an explicit constant store,
// or the zero value when no store happens) and the path is guarded by "source.F == k".
func c34EntryEncoders(c *an.Ctx, fns []*ssa.Function) {
	p := c.P
	wt := p.Named(c34Pb, "Message_Wantlist_Entry")
	if !c.Need(wt != nil, "pb.Message_Wantlist_Entry") {
		return
	}
	st := wt.Underlying().(*types.Struct)
	nLit := 0
	for _, fn := range fns {
		name := an.FuncName(fn)
		// the source entry: a parameter (receiver) of type (*)message.Entry
		var src *ssa.Parameter
		for _, q := range fn.Params {
			if an.TypeIs(q.Type(), c34Msg, "Entry") {
				src = q
			}
		}
		var lits []*ssa.Alloc
		an.Instrs(fn, func(in ssa.Instruction) {
			if a, ok := in.(*ssa.Alloc); ok && an.TypeIs(a.Type(), c34Pb, "Message_Wantlist_Entry") {
				lits = append(lits, a)
			}
		})
		if len(lits) == 0 || src == nil {
			continue
		}
		// reads of the source entry's fields, by field name
		srcReads := func(field string) []ssa.Value {
			var out []ssa.Value
			an.Instrs(fn, func(in ssa.Instruction) {
				v, ok := in.(ssa.Value)
				if !ok {
					return
				}
				if last, rec := an.LastComp(v); rec && last == field && strings.HasPrefix(an.PathOf(v), "p:"+src.Name()+".") {
					if _, isLoad := v.(*ssa.UnOp); isLoad {
						out = append(out, v)
					} else if _, isField := v.(*ssa.Field); isField {
						out = append(out, v)
					}
				}
			})
			return out
		}
		// edges (and materialised conditions) on which source.<field> is known to equal k
		knownEq := func(field string, k constant.Value) (an.EdgeSet, func(ssa.Value, bool) bool) {
			reads := srcReads(field)
			isRead := func(v ssa.Value) bool {
				for _, r := range reads {
					if r == v {
						return true
					}
				}
				return false
			}
			class := func(atom ssa.Value) (bool, bool) {
				if k.Kind() == constant.Bool && isRead(atom) {
					want := constant.BoolVal(k)
					return want, !want
				}
				b, ok := atom.(*ssa.BinOp)
				if !ok || (b.Op != token.EQL && b.Op != token.NEQ) {
					return false, false
				}
				var kv ssa.Value
				switch {
				case isRead(b.X):
					kv = b.Y
				case isRead(b.Y):
					kv = b.X
				default:
					return false, false
				}
				cv, isK := an.ConstOf(kv)
				if !isK {
					return false, false
				}
				eq := constant.Compare(cv, token.EQL, k)
				if k.Kind() == constant.Bool && cv.Kind() == constant.Bool && !eq {
					// source != !k  <=>  source == k
					if b.Op == token.EQL {
						return false, true
					}
					return true, false
				}
				if !eq {
					return false, false
				}
				if b.Op == token.EQL {
					return true, false
				}
				return false, true
			}
			cut := func(v ssa.Value, outcome bool) bool {
				onT, onF := class(v)
				return (outcome && onT) || (!outcome && onF)
			}
			return an.CondEdges(fn, class), cut
		}
		zeroOf := func(t types.Type) constant.Value {
			if b, ok := t.Underlying().(*types.Basic); ok {
				switch {
				case b.Info()&types.IsBoolean != 0:
					return constant.MakeBool(false)
				case b.Info()&types.IsInteger != 0:
					return constant.MakeInt64(0)
				}
			}
			return nil
		}
		rets := an.Returns(fn)
		for li, lit := range lits {
			nLit++
			// returns this literal can reach
			var myRets []*ssa.Return
			for _, r := range rets {
				if an.Reaches(fn, lit, r, nil, nil) {
					for _, res := range r.Results {
						for _, root := range an.Roots(res, nil) {
							if root == ssa.Value(lit) {
								myRets = append(myRets, r)
							}
						}
					}
				}
			}
			if len(myRets) == 0 {
				continue // not returned from here (e.g. appended): covered by the table rule only
			}
			for i := 0; i < st.NumFields(); i++ {
				f := st.Field(i)
				if !f.Exported() {
					continue
				}
				cons := "entry-literal"
				if len(lits) > 1 {
					cons = "entry-literal#" + string(rune('1'+li))
				}
				cons += "." + f.Name()
				var stores []*ssa.Store
				for _, r := range *lit.Referrers() {
					fa, ok := r.(*ssa.FieldAddr)
					if !ok {
						continue
					}
					if ff, _ := an.FieldOf(fa); ff != f {
						continue
					}
					for _, r2 := range *fa.Referrers() {
						if s, ok := r2.(*ssa.Store); ok && s.Addr == ssa.Value(fa) {
							stores = append(stores, s)
						}
					}
				}
				srcField := f.Name()
				if f.Name() == "Block" {
					srcField = "Cid"
				}
				ok, why := true, ""
				// explicit constant stores must be justified by a guard on the same source field
				blocked := map[ssa.Instruction]bool{}
				for _, s := range stores {
					blocked[s] = true
					k, isConst := an.ConstOf(s.Val)
					if !isConst {
						continue // value agreement is checked by the table rule
					}
					edges, cut := knownEq(srcField, k)
					if !an.GuardedByVal(fn, s, edges, cut) {
						ok, why = false, "the constant "+k.String()+" is stored although the entry's "+srcField+" is not known to equal it on that path"
					}
				}
				// paths on which no store happens: the field stays zero
				skip := false
				for _, r := range myRets {
					if an.Reaches(fn, lit, r, nil, blocked) {
						skip = true
					}
				}
				if ok && skip {
					z := zeroOf(f.Type())
					if z == nil {
						ok, why = false, "the field is not set on some path to the return"
					} else {
						edges, cut := knownEq(srcField, z)
						before := an.GuardedByVal(fn, lit, edges, cut)
						after := true
						for _, r := range myRets {
							w := &an.Walk{Fn: fn, Cut: edges, Blocked: blocked, ValCut: cut}
							rr := r
							if w.Reaches(lit, func(in ssa.Instruction) bool { return in == ssa.Instruction(rr) }) {
								after = false
							}
						}
						if !before && !after {
							ok, why = false, "the field is left at its zero value on a path where the entry's "+srcField+" is not known to be zero (the skip is not guarded by a test of that same field)"
						}
					}
				}
				c.Check(ok, "O2", "R-TABLE", name, cons, lit.Pos(),
					"on every path the wire field equals the entry's "+srcField,
					"want-list entry encoder, wire field "+f.Name()+": "+why+" — entries taking that path lose "+srcField+" on the wire (e.g. a fast path for cancels dropping priority / want type / send-dont-have), the decoded entry differs from the one sent")
			}
		}
	}
	c.Min("O2 want-list entry literals in encoders", nLit, 1)
}

// c34ForeignCall: v is the result of a call of a function outside package message (a library
// accessor): a value computed some other way than the table prescribes, not an unknown local shape.
func c34ForeignCall(v ssa.Value) (string, bool) {
	for {
		if ct, ok := v.(*ssa.ChangeType); ok {
			v = ct.X
			continue
		}
		if cv, ok := v.(*ssa.Convert); ok {
			v = cv.X
			continue
		}
		break
	}
	if e, ok := v.(*ssa.Extract); ok {
		v = e.Tuple
	}
	call, ok := v.(*ssa.Call)
	if !ok {
		return "", false
	}
	ci := an.Callee(call)
	if ci.Name == "" || ci.Pkg == "" || ci.Pkg == c34Msg || ci.Pkg == "builtin" {
		return "", false
	}
	return ci.String(), true
}
