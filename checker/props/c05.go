package props

import (
	"sort"
	"strings"

	"golang.org/x/tools/go/ssa"

	"verif/checker/an"
)

func init() {
	register("C05", Prop{
		Pkgs: []string{"./blockservice", "./exchange"},
		Explain: "Decided (structural necessary conditions of 'returns the requested blocks, caches fetched ones, local first'): " +
			"O1 local-first: in package blockservice every Fetcher.GetBlock(ctx, c) is reachable only after Blockstore.Get(ctx, <same c>) returned an error, and every key passed to Fetcher.GetBlocks was appended on the error edge of Blockstore.Get(ctx, <that key>); " +
			"O2 cache-before-deliver: every block that originates from the exchange (result of Fetcher.GetBlock, value received from the channel of Fetcher.GetBlocks) is returned / sent to the caller only after Blockstore.Put(ctx, <that block>) returned nil; " +
			"O3 request check: a block that originates from the exchange is stored and delivered only under a condition computed from its own Cid() (comparison with the requested CID / membership in the requested set) — violated today at the two known flows, any further unchecked flow is a new violation; " +
			"O4 blocks delivered from the local store are the result of Blockstore.Get(ctx, k) for a requested key k on its nil-error edge (or returned together with that Get's own error result); the public entry points hand their own CID / key slice unchanged to getBlock / getBlocks. " +
			"O5 a session embedded in a context is handed out only to the block service it belongs to (stored under / looked up by the service itself, or an owner equality test on the use edge), and every caller asks for its own service — otherwise one service's GetBlock fetches through another's exchange and caches into another's store. " +
			"NOT decided: that local blocks hash to their CID (trusts the blockstore), ordering/duplicates of GetBlocks output, re-hashing of exchange blocks (bitswap does it; the exchange interface does not promise it).",
		Assume:    []string{"Blockstore.Get returns the block stored under the requested CID"},
		Technique: "condition-edge dominance (R-DOM) and value provenance of exchange results through channels, selects and append chains (R-FLOW)",
		Run:       runC05,
	})
}

// c05Origins lists the exchange fetch calls of fn.
func c05Origins(fn *ssa.Function) []*ssa.Call {
	var out []*ssa.Call
	for _, call := range an.AllCalls(fn) {
		what, ok := c04Sensitive(call)
		if ok && (what == "exchange.GetBlock" || what == "exchange.GetBlocks") {
			if cv := an.CallValue(call); cv != nil {
				out = append(out, cv)
			}
		}
	}
	return out
}

// c05CondDependsOnCidOf: the condition value depends on X.Cid() for X an
// exchange result of origin.
func c05CondDependsOnCidOf(cond ssa.Value, origin *ssa.Call) bool {
	seen := map[ssa.Value]bool{}
	var walk func(v ssa.Value, d int) bool
	walk = func(v ssa.Value, d int) bool {
		if v == nil || seen[v] || d > 8 {
			return false
		}
		seen[v] = true
		switch x := v.(type) {
		case *ssa.Call:
			if an.Callee(x).Name == "Cid" && len(an.Args(x)) == 0 && an.Recv(x) != nil && c04ExchangeOrigin(an.Recv(x)) == origin {
				return true
			}
			for _, a := range x.Call.Args {
				if walk(a, d+1) {
					return true
				}
			}
			if x.Call.IsInvoke() {
				return walk(x.Call.Value, d+1)
			}
		case *ssa.BinOp:
			return walk(x.X, d+1) || walk(x.Y, d+1)
		case *ssa.UnOp:
			return walk(x.X, d+1)
		case *ssa.Extract:
			return walk(x.Tuple, d+1)
		case *ssa.Lookup:
			return walk(x.X, d+1) || walk(x.Index, d+1)
		case *ssa.Phi:
			for _, e := range x.Edges {
				if walk(e, d+1) {
					return true
				}
			}
		case *ssa.ChangeType:
			return walk(x.X, d+1)
		case *ssa.Convert:
			return walk(x.X, d+1)
		case *ssa.MakeInterface:
			return walk(x.X, d+1)
		case *ssa.TypeAssert:
			return walk(x.X, d+1)
		case *ssa.Field:
			return walk(x.X, d+1)
		}
		return false
	}
	return walk(cond, 0)
}

// c05Gets lists the local lookups (Blockstore.Get) of fn.
func c05Gets(fn *ssa.Function) []*ssa.Call {
	var gets []*ssa.Call
	for _, call := range an.AllCalls(fn) {
		if what, ok := c04Sensitive(call); ok && what == "Blockstore.Get" {
			if cv := an.CallValue(call); cv != nil {
				gets = append(gets, cv)
			}
		}
	}
	return gets
}

// c05FailedGetOf: site is reached only after Blockstore.Get(ctx, key) failed.
func c05FailedGetOf(fn *ssa.Function, key ssa.Value, site ssa.Instruction) bool {
	for _, g := range c05Gets(fn) {
		k := an.Args(g)[1]
		if !(k == key || an.SameObj(k, key)) {
			continue
		}
		if an.Dominates(g, site) && an.GuardedBy(fn, g, site, an.NilEdges(fn, an.ErrResult(g), false)) {
			return true
		}
	}
	return false
}

// c05MissesOK: the key slice v (in fn) starts empty and only receives keys on
// the error edge of their own local lookup; it may be the result of a package
// function of which the same holds for every slice it returns.
func c05MissesOK(fn *ssa.Function, v ssa.Value, depth int) (bool, string) {
	roots, apps := an.SliceChain(v)
	nProd := 0
	for _, r := range roots {
		if an.IsNilConst(r) {
			continue
		}
		if mk, isMk := r.(*ssa.MakeSlice); isMk {
			if k, isK := an.ConstOf(mk.Len); isK && k.String() == "0" {
				continue
			}
		}
		var pc *ssa.Call
		switch x := r.(type) {
		case *ssa.Call:
			pc = x
		case *ssa.Extract:
			if x.Index == 0 {
				pc, _ = x.Tuple.(*ssa.Call)
			}
		}
		if pc != nil && depth < 3 {
			if H := pc.Call.StaticCallee(); H != nil && H.Blocks != nil && H.Pkg == fn.Pkg && H != fn {
				n := 0
				for _, ret := range an.Returns(H) {
					if !an.Reaches(H, nil, ret, nil, nil) {
						continue
					}
					rv := an.RetVal(ret, 0)
					if an.IsNilConst(rv) {
						continue
					}
					n++
					if ok, why := c05MissesOK(H, rv, depth+1); !ok {
						return false, "in " + H.Name() + ": " + why
					}
				}
				if n > 0 {
					nProd++
					continue
				}
			}
		}
		return false, "the list of keys to fetch starts from " + an.PathOf(r)
	}
	for _, ap := range apps {
		elems, isList := an.AppendElems(ap)
		if !isList {
			return false, "a whole slice is appended to the keys to fetch"
		}
		for _, e := range elems {
			if !c05FailedGetOf(fn, e, ap) {
				return false, "a key is added to the keys to fetch without Blockstore.Get(<that key>) having failed"
			}
		}
	}
	if len(apps) == 0 && nProd == 0 {
		return false, "no key is ever added on a failed local lookup"
	}
	return true, ""
}

// c05EntryName names a site by the exported API entry points of the package
// through which it is reached ("blockservice.GetBlock-path"), so that the key
// of a finding does not change when unexported helpers are renamed or split.
func c05EntryName(fns []*ssa.Function, fn *ssa.Function) string {
	top := func(f *ssa.Function) *ssa.Function {
		for f.Parent() != nil {
			f = f.Parent()
		}
		return f
	}
	start := top(fn)
	seen := map[*ssa.Function]bool{start: true}
	work := []*ssa.Function{start}
	names := map[string]bool{}
	for len(work) > 0 {
		f := work[0]
		work = work[1:]
		if f.Object() != nil && f.Object().Exported() {
			names[f.Name()] = true
			continue
		}
		for _, g := range fns {
			for _, call := range an.AllCalls(g) {
				callee := call.Common().StaticCallee()
				if callee == nil {
					// method values / bound closures passed around are not followed
					continue
				}
				if callee == f && !seen[top(g)] {
					seen[top(g)] = true
					work = append(work, top(g))
				}
			}
		}
	}
	if len(names) == 0 {
		return an.FuncName(fn)
	}
	var ns []string
	for n := range names {
		ns = append(ns, n)
	}
	sort.Strings(ns)
	return "blockservice." + strings.Join(ns, "+") + "-path"
}

var c05StoreMemo = map[*ssa.Function]int{}

// c05StoreHelper: H is a package function with one block parameter and an
// error result that reports success only after Blockstore.Put(ctx, <that
// parameter>) (or another such helper) returned nil.
func c05StoreHelper(H *ssa.Function, depth int) (int, bool) {
	if H == nil || H.Blocks == nil || H.Parent() != nil || depth > 2 || !c04HasErrResult(H) {
		return 0, false
	}
	if H.Pkg == nil || H.Pkg.Pkg.Path() != an.Mod+"/blockservice" {
		return 0, false
	}
	if m, ok := c05StoreMemo[H]; ok {
		return m - 1, m > 0
	}
	c05StoreMemo[H] = 0
	idx := -1
	for i, prm := range H.Params {
		if an.TypeIs(prm.Type(), c01Blocks, "Block") {
			if idx >= 0 {
				return 0, false
			}
			idx = i
		}
	}
	if idx < 0 {
		return 0, false
	}
	prm := H.Params[idx]
	var puts []*ssa.Call
	for _, call := range an.AllCalls(H) {
		cv := an.CallValue(call)
		if cv == nil {
			continue
		}
		if what, ok := c04Sensitive(call); ok && what == "Blockstore.Put" && an.Args(cv)[1] == ssa.Value(prm) {
			puts = append(puts, cv)
		}
		if j, ok := c05StoreHelper(call.Common().StaticCallee(), depth+1); ok && cv.Call.Args[j] == ssa.Value(prm) {
			puts = append(puts, cv)
		}
	}
	if len(puts) == 0 {
		return 0, false
	}
	n := 0
	for _, r := range an.Returns(H) {
		if !an.Reaches(H, nil, r, nil, nil) || !c01PossiblySuccess(H, r) {
			continue
		}
		n++
		ok := false
		for _, pc := range puts {
			if an.OnNilEdgeOf(H, pc, r) {
				ok = true
			}
			// `return bs.Put(ctx, blk)`: the put's own error is the result
			for _, root := range an.Roots(an.RetVal(r, -1), nil) {
				if root == ssa.Value(pc) {
					ok = true
				}
			}
		}
		if !ok {
			return 0, false
		}
	}
	if n == 0 {
		return 0, false
	}
	c05StoreMemo[H] = idx + 1
	return idx, true
}

func runC05(c *an.Ctx) {
	c05StoreMemo = map[*ssa.Function]int{}
	c04G = c04NewG(c.P.PkgFuncs("blockservice"))
	p := c.P
	const pkg = "blockservice"
	fns := p.PkgFuncs(pkg)
	if !c.Need(len(fns) > 0, "package blockservice") {
		return
	}
	nO1, nO2, nO3, nO4 := 0, 0, 0, 0
	for _, fn := range fns {
		name := an.FuncName(fn)
		// local lookups
		var gets []*ssa.Call
		for _, call := range an.AllCalls(fn) {
			if what, ok := c04Sensitive(call); ok && what == "Blockstore.Get" {
				if cv := an.CallValue(call); cv != nil {
					gets = append(gets, cv)
				}
			}
		}
		failedGetOf := func(key ssa.Value, site ssa.Instruction) bool {
			for _, g := range gets {
				k := an.Args(g)[1]
				if !(k == key || an.SameObj(k, key)) {
					continue
				}
				if an.Dominates(g, site) && an.GuardedBy(fn, g, site, an.NilEdges(fn, an.ErrResult(g), false)) {
					return true
				}
			}
			return false
		}
		origins := c05Origins(fn)
		// ---- O1
		for _, f := range origins {
			nO1++
			arg := an.Args(f)[1]
			if !c04IsCidSlice(arg.Type()) {
				c.Check(failedGetOf(arg, f), "O1", "R-DOM", name, "exchange.GetBlock<=local-Get-failed", f.Pos(),
					"the exchange is asked only after the local lookup of the same CID failed",
					"Fetcher.GetBlock is reachable without Blockstore.Get(<same CID>) having returned an error: a block that is stored locally is fetched from the network")
				continue
			}
			ok, why := c05MissesOK(fn, arg, 0)
			c.Check(ok, "O1", "R-DOM", name, "exchange.GetBlocks(misses)<=local-Get-failed", f.Pos(),
				"only keys whose local lookup failed are requested from the exchange",
				"Fetcher.GetBlocks is given keys that were not (all) added on the error edge of Blockstore.Get for that key ("+why+"): locally stored blocks are fetched from the network")
		}

		// deliver sites
		type site struct {
			in  ssa.Instruction
			val ssa.Value
			how string
		}
		var sites []site
		for _, r := range an.Returns(fn) {
			if len(r.Results) > 0 && an.TypeIs(r.Results[0].Type(), c01Blocks, "Block") && an.Reaches(fn, nil, r, nil, nil) {
				v := an.RetVal(r, 0)
				if !an.IsNilConst(v) {
					sites = append(sites, site{r, v, "return"})
				}
			}
		}
		for _, s := range an.Sends(fn) {
			if an.TypeIs(s.Val.Type(), c01Blocks, "Block") {
				sites = append(sites, site{s.Instr, s.Val, "send"})
			}
		}
		var puts []*ssa.Call
		for _, call := range an.AllCalls(fn) {
			if what, ok := c04Sensitive(call); ok && what == "Blockstore.Put" {
				if cv := an.CallValue(call); cv != nil {
					puts = append(puts, cv)
				}
			}
		}
		// batched write of a one-element pack: bs.PutMany(ctx, pack[:]) with pack[0] = v
		packPuts := map[*ssa.Call][]ssa.Value{}
		for _, call := range an.AllCalls(fn) {
			if what, ok := c04Sensitive(call); ok && what == "Blockstore.PutMany" {
				cv := an.CallValue(call)
				if cv == nil {
					continue
				}
				if sl, isSl := an.Args(cv)[1].(*ssa.Slice); isSl {
					if arr, isArr := sl.X.(*ssa.Alloc); isArr {
						for _, ref := range *arr.Referrers() {
							if ia, isIA := ref.(*ssa.IndexAddr); isIA {
								for _, rr := range *ia.Referrers() {
									if st, isSt := rr.(*ssa.Store); isSt && st.Addr == ssa.Value(ia) && !an.IsNilConst(st.Val) && an.Dominates(st, cv) {
										packPuts[cv] = append(packPuts[cv], st.Val)
									}
								}
							}
						}
					}
				}
			}
		}
		// package helpers that store their block parameter: H(…, blk, …) error reports
		// success only after Blockstore.Put(ctx, blk) returned nil
		for _, call := range an.AllCalls(fn) {
			cv := an.CallValue(call)
			if cv == nil {
				continue
			}
			if idx, ok := c05StoreHelper(call.Common().StaticCallee(), 0); ok {
				packPuts[cv] = append(packPuts[cv], cv.Call.Args[idx])
			}
		}
		for _, s := range sites {
			org := c04ExchangeOrigin(s.val)
			if org == nil {
				// ---- O4 local deliveries
				isFn := false
				for _, root := range an.Roots(s.val, nil) {
					if rc, ok := an.IsCallTo(root, an.M("", "", "")); ok && !rc.Call.IsInvoke() && rc.Call.StaticCallee() != nil {
						isFn = true // result of a package function (entry points delegating to getBlock): checked there
					}
				}
				if isFn {
					continue
				}
				nO4++
				ok := false
				for _, root := range an.Roots(s.val, nil) {
					e, isE := root.(*ssa.Extract)
					if !isE || e.Index != 0 {
						ok = false
						break
					}
					g, isG := e.Tuple.(*ssa.Call)
					isGet := false
					for _, x := range gets {
						if x == g {
							isGet = true
						}
					}
					// `return store.Get(ctx, k)`: the block travels with Get's own error
					forwarded := false
					if ret, isRet := s.in.(*ssa.Return); isRet && isG {
						if ev := an.RetVal(ret, -1); ev != nil {
							if rs := an.Roots(ev, nil); len(rs) == 1 {
								if ee, ok := rs[0].(*ssa.Extract); ok && ee.Tuple == ssa.Value(g) && an.IsErrorType(ee.Type()) {
									forwarded = true
								}
							}
						}
					}
					if !isG || !isGet || !(forwarded || an.OnNilEdgeOf(fn, g, s.in)) {
						ok = false
						break
					}
					ok = true
				}
				c.Check(ok, "O4", "R-FLOW", name, s.how+"(local block)=Blockstore.Get-ok", s.in.Pos(),
					"a locally served block is the successful result of Blockstore.Get for a requested key",
					"a block is delivered that is neither an exchange result nor the successful result of Blockstore.Get(<requested key>)")
				continue
			}
			// ---- O2
			nO2++
			ok := false
			al := an.Aliases(an.Roots(s.val, nil)...)
			for _, pc := range puts {
				b := an.Args(pc)[1]
				if (b == s.val || al[b] || an.SameObj(b, s.val)) && an.OnNilEdgeOf(fn, pc, s.in) {
					ok = true
				}
			}
			for pc, vals := range packPuts {
				for _, b := range vals {
					if (b == s.val || al[b] || an.SameObj(b, s.val)) && an.OnNilEdgeOf(fn, pc, s.in) {
						ok = true
					}
				}
			}
			c.Check(ok, "O2", "R-DOM", name, s.how+"(exchange block)<=Blockstore.Put-ok", s.in.Pos(),
				"a fetched block is handed out only after it was written to the local blockstore",
				"a block obtained from the exchange is delivered to the caller without Blockstore.Put(<that block>) having returned nil on every path: fetched blocks are not cached / delivered although the write failed")
		}

		// ---- O3 request check
		for _, org := range origins {
			nO3++
			var guarded []ssa.Instruction
			for _, pc := range puts {
				if c04ExchangeOrigin(an.Args(pc)[1]) == org {
					guarded = append(guarded, pc)
				}
			}
			for pc, vals := range packPuts {
				for _, b := range vals {
					if c04ExchangeOrigin(b) == org {
						guarded = append(guarded, pc)
					}
				}
			}
			for _, s := range sites {
				if c04ExchangeOrigin(s.val) == org {
					guarded = append(guarded, s.in)
				}
			}
			var checks []an.Edge
			for _, b := range fn.Blocks {
				if len(b.Instrs) == 0 {
					continue
				}
				if ifi, ok := b.Instrs[len(b.Instrs)-1].(*ssa.If); ok && c05CondDependsOnCidOf(ifi.Cond, org) {
					checks = append(checks, an.Edge{From: b, Succ: 0}, an.Edge{From: b, Succ: 1})
				}
			}
			ok := len(guarded) > 0
			for _, g := range guarded {
				okG := false
				for _, e := range checks {
					if an.GuardedBy(fn, org, g, an.EdgeSet{e: true}) {
						okG = true
					}
				}
				if !okG {
					ok = false
				}
			}
			what := an.Callee(org).Name
			c.Check(ok, "O3", "R-FLOW", c05EntryName(fns, fn), "exchange."+what+"-result-vs-request", org.Pos(),
				"exchange results are stored/delivered only under a check of their own CID against the request",
				"the block(s) returned by Fetcher."+what+" are written to the blockstore and handed to the caller without any condition on their own Cid(): an exchange that answers with a different or unrequested block makes the service store and return a block that was not asked for")
		}
	}
	c.Min("O1 exchange fetch calls", nO1, 1)
	c.Min("O2 deliveries of exchange blocks", nO2, 1)
	c.Min("O3 exchange result flows", nO3, 1)
	c.Min("O4 deliveries of local blocks", nO4, 1)

	// O5: embedded sessions are only used by the service they belong to (shared with C04)
	c04SessionOwnership(c, fns, "O5")

	// O4: entry points pass their own request on to the package helpers that
	// talk to the exchange (role: top-level functions containing a fetch)
	nHelpers := 0
	for _, h := range fns {
		if h.Parent() != nil || h.Signature.Recv() != nil {
			continue
		}
		has := false
		for _, g := range an.WithClosures(h) {
			if len(c05Origins(g)) > 0 {
				has = true
			}
		}
		idx := -1
		for i, prm := range h.Params {
			if an.TypeIs(prm.Type(), c01Cid, "Cid") || c04IsCidSlice(prm.Type()) {
				idx = i
			}
		}
		if !has || idx < 0 {
			continue
		}
		nHelpers++
		n := 0
		for _, fn := range fns {
			for _, call := range an.AllCalls(fn) {
				if call.Common().StaticCallee() != h {
					continue
				}
				n++
				a := call.Common().Args[idx]
				_, isPrm := a.(*ssa.Parameter)
				c.Check(isPrm, "O4", "R-FLOW", an.FuncName(fn), h.Name()+"(<own request>)", call.Pos(), "the caller's own CID / key list is passed on unchanged",
					an.FuncName(fn)+" calls "+h.Name()+" with something else than its own request parameter: the caller receives blocks for other CIDs than it asked for")
			}
		}
		c.Min("O4 callers of "+h.Name(), n, 1)
	}
	c.Min("O4 fetch helpers", nHelpers, 1)
}
