package props

import (
	"go/token"
	"go/types"
	"sort"
	"strings"

	"golang.org/x/tools/go/ssa"

	"verif/checker/an"
)

func init() {
	register("C10", Prop{
		Pkgs: []string{"./ipld/unixfs/mod", "./ipld/unixfs/io"},
		Explain: "Decided (structural necessary conditions of 'DagModifier behaves as a mutable file'): " +
			"O1 Seeker family: every Seek(offset, whence) method loaded (quick: unixfs/mod + unixfs/io; thorough: whole module) either forwards its (offset, whence) pair unchanged, or interprets whence exhaustively with an error default, computes SeekCurrent/SeekEnd targets as base + offset (SeekEnd relative to the size) and rejects negative targets before any state change or forwarded seek; " +
			"O2 write-buffer state coupling on DagModifier{wrBuf, writeStart, curWrOff}: wrBuf.Write => curWrOff += n; wrBuf = nil => writeStart += flushed length; wrBuf.Reset() => curWrOff = writeStart; an absolute store to writeStart is preceded by a successful Sync and coupled with the same value stored to curWrOff; " +
			"O3 every use of dm.curNode for output (reader creation, GetNode copy/collapse, dagTruncate) is preceded by Sync() on its nil-error edge (in the function or in every package-local caller); table exception: Size (combines the DAG size with the pending buffer by design) and the functions Sync itself runs; " +
			"O4 cached-reader invalidation: every replacement of dm.curNode and every write into the buffer happens with dm.read dropped (dm.read = nil, or tested nil) in the same function: a reader created by an earlier Read must not survive a content change. " +
			"NOT decided: equivalence with a byte-array model, correctness of modifyDag/appendData/dagTruncate content, trickle layout (C08).",
		Assume:    []string{"unexported DagModifier fields are only reachable from package unixfs/mod", "bytes.Buffer behaves as documented"},
		Technique: "sibling agreement + switch exhaustiveness over the Seek family (R-SIB, R-EXH), coupled mutation (R-PAIR), edge dominance with caller-holds summaries (R-DOM)",
		Run:       runC10,
	})
}

func runC10(c *an.Ctx) {
	p := c.P
	const mod = "ipld/unixfs/mod"
	fld := func(n string) *types.Var { return p.Field(mod, "DagModifier", n) }
	fWrBuf, fStart, fCur, fNode, fRead := fld("wrBuf"), fld("writeStart"), fld("curWrOff"), fld("curNode"), fld("read")
	if !c.Need(fWrBuf != nil && fStart != nil && fCur != nil && fNode != nil && fRead != nil, "DagModifier fields wrBuf,writeStart,curWrOff,curNode,read") {
		return
	}
	fns := p.PkgFuncs(mod)
	loadOf := func(v ssa.Value, f *types.Var) bool {
		u, ok := v.(*ssa.UnOp)
		if !ok || u.Op != token.MUL {
			return false
		}
		g, _ := an.FieldOf(u.X)
		return g == f
	}

	// ---------------- O1: Seeker family
	nComp, nFwd := 0, 0
	for _, fn := range p.XBSeekMethods() {
		switch an.XBCheckSeeker(c, "O1", fn) {
		case "computing":
			nComp++
		case "forwarding":
			nFwd++
		}
	}
	c.Min("O1 Seek methods interpreting whence", nComp, 2)
	if c.Tier == "thorough" {
		c.Min("O1 Seek methods forwarding to another Seeker", nFwd, 4)
	}
	dmSeek := p.Func(mod, "DagModifier", "Seek")
	c.Need(dmSeek != nil && an.XBIsSeek(dmSeek), "DagModifier.Seek(int64,int)(int64,error)")

	// ---------------- O2: buffer state coupling
	sync := p.Func(mod, "DagModifier", "Sync")
	if !c.Need(sync != nil, "DagModifier.Sync") {
		return
	}
	syncM := an.M(mod, "DagModifier", "Sync")
	// package-local functions that return a nil error only after a successful Sync()
	syncing := map[*ssa.Function]bool{}
	for _, fn := range fns {
		res := fn.Signature.Results()
		if fn == sync || res.Len() == 0 || !an.IsErrorType(res.At(res.Len()-1).Type()) {
			continue
		}
		scs := an.Calls(fn, syncM)
		if len(scs) == 0 {
			continue
		}
		all := true
		for _, ret := range an.Returns(fn) {
			if !an.IsNilConst(ret.Results[len(ret.Results)-1]) {
				continue
			}
			ok := false
			for _, sc := range scs {
				if an.Dominates(sc, ret) && an.XBOnNilEdge(fn, sc, ret) {
					ok = true
				}
			}
			if !ok {
				all = false
			}
		}
		if all {
			syncing[fn] = true
		}
	}
	// syncedBefore: site is preceded, in fn, by Sync() or a syncing helper on its nil-error edge
	syncedBefore := func(fn *ssa.Function, site ssa.Instruction) bool {
		for _, call := range an.AllCalls(fn) {
			g := an.Callee(call).Static
			if g == nil || !(g == sync || syncing[g]) {
				continue
			}
			if an.Dominates(call, site) && an.XBOnNilEdge(fn, call, site) {
				return true
			}
		}
		return false
	}
	nO2 := 0
	for _, fn := range fns {
		name := an.FuncName(fn)
		// (a) wrBuf.Write => curWrOff += n
		for _, call := range an.Calls(fn, an.M("bytes", "Buffer", "Write"), an.M("bytes", "Buffer", "WriteString"), an.M("bytes", "Buffer", "WriteByte"), an.M("bytes", "Buffer", "ReadFrom")) {
			if !loadOf(an.Recv(call), fWrBuf) {
				continue
			}
			nO2++
			ns := an.Result(call, 0)
			var adds []ssa.Instruction
			for _, st := range an.FieldStores(fn, fCur) {
				b, ok := st.Val.(*ssa.BinOp)
				if !ok || b.Op != token.ADD {
					continue
				}
				x, y := an.XBStripConv(b.X), an.XBStripConv(b.Y)
				var addend ssa.Value
				if loadOf(x, fCur) {
					addend = y
				} else if loadOf(y, fCur) {
					addend = x
				}
				for _, n := range ns {
					if addend == n {
						adds = append(adds, st)
					}
				}
			}
			blocked := map[ssa.Instruction]bool{}
			for _, a := range adds {
				blocked[a] = true
			}
			esc := an.ReachesAnyReturn(fn, call, an.NilEdges(fn, an.ErrResult(call), false), blocked)
			c.Check(len(adds) > 0 && esc == nil, "O2", "R-PAIR", name, "wrBuf."+an.Callee(call).Name+"=>curWrOff+=n", call.Pos(),
				"bytes appended to the write buffer advance curWrOff by the same count", "bytes are appended to dm.wrBuf without advancing dm.curWrOff by the written count on every non-error path: the next Read/WriteAt uses a wrong current offset")
		}
		// (b) wrBuf = nil => writeStart += Len() taken from the buffer
		for _, st := range an.FieldStores(fn, fWrBuf) {
			_, base := an.FieldOf(st.Addr)
			if an.IsFresh(base) || !an.IsNilConst(st.Val) {
				continue
			}
			nO2++
			var adv []ssa.Instruction
			for _, s2 := range an.StoresToField(fn, fStart, base) {
				b, ok := s2.Val.(*ssa.BinOp)
				if !ok || b.Op != token.ADD {
					continue
				}
				x, y := an.XBStripConv(b.X), an.XBStripConv(b.Y)
				var addend ssa.Value
				if loadOf(x, fStart) {
					addend = y
				} else if loadOf(y, fStart) {
					addend = x
				}
				if call, ok := an.IsCallTo(addend, an.M("bytes", "Buffer", "Len")); ok && loadOf(an.Recv(call), fWrBuf) {
					// the length must be taken before anything can drain the buffer:
					// no method call on the same modifier and no call receiving the buffer may precede it
					early := true
					for _, k := range an.AllCalls(fn) {
						if ssa.Instruction(k) == ssa.Instruction(call) {
							continue
						}
						// a method called on the same DagModifier can reach dm.wrBuf
						rk := an.Recv(k)
						local := rk != nil && an.SameObj(rk, base)
						takes := false
						for _, a := range k.Common().Args {
							if loadOf(a, fWrBuf) && an.Callee(k).Name != "Len" {
								takes = true
							}
						}
						if (local || takes) && an.Reaches(fn, k, call, nil, nil) {
							early = false
						}
					}
					if early {
						adv = append(adv, s2)
					}
				}
			}
			c.Check(an.Around(fn, st, adv), "O2", "R-PAIR", name, "wrBuf=nil=>writeStart+=flushed", st.Pos(),
				"dropping the flushed buffer advances writeStart by the length the buffer had before flushing", "dm.wrBuf is dropped without advancing dm.writeStart by the buffer length (taken before the flush drains the buffer) on every path: the next buffered write is flushed at a stale position")
		}
		// (c) wrBuf.Reset() => curWrOff = writeStart
		for _, call := range an.Calls(fn, an.M("bytes", "Buffer", "Reset"), an.M("bytes", "Buffer", "Truncate")) {
			recv := an.Recv(call)
			if !loadOf(recv, fWrBuf) {
				continue
			}
			nO2++
			_, base := an.FieldOf(recv.(*ssa.UnOp).X)
			var rebase []ssa.Instruction
			for _, s2 := range an.StoresToField(fn, fCur, base) {
				if loadOf(an.XBStripConv(s2.Val), fStart) {
					rebase = append(rebase, s2)
				}
			}
			c.Check(an.Around(fn, call, rebase), "O2", "R-PAIR", name, "wrBuf."+an.Callee(call).Name+"=>curWrOff=writeStart", call.Pos(),
				"emptying the buffer re-bases curWrOff on writeStart", "dm.wrBuf is emptied without re-basing dm.curWrOff on dm.writeStart: curWrOff keeps counting the discarded bytes (and a shorter overwrite is appended instead of replacing the buffered bytes)")
		}
		// (d) absolute stores to writeStart
		for _, st := range an.FieldStores(fn, fStart) {
			_, base := an.FieldOf(st.Addr)
			if an.IsFresh(base) {
				continue
			}
			if b, ok := st.Val.(*ssa.BinOp); ok && b.Op == token.ADD && (loadOf(an.XBStripConv(b.X), fStart) || loadOf(an.XBStripConv(b.Y), fStart)) {
				continue // relative advance, handled by (b)
			}
			nO2++
			c.Check(syncedBefore(fn, st), "O2", "R-DOM", name, "writeStart=abs<=Sync-ok", st.Pos(),
				"the write position is moved only after the pending buffer was flushed successfully", "dm.writeStart is moved without a preceding successful Sync(): bytes still buffered for the old position are flushed at the new one (misplaced write)")
			same := loadOf(an.XBStripConv(st.Val), fCur)
			for _, s2 := range an.StoresToField(fn, fCur, base) {
				if an.XBStripConv(s2.Val) == an.XBStripConv(st.Val) || s2.Val == st.Val {
					if an.Around(fn, st, []ssa.Instruction{s2}) {
						same = true
					}
				}
			}
			c.Check(same, "O2", "R-PAIR", name, "writeStart=abs=>curWrOff=same", st.Pos(),
				"writeStart and curWrOff are moved together", "dm.writeStart is moved without moving dm.curWrOff to the same position: curWrOff drifts away from writeStart+len(wrBuf); a following Read/Seek(SeekCurrent)/WriteAt works from the wrong offset")
		}
		// (e) every change of curWrOff keeps curWrOff == writeStart + len(wrBuf)
		for _, st := range an.FieldStores(fn, fCur) {
			_, base := an.FieldOf(st.Addr)
			if an.IsFresh(base) {
				continue
			}
			if b, ok := st.Val.(*ssa.BinOp); ok && b.Op == token.ADD {
				x, y := an.XBStripConv(b.X), an.XBStripConv(b.Y)
				var addend ssa.Value
				if loadOf(x, fCur) {
					addend = y
				} else if loadOf(y, fCur) {
					addend = x
				}
				if addend != nil {
					if call, ok := an.IsCallTo(addend, an.M("bytes", "Buffer", "Write"), an.M("bytes", "Buffer", "WriteString"), an.M("bytes", "Buffer", "WriteByte"), an.M("bytes", "Buffer", "ReadFrom")); ok && loadOf(an.Recv(call), fWrBuf) {
						continue // buffer growth, checked by (a)
					}
					nO2++
					var follow []ssa.Instruction
					for _, s2 := range an.StoresToField(fn, fStart, base) {
						v := an.XBStripConv(s2.Val)
						if loadOf(v, fCur) {
							follow = append(follow, s2)
						} else if b2, ok := s2.Val.(*ssa.BinOp); ok && b2.Op == token.ADD {
							x2, y2 := an.XBStripConv(b2.X), an.XBStripConv(b2.Y)
							if (loadOf(x2, fStart) && y2 == addend) || (loadOf(y2, fStart) && x2 == addend) {
								follow = append(follow, s2)
							}
						}
					}
					okF, _ := an.MustFollow(fn, st, follow)
					c.Check(len(follow) > 0 && okF, "O2", "R-PAIR", name, "curWrOff+=n=>writeStart-follows", st.Pos(),
						"the position advanced by a read is also the start of the next buffered write", "dm.curWrOff is advanced (by bytes read) without moving dm.writeStart along: the next Write is buffered for the stale writeStart and lands at the position of the last Seek instead of the current offset (misplaced write)")
					continue
				}
			}
			v := an.XBStripConv(st.Val)
			if loadOf(v, fStart) {
				continue // re-base on writeStart
			}
			nO2++
			same := false
			for _, s2 := range an.StoresToField(fn, fStart, base) {
				if an.XBStripConv(s2.Val) == v || s2.Val == st.Val {
					if an.Around(fn, st, []ssa.Instruction{s2}) {
						same = true
					}
				}
			}
			c.Check(same, "O2", "R-PAIR", name, "curWrOff=abs=>writeStart=same", st.Pos(),
				"curWrOff and writeStart are moved together", "dm.curWrOff is set without setting dm.writeStart to the same position: the next Write is buffered for a stale position")
		}
	}
	c.Min("O2 buffer-state mutation sites", nO2, 5)

	// ---------------- O3: Sync before output uses of curNode
	// functions Sync runs (transitively, package-local static calls)
	inSync := map[*ssa.Function]bool{sync: true}
	callers := map[*ssa.Function][]ssa.CallInstruction{}
	for _, fn := range fns {
		for _, call := range an.AllCalls(fn) {
			if g := an.Callee(call).Static; g != nil && g.Pkg != nil && fn.Pkg != nil && g.Pkg == fn.Pkg {
				callers[g] = append(callers[g], call)
			}
		}
	}
	for changed := true; changed; {
		changed = false
		for _, fn := range fns {
			if !inSync[fn] {
				continue
			}
			for _, g := range an.WithClosures(fn) {
				for _, call := range an.AllCalls(g) {
					if h := an.Callee(call).Static; h != nil && h.Pkg == fn.Pkg && !inSync[h] {
						inSync[h] = true
						changed = true
					}
				}
			}
		}
	}
	var syncedAt func(fn *ssa.Function, site ssa.Instruction, depth int) (bool, string)
	syncedAt = func(fn *ssa.Function, site ssa.Instruction, depth int) (bool, string) {
		for _, sc := range an.Calls(fn, syncM) {
			if an.Dominates(sc, site) && an.XBOnNilEdge(fn, sc, site) {
				return true, ""
			}
		}
		if depth >= 3 {
			return false, an.FuncName(fn)
		}
		cs := callers[fn]
		if len(cs) == 0 {
			return false, an.FuncName(fn)
		}
		for _, call := range cs {
			if ok, where := syncedAt(call.Parent(), call, depth+1); !ok {
				return false, where
			}
		}
		return true, ""
	}
	nO3 := 0
	for _, fn := range fns {
		if inSync[fn] || fn.Name() == "Size" && fn.Signature.Recv() != nil {
			continue
		}
		seen := map[string]bool{}
		for _, l := range an.FieldReads(fn, fNode) {
			u := l.(*ssa.UnOp)
			_, base := an.FieldOf(u.X)
			if an.IsFresh(base) {
				continue
			}
			// how is the loaded node used?
			use := ""
			for _, r := range *l.Referrers() {
				if call, ok := r.(ssa.CallInstruction); ok {
					use = an.Callee(call).Name
					if use == "" {
						use = "call"
					}
				} else if _, ok := r.(*ssa.TypeAssert); ok {
					use = "type-assert"
				} else if use == "" {
					use = "value"
				}
			}
			if seen[use] {
				continue
			}
			seen[use] = true
			nO3++
			ok, where := syncedAt(fn, u, 0)
			c.Check(ok, "O3", "R-DOM", an.FuncName(fn), "curNode->"+use+"<=Sync-ok", u.Pos(),
				"dm.curNode is used only after a successful Sync()", "dm.curNode is used ("+use+") without a preceding successful Sync() in "+where+": buffered writes are missing from the result")
		}
	}
	c.Min("O3 output uses of curNode", nO3, 3)

	// ---------------- O4: reader invalidation
	nO4 := 0
	// package-local helpers that leave dm.read == nil on every path to their return
	dropFns := map[*ssa.Function]bool{}
	for _, fn := range fns {
		if fn.Signature.Recv() == nil || len(fn.Params) == 0 {
			continue
		}
		var nilStores []*ssa.Store
		for _, r := range an.StoresToField(fn, fRead, fn.Params[0]) {
			if an.IsNilConst(r.Val) {
				nilStores = append(nilStores, r)
			}
		}
		if len(nilStores) == 0 {
			continue
		}
		var reads []ssa.Value
		for _, l := range an.FieldReads(fn, fRead) {
			reads = append(reads, l)
		}
		blocked := map[ssa.Instruction]bool{}
		for _, r := range nilStores {
			blocked[r] = true
		}
		all := true
		for _, ret := range an.Returns(fn) {
			if an.Reaches(fn, nil, ret, an.NilEdges(fn, reads, true), blocked) {
				all = false
			}
		}
		// and nothing re-creates the reader afterwards
		for _, r := range an.FieldStores(fn, fRead) {
			if !an.IsNilConst(r.Val) {
				all = false
			}
		}
		if all {
			dropFns[fn] = true
		}
	}
	for _, fn := range fns {
		name := an.FuncName(fn)
		type site struct {
			in   ssa.Instruction
			base ssa.Value
			what string
		}
		var sites []site
		for _, st := range an.FieldStores(fn, fNode) {
			_, base := an.FieldOf(st.Addr)
			if !an.IsFresh(base) {
				sites = append(sites, site{st, base, "curNode=new"})
			}
		}
		for _, call := range an.Calls(fn, an.M("bytes", "Buffer", "Write"), an.M("bytes", "Buffer", "WriteString"), an.M("bytes", "Buffer", "ReadFrom")) {
			if recv := an.Recv(call); loadOf(recv, fWrBuf) {
				_, base := an.FieldOf(recv.(*ssa.UnOp).X)
				sites = append(sites, site{call, base, "wrBuf.Write"})
			}
		}
		if len(sites) == 0 {
			continue
		}
		var reads []ssa.Value
		for _, l := range an.FieldReads(fn, fRead) {
			reads = append(reads, l)
		}
		readNil := an.NilEdges(fn, reads, true)
		seen := map[string]bool{}
		for _, s := range sites {
			if seen[s.what] {
				// several stores in one function: report each distinct kind once, checking all
			}
			nO4++
			blocked := map[ssa.Instruction]bool{}
			for _, r := range an.StoresToField(fn, fRead, s.base) {
				if an.IsNilConst(r.Val) {
					blocked[r] = true
				}
			}
			for _, call := range an.AllCalls(fn) {
				if g := an.Callee(call).Static; g != nil && dropFns[g] && g != fn {
					if recv := an.Recv(call); recv != nil && an.SameObj(recv, s.base) {
						blocked[call] = true
					}
				}
			}
			before := !an.Reaches(fn, nil, s.in, readNil, blocked)
			after := an.ReachesAnyReturn(fn, s.in, readNil, blocked) == nil && len(blocked) > 0
			seen[s.what] = true
			c.Check(before || after, "O4", "R-PAIR", name, s.what+"=>read=nil", s.in.Pos(),
				"content change happens with the cached reader dropped", "the file content changes ("+s.what+") while a DagReader created by an earlier Read may stay cached in dm.read: later reads serve the old DAG (stale or missing bytes, index out of range after growth)")
		}
	}
	c.Min("O4 content-change sites", nO4, 5)

	// deterministic note about what family members were seen
	var fam []string
	for _, fn := range p.XBSeekMethods() {
		fam = append(fam, an.FuncName(fn))
	}
	sort.Strings(fam)
	c.Note("O1 Seek family analysed: %s", strings.Join(fam, ", "))
}
