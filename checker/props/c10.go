package props

import (
	"go/token"
	"go/types"
	"sort"
	"strings"

	"golang.org/x/tools/go/ssa"

	"verif/checker/an"
)

func init() {
	register("C10", Prop{
		Pkgs: []string{"./ipld/unixfs/mod", "./ipld/unixfs/io"},
		Explain: "Decided (structural necessary conditions of 'DagModifier behaves as a mutable file'): " +
			"O1 Seeker family: every Seek(offset, whence) method loaded (quick: unixfs/mod + unixfs/io; thorough: whole module) either forwards its (offset, whence) pair unchanged, or interprets whence exhaustively with an error default, computes SeekCurrent/SeekEnd targets as base + offset (SeekEnd relative to the size) and rejects negative targets before any state change or forwarded seek; " +
			"O2 write-buffer state coupling on DagModifier{wrBuf, writeStart, curWrOff}: wrBuf.Write => curWrOff += n; wrBuf = nil => writeStart += flushed length; wrBuf.Reset() => curWrOff = writeStart; an absolute store to writeStart is preceded by a successful Sync and coupled with the same value stored to curWrOff; " +
			"O3 every use of dm.curNode for output (reader creation, GetNode copy/collapse, dagTruncate) is preceded by Sync() on its nil-error edge (in the function or in every package-local caller); table exception: Size (combines the DAG size with the pending buffer by design) and the functions Sync itself runs; " +
			"O4 cached-reader invalidation: every replacement of dm.curNode and every write into the buffer happens with dm.read dropped (dm.read = nil, or tested nil) in the same function: a reader created by an earlier Read must not survive a content change. " +
			"O5 offset arithmetic: expandSparse only with a difference a-b guarded by a>b; Sync flushes in the order grow, modifyDag(curNode, writeStart), reload, appendData(splitter(wrBuf)) only if bytes are left; the recursive descents modifyDag/dagTruncate enter a child only where target < passed+childsize, hand it target-passed, advance passed by that child's own size in every iteration, move the target to the end of a processed child, record the truncated child with target-passed and keep the links before its index; leaves are cut at [:size]; Truncate rejects a negative size before converting it. " +
			"NOT decided: equivalence with a byte-array model, content produced by modifyDag leaves/appendData, trickle layout (C08).",
		Assume:    []string{"unexported DagModifier fields are only reachable from package unixfs/mod", "bytes.Buffer behaves as documented"},
		Technique: "sibling agreement + switch exhaustiveness over the Seek family (R-SIB, R-EXH), coupled mutation (R-PAIR), edge dominance with caller-holds summaries (R-DOM)",
		Run:       runC10,
	})
}

func runC10(c *an.Ctx) {
	p := c.P
	const mod = "ipld/unixfs/mod"
	fns := p.PkgFuncs(mod)
	roles := c10ResolveRoles(c, fns)
	if !c.Need(roles != nil && roles.wrBuf != nil && roles.writeStart != nil && roles.curWrOff != nil && roles.curNode != nil && roles.read != nil,
		"DagModifier state by role: the *bytes.Buffer, the uint64 advanced by Buffer.Write counts (current offset), the uint64 advanced by Buffer.Len (write start), the ipld.Node, the DagReader") {
		return
	}
	c.Need(roles.grow != nil && roles.appender != nil && roles.modify != nil && roles.truncate != nil && roles.fileSize != nil,
		"unixfs/mod helpers by role: grow (parameter -> io.LimitReader), append (calls trickle.Append), overwrite (reads the write buffer), truncate (recursive Node,uint64 -> Node,error), fileSize (Node -> uint64,error)")
	fWrBuf, fStart, fCur, fNode, fRead := roles.wrBuf, roles.writeStart, roles.curWrOff, roles.curNode, roles.read
	loadOf := func(v ssa.Value, f *types.Var) bool {
		u, ok := v.(*ssa.UnOp)
		if !ok || u.Op != token.MUL {
			return false
		}
		g, _ := an.FieldOf(u.X)
		return g == f
	}

	// ---------------- O1: Seeker family
	nComp, nFwd := 0, 0
	for _, fn := range p.XBSeekMethods() {
		switch an.XBCheckSeeker(c, "O1", fn) {
		case "computing":
			nComp++
		case "forwarding":
			nFwd++
		}
	}
	c.Min("O1 Seek methods interpreting whence", nComp, 1)
	if c.Tier == "thorough" {
		c.Min("O1 Seek methods forwarding to another Seeker", nFwd, 1)
	}
	dmSeek := p.Func(mod, "DagModifier", "Seek")
	c.Need(dmSeek != nil && an.XBIsSeek(dmSeek), "DagModifier.Seek(int64,int)(int64,error)")

	// ---------------- O2: buffer state coupling
	sync := p.Func(mod, "DagModifier", "Sync")
	if !c.Need(sync != nil, "DagModifier.Sync") {
		return
	}
	syncM := an.M(mod, "DagModifier", "Sync")
	// functions the flush itself runs (reachable from Sync through package-local static calls)
	flushFns := map[*ssa.Function]bool{}
	{
		var walk func(f *ssa.Function)
		walk = func(f *ssa.Function) {
			for _, g := range an.WithClosures(f) {
				for _, call := range an.AllCalls(g) {
					if h := an.Callee(call).Static; h != nil && h.Pkg != nil && sync.Pkg != nil && h.Pkg == sync.Pkg && h != sync && !flushFns[h] {
						flushFns[h] = true
						walk(h)
					}
				}
			}
		}
		walk(sync)
	}
	inFlushClosure := func(f *ssa.Function) bool { return flushFns[f] }
	// package-local functions that return a nil error only with the buffer flushed (filled by a fixpoint below)
	syncing := map[*ssa.Function]bool{}
	// syncedBefore: site is preceded, in fn, by Sync() or a syncing helper on its nil-error edge
	syncedBefore := func(fn *ssa.Function, site ssa.Instruction) bool {
		for _, call := range an.AllCalls(fn) {
			g := an.Callee(call).Static
			if g == nil || !(g == sync || syncing[g]) {
				continue
			}
			if an.Dominates(call, site) && an.XBOnNilEdge(fn, call, site) {
				return true
			}
		}
		// or: every path to the site either crosses an edge on which dm.wrBuf was tested nil (nothing buffered) or an
		// edge on which the result of a Sync() was tested nil ("if dm.wrBuf != nil { if err := dm.Sync(); err != nil {..} }")
		cut := an.EdgeSet{}
		var loads []ssa.Value
		for _, l := range an.FieldReads(fn, fWrBuf) {
			loads = append(loads, l)
		}
		cut = cut.Union(an.NilEdges(fn, loads, true))
		for _, call := range an.AllCalls(fn) {
			if g := an.Callee(call).Static; g != nil && (g == sync || syncing[g]) {
				cut = cut.Union(an.NilEdges(fn, an.ErrResult(call), true))
			}
		}
		if len(cut) > 0 && an.Reaches(fn, nil, site, nil, nil) && !an.Reaches(fn, nil, site, cut, nil) {
			return true
		}
		return false
	}
	// fixpoint for the syncing helpers: every return whose error may be nil is either the forwarded result of Sync()/a
	// syncing helper, or is reached only with the buffer flushed / known empty
	for changed := true; changed; {
		changed = false
		for _, fn := range fns {
			res := fn.Signature.Results()
			if fn == sync || syncing[fn] || inFlushClosure(fn) || res.Len() == 0 || !an.IsErrorType(res.At(res.Len()-1).Type()) {
				continue
			}
			uses := false
			for _, call := range an.AllCalls(fn) {
				if g := an.Callee(call).Static; g != nil && (g == sync || syncing[g]) {
					uses = true
				}
			}
			if !uses {
				continue
			}
			all := true
			for _, ret := range an.Returns(fn) {
				e := ret.Results[len(ret.Results)-1]
				if call, ok := an.IsCallTo(e, syncM); ok && call != nil {
					continue // return dm.Sync()
				}
				if cv, ok := e.(*ssa.Call); ok {
					if g := an.Callee(cv).Static; g != nil && syncing[g] {
						continue
					}
				}
				if !an.IsNilConst(e) && c07IsFailureReturn(fn, ret) {
					continue
				}
				if !syncedBefore(fn, ret) {
					all = false
				}
			}
			if all {
				syncing[fn] = true
				changed = true
			}
		}
	}
	nO2 := 0
	for _, fn := range fns {
		name := an.FuncName(fn)
		// (a) wrBuf.Write => curWrOff += n
		for _, call := range an.Calls(fn, an.M("bytes", "Buffer", "Write"), an.M("bytes", "Buffer", "WriteString"), an.M("bytes", "Buffer", "WriteByte"), an.M("bytes", "Buffer", "ReadFrom")) {
			if !loadOf(an.Recv(call), fWrBuf) {
				continue
			}
			nO2++
			ns := an.Result(call, 0)
			var adds []ssa.Instruction
			for _, st := range an.FieldStores(fn, fCur) {
				b, ok := st.Val.(*ssa.BinOp)
				if !ok || b.Op != token.ADD {
					continue
				}
				x, y := an.XBStripConv(b.X), an.XBStripConv(b.Y)
				var addend ssa.Value
				if loadOf(x, fCur) {
					addend = y
				} else if loadOf(y, fCur) {
					addend = x
				}
				for _, n := range ns {
					if addend == n {
						adds = append(adds, st)
					}
				}
			}
			blocked := map[ssa.Instruction]bool{}
			for _, a := range adds {
				blocked[a] = true
			}
			esc := an.ReachesAnyReturn(fn, call, an.NilEdges(fn, an.ErrResult(call), false), blocked)
			c.Check(len(adds) > 0 && esc == nil, "O2", "R-PAIR", name, "wrBuf."+an.Callee(call).Name+"=>curWrOff+=n", call.Pos(),
				"bytes appended to the write buffer advance curWrOff by the same count", "bytes are appended to dm.wrBuf without advancing dm.curWrOff by the written count on every non-error path: the next Read/WriteAt uses a wrong current offset")
		}
		// (b) wrBuf = nil => writeStart += Len() taken from the buffer
		for _, st := range an.FieldStores(fn, fWrBuf) {
			_, base := an.FieldOf(st.Addr)
			if an.IsFresh(base) || !an.IsNilConst(st.Val) {
				continue
			}
			nO2++
			var adv []ssa.Instruction
			for _, s2 := range an.StoresToField(fn, fStart, base) {
				b, ok := s2.Val.(*ssa.BinOp)
				if !ok || b.Op != token.ADD {
					continue
				}
				x, y := an.XBStripConv(b.X), an.XBStripConv(b.Y)
				var addend ssa.Value
				if loadOf(x, fStart) {
					addend = y
				} else if loadOf(y, fStart) {
					addend = x
				}
				if call, ok := an.IsCallTo(addend, an.M("bytes", "Buffer", "Len")); ok && loadOf(an.Recv(call), fWrBuf) {
					// the length must be taken before anything can drain the buffer:
					// no method call on the same modifier and no call receiving the buffer may precede it
					early := true
					for _, k := range an.AllCalls(fn) {
						if ssa.Instruction(k) == ssa.Instruction(call) {
							continue
						}
						// a method called on the same DagModifier can reach dm.wrBuf
						rk := an.Recv(k)
						local := rk != nil && an.SameObj(rk, base)
						takes := false
						for _, a := range k.Common().Args {
							if loadOf(a, fWrBuf) && an.Callee(k).Name != "Len" {
								takes = true
							}
						}
						if (local || takes) && an.Reaches(fn, k, call, nil, nil) {
							early = false
						}
					}
					if early {
						adv = append(adv, s2)
					}
				}
			}
			c.Check(an.Around(fn, st, adv), "O2", "R-PAIR", name, "wrBuf=nil=>writeStart+=flushed", st.Pos(),
				"dropping the flushed buffer advances writeStart by the length the buffer had before flushing", "dm.wrBuf is dropped without advancing dm.writeStart by the buffer length (taken before the flush drains the buffer) on every path: the next buffered write is flushed at a stale position")
		}
		// (c) wrBuf.Reset() => curWrOff = writeStart
		for _, call := range an.Calls(fn, an.M("bytes", "Buffer", "Reset"), an.M("bytes", "Buffer", "Truncate")) {
			recv := an.Recv(call)
			if !loadOf(recv, fWrBuf) {
				continue
			}
			nO2++
			_, base := an.FieldOf(recv.(*ssa.UnOp).X)
			var rebase []ssa.Instruction
			for _, s2 := range an.StoresToField(fn, fCur, base) {
				if loadOf(an.XBStripConv(s2.Val), fStart) {
					rebase = append(rebase, s2)
				}
			}
			c.Check(an.Around(fn, call, rebase), "O2", "R-PAIR", name, "wrBuf."+an.Callee(call).Name+"=>curWrOff=writeStart", call.Pos(),
				"emptying the buffer re-bases curWrOff on writeStart", "dm.wrBuf is emptied without re-basing dm.curWrOff on dm.writeStart: curWrOff keeps counting the discarded bytes (and a shorter overwrite is appended instead of replacing the buffered bytes)")
		}
		// (d) absolute stores to writeStart
		for _, st := range an.FieldStores(fn, fStart) {
			_, base := an.FieldOf(st.Addr)
			if an.IsFresh(base) {
				continue
			}
			if b, ok := st.Val.(*ssa.BinOp); ok && b.Op == token.ADD && (loadOf(an.XBStripConv(b.X), fStart) || loadOf(an.XBStripConv(b.Y), fStart)) {
				continue // relative advance, handled by (b)
			}
			nO2++
			c.Check(an.XBLocalGraph(fns).HeldUp(fn, st, syncedBefore, 3), "O2", "R-DOM", name, "writeStart=abs<=Sync-ok", st.Pos(),
				"the write position is moved only after the pending buffer was flushed successfully", "dm.writeStart is moved without a preceding successful Sync(): bytes still buffered for the old position are flushed at the new one (misplaced write)")
			same := loadOf(an.XBStripConv(st.Val), fCur)
			for _, s2 := range an.StoresToField(fn, fCur, base) {
				if an.XBStripConv(s2.Val) == an.XBStripConv(st.Val) || s2.Val == st.Val {
					if an.Around(fn, st, []ssa.Instruction{s2}) {
						same = true
					}
				}
			}
			c.Check(same, "O2", "R-PAIR", name, "writeStart=abs=>curWrOff=same", st.Pos(),
				"writeStart and curWrOff are moved together", "dm.writeStart is moved without moving dm.curWrOff to the same position: curWrOff drifts away from writeStart+len(wrBuf); a following Read/Seek(SeekCurrent)/WriteAt works from the wrong offset")
		}
		// (e) every change of curWrOff keeps curWrOff == writeStart + len(wrBuf)
		for _, st := range an.FieldStores(fn, fCur) {
			_, base := an.FieldOf(st.Addr)
			if an.IsFresh(base) {
				continue
			}
			if b, ok := st.Val.(*ssa.BinOp); ok && b.Op == token.ADD {
				x, y := an.XBStripConv(b.X), an.XBStripConv(b.Y)
				var addend ssa.Value
				if loadOf(x, fCur) {
					addend = y
				} else if loadOf(y, fCur) {
					addend = x
				}
				if addend != nil {
					if call, ok := an.IsCallTo(addend, an.M("bytes", "Buffer", "Write"), an.M("bytes", "Buffer", "WriteString"), an.M("bytes", "Buffer", "WriteByte"), an.M("bytes", "Buffer", "ReadFrom")); ok && loadOf(an.Recv(call), fWrBuf) {
						continue // buffer growth, checked by (a)
					}
					nO2++
					var follow []ssa.Instruction
					for _, s2 := range an.StoresToField(fn, fStart, base) {
						v := an.XBStripConv(s2.Val)
						if loadOf(v, fCur) {
							follow = append(follow, s2)
						} else if b2, ok := s2.Val.(*ssa.BinOp); ok && b2.Op == token.ADD {
							x2, y2 := an.XBStripConv(b2.X), an.XBStripConv(b2.Y)
							if (loadOf(x2, fStart) && y2 == addend) || (loadOf(y2, fStart) && x2 == addend) {
								follow = append(follow, s2)
							}
						}
					}
					okF, _ := an.MustFollow(fn, st, follow)
					c.Check(len(follow) > 0 && okF, "O2", "R-PAIR", name, "curWrOff+=n=>writeStart-follows", st.Pos(),
						"the position advanced by a read is also the start of the next buffered write", "dm.curWrOff is advanced (by bytes read) without moving dm.writeStart along: the next Write is buffered for the stale writeStart and lands at the position of the last Seek instead of the current offset (misplaced write)")
					continue
				}
			}
			v := an.XBStripConv(st.Val)
			if loadOf(v, fStart) {
				continue // re-base on writeStart
			}
			nO2++
			same := false
			for _, s2 := range an.StoresToField(fn, fStart, base) {
				if an.XBStripConv(s2.Val) == v || s2.Val == st.Val {
					if an.Around(fn, st, []ssa.Instruction{s2}) {
						same = true
					}
				}
			}
			c.Check(same, "O2", "R-PAIR", name, "curWrOff=abs=>writeStart=same", st.Pos(),
				"curWrOff and writeStart are moved together", "dm.curWrOff is set without setting dm.writeStart to the same position: the next Write is buffered for a stale position")
		}
	}
	c.Min("O2 buffer-state mutation sites", nO2, 1)

	// ---------------- O3: Sync before output uses of curNode
	// functions Sync runs (transitively, package-local static calls)
	inSync := map[*ssa.Function]bool{sync: true}
	callers := map[*ssa.Function][]ssa.CallInstruction{}
	for _, fn := range fns {
		for _, call := range an.AllCalls(fn) {
			if g := an.Callee(call).Static; g != nil && g.Pkg != nil && fn.Pkg != nil && g.Pkg == fn.Pkg {
				callers[g] = append(callers[g], call)
			}
		}
	}
	for changed := true; changed; {
		changed = false
		for _, fn := range fns {
			if !inSync[fn] {
				continue
			}
			for _, g := range an.WithClosures(fn) {
				for _, call := range an.AllCalls(g) {
					if h := an.Callee(call).Static; h != nil && h.Pkg == fn.Pkg && !inSync[h] {
						inSync[h] = true
						changed = true
					}
				}
			}
		}
	}
	var syncedAt func(fn *ssa.Function, site ssa.Instruction, depth int) (bool, string)
	syncedAt = func(fn *ssa.Function, site ssa.Instruction, depth int) (bool, string) {
		if syncedBefore(fn, site) {
			return true, ""
		}
		if depth >= 3 {
			return false, an.FuncName(fn)
		}
		cs := callers[fn]
		if len(cs) == 0 {
			return false, an.FuncName(fn)
		}
		for _, call := range cs {
			if ok, where := syncedAt(call.Parent(), call, depth+1); !ok {
				return false, where
			}
		}
		return true, ""
	}
	nO3 := 0
	for _, fn := range fns {
		if inSync[fn] || fn.Name() == "Size" && fn.Signature.Recv() != nil {
			continue
		}
		seen := map[string]bool{}
		for _, l := range an.FieldReads(fn, fNode) {
			u := l.(*ssa.UnOp)
			_, base := an.FieldOf(u.X)
			if an.IsFresh(base) {
				continue
			}
			// how is the loaded node used?
			use := ""
			for _, r := range *l.Referrers() {
				if call, ok := r.(ssa.CallInstruction); ok {
					if ci := an.Callee(call); ci.Static != nil && ci.Static.Pkg != nil && fn.Pkg != nil && ci.Static.Pkg == fn.Pkg {
						use = roles.label(ci.Static)
					} else {
						use = ci.Name
					}
					if use == "" {
						use = "call"
					}
				} else if _, ok := r.(*ssa.TypeAssert); ok {
					use = "type-assert"
				} else if use == "" {
					use = "value"
				}
			}
			if seen[use] {
				continue
			}
			seen[use] = true
			nO3++
			ok, where := syncedAt(fn, u, 0)
			c.Check(ok, "O3", "R-DOM", an.FuncName(fn), "curNode->"+use+"<=Sync-ok", u.Pos(),
				"dm.curNode is used only after a successful Sync()", "dm.curNode is used ("+use+") without a preceding successful Sync() in "+where+": buffered writes are missing from the result")
		}
	}
	c.Min("O3 output uses of curNode", nO3, 1)

	// O3b: the functions the flush itself runs on the DAG / the buffer (expandSparse, modifyDag, appendData ...) are
	// exempt from the rule above; every entry into them from outside the flush must therefore happen with the buffer
	// flushed: after a successful Sync() (in the caller or at all of its call sites), or where dm.wrBuf was tested nil.
	// Accepted idiom (WriteAt): grow by (T - Size()) first, then Sync() successfully and set writeStart = T on every
	// success path — the next flush re-grows the DAG up to writeStart, so the logical/physical size mix is repaired.
	{
		g3 := an.XBLocalGraph(fns)
		touches := map[*ssa.Function]bool{}
		for _, fn := range fns {
			if len(an.FieldAddrs(fn, fNode)) > 0 || len(an.FieldAddrs(fn, fWrBuf)) > 0 {
				touches[fn] = true
			}
		}
		for changed := true; changed; {
			changed = false
			for _, fn := range fns {
				if touches[fn] {
					continue
				}
				for _, call := range an.AllCalls(fn) {
					if t := an.Callee(call).Static; t != nil && touches[t] {
						touches[fn] = true
						changed = true
					}
				}
			}
		}
		nEntry := 0
		for _, fn := range fns {
			if inSync[fn] || (fn.Name() == "Size" && fn.Signature.Recv() != nil) {
				continue
			}
			for _, call := range an.AllCalls(fn) {
				t := an.Callee(call).Static
				if t == nil || t == sync || !inSync[t] || !touches[t] || syncing[t] {
					continue
				}
				nEntry++
				ok := g3.HeldUp(fn, call, func(f *ssa.Function, at ssa.Instruction) bool {
					return syncedBefore(f, at)
				}, 3)
				idiom := false
				if !ok {
					// grow-then-reposition: argument is T - X; afterwards Sync() succeeds and writeStart = T on every success path
					if sub, isSub := an.XBStripConv(call.Common().Args[len(call.Common().Args)-1]).(*ssa.BinOp); isSub && sub.Op == token.SUB {
						target := an.XBStripConv(sub.X)
						var repos []ssa.Instruction
						for _, st := range an.FieldStores(fn, fStart) {
							if an.XBStripConv(st.Val) == target && syncedBefore(fn, st) {
								// the Sync that precedes the store must come after the grow
								after := false
								for _, sc := range an.AllCalls(fn) {
									if g := an.Callee(sc).Static; g != nil && (g == sync || syncing[g]) && an.Reaches(fn, call, sc, nil, nil) && an.Dominates(sc, st) {
										after = true
									}
								}
								if after {
									repos = append(repos, st)
								}
							}
						}
						idiom = c07FollowsOnSuccess(fn, call, repos)
					}
				}
				c.Check(ok || idiom, "O3", "R-DOM", an.FuncName(fn), roles.label(t)+"<=Sync-ok", call.Pos(),
					"the DAG/buffer operation of the flush is entered with the write buffer flushed (successful Sync, empty buffer, or grow-then-Sync-and-reposition)",
					t.Name()+" is entered from "+fn.Name()+" without a preceding successful Sync() (and the buffer is not known to be empty): it works on a DAG that does not yet contain the buffered bytes while sizes computed from Size() already count them — the file ends up short/misplaced by the buffered bytes")
			}
		}
		c.Min("O3 entries into flush operations from outside the flush", nEntry, 1)
	}

	// ---------------- O4: reader invalidation
	nO4 := 0
	// package-local helpers that leave dm.read == nil on every path to their return
	dropFns := map[*ssa.Function]bool{}
	for _, fn := range fns {
		if fn.Signature.Recv() == nil || len(fn.Params) == 0 {
			continue
		}
		var nilStores []*ssa.Store
		for _, r := range an.StoresToField(fn, fRead, fn.Params[0]) {
			if an.IsNilConst(r.Val) {
				nilStores = append(nilStores, r)
			}
		}
		if len(nilStores) == 0 {
			continue
		}
		var reads []ssa.Value
		for _, l := range an.FieldReads(fn, fRead) {
			reads = append(reads, l)
		}
		blocked := map[ssa.Instruction]bool{}
		for _, r := range nilStores {
			blocked[r] = true
		}
		all := true
		for _, ret := range an.Returns(fn) {
			if an.Reaches(fn, nil, ret, an.NilEdges(fn, reads, true), blocked) {
				all = false
			}
		}
		// and nothing re-creates the reader afterwards
		for _, r := range an.FieldStores(fn, fRead) {
			if !an.IsNilConst(r.Val) {
				all = false
			}
		}
		if all {
			dropFns[fn] = true
		}
	}
	graph := an.XBLocalGraph(fns)
	// dropsIn: the instructions of f that leave base.read == nil, and the edges on which it was tested nil
	dropsIn := func(f *ssa.Function, base ssa.Value) (map[ssa.Instruction]bool, an.EdgeSet) {
		blocked := map[ssa.Instruction]bool{}
		for _, r := range an.StoresToField(f, fRead, base) {
			if an.IsNilConst(r.Val) {
				blocked[r] = true
			}
		}
		for _, call := range an.AllCalls(f) {
			if g := an.Callee(call).Static; g != nil && dropFns[g] && g != f {
				if recv := an.Recv(call); recv != nil && an.SameObj(recv, base) {
					blocked[call] = true
				}
			}
		}
		var reads []ssa.Value
		for _, l := range an.FieldReads(f, fRead) {
			if _, b := an.FieldOf(l.(*ssa.UnOp).X); an.SameObj(b, base) {
				reads = append(reads, l)
			}
		}
		return blocked, an.NilEdges(f, reads, true)
	}
	for _, fn := range fns {
		name := an.FuncName(fn)
		type site struct {
			in   ssa.Instruction
			base ssa.Value
			what string
		}
		var sites []site
		for _, st := range an.FieldStores(fn, fNode) {
			_, base := an.FieldOf(st.Addr)
			if !an.IsFresh(base) {
				sites = append(sites, site{st, base, "curNode=new"})
			}
		}
		for _, call := range an.Calls(fn, an.M("bytes", "Buffer", "Write"), an.M("bytes", "Buffer", "WriteString"), an.M("bytes", "Buffer", "ReadFrom")) {
			if recv := an.Recv(call); loadOf(recv, fWrBuf) {
				_, base := an.FieldOf(recv.(*ssa.UnOp).X)
				sites = append(sites, site{call, base, "wrBuf.Write"})
			}
		}
		if len(sites) == 0 {
			continue
		}
		var reads []ssa.Value
		for _, l := range an.FieldReads(fn, fRead) {
			reads = append(reads, l)
		}
		readNil := an.NilEdges(fn, reads, true)
		seen := map[string]bool{}
		for _, s := range sites {
			if seen[s.what] {
				// several stores in one function: report each distinct kind once, checking all
			}
			nO4++
			blocked := map[ssa.Instruction]bool{}
			for _, r := range an.StoresToField(fn, fRead, s.base) {
				if an.IsNilConst(r.Val) {
					blocked[r] = true
				}
			}
			for _, call := range an.AllCalls(fn) {
				if g := an.Callee(call).Static; g != nil && dropFns[g] && g != fn {
					if recv := an.Recv(call); recv != nil && an.SameObj(recv, s.base) {
						blocked[call] = true
					}
				}
			}
			_ = blocked
			_ = readNil
			// dropped before the change: in this function, or at every call site of it (caller holds)
			before := graph.HeldUp(fn, s.in, func(f *ssa.Function, at ssa.Instruction) bool {
				var base ssa.Value
				switch x := at.(type) {
				case *ssa.Store:
					_, base = an.FieldOf(x.Addr)
				case ssa.CallInstruction:
					if r := an.Recv(x); r != nil {
						if loadOf(r, fWrBuf) {
							_, base = an.FieldOf(r.(*ssa.UnOp).X)
						} else {
							base = r
						}
					}
				}
				if base == nil {
					return false
				}
				bl, rn := dropsIn(f, base)
				return !an.Reaches(f, nil, at, rn, bl)
			}, 3)
			bl, rn := dropsIn(fn, s.base)
			after := an.ReachesAnyReturn(fn, s.in, rn, bl) == nil && len(bl) > 0
			seen[s.what] = true
			c.Check(before || after, "O4", "R-PAIR", name, s.what+"=>read=nil", s.in.Pos(),
				"content change happens with the cached reader dropped", "the file content changes ("+s.what+") while a DagReader created by an earlier Read may stay cached in dm.read: later reads serve the old DAG (stale or missing bytes, index out of range after growth)")
		}
	}
	c.Min("O4 content-change sites", nO4, 1)

	// ---------------- O5: offset arithmetic (round 2)
	c10Arithmetic(c, fns, fWrBuf, fStart, fNode, roles)
	c10Round11(c, fns, roles)

	// deterministic note about what family members were seen
	var fam []string
	for _, fn := range p.XBSeekMethods() {
		fam = append(fam, an.FuncName(fn))
	}
	sort.Strings(fam)
	c.Note("O1 Seek family analysed: %s", strings.Join(fam, ", "))
}

// c10Arithmetic: O5 — sizes handed to expandSparse are proven non-negative differences, Sync flushes at writeStart in
// the order grow -> overwrite -> append, and the recursive descents (modifyDag, dagTruncate) translate the absolute
// offset into the child's coordinate system with the running sum of the sizes of the children already passed.
func c10Arithmetic(c *an.Ctx, fns []*ssa.Function, fWrBuf, fStart, fNode *types.Var, roles *c10Roles) {
	p := c.P
	_ = p
	const mod = "ipld/unixfs/mod"
	loadOf := func(v ssa.Value, f *types.Var) bool {
		u, ok := v.(*ssa.UnOp)
		if !ok || u.Op != token.MUL {
			return false
		}
		g, _ := an.FieldOf(u.X)
		return g == f
	}
	same := func(a, b ssa.Value) bool {
		a, b = an.XBStripConv(a), an.XBStripConv(b)
		if a == b {
			return true
		}
		// two loads of the same field of the same object
		ua, ok1 := a.(*ssa.UnOp)
		ub, ok2 := b.(*ssa.UnOp)
		if ok1 && ok2 && ua.Op == token.MUL && ub.Op == token.MUL {
			fa, ba := an.FieldOf(ua.X)
			fb, bb := an.FieldOf(ub.X)
			return fa != nil && fa == fb && an.SameObj(ba, bb)
		}
		return false
	}
	// ---- (a) expandSparse(a - b) only where a > b
	nExp := 0
	for _, fn := range fns {
		for _, call := range c10CallsTo(fn, roles.grow) {
			nExp++
			arg := an.XBStripConv(an.Args(call)[0])
			sub, ok := arg.(*ssa.BinOp)
			okG := false
			if ok && sub.Op == token.SUB {
				edges := an.XBEdgesWhere(fn, func(r an.XBRel) bool {
					if same(r.X, sub.X) && same(r.Y, sub.Y) {
						return r.Op == token.GTR
					}
					if same(r.X, sub.Y) && same(r.Y, sub.X) {
						return r.Op == token.LSS
					}
					return false
				})
				okG = len(edges) > 0 && an.GuardedBy(fn, nil, call, edges)
			}
			c.Check(okG, "O5", "R-CMP", an.FuncName(fn), "grow(a-b)<=a>b", call.Pos(),
				"the file is grown by a difference that was tested positive", "expandSparse is called with a size that is not a difference a-b guarded by a > b on the same operands: an unsigned underflow or a wrong operand grows the file by a bogus amount (misplaced or huge zero fill)")
		}
	}
	c.Min("O5 expandSparse calls", nExp, 1)

	// ---- (b) the flush: grow -> modifyDag(curNode, writeStart) -> reload its result -> appendData(only if bytes are left).
	// The steps are found by role (callers of modifyDag other than itself; calls of appendData fed from wrBuf), wherever
	// they live: Sync itself or helpers it calls.
	graph := an.XBLocalGraph(fns)
	modFn := roles.modify
	// functions reachable from f through package-local static calls
	reachFrom := func(f *ssa.Function) map[*ssa.Function]bool {
		seen := map[*ssa.Function]bool{}
		var walk func(x *ssa.Function)
		walk = func(x *ssa.Function) {
			for _, call := range an.AllCalls(x) {
				if t := an.Callee(call).Static; t != nil && graph.In[t] && !seen[t] {
					seen[t] = true
					walk(t)
				}
			}
		}
		if f != nil {
			walk(f)
		}
		return seen
	}
	inModRec := reachFrom(modFn)
	isMod := func(in ssa.Instruction) bool {
		call, ok := in.(ssa.CallInstruction)
		// an entry into modifyDag from outside its own recursion (helpers it calls back through are part of it)
		return ok && modFn != nil && an.Callee(call).Static == modFn && call.Parent() != modFn && !inModRec[call.Parent()]
	}
	performsMod := graph.XBPerforms(isMod, c07IsFailureReturn)
	nFlush := 0
	for _, fn := range fns {
		for _, in := range an.XBActs(fn, isMod, nil) {
			m := in.(ssa.CallInstruction)
			nFlush++
			a := an.Args(m)
			c.Check(loadOf(a[0], fNode) && loadOf(a[1], fStart), "O5", "R-FLOW", an.FuncName(fn), "overwrite(curNode,writeStart)", m.Pos(),
				"the buffer is written into the current DAG at writeStart", "the flush overwrites at an offset other than dm.writeStart (or in a node other than dm.curNode): buffered bytes land at the wrong position")
			for _, e := range c10CallsTo(fn, roles.grow) {
				c.Check(an.Dominates(e, m) || !an.Reaches(fn, m, e, nil, nil), "O5", "R-DOM", an.FuncName(fn), "grow-before-overwrite", e.Pos(),
					"the file is grown to writeStart before the overwrite", "the file is grown after overwriting: the overwrite runs on a DAG shorter than writeStart")
			}
			okGet := false
			for _, g := range an.AllCalls(fn) {
				if ci := an.Callee(g); ci.Name == "Get" && ci.Invoke {
					for _, ga := range g.Common().Args {
						for _, r := range an.Result(m, 0) {
							if ga == r {
								okGet = true
							}
						}
					}
				}
			}
			c.Check(okGet, "O5", "R-FLOW", an.FuncName(fn), "curNode=Get(overwrite-result)", m.Pos(), "the DAG is reloaded from the CID modifyDag returned", "dm.curNode is not reloaded from the CID returned by modifyDag")
		}
		for _, a := range c10CallsTo(fn, roles.appender) {
			// only the append of the write buffer (expandSparse appends a zero stream)
			fromBuf := false
			for _, r := range an.Roots(an.Args(a)[1], nil) {
				if call, ok := r.(*ssa.Call); ok {
					for _, ca := range call.Call.Args {
						if loadOf(an.XBStripConv(ca), fWrBuf) {
							fromBuf = true
						}
						if mi, ok := ca.(*ssa.MakeInterface); ok && loadOf(mi.X, fWrBuf) {
							fromBuf = true
						}
					}
				}
			}
			if !fromBuf {
				continue
			}
			nFlush++
			// preceded by the overwrite: here, or at every call site of this helper
			okOrder := graph.HeldUp(fn, a, func(f *ssa.Function, at ssa.Instruction) bool {
				for _, m := range an.XBActs(f, isMod, performsMod) {
					if an.Dominates(m, at) {
						return true
					}
				}
				return false
			}, 3)
			c.Check(okOrder, "O5", "R-DOM", an.FuncName(fn), "overwrite-before-append", a.Pos(),
				"bytes that overlap the existing file are written before the rest is appended", "the buffer is appended before (or without) overwriting the overlapping part: bytes are duplicated or misplaced")
			okLeft := graph.HeldUp(fn, a, func(f *ssa.Function, at ssa.Instruction) bool {
				var lens []ssa.Value
				for _, l := range an.Calls(f, an.M("bytes", "Buffer", "Len")) {
					if v := an.CallValue(l); v != nil && loadOf(an.Recv(l), fWrBuf) {
						lens = append(lens, v)
					}
				}
				left := an.XBEdgesWhere(f, func(r an.XBRel) bool {
					k, isK := an.XBInt64(r.Y)
					isLen := false
					for _, l := range lens {
						if r.X == l {
							isLen = true
						}
					}
					return isLen && isK && ((k == 0 && (r.Op == token.GTR || r.Op == token.NEQ)) || (k == 1 && r.Op == token.GEQ))
				})
				return len(left) > 0 && an.GuardedBy(f, nil, at, left)
			}, 3)
			c.Check(okLeft, "O5", "R-DOM", an.FuncName(fn), "append<=wrBuf.Len()>0", a.Pos(),
				"append only what is left in the buffer", "appendData is called for the write buffer although it may be empty (not guarded by wrBuf.Len() > 0)")
		}
	}
	c.Min("O5 flush steps (modifyDag / appendData of the buffer)", nFlush, 1)

	// ---- (c) recursive descents by child size
	nDesc := 0
	for _, fn := range fns {
		if fn.Parent() != nil {
			continue
		}
		for _, rc := range an.AllCalls(fn) {
			if t := an.Callee(rc).Static; t != fn && !(t != nil && graph.In[t] && reachFrom(t)[fn]) {
				continue // neither a self call nor a call to a helper that calls back
			}
			// a descent: the self call sits in a loop over the children, or leaves it (break) with a running sum as operand
			inLoop := an.XBInCycle(rc.Block())
			if !inLoop {
				for _, a := range an.Args(rc) {
					if b, ok := a.(*ssa.BinOp); ok && b.Op == token.SUB {
						if ph, ok := b.Y.(*ssa.Phi); ok && an.XBInCycle(ph.Block()) {
							inLoop = true
						}
					}
				}
			}
			if !inLoop {
				// ... or is reached only across a comparison with a running sum (phi of a loop + size)
				for e, r := range an.XBEdgeRels(fn) {
					for _, side := range []ssa.Value{r.X, r.Y} {
						if a, ok := side.(*ssa.BinOp); ok && a.Op == token.ADD {
							for _, op := range []ssa.Value{a.X, a.Y} {
								if ph, ok := op.(*ssa.Phi); ok && an.XBInCycle(ph.Block()) && an.XBMustCross(fn, nil, rc, e) {
									inLoop = true
								}
							}
						}
					}
				}
			}
			if !inLoop {
				continue
			}
			name := an.FuncName(fn)
			args := an.Args(rc)
			var child, off ssa.Value
			for _, a := range args {
				if types.IsInterface(a.Type()) && an.TypeIs(a.Type(), "github.com/ipfs/go-ipld-format", "Node") {
					child = a
				}
				if b, ok := a.Type().Underlying().(*types.Basic); ok && b.Kind() == types.Uint64 {
					off = a
				}
			}
			if off == nil {
				continue
			}
			nDesc++
			sub, ok := off.(*ssa.BinOp)
			if !ok || sub.Op != token.SUB {
				c.Bad("O5", "R-FLOW", name, "child-offset=target-passed", rc.Pos(), "the offset/size handed to the child is not (target - sum of the sizes of the children already passed): the child is modified/truncated at the parent's coordinate")
				continue
			}
			target, cur := sub.X, sub.Y
			curPhi, isPhi := cur.(*ssa.Phi)
			// cur = phi(0, cur + B) with the addition executed in every iteration
			var B ssa.Value
			okCur := isPhi
			if isPhi {
				for _, e := range curPhi.Edges {
					if k, isK := an.XBInt64(e); isK && k == 0 {
						continue
					}
					add, ok := e.(*ssa.BinOp)
					if !ok || add.Op != token.ADD || !(add.X == ssa.Value(curPhi) || add.Y == ssa.Value(curPhi)) {
						okCur = false
						continue
					}
					b := add.Y
					if add.Y == ssa.Value(curPhi) {
						b = add.X
					}
					if B != nil && B != b {
						okCur = false
					}
					B = b
				}
			}
			c.Check(okCur && B != nil, "O5", "R-FLOW", name, "passed+=childsize-every-iteration", rc.Pos(),
				"the running sum grows by the size of every child that is passed", "the running sum of passed child sizes is not advanced by exactly one child size in every iteration (starting at 0): children after the first are addressed with a wrong relative offset")
			if !okCur || B == nil {
				continue
			}
			// guard: target < cur + B
			edges := an.XBEdgesWhere(fn, func(r an.XBRel) bool {
				isSum := func(v ssa.Value) bool {
					a, ok := v.(*ssa.BinOp)
					return ok && a.Op == token.ADD && ((a.X == cur && a.Y == B) || (a.Y == cur && a.X == B))
				}
				if isSum(r.X) && r.Y == target {
					return r.Op == token.GTR
				}
				if isSum(r.Y) && r.X == target {
					return r.Op == token.LSS
				}
				return false
			})
			c.Check(len(edges) > 0 && an.GuardedBy(fn, nil, rc, edges), "O5", "R-CMP", name, "descend<=target<passed+childsize", rc.Pos(),
				"a child is entered only where the target lies before its end", "the descent into a child is not guarded by target < passed + childsize on the same values: the wrong child is modified, or target - passed underflows")
			// B is the size of the very child that is entered
			okB := false
			if fc, ok := B.(*ssa.Extract); ok && child != nil && roles.fileSize != nil {
				if fcc, ok2 := fc.Tuple.(*ssa.Call); ok2 && an.Callee(fcc).Static == roles.fileSize && fcc.Call.Args[0] == child {
					okB = true
				}
			}
			if false {
				okB = true
			}
			if l, ok := B.(*ssa.UnOp); ok && l.Op == token.MUL {
				if ia, ok := l.X.(*ssa.IndexAddr); ok {
					// the helper that fetches the child itself receives the same index
					if child == nil {
						for _, a := range args {
							if a == ia.Index {
								okB = true
							}
						}
					}
					if gn, ok := an.IsCallTo(child, an.M("github.com/ipfs/go-ipld-format", "Link", "GetNode")); ok && child != nil {
						if ll, ok := an.Recv(gn).(*ssa.UnOp); ok && ll.Op == token.MUL {
							if ia2, ok := ll.X.(*ssa.IndexAddr); ok && ia2.Index == ia.Index {
								okB = true
							}
						}
					}
				}
			}
			c.Check(okB, "O5", "R-FLOW", name, "childsize-belongs-to-entered-child", rc.Pos(),
				"the size compared and accumulated is the size of the child that is entered (same index / same node)", "the size used for the descent does not belong to the child that is entered (different index or node): sizes and links are mismatched")
			// the target is either loop-invariant, or moved to the end of the child after it was processed
			if _, isPhi := target.(*ssa.Phi); !isPhi && an.Reaches(fn, rc, rc, nil, nil) {
				c.Bad("O5", "R-FLOW", name, "target=end-of-child-after-descent", rc.Pos(), "the loop goes on to further children after writing into one, but the target offset is never moved to the end of the processed child: the rest of the data is written at a wrong relative offset of the next child")
			}
			if tp, ok := target.(*ssa.Phi); ok {
				okT := true
				sawAdd := false
				var walk func(v ssa.Value, d int)
				walk = func(v ssa.Value, d int) {
					if d > 4 {
						okT = false
						return
					}
					switch x := v.(type) {
					case *ssa.Phi:
						if x == tp {
							return
						}
						for _, e := range x.Edges {
							walk(e, d+1)
						}
					case *ssa.BinOp:
						if x.Op == token.ADD && ((x.X == cur && x.Y == B) || (x.Y == cur && x.X == B)) {
							sawAdd = true
							return
						}
						okT = false
					case *ssa.Parameter:
					default:
						okT = false
					}
				}
				for _, e := range tp.Edges {
					walk(e, 0)
				}
				c.Check(okT && sawAdd, "O5", "R-FLOW", name, "target=end-of-child-after-descent", rc.Pos(),
					"after a child was processed the target moves to the end of that child", "after writing into a child the target offset is not moved to passed + childsize: the remaining bytes are written into the next child at a wrong relative offset")
			}
			// a size recorded for the entered child must be the same difference
			for _, ab := range an.Calls(fn, an.M("ipld/unixfs", "FSNode", "AddBlockSize")) {
				v := an.Args(ab)[0]
				if v == B {
					continue // kept child recorded with its own size
				}
				nDesc++
				d, ok := v.(*ssa.BinOp)
				c.Check(ok && d.Op == token.SUB && d.X == target && d.Y == cur, "O5", "R-FLOW", name, "recorded-size=target-passed", ab.Pos(),
					"the truncated child is recorded with the size it was truncated to", "the size recorded for the truncated child is not the value (target - passed) it was truncated to")
			}
			// a re-slice of the link list ends at the index of the entered child
			for _, sl := range an.Calls(fn, an.M("ipld/merkledag", "ProtoNode", "SetLinks")) {
				s, ok := an.Args(sl)[0].(*ssa.Slice)
				if !ok {
					continue
				}
				nDesc++
				okEnd := false
				if ph, ok := s.High.(*ssa.Phi); ok && s.Low == nil {
					okEnd = true
					nonInit := 0
					for _, e := range ph.Edges {
						if k, isK := an.XBInt64(e); isK && k == 0 {
							continue
						}
						nonInit++
						// must be the loop index of the iteration that entered the child
						idxOK := false
						if gn, ok := an.IsCallTo(child, an.M("github.com/ipfs/go-ipld-format", "Link", "GetNode")); ok {
							if ll, ok := an.Recv(gn).(*ssa.UnOp); ok {
								if ia, ok := ll.X.(*ssa.IndexAddr); ok && ia.Index == e {
									idxOK = true
								}
							}
						}
						if !idxOK {
							okEnd = false
						}
					}
					if nonInit == 0 {
						okEnd = false
					}
				}
				c.Check(okEnd, "O5", "R-FLOW", name, "kept-links=[:index-of-truncated-child]", sl.Pos(),
					"the links kept are those before the truncated child", "the link list is cut at an index that is not the index of the child that was truncated: a child is lost or kept twice")
			}
		}
	}
	c.Min("O5 recursive descents", nDesc, 1)

	// ---- (d) leaf truncation cuts at the requested size; Truncate hands its own size down and rejects a negative one
	// every entry into dagTruncate from outside cuts dm.curNode at a size that derives from a signed parameter which
	// was tested non-negative (in the calling function or, for a helper, at its call sites)
	if dtf := roles.truncate; dtf != nil {
		nTr := 0
		for _, fn := range fns {
			for _, call := range c10CallsTo(fn, dtf) {
				if fn == dtf {
					continue
				}
				nTr++
				a := an.Args(call)
				c.Check(loadOf(a[1], fNode), "O5", "R-FLOW", an.FuncName(fn), "truncate(curNode,_)", call.Pos(),
					"the current DAG is the one that is truncated", "a node other than dm.curNode is truncated")
				okNeg := graph.HeldUpV(fn, call, an.XBStripConv(a[2]), func(f *ssa.Function, at ssa.Instruction, v ssa.Value) bool {
					par, ok := v.(*ssa.Parameter)
					if !ok {
						return false
					}
					if b, ok := par.Type().Underlying().(*types.Basic); !ok || b.Info()&types.IsUnsigned != 0 {
						return false
					}
					nonneg := an.XBEdgesWhere(f, func(r an.XBRel) bool {
						k, isK := an.XBInt64(r.Y)
						return isK && r.X == ssa.Value(par) && ((k == 0 && r.Op == token.GEQ) || (k == -1 && r.Op == token.GTR))
					})
					return len(nonneg) > 0 && an.GuardedBy(f, nil, at, nonneg)
				}, 3)
				c.Check(okNeg, "O5", "R-DOM", an.FuncName(fn), "negative-size-rejected", call.Pos(),
					"the size handed to dagTruncate is a signed argument that was tested non-negative", "the size handed to dagTruncate does not derive from a signed parameter tested >= 0: a negative Truncate size is converted to a huge unsigned value (nil node dereference) instead of being rejected, or the DAG is cut at a size other than the requested one")
			}
		}
		c.Min("O5 entries into dagTruncate", nTr, 1)
	}
	if dt := roles.truncate; dt != nil {
		size := ssa.Value(dt.Params[len(dt.Params)-1])
		n := 0
		an.Instrs(dt, func(in ssa.Instruction) {
			sl, ok := in.(*ssa.Slice)
			if !ok {
				return
			}
			if _, isBytes := sl.Type().Underlying().(*types.Slice); !isBytes {
				return
			}
			if e, ok := sl.Type().Underlying().(*types.Slice).Elem().Underlying().(*types.Basic); !ok || e.Kind() != types.Uint8 {
				return
			}
			n++
			c.Check(sl.Low == nil && sl.High == size, "O5", "R-FLOW", an.FuncName(dt), "leaf-data[:size]", sl.Pos(),
				"leaf data is cut to [:size]", "a leaf is truncated to something other than data[:size]")
		})
		c.Min("O5 leaf truncation slices", n, 1)
	}
}

// ---------------------------------------------------------------------------
// Round 7: unexported identifiers of package unixfs/mod are resolved by role.

type c10Roles struct {
	wrBuf, writeStart, curWrOff, curNode, read *types.Var
	grow                                       *ssa.Function // expandSparse: its integer parameter flows into io.LimitReader
	appender                                   *ssa.Function // appendData: calls trickle.Append
	modify                                     *ssa.Function // modifyDag: drains dm.wrBuf with (*bytes.Buffer).Read
	truncate                                   *ssa.Function // dagTruncate: recursive, (ipld.Node, uint64 ...) -> (ipld.Node, error)
	fileSize                                   *ssa.Function // fileSize: func(ipld.Node) (uint64, error)
	names                                      map[*ssa.Function]string
}

func (r *c10Roles) label(f *ssa.Function) string {
	if f == nil {
		return "call"
	}
	if n, ok := r.names[f]; ok {
		return n
	}
	if ast := f.Name(); len(ast) > 0 && ast[0] >= 'A' && ast[0] <= 'Z' {
		return ast
	}
	return "helper"
}

func c10ResolveRoles(c *an.Ctx, fns []*ssa.Function) *c10Roles {
	p := c.P
	const mod = "ipld/unixfs/mod"
	r := &c10Roles{names: map[*ssa.Function]string{}}
	dm := p.Named(mod, "DagModifier")
	if dm == nil {
		return nil
	}
	st, ok := dm.Underlying().(*types.Struct)
	if !ok {
		return nil
	}
	var u64 []*types.Var
	for i := 0; i < st.NumFields(); i++ {
		f := st.Field(i)
		if f.Exported() {
			continue
		}
		switch {
		case an.TypeIs(f.Type(), "bytes", "Buffer"):
			r.wrBuf = f
		case an.TypeIs(f.Type(), "ipld/unixfs/io", "DagReader"):
			r.read = f
		case an.TypeIs(f.Type(), "github.com/ipfs/go-ipld-format", "Node"):
			r.curNode = f
		default:
			if b, ok := f.Type().Underlying().(*types.Basic); ok && b.Kind() == types.Uint64 {
				u64 = append(u64, f)
			}
		}
	}
	if r.wrBuf == nil {
		return r
	}
	loadOf := func(v ssa.Value, f *types.Var) bool {
		u, ok := v.(*ssa.UnOp)
		if !ok || u.Op != token.MUL {
			return false
		}
		g, _ := an.FieldOf(u.X)
		return g == f
	}
	// the two uint64 positions: the one advanced by the count written into the buffer is the current offset, the one
	// advanced by the length of the buffer is the start of the buffered write
	for _, fn := range fns {
		an.Instrs(fn, func(in ssa.Instruction) {
			st, ok := in.(*ssa.Store)
			if !ok {
				return
			}
			f, _ := an.FieldOf(st.Addr)
			isU := false
			for _, q := range u64 {
				if q == f {
					isU = true
				}
			}
			b, okB := st.Val.(*ssa.BinOp)
			if !isU || !okB || b.Op != token.ADD {
				return
			}
			x, y := an.XBStripConv(b.X), an.XBStripConv(b.Y)
			var addend ssa.Value
			if loadOf(x, f) {
				addend = y
			} else if loadOf(y, f) {
				addend = x
			} else {
				return
			}
			if call, ok := an.IsCallTo(addend, an.M("bytes", "Buffer", "Write")); ok && loadOf(an.Recv(call), r.wrBuf) {
				r.curWrOff = f
			}
			if call, ok := an.IsCallTo(addend, an.M("bytes", "Buffer", "Len")); ok && loadOf(an.Recv(call), r.wrBuf) {
				r.writeStart = f
			}
		})
	}
	if r.curWrOff != nil && r.writeStart == nil || r.curWrOff == nil && r.writeStart != nil {
		// the other one by elimination when exactly two candidates exist
		if len(u64) == 2 {
			for _, q := range u64 {
				if q != r.curWrOff && q != r.writeStart {
					if r.curWrOff == nil {
						r.curWrOff = q
					} else {
						r.writeStart = q
					}
				}
			}
		}
	}
	// functions
	nodeT := func(t types.Type) bool { return an.TypeIs(t, "github.com/ipfs/go-ipld-format", "Node") }
	g := an.XBLocalGraph(fns)
	selfReach := func(f *ssa.Function) bool {
		seen := map[*ssa.Function]bool{}
		var walk func(x *ssa.Function) bool
		walk = func(x *ssa.Function) bool {
			for _, call := range an.AllCalls(x) {
				t := an.Callee(call).Static
				if t == f {
					return true
				}
				if t != nil && g.In[t] && !seen[t] {
					seen[t] = true
					if walk(t) {
						return true
					}
				}
			}
			return false
		}
		return walk(f)
	}
	for _, fn := range fns {
		if fn.Parent() != nil {
			continue
		}
		for _, call := range an.Calls(fn, an.M("ipld/unixfs/importer/trickle", "", "Append")) {
			_ = call
			r.appender = fn
		}
		for _, call := range an.Calls(fn, an.M("io", "", "LimitReader")) {
			for _, root := range an.Roots(an.XBStripConv(call.Common().Args[1]), nil) {
				if par, ok := root.(*ssa.Parameter); ok && par.Parent() == fn {
					r.grow = fn
				}
			}
		}
		for _, call := range an.Calls(fn, an.M("bytes", "Buffer", "Read")) {
			if loadOf(an.Recv(call), r.wrBuf) {
				r.modify = fn
			}
		}
		sig := fn.Signature
		if sig.Recv() == nil && sig.Params().Len() == 1 && nodeT(sig.Params().At(0).Type()) && sig.Results().Len() == 2 && an.IsErrorType(sig.Results().At(1).Type()) {
			if b, ok := sig.Results().At(0).Type().Underlying().(*types.Basic); ok && b.Kind() == types.Uint64 {
				r.fileSize = fn
			}
		}
		if sig.Results().Len() == 2 && nodeT(sig.Results().At(0).Type()) && an.IsErrorType(sig.Results().At(1).Type()) {
			hasNode, hasU := false, false
			for i := 0; i < sig.Params().Len(); i++ {
				if nodeT(sig.Params().At(i).Type()) {
					hasNode = true
				}
				if b, ok := sig.Params().At(i).Type().Underlying().(*types.Basic); ok && b.Kind() == types.Uint64 {
					hasU = true
				}
			}
			if hasNode && hasU && selfReach(fn) {
				r.truncate = fn
			}
		}
	}
	r.names[r.grow] = "grow"
	r.names[r.appender] = "append"
	r.names[r.modify] = "overwrite"
	r.names[r.truncate] = "truncate"
	r.names[r.fileSize] = "fileSize"
	delete(r.names, nil)
	return r
}

// c10CallsTo lists the calls in fn whose static callee is target.
func c10CallsTo(fn, target *ssa.Function) []ssa.CallInstruction {
	var out []ssa.CallInstruction
	if target == nil {
		return nil
	}
	for _, call := range an.AllCalls(fn) {
		if an.Callee(call).Static == target {
			out = append(out, call)
		}
	}
	return out
}

// c10Round11: obligations added after mutation probing (round 11).
func c10Round11(c *an.Ctx, fns []*ssa.Function, roles *c10Roles) {
	fWrBuf, fStart, fCur, fRead := roles.wrBuf, roles.writeStart, roles.curWrOff, roles.read
	loadOf := func(v ssa.Value, f *types.Var) bool {
		u, ok := an.XBStripConv(v).(*ssa.UnOp)
		if !ok || u.Op != token.MUL {
			return false
		}
		g, _ := an.FieldOf(u.X)
		return g == f
	}
	isBufLen := func(v ssa.Value) bool {
		call, ok := an.IsCallTo(an.XBStripConv(v), an.M("bytes", "Buffer", "Len"))
		return ok && loadOf(an.Recv(call), fWrBuf)
	}
	nRead, nPos, nExt, nReset, nAt := 0, 0, 0, 0, 0
	for _, fn := range fns {
		name := an.FuncName(fn)
		// (A) a count read through the cached reader advances the current offset
		for _, call := range an.AllCalls(fn) {
			cc := call.Common()
			if !cc.IsInvoke() || !loadOf(cc.Value, fRead) {
				continue
			}
			sig := cc.Signature()
			if sig.Results().Len() != 2 || !c06IsInt(sig.Results().At(0).Type()) || !an.IsErrorType(sig.Results().At(1).Type()) {
				continue
			}
			if cc.Method.Name() == "Seek" {
				continue
			}
			nRead++
			ns := an.Result(call, 0)
			var follow []ssa.Instruction
			for _, st := range an.FieldStores(fn, fCur) {
				b, ok := st.Val.(*ssa.BinOp)
				if !ok || b.Op != token.ADD {
					continue
				}
				x, y := an.XBStripConv(b.X), an.XBStripConv(b.Y)
				for _, n := range ns {
					if (loadOf(x, fCur) && y == n) || (loadOf(y, fCur) && x == n) {
						follow = append(follow, st)
					}
				}
			}
			okF, _ := an.MustFollow(fn, call, follow)
			c.Check(len(follow) > 0 && okF, "O2", "R-PAIR", name, "read-count=>curWrOff+=n", call.Pos(),
				"bytes handed out by the cached reader advance the current offset", "a read through the cached reader does not advance the current offset by the count read: the next Write/Read happens at the old position although the reader moved on")
		}
		// (B) a reader that is cached is positioned at the current offset
		if sts := an.FieldStores(fn, fRead); len(sts) > 0 {
			for _, st := range sts {
				if an.IsNilConst(st.Val) {
					continue
				}
				al := an.Aliases(st.Val)
				for _, call := range an.AllCalls(fn) {
					cc := call.Common()
					if !cc.IsInvoke() || cc.Method.Name() != "Seek" || len(cc.Args) != 2 || !al[cc.Value] {
						continue
					}
					nPos++
					k, isK := an.XBInt64(cc.Args[1])
					c.Check(isK && k == 0 && loadOf(cc.Args[0], fCur), "O4", "R-FLOW", name, "cached-reader-positioned-at-curWrOff", call.Pos(),
						"the reader that gets cached is positioned at the current offset", "the reader that gets cached is positioned with something other than Seek(current offset, io.SeekStart): reads return bytes from the wrong place")
				}
			}
		}
		// (C) the extent of the buffered bytes is write start + buffer length
		an.Instrs(fn, func(in ssa.Instruction) {
			b, ok := in.(*ssa.BinOp)
			if !ok || b.Op != token.ADD {
				return
			}
			var other ssa.Value
			if isBufLen(b.X) {
				other = b.Y
			} else if isBufLen(b.Y) {
				other = b.X
			} else {
				return
			}
			if !loadOf(other, fStart) && !loadOf(other, fCur) {
				return
			}
			nExt++
			c.Check(loadOf(other, fStart), "O2", "R-WHO", name, "buffer-extent=writeStart+Len", b.Pos(),
				"the end of the buffered bytes is computed from the write start", "the end of the buffered bytes is computed as current offset + buffer length; the buffer begins at the write start (the current offset already includes the buffered bytes): sizes are reported too large")
		})
		// (D) the buffer is discarded only by a write that covers it from its start
		for _, call := range an.Calls(fn, an.M("bytes", "Buffer", "Reset")) {
			if !loadOf(an.Recv(call), fWrBuf) {
				continue
			}
			nReset++
			covers := an.XBEdgesWhere(fn, func(r an.XBRel) bool {
				isLen := func(v ssa.Value) bool {
					cl, ok := an.XBStripConv(v).(*ssa.Call)
					if !ok || an.Callee(cl).Builtin != "len" {
						return false
					}
					_, isPar := cl.Call.Args[0].(*ssa.Parameter)
					return isPar
				}
				if isLen(r.X) && isBufLen(r.Y) {
					return r.Op == token.GEQ || r.Op == token.GTR || r.Op == token.EQL
				}
				if isLen(r.Y) && isBufLen(r.X) {
					return r.Op == token.LEQ || r.Op == token.LSS || r.Op == token.EQL
				}
				if k, isK := an.XBInt64(r.Y); isK && k == 0 && isBufLen(r.X) {
					return r.Op == token.EQL
				}
				return false
			})
			atStart := an.XBEdgesWhere(fn, func(r an.XBRel) bool {
				if r.Op != token.EQL {
					return false
				}
				_, px := an.XBStripConv(r.X).(*ssa.Parameter)
				_, py := an.XBStripConv(r.Y).(*ssa.Parameter)
				return (px && loadOf(r.Y, fStart)) || (py && loadOf(r.X, fStart))
			})
			c.Check(len(covers) > 0 && an.GuardedBy(fn, nil, call, covers), "O2", "R-DOM", name, "wrBuf.Reset<=write-covers-buffer", call.Pos(),
				"buffered bytes are discarded only where the incoming write is at least as long as the buffer", "the write buffer is reset where the incoming write was not tested to be at least as long as the buffered bytes: the tail of an earlier write is lost")
			c.Check(len(atStart) > 0 && an.GuardedBy(fn, nil, call, atStart), "O2", "R-DOM", name, "wrBuf.Reset<=offset==writeStart", call.Pos(),
				"buffered bytes are discarded only by a write that begins at the write start", "the write buffer is reset where the write offset was not tested equal to the write start: buffered bytes before/after the new write are lost")
		}
		// (E) a positional write appends to the buffer without repositioning only where its offset is the current offset
		for _, par := range fn.Params {
			if b, ok := par.Type().Underlying().(*types.Basic); !ok || b.Kind() != types.Int64 {
				continue
			}
			blocked := map[ssa.Instruction]bool{}
			abs := false
			for _, st := range an.FieldStores(fn, fCur) {
				if an.XBStripConv(st.Val) == ssa.Value(par) {
					blocked[st] = true
					abs = true
				}
			}
			if !abs {
				continue
			}
			eqStart := an.XBEdgesWhere(fn, func(r an.XBRel) bool {
				return r.Op == token.EQL && ((an.XBStripConv(r.X) == ssa.Value(par) && loadOf(r.Y, fStart)) || (an.XBStripConv(r.Y) == ssa.Value(par) && loadOf(r.X, fStart)))
			})
			for _, st := range an.FieldStores(fn, fCur) {
				if loadOf(st.Val, fStart) && len(eqStart) > 0 && an.GuardedBy(fn, nil, st, eqStart) {
					blocked[st] = true
				}
			}
			eqCur := an.XBEdgesWhere(fn, func(r an.XBRel) bool {
				return r.Op == token.EQL && ((an.XBStripConv(r.X) == ssa.Value(par) && loadOf(r.Y, fCur)) || (an.XBStripConv(r.Y) == ssa.Value(par) && loadOf(r.X, fCur)))
			})
			for _, call := range an.AllCalls(fn) {
				t := an.Callee(call).Static
				if t == nil || t == fn {
					continue
				}
				writes := false
				for _, w := range an.Calls(t, an.M("bytes", "Buffer", "Write")) {
					if loadOf(an.Recv(w), fWrBuf) {
						writes = true
					}
				}
				if !writes {
					continue
				}
				nAt++
				c.Check(!an.Reaches(fn, nil, call, eqCur, blocked), "O2", "R-CMP", name, "append-to-buffer<=offset==curWrOff-or-repositioned", call.Pos(),
					"a positional write reaches the buffered write only after repositioning or where its offset equals the current offset",
					"a positional write can reach the buffered write without repositioning on a path where its offset was not tested equal to the current offset: the bytes are written at the wrong position")
			}
		}
	}
	c.Min("O2 reads through the cached reader", nRead, 1)
	c.Min("O4 positioning of the reader that gets cached", nPos, 1)
	c.Min("O2 buffered-extent computations", nExt, 1)
	c.Min("O2 resets of the write buffer", nReset, 1)
	// (E) is anchored on one shape (the repositioning store and the buffered write in the same function); when a
	// refactor moves the store into a helper the obligation does not apply: no vacuity minimum for it.
	c.Note("round-11: positional writes analysed: %d", nAt)
}
