package props

import (
	"fmt"
	"go/constant"
	"go/token"
	"go/types"
	"strings"

	"golang.org/x/tools/go/ssa"

	"verif/checker/an"
)

func init() {
	register("C15", Prop{
		Pkgs: []string{"./ipld/unixfs/hamt", "./ipld/unixfs/io"},
		Explain: "Decided (structural necessary conditions of 'basic, HAMT and dynamic directories behave as name->entry maps'): " +
			"O1 (R-SIB, not-found mapping) BasicDirectory.Find/RemoveChild return the raw error of ProtoNode.GetNodeLink/RemoveNodeLink only where errors.Is(err, ErrLinkNotFound) is false (or after a successful GetNodeLink of the same name) and return os.ErrNotExist on the true edge; hamt: getValue never returns a nil error without having called the callback, swapValue returns os.ErrNotExist where value == nil and the slot holds another key, a removal (value == nil) never creates a shard, childer.insert stores nothing and returns os.ErrNotExist for a nil link; " +
			"O2 (R-PAIR) childer keeps children, links and the bitfield coordinated: a function replacing the children slice replaces links by the same slices operation with the same index operands, and sets/clears the bit of the child index the slice index was derived from; element stores go to children[i] and links[i] with the same i and exactly one of the two is nil; " +
			"O3 (R-EXH) every use of childLinkType distinguishes shard links from value links, and walkChildren continues only for the two known link types (anything else is an error); " +
			"O4 swapValue: the fork creates the sub-shard with the receiver's tableSize and builder and re-inserts the displaced entry with its own key, its own value and hash bits consumed up to the current level; after a removal in a sub-shard the collapse cases exist: length()==0 removes the sub-shard, length()==1 replaces it by its single value child (loaded) or value link (unloaded) at the same slice index; " +
			"O5 (R-FLOW) link-name prefix: prefixPadStr and maxpadlen are built from the same len(hex(size-1)) and tableSize/tableSizeLg2 from the same size; every place that strips the prefix slices at maxpadlen; every hashBits.Next in a Shard method consumes the receiver's tableSizeLg2; " +
			"O6 conversions and dynamic switching: switchToSharding/switchToBasic add every enumerated link under its own name (x.Name, x) and propagate an error of the insertion; DynamicDirectory applies the requested AddChild/RemoveChild (same name, same node) to the new directory before installing it; " +
			"O7 (R-SIB) every enumeration path of the HAMT hands out links named by Shard.key (prefix stripped): walkTrie/ForEachLink and both branches of walkChildren. " +
			"O8 (R-FLOW, serialisation) Shard.Node writes every child under linkNamePrefix(slot)+label where slot is the very index tested with childer.has on that path, label is the child's key (loaded child, whose Link() is written) or the stored link's name cut at maxpadlen (unloaded child, whose stored link is written); the child/link is taken at the dense slice counter, which is advanced exactly on the has()==true paths; the UnixFS data carries this shard's bitfield and tableSize; " +
			"O10 (R-FLOW) every exported Shard method that starts a trie walk (swapValue/getValue family) passes hash bits built from exactly the string it passes as key; " +
			"O9 (R-FLOW, reload) NewHamtFromDag builds the shard with the node's own Fanout() and fills the childer from the same node's Data()/Links(); makeChilder sizes children by len(links), loads the bitfield from the data and keeps the links; " +
			"NOT decided: equivalence with a map model, reload equality, bit extraction arithmetic of hashBits.next, concurrency of parallelShardWalk.",
		Assume: []string{
			"slices.Insert/Delete and go-bitfield behave as documented",
			"unexported fields of hamt.Shard/childer are only reachable from package hamt (Go visibility)",
		},
		Technique: "error provenance on guard edges (R-DOM/R-SIB), coordinated stores with operand identity (R-PAIR), constant comparisons on CFG edges (R-EXH), value provenance (R-FLOW)",
		Run:       runC15,
	})
}

const c15H = "ipld/unixfs/hamt"

func c15IsGlobalLoad(v ssa.Value, pkg, name string) bool {
	for _, r := range an.Roots(v, nil) {
		u, ok := r.(*ssa.UnOp)
		if !ok || u.Op != token.MUL {
			return false
		}
		g, ok := u.X.(*ssa.Global)
		if !ok || g.Name() != name || g.Pkg.Pkg.Path() != pkg {
			return false
		}
	}
	return true
}

func runC15(c *an.Ctx) {
	c15ResolveHamt(c.P)
	c16ResolveIO(c.P)
	c15ResolveRoles(c)
	c15NotFoundBasic(c)
	c15NotFoundHamt(c)
	c15Childer(c)
	c15LinkTypes(c)
	c15Swap(c)
	c15Prefix(c)
	c15Conversions(c)
	c15Enumerations(c)
	c15Serialise(c)
	c15Reload(c)
	c15HashKey(c)
}

// ---- O10: the hash bits and the key handed to the trie walk belong to one name
func c15HashKey(c *an.Ctx) {
	p := c.P
	n := 0
	for _, f := range p.Methods(c15H, "Shard") {
		if f.Object() == nil || !f.Object().Exported() {
			continue
		}
		for _, call := range an.AllCalls(f) {
			g := an.Callee(call).Static
			if g == nil || g.Signature.Recv() == nil || !an.TypeIs(g.Signature.Recv().Type(), c15H, "Shard") {
				continue
			}
			var hv, key ssa.Value
			for _, a := range an.Args(call) {
				switch {
				case c15HR.isHashBits(a.Type()):
					hv = a
				case an.IsString(a.Type()) && key == nil:
					key = a
				}
			}
			if hv == nil || key == nil {
				continue
			}
			// hv = <constructor taking only the name>(x)
			var hashed []ssa.Value
			for _, r := range an.Roots(hv, nil) {
				mk, ok := r.(*ssa.Call)
				if !ok || mk.Call.StaticCallee() == nil || len(mk.Call.Args) != 1 || !an.IsString(mk.Call.Args[0].Type()) {
					hashed = nil
					break
				}
				hashed = append(hashed, mk.Call.Args[0])
			}
			if len(hashed) == 0 {
				continue
			}
			n++
			ok := true
			for _, x := range hashed {
				if x != key && !an.SameObj(x, key) {
					ok = false
				}
			}
			c.Check(ok, "O10", "R-FLOW", an.FuncName(f), "trie-walk(hash(name),key=name)", call.Pos(),
				"hash bits and key of the trie walk come from the same name",
				an.FuncName(f)+" walks the trie with hash bits computed from one string and the key being another: the entry is stored/looked up in the slot of a different name than the one it is compared with, so a later lookup, replacement or removal under the entry's name does not find it (the directory stops behaving as a map)")
		}
	}
	c.Min("O10 trie walks started by exported Shard methods", n, 1)
}

// ---- O1 (io)
func c15NotFoundBasic(c *an.Ctx) {
	p := c.P
	const md = "ipld/merkledag"
	fNode := c16IOR.bNode
	if !c.Need(fNode != nil, "BasicDirectory.node") {
		return
	}
	iface := p.Named(c16IO, "Directory")
	it, _ := iface.Underlying().(*types.Interface)
	if !c.Need(it != nil, "io.Directory interface") {
		return
	}
	env := &c17Env{p: p, fNode: fNode, fTot: c16IOR.bTot, upd: c17Upd(p), comp: c17Comp(p), mut: map[*ssa.Function]bool{}, byName: true}
	n := 0
	isIface := map[string]bool{}
	for i := 0; i < it.NumMethods(); i++ {
		isIface[it.Method(i).Name()] = true
	}
	for _, f := range p.Methods(c16IO, "BasicDirectory") {
		res := f.Signature.Results()
		if res.Len() == 0 || !an.IsErrorType(res.At(res.Len()-1).Type()) {
			continue
		}
		// lookups/removals on the node, directly or through a helper method
		// of the directory that forwards the ProtoNode call and its error
		var lookups []ssa.CallInstruction
		var getOps []c17Op
		for _, o := range env.ops(f, 2) {
			if o.kind == "lookup" {
				getOps = append(getOps, o)
				if o.rawErr {
					lookups = append(lookups, o.call)
				}
			} else if o.kind == "remove" && o.direct {
				lookups = append(lookups, o.call)
			}
		}
		if len(lookups) == 0 {
			continue
		}
		name := an.FuncName(f)
		mapped := false
		for _, rs := range an.ResultSites(f, res.Len()-1) {
			if an.IsNilConst(rs.Val) {
				continue
			}
			for _, k := range lookups {
				errs := an.ErrResult(k)
				al := an.Aliases(errs...)
				notFound := func(want bool) an.EdgeSet { return c17NotFoundEdges(f, al, want) }
				if !an.Reaches(f, k, rs.At, nil, nil) {
					continue
				}
				isNE := func(v ssa.Value) bool { return c15IsGlobalLoad(v, "os", "ErrNotExist") }
				if fnd, grd := an.ValueGuardedBy(f, k, rs.At, rs.Val, isNE, notFound(true)); fnd && grd && len(notFound(true)) > 0 {
					mapped = true
				}
				isRaw := func(v ssa.Value) bool {
					for _, r := range an.Roots(v, &an.FlowOpts{NoCells: true}) {
						if al[r] {
							return true
						}
					}
					return al[v]
				}
				fnd, ok := an.ValueGuardedBy(f, k, rs.At, rs.Val, isRaw, notFound(false))
				if !fnd {
					continue
				}
				n++
				ok = ok && len(notFound(false)) > 0
				if !ok && an.Callee(k).Name == "RemoveNodeLink" {
					// cannot be "not found": a successful GetNodeLink of the same name precedes it
					for _, g := range getOps {
						if an.SameObj(g.name, an.Args(k)[0]) && an.OnNilEdgeOf(f, g.call, k) {
							ok = true
						}
					}
				}
				if !ok && !isIface[f.Name()] && f.Object() != nil && !f.Object().Exported() {
					// an unexported helper may hand the raw error on when all its
					// callers are directory methods, which are examined with the
					// helper's lookup summarised at the call (rawErr)
					callers := an.LocalCallers(p.PkgFuncs(c16IO), f)
					moved := len(callers) > 0
					for _, cs := range callers {
						r := cs.Parent().Signature.Recv()
						if r == nil || !an.TypeIs(r.Type(), c16IO, "BasicDirectory") {
							moved = false
						}
					}
					ok = moved
				}
				c.Check(ok, "O1", "R-SIB", name, c15KeyName(k, "lookup-helper")+"-error=>not-ErrLinkNotFound", rs.At.Pos(),
					"raw ProtoNode error leaves the method only where it is not ErrLinkNotFound",
					"BasicDirectory."+f.Name()+" can return merkledag.ErrLinkNotFound from "+an.Callee(k).Name+" unmapped: the Directory interface promises os.ErrNotExist for a missing name (callers test errors.Is(err, os.ErrNotExist); AddChild of a new name would fail)")
			}
		}
		if !isIface[f.Name()] {
			continue
		}
		if !mapped {
			// the mapping may live in the helper that performs the lookup,
			// whose error this method hands on
			for _, g := range getOps {
				if g.via == nil || g.rawErr {
					continue
				}
				al := an.Aliases(an.ErrResult(g.call)...)
				handsOn := false
				for _, rs := range an.ResultSites(f, res.Len()-1) {
					for _, r := range an.Roots(rs.Val, nil) {
						if al[r] {
							handsOn = true
						}
					}
				}
				if !handsOn {
					continue
				}
				h := g.via
				for _, k := range an.Calls(h, an.M(md, "ProtoNode", "GetNodeLink")) {
					hal := an.Aliases(an.ErrResult(k)...)
					nf := c17NotFoundEdges(h, hal, true)
					for _, rs := range an.ResultSites(h, h.Signature.Results().Len()-1) {
						isNE := func(v ssa.Value) bool { return c15IsGlobalLoad(v, "os", "ErrNotExist") }
						if fnd, grd := an.ValueGuardedBy(h, k, rs.At, rs.Val, isNE, nf); fnd && grd && len(nf) > 0 {
							mapped = true
						}
					}
				}
			}
		}
		c.Check(mapped, "O1", "R-SIB", name, "ErrLinkNotFound=>os.ErrNotExist", f.Pos(),
			"os.ErrNotExist returned where errors.Is(err, ErrLinkNotFound)",
			"BasicDirectory."+f.Name()+" has no return of os.ErrNotExist on the errors.Is(err, ErrLinkNotFound) edge")
	}
	c.Min("O1 raw error returns of BasicDirectory lookups", n, 1)
}

// ---- O1 (hamt)
func c15NotFoundHamt(c *an.Ctx) {
	getV, swapV, ins := c15GetFn(c), c15SwapFn(c), c15InsertFn(c)
	fChildren := c15HR.fChildren
	if !c.Need(getV != nil && swapV != nil && ins != nil && fChildren != nil, "hamt.Shard.getValue, swapValue, childer.insert, childer.children") {
		return
	}
	// getValue: no nil error without the callback
	okG := true
	for _, rs := range an.ResultSites(getV, 0) {
		if an.IsNilConst(rs.Val) {
			okG = false
		}
	}
	hasNE := false
	for _, rs := range an.ResultSites(getV, 0) {
		if c15IsGlobalLoad(rs.Val, "os", "ErrNotExist") {
			hasNE = true
		}
	}
	c.Check(okG && hasNE, "O1", "R-DOM", an.FuncName(getV), "miss=>os.ErrNotExist", getV.Pos(),
		"getValue returns os.ErrNotExist for a miss and never a constant nil",
		"Shard.getValue can return nil without having found the key (or no longer returns os.ErrNotExist): Find then reports success with a nil link for a missing name")
	// swapValue
	var value *ssa.Parameter
	for _, par := range swapV.Params {
		if an.TypeIs(par.Type(), "github.com/ipfs/go-ipld-format", "Link") {
			value = par
		}
	}
	if c.Need(value != nil, "link parameter of swapValue") {
		isNil := an.NilEdges(swapV, []ssa.Value{value}, true)
		found := false
		for _, rs := range an.ResultSites(swapV, 1) {
			if c15IsGlobalLoad(rs.Val, "os", "ErrNotExist") && an.GuardedBy(swapV, nil, rs.At, isNil) {
				found = true
			}
		}
		c.Check(found, "O1", "R-DOM", an.FuncName(swapV), "remove-other-key=>os.ErrNotExist", swapV.Pos(),
			"swapValue returns os.ErrNotExist where value == nil and the slot holds a different key",
			"Shard.swapValue has no os.ErrNotExist return on the value == nil edge: removing a name whose hash slot holds another entry does not report 'not exist'")
	}
	// insert
	var lnk *ssa.Parameter
	for _, par := range ins.Params {
		if an.TypeIs(par.Type(), "github.com/ipfs/go-ipld-format", "Link") {
			lnk = par
		}
	}
	if c.Need(lnk != nil, "link parameter of childer.insert") {
		notNil := an.NilEdges(ins, []ssa.Value{lnk}, false)
		isNil := an.NilEdges(ins, []ssa.Value{lnk}, true)
		var grows []ssa.Instruction
		for _, st := range an.FieldStores(ins, fChildren) {
			grows = append(grows, st)
		}
		for _, call := range an.AllCalls(ins) {
			if g := an.Callee(call).Static; g != nil && g != ins && an.Recv(call) == ssa.Value(ins.Params[0]) && len(an.FieldStores(g, fChildren)) > 0 {
				grows = append(grows, call)
			}
		}
		ok := len(grows) > 0
		for _, st := range grows {
			if !an.GuardedBy(ins, nil, st, notNil) {
				ok = false
			}
		}
		ne := false
		for _, rs := range an.ResultSites(ins, 0) {
			if c15IsGlobalLoad(rs.Val, "os", "ErrNotExist") && an.GuardedBy(ins, nil, rs.At, isNil) {
				ne = true
			}
		}
		c.Check(ok && ne, "O1", "R-DOM", an.FuncName(ins), "insert(nil)=>os.ErrNotExist", ins.Pos(),
			"childer.insert stores only a non-nil link and returns os.ErrNotExist for nil",
			"childer.insert can store a nil link or does not return os.ErrNotExist for it: removing a name whose hash slot is empty creates an entry / does not report 'not exist'")
	}
}

// ---- O2
func c15Childer(c *an.Ctx) {
	p := c.P
	fCh, fLn, fBf := c15HR.fChildren, c15HR.fLinks, c15HR.fBitfield
	sliceIdx := c15RoleFn("sliceIndex")
	if !c.Need(fCh != nil && fLn != nil && fBf != nil && sliceIdx != nil, "childer.{children,links,bitfield,sliceIndex}") {
		return
	}
	fns := p.PkgFuncs(c15H)
	nSlice, nElem := 0, 0
	for _, f := range fns {
		name := an.FuncName(f)
		// whole-slice replacement
		for _, st := range an.FieldStores(f, fCh) {
			_, base := an.FieldOf(st.Addr)
			if an.IsFresh(base) {
				continue
			}
			nSlice++
			opC, argsC := c15SliceOp(st.Val)
			var mate *ssa.Store
			for _, s2 := range an.StoresToField(f, fLn, base) {
				mate = s2
			}
			ok, why := mate != nil, "links is not replaced in the same function"
			if ok {
				opL, argsL := c15SliceOp(mate.Val)
				switch {
				case opC == "" || opC != opL:
					ok, why = false, fmt.Sprintf("children is replaced by %q but links by %q", opC, opL)
				case opC == "Insert" || opC == "Delete":
					for i := range argsC {
						if i >= len(argsL) || !c15SameExpr(argsC[i], argsL[i]) {
							ok, why = false, fmt.Sprintf("index operand %d of slices.%s differs between children and links", i+1, opC)
						}
					}
				}
				if ok && (opC == "Insert" || opC == "Delete") {
					// paired with every path: both stores execute or neither
					if okF, _ := an.MustFollow(f, st, []ssa.Instruction{mate}); !okF && !an.MustPrecede(f, st, []ssa.Instruction{mate}) {
						ok, why = false, "children and links are not replaced on the same paths"
					}
					// bitfield: SetBit / UnsetBit of the child index the slice index came from
					wantBit := map[string]string{"Insert": "SetBit", "Delete": "UnsetBit"}[opC]
					bitOK := false
					for _, bc := range an.AllCalls(f) {
						ci := an.Callee(bc)
						if ci.Name != wantBit || !strings.Contains(ci.Pkg, "go-bitfield") {
							continue
						}
						if fl, b := an.LoadedField(an.Recv(bc)); fl != fBf || !an.SameObj(b, base) {
							continue
						}
						// slice index = sliceIndex(<bit argument>)
						bitArg := an.Args(bc)[0]
						for _, r := range an.Roots(argsC[0], nil) {
							if sc, isSI := an.IsCallTo(r, c15M("sliceIndex")); isSI && an.SameObj(an.Args(sc)[0], bitArg) {
								bitOK = true
							}
						}
						// both are parameters of this helper: the relation is
						// established by its callers
						if pi, ok1 := argsC[0].(*ssa.Parameter); ok1 && !bitOK {
							if pb, ok2 := bitArg.(*ssa.Parameter); ok2 && pi.Parent() == f && pb.Parent() == f {
								sites := an.LocalCallers(fns, f)
								bitOK = len(sites) > 0
								for _, cs := range sites {
									ai, ab := an.ArgAt(cs, an.ParamIndex(f, pi)), an.ArgAt(cs, an.ParamIndex(f, pb))
									rel := false
									if ai != nil && ab != nil {
										for _, r := range an.Roots(ai, nil) {
											if sc, isSI := an.IsCallTo(r, c15M("sliceIndex")); isSI && an.SameObj(an.Args(sc)[0], ab) {
												rel = true
											}
										}
									}
									if !rel {
										bitOK = false
									}
								}
							}
						}
						if okF, _ := an.MustFollow(f, st, []ssa.Instruction{bc}); !okF && !an.MustPrecede(f, st, []ssa.Instruction{bc}) {
							bitOK = false
						}
					}
					if !bitOK {
						ok, why = false, "the bitfield is not updated with "+wantBit+"(childIndex) for the childIndex whose sliceIndex is used"
					}
				}
			}
			c.Check(ok, "O2", "R-PAIR", name, "children-replaced=>links+bitfield", st.Pos(),
				"children, links and bitfield changed together with the same indices",
				"childer.children is replaced but "+why+": slice index and bitfield no longer agree, so names resolve to the wrong child / entries are lost")
		}
		// element stores
		for _, st := range c15ElemStores(f, fCh) {
			nElem++
			idx, base := st.idx, st.base
			var mate *c15Elem
			for _, s2 := range c15ElemStores(f, fLn) {
				if an.SameObj(s2.base, base) {
					m := s2
					mate = &m
				}
			}
			ok, why := mate != nil, "links[i] is not assigned in the same function"
			if ok {
				if !c15SameExpr(idx, mate.idx) {
					ok, why = false, "children and links are assigned at different indices"
				} else if an.IsNilConst(st.st.Val) == an.IsNilConst(mate.st.Val) {
					ok, why = false, "children[i] and links[i] are both nil or both non-nil ('only one of links/children is non-nil for every child')"
				}
			}
			c.Check(ok, "O2", "R-PAIR", name, "children[i]=>links[i]", st.st.Pos(),
				"children[i] and links[i] assigned together, exactly one non-nil",
				"childer.children[i] is assigned but "+why+": a stale link or shard survives at that position and the entry resolves to outdated content")
		}
	}
	c.Min("O2 replacements of childer.children", nSlice, 1)
	c.Min("O2 element stores to childer.children", nElem, 1)
}

type c15Elem struct {
	st   *ssa.Store
	idx  ssa.Value
	base ssa.Value
}

func c15ElemStores(f *ssa.Function, fld *types.Var) []c15Elem {
	var out []c15Elem
	an.Instrs(f, func(in ssa.Instruction) {
		st, ok := in.(*ssa.Store)
		if !ok {
			return
		}
		ia, ok := st.Addr.(*ssa.IndexAddr)
		if !ok {
			return
		}
		if fl, base := an.LoadedField(ia.X); fl == fld {
			out = append(out, c15Elem{st, ia.Index, base})
		}
	})
	return out
}

// c15SliceOp classifies the value stored into a slice field.
func c15SliceOp(v ssa.Value) (string, []ssa.Value) {
	call, ok := v.(*ssa.Call)
	if !ok {
		if _, isMake := v.(*ssa.MakeSlice); isMake {
			return "make", nil
		}
		if sl, isSl := v.(*ssa.Slice); isSl {
			if _, isAlloc := sl.X.(*ssa.Alloc); isAlloc {
				return "make", nil
			}
		}
		return "", nil
	}
	ci := an.Callee(call)
	if ci.Pkg == "slices" {
		switch ci.Name {
		case "Insert":
			return "Insert", call.Call.Args[1:2]
		case "Delete":
			return "Delete", call.Call.Args[1:3]
		case "Clone":
			return "make", nil
		}
	}
	if ci.Builtin == "append" {
		return "append", nil
	}
	return ci.Name, nil
}

// c15SameExpr: structural equality of small index expressions (same SSA
// value, same access path, or the same operator over equal operands).
func c15SameExpr(a, b ssa.Value) bool {
	if a == b {
		return true
	}
	ba, ok1 := a.(*ssa.BinOp)
	bb, ok2 := b.(*ssa.BinOp)
	if ok1 && ok2 {
		return ba.Op == bb.Op && c15SameExpr(ba.X, bb.X) && c15SameExpr(ba.Y, bb.Y)
	}
	ca, ok1 := a.(*ssa.Const)
	cb, ok2 := b.(*ssa.Const)
	if ok1 && ok2 {
		return ca.Value != nil && cb.Value != nil && constant.Compare(ca.Value, token.EQL, cb.Value)
	}
	if ok1 != ok2 {
		return false
	}
	la, ok1 := a.(*ssa.Call)
	lb, ok2 := b.(*ssa.Call)
	if ok1 && ok2 {
		if an.Callee(la).String() != an.Callee(lb).String() || len(la.Call.Args) != len(lb.Call.Args) {
			return false
		}
		for i := range la.Call.Args {
			if !c15SameExpr(la.Call.Args[i], lb.Call.Args[i]) {
				return false
			}
		}
		return true
	}
	if _, isP := a.(*ssa.Parameter); isP {
		return false
	}
	switch a.(type) {
	case *ssa.UnOp, *ssa.FieldAddr, *ssa.Field:
		return an.PathOf(a) == an.PathOf(b)
	}
	return false
}

func c15LinkTypeConst(c *an.Ctx, name string) constant.Value {
	if c15HR == nil {
		return nil
	}
	if name == "shardLink" {
		return c15HR.kShard
	}
	return c15HR.kValue
}

// c15TypeEdges: edges on which the link type returned by call equals one of ks.
func c15TypeEdges(f *ssa.Function, call ssa.CallInstruction, ks ...constant.Value) an.EdgeSet {
	al := an.Aliases(an.Result(call, 0)...)
	return an.CmpEdges(f, func(op token.Token, a, b ssa.Value) (bool, bool) {
		if op != token.EQL && op != token.NEQ {
			return false, false
		}
		var kv constant.Value
		if al[a] {
			k, ok := an.ConstOf(b)
			if !ok {
				return false, false
			}
			kv = k
		} else if al[b] {
			k, ok := an.ConstOf(a)
			if !ok {
				return false, false
			}
			kv = k
		} else {
			return false, false
		}
		for _, k := range ks {
			if constant.Compare(kv, token.EQL, k) {
				return op == token.EQL, op == token.NEQ
			}
		}
		return false, false
	})
}

// ---- O3
func c15LinkTypes(c *an.Ctx) {
	p := c.P
	kShard, kValue := c15LinkTypeConst(c, "shardLink"), c15LinkTypeConst(c, "shardValueLink")
	clt := c15RoleFn("childLinkType")
	if !c.Need(kShard != nil && kValue != nil && clt != nil, "hamt.shardLink, shardValueLink, Shard.childLinkType") {
		return
	}
	n := 0
	for _, f := range p.PkgFuncs(c15H) {
		for _, call := range an.LocalCallers([]*ssa.Function{f}, clt) {
			n++
			known := c15TypeEdges(f, call, kShard, kValue)
			c.Check(len(known) > 0, "O3", "R-EXH", an.FuncName(f), "childLinkType-result-distinguished", call.Pos(),
				"the link type is compared with shardLink / shardValueLink",
				"the result of childLinkType is not compared with shardLink or shardValueLink: shard links and value links are treated alike (a sub-shard would be listed as an entry or an entry descended into)")
			if !an.Reaches(f, call, call, nil, nil) {
				continue // not classifying the children in a loop
			}
			// exhaustive: without taking a known-type edge the walk neither
			// continues with the next child nor succeeds
			ok := len(known) > 0 && !an.Reaches(f, call, call, known, nil)
			for _, rs := range an.ResultSites(f, f.Signature.Results().Len()-1) {
				if an.IsNilConst(rs.Val) && an.Reaches(f, call, rs.At, known, nil) {
					// the final `return res, nil` is reachable from the loop
					// header only; reaching it from the call needs the back edge
					ok = false
				}
			}
			c.Check(ok, "O3", "R-EXH", an.FuncName(f), "walkChildren-unknown-link-type=>error", call.Pos(),
				"walkChildren goes on only for shardLink / shardValueLink",
				"walkChildren can continue past a child link that is neither a shard link nor a value link without reporting an error: entries of that child silently disappear from Links/EnumLinksAsync")
		}
	}
	c.Min("O3 uses of childLinkType", n, 1)
}

// ---- O4 (and the "fork only when inserting" part of O1), over swapValue and
// the Shard methods it delegates to

// c15Fam is swapValue plus the Shard helper methods reachable from it.
type c15Fam struct {
	root *ssa.Function
	fns  []*ssa.Function
}

func (fm *c15Fam) callSites(h *ssa.Function) []ssa.CallInstruction {
	return an.LocalCallers(fm.fns, h)
}

// linkParam returns f's parameter of type *ipld.Link (the value being stored), if any.
func c15LinkParam(f *ssa.Function) *ssa.Parameter {
	for _, par := range f.Params {
		if an.TypeIs(par.Type(), "github.com/ipfs/go-ipld-format", "Link") {
			return par
		}
	}
	return nil
}

// holds: `at` in f is reached only across edges(f); when f is a helper without
// such a guard the condition must hold at every call site of f in the family.
func (fm *c15Fam) holds(f *ssa.Function, at ssa.Instruction, edges func(*ssa.Function) an.EdgeSet, depth int) bool {
	if e := edges(f); len(e) > 0 && an.GuardedBy(f, nil, at, e) {
		return true
	}
	if f == fm.root || depth >= 2 {
		return false
	}
	sites := fm.callSites(f)
	if len(sites) == 0 {
		return false
	}
	for _, cs := range sites {
		if !fm.holds(cs.Parent(), cs, edges, depth+1) {
			return false
		}
	}
	return true
}

// argIs: value v of f satisfies pred, or is a parameter of the helper f whose
// actual argument satisfies pred at every call site.
func (fm *c15Fam) argIs(f *ssa.Function, v ssa.Value, pred func(*ssa.Function, ssa.Value) bool, depth int) bool {
	if pred(f, v) {
		return true
	}
	par, ok := v.(*ssa.Parameter)
	if !ok || par.Parent() != f || f == fm.root || depth >= 2 {
		return false
	}
	sites := fm.callSites(f)
	if len(sites) == 0 {
		return false
	}
	for _, cs := range sites {
		a := an.ArgAt(cs, an.ParamIndex(f, par))
		if a == nil || !fm.argIs(cs.Parent(), a, pred, depth+1) {
			return false
		}
	}
	return true
}

func c15Swap(c *an.Ctx) {
	swapV := c15SwapFn(c)
	fTS, fB, fKey, fVal, fCons := c15HR.fTableSize, c15HR.fBuilder, c15HR.fKey, c15HR.fVal, c15HR.fConsumed
	if !c.Need(swapV != nil && fTS != nil && fB != nil && fKey != nil && fVal != nil && fCons != nil, "swapValue (Shard method consuming hash bits and inserting into the childer), Shard.{tableSize,builder,key,val}, hashBits.consumed") {
		return
	}
	// the family: swapValue and the Shard methods it calls (two levels)
	fm := &c15Fam{root: swapV, fns: []*ssa.Function{swapV}}
	inFam := map[*ssa.Function]bool{swapV: true}
	for level := 0; level < 2; level++ {
		for _, f := range append([]*ssa.Function{}, fm.fns...) {
			for _, call := range an.AllCalls(f) {
				g := an.Callee(call).Static
				if g == nil || inFam[g] || g.Blocks == nil || g.Signature.Recv() == nil || !an.TypeIs(g.Signature.Recv().Type(), c15H, "Shard") {
					continue
				}
				// only helpers that take part in restructuring the trie
				if len(an.Calls(g, c15M("set"), c15M("setLink"), c15M("rm"), an.M(c15H, "", "NewShard"))) == 0 {
					continue
				}
				inFam[g] = true
				fm.fns = append(fm.fns, g)
			}
		}
	}
	name := an.FuncName(swapV)
	fieldOf := func(v ssa.Value, fld *types.Var, base ssa.Value) bool {
		fl, b := an.LoadedField(v)
		return fl == fld && (base == nil || an.SameObj(b, base))
	}
	valueNil := func(want bool) func(*ssa.Function) an.EdgeSet {
		return func(f *ssa.Function) an.EdgeSet {
			if lp := c15LinkParam(f); lp != nil {
				return an.NilEdges(f, []ssa.Value{lp}, want)
			}
			return an.EdgeSet{}
		}
	}
	// fork
	nFork := 0
	for _, f := range fm.fns {
		recv := f.Params[0]
		var hv, key *ssa.Parameter
		for _, par := range f.Params[1:] {
			if c15HR.isHashBits(par.Type()) {
				hv = par
			}
			if an.IsString(par.Type()) {
				key = par
			}
		}
		for _, ns := range an.Calls(f, an.M(c15H, "", "NewShard")) {
			nFork++
			fname := an.FuncName(f)
			c.Check(fm.holds(f, ns, valueNil(false), 0), "O1", "R-DOM", fname, "fork<=value!=nil", ns.Pos(),
				"a sub-shard is created only when a value is inserted",
				"Shard.swapValue can fork a slot into a sub-shard while removing (value == nil): removing a missing name would insert a nil value instead of reporting 'not exist'")
			sub := an.Result(ns, 0)
			c.Check(fieldOf(an.Args(ns)[1], fTS, recv), "O4", "R-FLOW", fname, "fork:NewShard(size=ds.tableSize)", ns.Pos(),
				"sub-shard created with the receiver's table size",
				"the sub-shard created when two names share a slot is not created with ds.tableSize: its links use a different prefix width / bits per level than the rest of the tree, so names below it do not resolve after a reload")
			okB := false
			for _, st := range an.FieldStores(f, fB) {
				_, b := an.FieldOf(st.Addr)
				for _, s := range sub {
					if an.SameObj(b, s) && fieldOf(st.Val, fB, recv) {
						okB = true
					}
				}
			}
			c.Check(okB, "O4", "R-FLOW", fname, "fork:builder-copied", ns.Pos(), "sub-shard inherits the CID builder",
				"the sub-shard created on a collision does not get ds.builder: its node is hashed with a different CID builder than the rest of the directory")
			okRe, okNew := false, false
			for _, rc := range an.LocalCallers([]*ssa.Function{f}, swapV) {
				isSub := false
				for _, s := range sub {
					if an.SameObj(an.Recv(rc), s) {
						isSub = true
					}
				}
				args := an.Args(rc) // ctx, hv, key, value
				if !isSub || len(args) != 4 || hv == nil {
					continue
				}
				if args[1] == ssa.Value(hv) {
					if key != nil && args[2] == ssa.Value(key) {
						okNew = true
					}
					continue
				}
				nh, isNH := an.IsCallTo(args[1], c15M("newConsumedHashBits"))
				if !isNH {
					continue
				}
				flK, bK := an.LoadedField(args[2])
				flV, bV := an.LoadedField(args[3])
				flH, bH := an.LoadedField(nh.Call.Args[0])
				if flK == fKey && flV == fVal && flH == fKey && an.SameObj(bK, bV) && an.SameObj(bK, bH) && fieldOf(nh.Call.Args[1], fCons, hv) {
					okRe = true
				}
			}
			c.Check(okRe, "O4", "R-FLOW", fname, "fork:displaced-entry-reinserted(key,val,consumed)", ns.Pos(),
				"displaced entry re-inserted under its own key and value with hash bits consumed up to this level",
				"on a slot collision the displaced entry is not re-inserted into the sub-shard as swapValue(newConsumedHashBits(old.key, hv.consumed), old.key, old.val): it lands in the wrong slot (or is lost) and can no longer be found")
			c.Check(okNew, "O4", "R-FLOW", fname, "fork:new-entry-inserted(hv,key,value)", ns.Pos(),
				"new entry inserted into the sub-shard with the running hash bits", "on a slot collision the new entry is not inserted into the sub-shard with the running hash bits and its key")
		}
	}
	c.Min("O4 forks in swapValue and its helpers", nFork, 1)
	// collapse
	lenEdges := func(k int64) func(*ssa.Function) an.EdgeSet {
		return func(f *ssa.Function) an.EdgeSet {
			var lens []ssa.Value
			for _, lc := range an.Calls(f, c15M("length")) {
				lens = append(lens, an.CallValue(lc))
			}
			if len(lens) == 0 {
				return an.EdgeSet{}
			}
			al := an.Aliases(lens...)
			return an.CmpEdges(f, func(op token.Token, a, b ssa.Value) (bool, bool) {
				if op != token.EQL && op != token.NEQ {
					return false, false
				}
				x, y := a, b
				if al[y] {
					x, y = y, x
				}
				if !al[x] {
					return false, false
				}
				kv, ok := an.ConstOf(y)
				if !ok {
					return false, false
				}
				if v, exact := constant.Int64Val(kv); !exact || v != k {
					return false, false
				}
				return op == token.EQL, op == token.NEQ
			})
		}
	}
	isVal := func(f *ssa.Function) an.EdgeSet {
		return an.CallEdges(f, c15M("isValueNode"), -1, nil, true)
	}
	kValue := c15LinkTypeConst(c, "shardValueLink")
	isValLink := func(f *ssa.Function) an.EdgeSet {
		e := an.EdgeSet{}
		for _, cl := range an.Calls(f, c15M("childLinkType")) {
			e = e.Union(c15TypeEdges(f, cl, kValue))
		}
		return e
	}
	exists := func(m an.Matcher, guards ...func(*ssa.Function) an.EdgeSet) bool {
		for _, f := range fm.fns {
			for _, call := range an.Calls(f, m) {
				ok := true
				for _, g := range guards {
					if !fm.holds(f, call, g, 0) {
						ok = false
					}
				}
				if ok {
					return true
				}
			}
		}
		return false
	}
	c.Check(exists(c15M("rm"), valueNil(true), lenEdges(0)), "O4", "R-DOM", name, "collapse:length==0=>rm", swapV.Pos(),
		"an emptied sub-shard is removed", "swapValue has no childer.rm on the value==nil && sub.length()==0 edge: empty sub-shards stay in the tree, so the layout (and CID) depends on the edit history")
	c.Check(exists(c15M("set"), valueNil(true), lenEdges(1), isVal), "O4", "R-DOM", name, "collapse:length==1=>set(value-child)", swapV.Pos(),
		"a sub-shard left with one loaded value child is replaced by that child", "swapValue has no childer.set(valueChild) on the value==nil && sub.length()==1 && child.isValueNode() edge: single-entry sub-shards are not collapsed, so the layout (and CID) depends on the edit history")
	c.Check(exists(c15M("setLink"), valueNil(true), lenEdges(1), isValLink), "O4", "R-DOM", name, "collapse:length==1=>setLink(value-link)", swapV.Pos(),
		"a sub-shard left with one unloaded value link is replaced by that link", "swapValue has no childer.setLink(valueLink) on the value==nil && sub.length()==1 && linkType==shardValueLink edge: single-entry sub-shards loaded from disk are not collapsed")
	// set/setLink put the child at the slice index of the hashed slot
	isSliceIdx := func(f *ssa.Function, v ssa.Value) bool {
		_, ok := an.IsCallTo(v, c15M("sliceIndex"))
		return ok
	}
	okIdx, nSet := true, 0
	for _, f := range fm.fns {
		for _, call := range an.Calls(f, c15M("set"), c15M("setLink")) {
			nSet++
			args := an.Args(call)
			if !fm.argIs(f, args[len(args)-1], isSliceIdx, 0) {
				okIdx = false
			}
		}
	}
	c.Check(okIdx && nSet > 0, "O4", "R-FLOW", name, "set/setLink-at-sliceIndex(idx)", swapV.Pos(), "children are replaced at the slice index of the hashed slot",
		"swapValue replaces a child at an index that is not childer.sliceIndex(idx) of the slot the key hashes to: another entry is overwritten")
}

// c15SwapFn finds swapValue by role: the Shard method that consumes hash bits
// (hashBits.Next) and takes the link to store (a *Link parameter).
func c15SwapFn(c *an.Ctx) *ssa.Function {
	if f := c.P.Func(c15H, "Shard", "swapValue"); f != nil {
		return f
	}
	var found *ssa.Function
	for _, f := range c.P.Methods(c15H, "Shard") {
		if len(an.Calls(f, an.M(c15H, c15HR.hashBitsName(), "Next"))) > 0 && c15LinkParam(f) != nil {
			if found != nil {
				return nil
			}
			found = f
		}
	}
	return found
}

// c15GetFn finds getValue by role: the Shard method that consumes hash bits and
// takes a callback on the found *Shard.
func c15GetFn(c *an.Ctx) *ssa.Function {
	if f := c.P.Func(c15H, "Shard", "getValue"); f != nil {
		return f
	}
	var found *ssa.Function
	for _, f := range c.P.Methods(c15H, "Shard") {
		if len(an.Calls(f, an.M(c15H, c15HR.hashBitsName(), "Next"))) == 0 || c15LinkParam(f) != nil {
			continue
		}
		for _, par := range f.Params {
			if sig, ok := par.Type().Underlying().(*types.Signature); ok && sig.Params().Len() == 1 && an.TypeIs(sig.Params().At(0).Type(), c15H, "Shard") {
				if found != nil && found != f {
					return nil
				}
				found = f
			}
		}
	}
	return found
}

// ---- O5
func c15Prefix(c *an.Ctx) {
	p := c.P
	fPad, fMax, fTS, fLg := c15HR.fPrefixPad, c15HR.fMaxpadlen, c15HR.fTableSize, c15HR.fTableSizeLg2
	if !c.Need(fPad != nil && fMax != nil && fTS != nil && fLg != nil, "Shard.{prefixPadStr,maxpadlen,tableSize,tableSizeLg2}") {
		return
	}
	fns := p.PkgFuncs(c15H)
	nCtor := 0
	for _, f := range fns {
		pads := an.FieldStores(f, fPad)
		if len(pads) == 0 {
			continue
		}
		nCtor++
		name := an.FuncName(f)
		for _, st := range pads {
			_, base := an.FieldOf(st.Addr)
			// prefixPadStr = Sprintf("%%0%dX", W)
			var w ssa.Value
			okFmt := false
			if sp, ok := an.IsCallTo(st.Val, an.M("fmt", "", "Sprintf")); ok {
				if k, ok := an.ConstOf(sp.Call.Args[0]); ok && constant.StringVal(k) == "%%0%dX" {
					okFmt = true
					for _, l := range an.Deps(sp.Call.Args[1], nil) {
						if _, isConst := l.(*ssa.Const); !isConst {
							w = l
						}
					}
					// W as written: the single vararg
					w = c15Vararg(sp.Call.Args[1])
				}
			}
			var m ssa.Value
			for _, s2 := range an.StoresToField(f, fMax, base) {
				m = s2.Val
			}
			ok := okFmt && w != nil && m != nil && c15SameExpr(w, m)
			c.Check(ok, "O5", "R-FLOW", name, "prefixPadStr-width=maxpadlen", st.Pos(),
				"prefix format width and maxpadlen are the same expression",
				"Shard.prefixPadStr is not fmt.Sprintf(\"%%0%dX\", W) with W the very expression stored to maxpadlen: link names are written with a prefix of one width and stripped/classified with another, so entries are misnamed or taken for sub-shards after a reload")
			// tableSize and tableSizeLg2 from the same size
			var ts, lg ssa.Value
			for _, s2 := range an.StoresToField(f, fTS, base) {
				ts = s2.Val
			}
			for _, s2 := range an.StoresToField(f, fLg, base) {
				lg = s2.Val
			}
			okT := false
			if lt, isLT := an.IsCallTo(lg, an.M(c15H, "", "Logtwo")); isLT && ts != nil && an.SameObj(lt.Call.Args[0], ts) {
				okT = true
			}
			c.Check(okT, "O5", "R-FLOW", name, "tableSizeLg2=Logtwo(tableSize)", st.Pos(), "bits per level derived from the same size as the table size",
				"Shard.tableSizeLg2 is not Logtwo of the value stored to tableSize: the number of hash bits consumed per level does not match the fanout, so names hash to slots outside / not covering the table")
			// the width is len(hex(size-1))
			okW := false
			if w != nil {
				if lc, isCall := w.(*ssa.Call); isCall {
					if bi, isB := lc.Call.Value.(*ssa.Builtin); isB && bi.Name() == "len" {
						if sp, isSp := an.IsCallTo(lc.Call.Args[0], an.M("fmt", "", "Sprintf")); isSp {
							if k, ok := an.ConstOf(sp.Call.Args[0]); ok && constant.StringVal(k) == "%X" {
								if b, isBin := c15Vararg(sp.Call.Args[1]).(*ssa.BinOp); isBin && b.Op == token.SUB && ts != nil && an.SameObj(b.X, ts) {
									if k1, ok := an.ConstOf(b.Y); ok && k1.String() == "1" {
										okW = true
									}
								}
							}
						}
					}
				}
			}
			c.Check(okW, "O5", "R-FLOW", name, "maxpadlen=len(hex(size-1))", st.Pos(), "prefix width is the number of hex digits of size-1",
				"the link-name prefix width is not len(fmt.Sprintf(\"%X\", size-1)) of the table size: prefixes of different child indices get different lengths or collide")
		}
	}
	c.Min("O5 Shard constructors", nCtor, 1)
	// strip sites: string slices of a link Name
	nStrip := 0
	for _, f := range fns {
		an.Instrs(f, func(in ssa.Instruction) {
			sl, ok := in.(*ssa.Slice)
			if !ok || !an.IsString(sl.X.Type()) || sl.Low == nil {
				return
			}
			fl, b := an.LoadedField(sl.X)
			if fl == nil || fl.Name() != "Name" || !an.TypeIs(b.Type(), "github.com/ipfs/go-ipld-format", "Link") {
				return
			}
			nStrip++
			flo, _ := an.LoadedField(sl.Low)
			c.Check(flo == fMax && sl.High == nil, "O5", "R-FLOW", an.FuncName(f), "strip-prefix-at-maxpadlen", sl.Pos(),
				"link name stripped at maxpadlen", "a link name is cut at an offset that is not Shard.maxpadlen: the entry name keeps part of the prefix or loses its first characters for some shard width")
		})
	}
	c.Min("O5 prefix strip sites", nStrip, 1)
	// hash bits per level
	nNext := 0
	for _, f := range p.Methods(c15H, "Shard") {
		for _, call := range an.Calls(f, an.M(c15H, c15HR.hashBitsName(), "Next")) {
			nNext++
			fl, b := an.LoadedField(an.Args(call)[0])
			c.Check(fl == fLg && an.SameObj(b, f.Params[0]), "O5", "R-FLOW", an.FuncName(f), "Next(ds.tableSizeLg2)", call.Pos(),
				"each level consumes the receiver's tableSizeLg2 hash bits", "a Shard method consumes a number of hash bits that is not its own tableSizeLg2: lookups and insertions descend through different slots, so stored names are not found")
		}
	}
	c.Min("O5 hashBits.Next calls in Shard methods", nNext, 1)
}

// c15Vararg returns the single element of a one-element variadic argument.
func c15Vararg(v ssa.Value) ssa.Value {
	sl, ok := v.(*ssa.Slice)
	if !ok {
		return nil
	}
	al, ok := sl.X.(*ssa.Alloc)
	if !ok {
		return nil
	}
	var out ssa.Value
	n := 0
	for _, r := range *al.Referrers() {
		if ia, ok := r.(*ssa.IndexAddr); ok {
			for _, rr := range *ia.Referrers() {
				if st, ok := rr.(*ssa.Store); ok && st.Addr == ssa.Value(ia) {
					n++
					out = st.Val
				}
			}
		}
	}
	if n != 1 {
		return nil
	}
	if mi, ok := out.(*ssa.MakeInterface); ok {
		return mi.X
	}
	return out
}

// ---- O6
func c15Conversions(c *an.Ctx) {
	p := c.P
	fns := p.PkgFuncs(c16IO)
	fDir := p.Field(c16IO, "DynamicDirectory", "Directory")
	if !c.Need(fDir != nil, "DynamicDirectory.Directory") {
		return
	}
	// (a) the per-entry insertion of a conversion
	nIns := 0
	// conversion functions by role: a method of one directory type returning the other
	for _, f := range fns {
		if f.Parent() != nil || f.Signature.Recv() == nil || f.Signature.Results().Len() == 0 {
			continue
		}
		rt, dt := f.Signature.Recv().Type(), f.Signature.Results().At(0).Type()
		b2h := an.TypeIs(rt, c16IO, "BasicDirectory") && an.TypeIs(dt, c16IO, "HAMTDirectory")
		h2b := an.TypeIs(rt, c16IO, "HAMTDirectory") && an.TypeIs(dt, c16IO, "BasicDirectory")
		if !b2h && !h2b {
			continue
		}
		for _, g := range an.WithClosures(f) {
			for _, call := range an.AllCalls(g) {
				// an insertion, by role: a static call taking an entry name and a *Link
				if an.Callee(call).Static == nil {
					continue
				}
				hasName, hasLink := false, false
				for _, a := range an.Args(call) {
					hasName = hasName || an.IsString(a.Type())
					hasLink = hasLink || an.TypeIs(a.Type(), "github.com/ipfs/go-ipld-format", "Link")
				}
				if !hasName || !hasLink || an.ErrResult(call) == nil && an.Callee(call).Static.Signature.Results().Len() == 0 {
					continue
				}
				nIns++
				args := an.Args(call)
				var nm, lk ssa.Value
				for _, a := range args {
					if an.IsString(a.Type()) {
						nm = a
					}
					if an.TypeIs(a.Type(), "github.com/ipfs/go-ipld-format", "Link") {
						lk = a
					}
				}
				ok := false
				if nm != nil && lk != nil {
					if fl, b := an.LoadedField(nm); fl != nil && fl.Name() == "Name" && an.SameObj(b, lk) {
						ok = true
					}
				}
				c.Check(ok, "O6", "R-FLOW", an.FuncName(g), c15KeyName(call, "insert-entry")+"(x.Name,x)", call.Pos(),
					"every link is re-inserted under its own name", "a Basic<->HAMT conversion inserts a link under a name that is not that link's own Name: entries are renamed or overwrite each other when the directory switches representation")
				// an insertion error aborts the conversion
				errNonNil := an.NilEdges(g, an.ErrResult(call), false)
				okErr := len(errNonNil) > 0
				if !okErr {
					// `return insert(...)`: the error is handed on untested
					al := an.Aliases(an.ErrResult(call)...)
					okErr = true
					nRet := 0
					for _, rs := range an.ResultSites(g, g.Signature.Results().Len()-1) {
						if !an.Reaches(g, call, rs.At, nil, nil) {
							continue
						}
						nRet++
						fwd := false
						for _, r := range an.Roots(rs.Val, nil) {
							if al[r] {
								fwd = true
							}
						}
						if !fwd {
							okErr = false
						}
					}
					if nRet == 0 || an.Reaches(g, call, call, nil, nil) {
						okErr = false
					}
					c.Check(okErr, "O6", "R-DOM", an.FuncName(g), c15KeyName(call, "insert-entry")+"-error-aborts", call.Pos(),
						"the insertion error is returned as is", "a Basic<->HAMT conversion goes on (or reports success) after inserting one entry failed: the converted directory silently lacks entries")
					continue
				}
				for _, rs := range an.ResultSites(g, g.Signature.Results().Len()-1) {
					if an.IsNilConst(rs.Val) && an.EdgeLeadsTo(errNonNil, rs.At, nil, nil) {
						okErr = false
					}
				}
				if okErr && an.EdgeLeadsTo(errNonNil, call, nil, nil) {
					okErr = false // continues with the next link
				}
				c.Check(okErr, "O6", "R-DOM", an.FuncName(g), c15KeyName(call, "insert-entry")+"-error-aborts", call.Pos(),
					"a failed insertion aborts the conversion", "a Basic<->HAMT conversion goes on (or reports success) after inserting one entry failed: the converted directory silently lacks entries")
			}
		}
	}
	c.Min("O6 per-entry insertions in conversions", nIns, 1)
	// (b) the requested operation is applied to the new directory before it is installed
	nSites := 0
	for _, f := range fns {
		for _, st := range an.FieldStores(f, fDir) {
			_, base := an.FieldOf(st.Addr)
			if an.IsFresh(base) || f.Signature.Recv() == nil {
				continue
			}
			nSites++
			var newDir ssa.Value
			for _, r := range an.Roots(st.Val, nil) {
				newDir = r
			}
			op := f.Name() // AddChild / RemoveChild
			ok := false
			for _, call := range an.AllCalls(f) {
				if an.Callee(call).Name != op || an.Recv(call) == nil || !an.SameObj(an.Recv(call), newDir) {
					continue
				}
				// same operands as the request (all non-receiver parameters)
				same := true
				args := an.Args(call)
				for i, par := range f.Params[1:] {
					if i >= len(args) || args[i] != ssa.Value(par) {
						same = false
					}
				}
				if same && an.OnNilEdgeOf(f, call, st) {
					ok = true
				}
			}
			c.Check(ok, "O6", "R-DOM", an.FuncName(f), "converted-directory:"+op+"-applied-before-install", st.Pos(),
				"the requested operation is applied to the converted directory (same operands) and succeeded before it replaces the old one",
				"DynamicDirectory."+op+" installs the converted directory without having applied "+op+" with the caller's operands to it successfully: the requested edit is lost (or a half-edited directory is installed after an error)")
		}
	}
	c.Min("O6 conversion sites", nSites, 1)
}

// ---- O7
func c15Enumerations(c *an.Ctx) {
	p := c.P
	fKey := c15HR.fKey
	if !c.Need(fKey != nil, "Shard.key") {
		return
	}
	n := 0
	for _, f := range p.PkgFuncs(c15H) {
		for _, call := range an.AllCalls(f) {
			// dynamic call of a func(*Link) error value
			if an.Callee(call).Fn != nil || an.Callee(call).Builtin != "" || call.Common().IsInvoke() {
				continue
			}
			args := call.Common().Args
			if len(args) != 1 || !an.TypeIs(args[0].Type(), "github.com/ipfs/go-ipld-format", "Link") {
				continue
			}
			n++
			lk := args[0]
			var named []ssa.Instruction
			okVal := true
			an.Instrs(f, func(in ssa.Instruction) {
				if st, ok := in.(*ssa.Store); ok {
					if fl, b := an.FieldOf(st.Addr); fl != nil && fl.Name() == "Name" && an.SameObj(b, lk) {
						named = append(named, st)
						if flv, _ := an.LoadedField(st.Val); flv != fKey {
							okVal = false
						}
					}
				}
			})
			c.Check(len(named) > 0 && okVal && an.MustPrecede(f, call, named), "O7", "R-SIB", an.FuncName(f), "emitted-link.Name=Shard.key", call.Pos(),
				"links handed to the enumeration callback are named by Shard.key",
				"an enumeration path of the HAMT hands a link to the callback whose Name was not set from Shard.key on every path: Links/ForEachLink/EnumLinksAsync report names with the hex prefix (or stale names), so the enumeration APIs disagree with Find")
		}
	}
	c.Min("O7 enumeration callback sites", n, 1)
}

// ---- O8: serialisation of a shard
func c15Serialise(c *an.Ctx) {
	p := c.P
	const md = "ipld/merkledag"
	fKey, fMax, fBf, fTS := c15HR.fKey, c15HR.fMaxpadlen, c15HR.fBitfield, c15HR.fTableSize
	if !c.Need(fKey != nil && fMax != nil && fBf != nil && fTS != nil, "Shard.{key,maxpadlen,tableSize}, childer.bitfield") {
		return
	}
	nAdd := 0
	for _, f := range p.Methods(c15H, "Shard") {
		adds := an.Calls(f, an.M(md, "ProtoNode", "AddRawLink"), an.M(md, "ProtoNode", "AddNodeLink"))
		if len(adds) == 0 {
			continue
		}
		name := an.FuncName(f)
		recv := f.Params[0]
		for _, a := range adds {
			nAdd++
			args := an.Args(a)
			nm, lk := args[0], args[1]
			ok, why := false, "the name is not linkNamePrefix(slot) + label"
			var slot ssa.Value
			pairs := [][2]ssa.Value{{nil, lk}}
			if b, isB := nm.(*ssa.BinOp); isB && b.Op == token.ADD {
				if pc, isP := an.IsCallTo(b.X, c15M("linkNamePrefix")); isP && an.Recv(pc) == ssa.Value(recv) {
					slot = an.Args(pc)[0]
					why = "the prefix is not that of the slot tested with childer.has on this path"
					if c15GuardedByHas(p.Methods(c15H, "Shard"), f, a, slot, 0) {
						why = "the label is neither the key of the child whose Link() is written nor the written link's own name cut at maxpadlen"
						// label and link may be carried to the call in a small local
						// struct assigned on each branch: check every (label, link) pair
						pairs = c15LabelLinkPairs(b.Y, lk)
						ok = len(pairs) > 0
						for _, pr := range pairs {
							good := false
							if fl, base := an.LoadedField(pr[0]); fl == fKey {
								if lc, isL := an.IsCallTo(pr[1], an.M(c15H, "Shard", "Link")); isL && an.SameObj(an.Recv(lc), base) {
									good = true
								}
							} else if sl, isS := pr[0].(*ssa.Slice); isS && sl.Low != nil && sl.High == nil {
								flN, baseN := an.LoadedField(sl.X)
								flL, _ := an.LoadedField(sl.Low)
								if flN != nil && flN.Name() == "Name" && an.SameObj(baseN, pr[1]) && flL == fMax {
									good = true
								}
							}
							if !good {
								ok = false
							}
						}
					}
				}
			}
			c.Check(ok, "O8", "R-FLOW", name, an.Callee(a).Name+"(linkNamePrefix(slot)+label,link)", a.Pos(),
				"child written under the prefix of its own slot and its own label",
				"Shard."+f.Name()+" writes a child link whose name is not built as linkNamePrefix(<slot tested with has()>)+<label of that very child>: "+why+". The i-th set bit of the bitfield is matched with the i-th link after sorting by name, so a link carrying a stale or foreign prefix is attributed to the wrong slot after a reload (names no longer resolve, or resolve to another entry)")
			// the written child/link is taken at the dense slice counter
			if slot == nil {
				continue // reported above
			}
			okAt, whyAt := len(pairs) > 0, ""
			for _, pr := range pairs {
				var at ssa.Value
				if lc, isL := an.IsCallTo(pr[1], an.M(c15H, "Shard", "Link")); isL {
					if cc, isC := an.IsCallTo(an.Recv(lc), c15M("child")); isC {
						at = an.Args(cc)[0]
					}
				} else if cc, isC := an.IsCallTo(pr[1], c15M("link")); isC {
					at = an.Args(cc)[0]
				}
				switch {
				case at == nil:
					okAt, whyAt = false, "the link written is not childer.child(i).Link() / childer.link(i)"
				case at == slot:
					okAt, whyAt = false, "the slice position is the table index itself"
				case !c15Dense(p.Methods(c15H, "Shard"), f, at, slot, 0):
					okAt, whyAt = false, "the slice counter is not advanced exactly on the has()==true paths"
				}
			}
			c.Check(okAt, "O8", "R-FLOW", name, an.Callee(a).Name+":child-at-dense-slice-counter", a.Pos(),
				"children are read at the counter of set bits seen so far",
				"Shard."+f.Name()+" reads the child to serialise at a position that is not the number of occupied slots before it ("+whyAt+"): links are written under the prefixes of other slots")
		}
		// data: bitfield and fanout of this shard
		for _, dc := range an.Calls(f, an.M("ipld/unixfs", "", "HAMTShardDataWithStat"), an.M("ipld/unixfs", "", "HAMTShardData")) {
			as := an.Args(dc)
			okB, okT := false, false
			for _, l := range an.Deps(as[0], nil) {
				if fl, _ := an.LoadedField(l); fl == fBf {
					okB = true
				}
			}
			for _, l := range an.Deps(as[1], nil) {
				if fl, b := an.LoadedField(l); fl == fTS && an.SameObj(b, recv) {
					okT = true
				}
			}
			c.Check(okB && okT, "O8", "R-FLOW", name, "shard-data(bitfield,tableSize)", dc.Pos(),
				"UnixFS shard data carries this shard's bitfield and table size",
				"the UnixFS data written for a shard does not carry its own childer.bitfield and tableSize: after a reload the links are matched with the wrong slots / hashed with the wrong width")
		}
	}
	c.Min("O8 links written by Shard.Node", nAdd, 1)
}

// c15GuardedByHas: `at` in f is reached only where childer.has(slot) was true;
// when slot is a parameter of the helper f, at every call site for the actual slot.
func c15GuardedByHas(fns []*ssa.Function, f *ssa.Function, at ssa.Instruction, slot ssa.Value, depth int) bool {
	hasTrue := an.CallEdges(f, c15M("has"), 0, func(v ssa.Value) bool { return v == slot }, true)
	if len(hasTrue) > 0 && an.GuardedBy(f, nil, at, hasTrue) {
		return true
	}
	par, ok := slot.(*ssa.Parameter)
	if !ok || par.Parent() != f || depth >= 2 {
		return false
	}
	sites := an.LocalCallers(fns, f)
	if len(sites) == 0 {
		return false
	}
	for _, cs := range sites {
		a := an.ArgAt(cs, an.ParamIndex(f, par))
		if a == nil || !c15GuardedByHas(fns, cs.Parent(), cs, a, depth+1) {
			return false
		}
	}
	return true
}

// c15Dense: see c15DenseCounter; when counter and slot are parameters of the
// helper f the relation is established at its call sites.
func c15Dense(fns []*ssa.Function, f *ssa.Function, ctr, slot ssa.Value, depth int) bool {
	pc, ok1 := ctr.(*ssa.Parameter)
	ps, ok2 := slot.(*ssa.Parameter)
	if ok1 && ok2 && pc.Parent() == f && ps.Parent() == f && depth < 2 {
		sites := an.LocalCallers(fns, f)
		if len(sites) == 0 {
			return false
		}
		for _, cs := range sites {
			ac, as := an.ArgAt(cs, an.ParamIndex(f, pc)), an.ArgAt(cs, an.ParamIndex(f, ps))
			if ac == nil || as == nil || ac == as || !c15Dense(fns, cs.Parent(), ac, as, depth+1) {
				return false
			}
		}
		return true
	}
	return c15DenseCounter(f, ctr, slot)
}

// c15DenseCounter: ctr is a loop-carried counter that is incremented by one
// exactly on the iterations where childer.has(slot) was true.
func c15DenseCounter(f *ssa.Function, ctr, slot ssa.Value) bool {
	phi, ok := ctr.(*ssa.Phi)
	if !ok {
		return false
	}
	hasCalls := an.Calls(f, c15M("has"))
	var has ssa.CallInstruction
	for _, h := range hasCalls {
		if an.Args(h)[0] == slot {
			has = h
		}
	}
	if has == nil {
		return false
	}
	hasTrue := an.CallEdges(f, c15M("has"), 0, func(v ssa.Value) bool { return v == slot }, true)
	blocked := map[ssa.Instruction]bool{has: true}
	okAll, nInc := true, 0
	seen := map[*ssa.Phi]bool{}
	var visit func(p *ssa.Phi, top bool)
	visit = func(p *ssa.Phi, top bool) {
		if seen[p] {
			return
		}
		seen[p] = true
		for i, e := range p.Edges {
			pred := p.Block().Preds[i]
			term := pred.Instrs[len(pred.Instrs)-1]
			if k, isConst := e.(*ssa.Const); isConst && top {
				if k.Value == nil || k.Value.String() != "0" {
					okAll = false
				}
				continue
			}
			if q, isPhi := e.(*ssa.Phi); isPhi && q != phi {
				visit(q, false)
				continue
			}
			switch {
			case e == ssa.Value(phi):
				// unchanged: must not be a has()==true iteration
				for ed := range hasTrue {
					if pred == ed.To() || an.ReachesFromBlock(ed.To(), term, nil, blocked) {
						okAll = false
					}
				}
			default:
				b, isB := e.(*ssa.BinOp)
				k, isK := ssa.Value(nil), false
				if isB {
					_, isK = b.Y.(*ssa.Const)
					k = b.Y
				}
				if !isB || b.Op != token.ADD || b.X != ssa.Value(phi) || !isK || k.(*ssa.Const).Value.String() != "1" {
					okAll = false
					continue
				}
				nInc++
				if !an.GuardedBy(f, has, term, hasTrue) {
					okAll = false
				}
			}
		}
	}
	visit(phi, true)
	return okAll && nInc > 0
}

// ---- O9: reload
func c15Reload(c *an.Ctx) {
	p := c.P
	var load, mk *ssa.Function
	for _, f := range p.Methods(c15H, c15HR.childerName()) {
		for _, bc := range an.AllCalls(f) {
			if an.Callee(bc).Name == "SetBytes" && strings.Contains(an.Callee(bc).Pkg, "go-bitfield") {
				mk = f
			}
		}
	}
	if mk != nil {
		for _, f := range p.PkgFuncs(c15H) {
			if f.Parent() == nil && len(an.LocalCallers([]*ssa.Function{f}, mk)) > 0 {
				load = f
			}
		}
	}
	fCh, fLn, fBf := c15HR.fChildren, c15HR.fLinks, c15HR.fBitfield
	if !c.Need(load != nil && mk != nil && fCh != nil && fLn != nil && fBf != nil, "NewHamtFromDag, childer.makeChilder") {
		return
	}
	name := an.FuncName(load)
	isFS := func(n string) func(ssa.Value) bool {
		return func(v ssa.Value) bool { _, ok := an.IsCallTo(v, an.M("ipld/unixfs", "FSNode", n)); return ok }
	}
	from := func(v ssa.Value, pred func(ssa.Value) bool) *ssa.Call {
		for _, l := range an.Deps(v, &an.DepOpts{Stop: pred}) {
			if pred(l) {
				if e, isE := l.(*ssa.Extract); isE {
					l = e.Tuple
				}
				cc, _ := l.(*ssa.Call)
				return cc
			}
		}
		return nil
	}
	var fsn ssa.Value
	for _, ms := range an.Calls(load, c15M("makeShard"), an.M(c15H, "", "NewShard")) {
		fo := from(an.Args(ms)[1], isFS("Fanout"))
		c.Check(fo != nil, "O9", "R-FLOW", name, "makeShard(size=node.Fanout())", ms.Pos(),
			"a loaded shard gets the fanout recorded in its node",
			"NewHamtFromDag does not build the shard with the Fanout() recorded in the node: names are hashed with another width than the one they were stored with, so stored names do not resolve")
		if fo != nil {
			fsn = an.Recv(fo)
		}
	}
	nMk := 0
	for _, mc := range an.LocalCallers([]*ssa.Function{load}, mk) {
		nMk++
		as := an.Args(mc)
		dc := from(as[0], isFS("Data"))
		lc := from(as[1], func(v ssa.Value) bool {
			_, ok := an.IsCallTo(v, an.M("ipld/merkledag", "ProtoNode", "Links"))
			return ok
		})
		ok := dc != nil && lc != nil && fsn != nil && an.SameObj(an.Recv(dc), fsn)
		if ok {
			// fsn was parsed from the Data() of the node whose Links() are used
			parsed := from(fsn, func(v ssa.Value) bool { _, ok := an.IsCallTo(v, an.M("ipld/unixfs", "", "FSNodeFromBytes")); return ok })
			ok = false
			if parsed != nil {
				if d2 := from(parsed.Call.Args[0], func(v ssa.Value) bool {
					_, ok := an.IsCallTo(v, an.M("ipld/merkledag", "ProtoNode", "Data"))
					return ok
				}); d2 != nil && an.SameObj(an.Recv(d2), an.Recv(lc)) {
					ok = true
				}
			}
		}
		c.Check(ok, "O9", "R-FLOW", name, "makeChilder(node.bitfield,node.Links())", mc.Pos(),
			"bitfield and links of a loaded shard come from the same node",
			"NewHamtFromDag fills the childer with a bitfield and a link list that do not come from one and the same node (fsn.Data() of the node whose Links() are used): set bits and links no longer correspond")
	}
	c.Min("O9 makeChilder calls in NewHamtFromDag", nMk, 1)
	// makeChilder itself
	var dataPar, linksPar *ssa.Parameter
	for _, par := range mk.Params[1:] {
		if sl, ok := par.Type().Underlying().(*types.Slice); ok {
			if b, ok := sl.Elem().Underlying().(*types.Basic); ok && b.Kind() == types.Byte {
				dataPar = par
			} else {
				linksPar = par
			}
		}
	}
	if c.Need(dataPar != nil && linksPar != nil, "parameters of makeChilder") {
		okLen, okLinks, okBits := false, false, false
		for _, st := range an.FieldStores(mk, fCh) {
			if ms, ok := st.Val.(*ssa.MakeSlice); ok {
				if lc, ok := ms.Len.(*ssa.Call); ok {
					if bi, ok := lc.Call.Value.(*ssa.Builtin); ok && bi.Name() == "len" && lc.Call.Args[0] == ssa.Value(linksPar) {
						okLen = true
					}
				}
			}
		}
		for _, st := range an.FieldStores(mk, fLn) {
			for _, l := range an.Deps(st.Val, nil) {
				if l == ssa.Value(linksPar) {
					okLinks = true
				}
			}
		}
		for _, bc := range an.AllCalls(mk) {
			if an.Callee(bc).Name == "SetBytes" && len(an.Args(bc)) == 1 && an.Args(bc)[0] == ssa.Value(dataPar) {
				if fl, _ := an.LoadedField(an.Recv(bc)); fl == fBf {
					okBits = true
				}
			}
		}
		c.Check(okLen && okLinks && okBits, "O9", "R-FLOW", an.FuncName(mk), "children=len(links),links,bitfield=data", mk.Pos(),
			"makeChilder sizes children by the link count, keeps the links and loads the bitfield",
			fmt.Sprintf("childer.makeChilder does not set children to len(links) entries (%v), links to the given links (%v) and the bitfield to the given bytes (%v): slice indices derived from the bitfield do not address the loaded links", okLen, okLinks, okBits))
	}
}

// c15InsertFn finds childer.insert by role: the childer method that grows the
// children slice with slices.Insert.
func c15InsertFn(c *an.Ctx) *ssa.Function {
	if f := c.P.Func(c15H, c15HR.childerName(), "insert"); f != nil {
		return f
	}
	fCh := c15HR.fChildren
	var found *ssa.Function
	for _, f := range c.P.Methods(c15H, c15HR.childerName()) {
		for _, st := range an.FieldStores(f, fCh) {
			if op, _ := c15SliceOp(st.Val); op == "Insert" && c15LinkParam(f) != nil {
				if found != nil && found != f {
					return nil
				}
				found = f
			}
		}
	}
	return found
}

// ---- role-based anchors for the unexported primitives of package hamt:
// resolved by conventional name first, by signature/body role when renamed.

var c15Roles = map[string]*ssa.Function{}

func c15RoleFn(role string) *ssa.Function { return c15Roles[role] }

// c15M is the callee matcher of a role (falls back to the conventional name,
// which then simply matches nothing).
func c15M(role string) an.Matcher {
	conv := map[string][2]string{
		"childLinkType": {"Shard", "childLinkType"}, "isValueNode": {"Shard", "isValueNode"}, "linkNamePrefix": {"Shard", "linkNamePrefix"},
		"child": {"childer", "child"}, "has": {"childer", "has"}, "length": {"childer", "length"}, "link": {"childer", "link"}, "rm": {"childer", "rm"},
		"set": {"childer", "set"}, "setLink": {"childer", "setLink"}, "sliceIndex": {"childer", "sliceIndex"},
		"makeShard": {"", "makeShard"}, "newConsumedHashBits": {"", "newConsumedHashBits"},
	}[role]
	recv := conv[0]
	if recv == "childer" {
		recv = c15HR.childerName()
	}
	if f := c15Roles[role]; f != nil {
		return an.M(c15H, recv, f.Name())
	}
	return an.M(c15H, recv, conv[1])
}

func c15ResolveRoles(c *an.Ctx) {
	p := c.P
	c15Roles = map[string]*ssa.Function{}
	fCh, fLn := c15HR.fChildren, c15HR.fLinks
	fPad := c15HR.fPrefixPad
	sig := func(f *ssa.Function) (params []types.Type, results []types.Type) {
		ps := f.Signature.Params()
		for i := 0; i < ps.Len(); i++ {
			params = append(params, ps.At(i).Type())
		}
		rs := f.Signature.Results()
		for i := 0; i < rs.Len(); i++ {
			results = append(results, rs.At(i).Type())
		}
		return
	}
	isInt := func(t types.Type) bool { b, ok := t.Underlying().(*types.Basic); return ok && b.Kind() == types.Int }
	isBool := func(t types.Type) bool { b, ok := t.Underlying().(*types.Basic); return ok && b.Kind() == types.Bool }
	isShard := func(t types.Type) bool { return an.TypeIs(t, c15H, "Shard") }
	isLink := func(t types.Type) bool { return an.TypeIs(t, "github.com/ipfs/go-ipld-format", "Link") }
	callsBitfield := func(f *ssa.Function, name string) bool {
		for _, call := range an.AllCalls(f) {
			if ci := an.Callee(call); ci.Name == name && strings.Contains(ci.Pkg, "go-bitfield") {
				return true
			}
		}
		return false
	}
	type role struct {
		name, recv, conv string
		pred             func(f *ssa.Function, ps, rs []types.Type) bool
	}
	roles := []role{
		{"childLinkType", "Shard", "childLinkType", func(f *ssa.Function, ps, rs []types.Type) bool {
			return len(rs) == 2 && c15HR.isLinkType(rs[0]) && an.IsErrorType(rs[1])
		}},
		{"isValueNode", "Shard", "isValueNode", func(f *ssa.Function, ps, rs []types.Type) bool { return len(ps) == 0 && len(rs) == 1 && isBool(rs[0]) }},
		{"linkNamePrefix", "Shard", "linkNamePrefix", func(f *ssa.Function, ps, rs []types.Type) bool {
			return len(ps) == 1 && isInt(ps[0]) && len(rs) == 1 && an.IsString(rs[0]) && fPad != nil && len(an.FieldReads(f, fPad)) > 0
		}},
		{"child", "childer", "child", func(f *ssa.Function, ps, rs []types.Type) bool {
			return len(ps) == 1 && isInt(ps[0]) && len(rs) == 1 && isShard(rs[0])
		}},
		{"link", "childer", "link", func(f *ssa.Function, ps, rs []types.Type) bool {
			return len(ps) == 1 && isInt(ps[0]) && len(rs) == 1 && isLink(rs[0])
		}},
		{"has", "childer", "has", func(f *ssa.Function, ps, rs []types.Type) bool {
			return len(ps) == 1 && isInt(ps[0]) && len(rs) == 1 && isBool(rs[0]) && callsBitfield(f, "Bit")
		}},
		{"length", "childer", "length", func(f *ssa.Function, ps, rs []types.Type) bool { return len(ps) == 0 && len(rs) == 1 && isInt(rs[0]) }},
		{"sliceIndex", "childer", "sliceIndex", func(f *ssa.Function, ps, rs []types.Type) bool {
			return len(ps) == 1 && isInt(ps[0]) && len(rs) == 1 && isInt(rs[0]) && callsBitfield(f, "OnesBefore")
		}},
		{"rm", "childer", "rm", func(f *ssa.Function, ps, rs []types.Type) bool {
			for _, st := range an.FieldStores(f, fCh) {
				if op, _ := c15SliceOp(st.Val); op == "Delete" {
					return true
				}
			}
			return false
		}},
		{"set", "childer", "set", func(f *ssa.Function, ps, rs []types.Type) bool {
			return len(ps) == 2 && isShard(ps[0]) && isInt(ps[1]) && len(rs) == 0 && len(c15ElemStores(f, fCh)) > 0 && len(c15ElemStores(f, fLn)) > 0
		}},
		{"setLink", "childer", "setLink", func(f *ssa.Function, ps, rs []types.Type) bool {
			return len(ps) == 2 && isLink(ps[0]) && isInt(ps[1]) && len(rs) == 0 && len(c15ElemStores(f, fCh)) > 0
		}},
		{"makeShard", "", "makeShard", func(f *ssa.Function, ps, rs []types.Type) bool {
			return fPad != nil && len(an.FieldStores(f, fPad)) > 0
		}},
		{"newConsumedHashBits", "", "newConsumedHashBits", func(f *ssa.Function, ps, rs []types.Type) bool {
			return len(ps) == 2 && an.IsString(ps[0]) && isInt(ps[1]) && len(rs) == 1 && c15HR.isHashBits(rs[0])
		}},
	}
	for _, r := range roles {
		if r.recv == "childer" {
			r.recv = c15HR.childerName()
		}
		if f := p.Func(c15H, r.recv, r.conv); f != nil {
			c15Roles[r.name] = f
			continue
		}
		var cands []*ssa.Function
		if r.recv == "" {
			for _, f := range p.PkgFuncs(c15H) {
				if f.Parent() == nil && f.Signature.Recv() == nil {
					cands = append(cands, f)
				}
			}
		} else {
			cands = p.Methods(c15H, r.recv)
		}
		var found []*ssa.Function
		for _, f := range cands {
			ps, rs := sig(f)
			if r.pred(f, ps, rs) {
				found = append(found, f)
			}
		}
		if len(found) == 1 {
			c15Roles[r.name] = found[0]
		}
	}
}

// c15LabelLinkPairs: the (label, link) value pairs that can reach a call whose
// two operands are the fields of one small local struct variable (assigned as
// a whole, from a composite literal, on each branch). For plain operands it is
// the single pair itself.
func c15LabelLinkPairs(label, link ssa.Value) [][2]ssa.Value {
	single := [][2]ssa.Value{{label, link}}
	fieldOfLocal := func(v ssa.Value) (*ssa.Alloc, int, bool) {
		u, ok := v.(*ssa.UnOp)
		if !ok || u.Op != token.MUL {
			return nil, 0, false
		}
		fa, ok := u.X.(*ssa.FieldAddr)
		if !ok {
			return nil, 0, false
		}
		al, ok := fa.X.(*ssa.Alloc)
		return al, fa.Field, ok
	}
	e1, i1, ok1 := fieldOfLocal(label)
	e2, i2, ok2 := fieldOfLocal(link)
	if !ok1 || !ok2 || e1 != e2 || e1.Referrers() == nil {
		return single
	}
	fieldStore := func(al *ssa.Alloc, idx int) []*ssa.Store {
		var out []*ssa.Store
		for _, r := range *al.Referrers() {
			if fa, ok := r.(*ssa.FieldAddr); ok && fa.Field == idx && fa.Referrers() != nil {
				for _, rr := range *fa.Referrers() {
					if st, ok := rr.(*ssa.Store); ok && st.Addr == ssa.Value(fa) {
						out = append(out, st)
					}
				}
			}
		}
		return out
	}
	var pairs [][2]ssa.Value
	for _, r := range *e1.Referrers() {
		st, ok := r.(*ssa.Store)
		if !ok || st.Addr != ssa.Value(e1) {
			continue
		}
		// whole-struct assignment from a composite literal temp
		ld, ok := st.Val.(*ssa.UnOp)
		if !ok || ld.Op != token.MUL {
			return single
		}
		tmp, ok := ld.X.(*ssa.Alloc)
		if !ok || tmp.Referrers() == nil {
			return single
		}
		ls, ks := fieldStore(tmp, i1), fieldStore(tmp, i2)
		if len(ls) != 1 || len(ks) != 1 {
			return single
		}
		pairs = append(pairs, [2]ssa.Value{ls[0].Val, ks[0].Val})
	}
	// field-wise assignments on the variable itself: pair the stores of one block
	ls, ks := fieldStore(e1, i1), fieldStore(e1, i2)
	for _, l := range ls {
		for _, k := range ks {
			if l.Block() == k.Block() {
				pairs = append(pairs, [2]ssa.Value{l.Val, k.Val})
			}
		}
	}
	if len(pairs) == 0 || len(ls) != len(ks) {
		return single
	}
	return pairs
}
