package props

import (
	"fmt"
	"go/ast"
	"go/constant"
	"go/token"
	"go/types"
	"strings"

	"golang.org/x/tools/go/ssa"

	"verif/checker/an"
)

func init() {
	register("C24", Prop{
		Pkgs: []string{"./pinning/pinner/dsindex"},
		Explain: "Decided (structural necessary conditions of 'the index is an exact multimap, prefix-related keys never leak'): " +
			"O1 key encoding (R-TAINT): every string that reaches a go-datastore key constructor (NewKey, RawKey, Key.ChildString, ...) or query.Query.Prefix in package dsindex is encode(..) of a caller string, the empty prefix, or a raw key read back from a query result (helper parameters are followed to all call sites; a raw parameter is accepted only on the edge where it was tested empty); every string handed to the ForEach callback and every element of the slice returned by Search is result 0 of decode(..) on its nil-error edge, decode being applied to path.Base(path.Dir(Entry.Key)) for the index key and path.Base(Entry.Key) for the value; " +
			"O2 encoding facts (R-CONST/R-FLOW): encode returns multibase.Encode(E, []byte(s)) with E a constant from the slash-free multibase set, decode returns string(bytes) of multibase.Decode on its nil edge; " +
			"O3 sibling key shape and guards (R-SIB): every Key.ChildString in an Indexer method is NewKey(encode(key)).ChildString(encode(value)) with key/value the first/second string parameter; Add, Delete, HasValue reject empty key and value, DeleteKey and Search reject the empty key, before any datastore access (explicit table over the Indexer method set; an unknown method is a checker problem). " +
			"O8 (R-FLOW/R-CMP): the prefix of every query reached from an Indexer method is that method's own key, raw or encoded exactly once (the empty prefix for DeleteAll), the encode lying behind a non-empty test where the empty key means all keys; indexed loops over query results start at 0 and are bounded by len(entries). " +
			"NOT decided: go-datastore's path-scoped Query.Prefix semantics and namespace wrapping (trusted), multibase being injective, equality with the multimap model.",
		Assume:    []string{"go-datastore Query.Prefix matches whole path components (v0.9.2 NaiveQueryApply appends '/')", "multibase.Encode/Decode are inverse and the listed encodings never emit '/'"},
		Technique: "SSA taint/provenance with per-edge guards (R-TAINT, R-FLOW), constant facts from types (R-CONST), sibling table (R-SIB), edge dominance (R-DOM)",
		Run:       runC24,
	})
}

const (
	c24Ds   = "github.com/ipfs/go-datastore"
	c24Dsq  = "github.com/ipfs/go-datastore/query"
	c24Mb   = "github.com/multiformats/go-multibase"
	c24Pkg  = "pinning/pinner/dsindex"
	c24Path = "path"
)

func runC24(c *an.Ctx) {
	p := c.P
	// the codec is found by role: the package functions that call
	// multibase.Encode / multibase.Decode
	var enc, dec *ssa.Function
	for _, f := range p.PkgFuncs(c24Pkg) {
		if len(an.Calls(f, an.M(c24Mb, "", "Encode"))) > 0 && enc == nil {
			enc = f
		}
		if len(an.Calls(f, an.M(c24Mb, "", "Decode"))) > 0 && dec == nil {
			dec = f
		}
	}
	c24Enc, c24Dec = enc, dec
	if !c.Need(enc != nil && dec != nil, "dsindex.encode / dsindex.decode") {
		return
	}
	iface := p.Named(c24Pkg, "Indexer")
	if !c.Need(iface != nil, "dsindex.Indexer") {
		return
	}
	// the implementation is found by role: the struct type of the package
	// implementing Indexer
	c24Impl = ""
	if pk := p.Pkg(c24Pkg); pk != nil {
		sc := pk.Types.Scope()
		for _, n := range sc.Names() {
			tn, ok := sc.Lookup(n).(*types.TypeName)
			if !ok || tn.IsAlias() {
				continue
			}
			if _, isStruct := tn.Type().Underlying().(*types.Struct); !isStruct {
				continue
			}
			if types.Implements(types.NewPointer(tn.Type()), iface.Underlying().(*types.Interface)) && c24Impl == "" {
				c24Impl = n
			}
		}
	}
	if !c.Need(c24Impl != "", "a struct of dsindex implementing Indexer") {
		return
	}
	fns := p.PkgFuncs(c24Pkg)
	w := &c24Walker{c: c, fns: fns}

	// ------------------------------------------------------------------ O1 sinks
	nSink := 0
	for _, fn := range fns {
		name := an.FuncName(fn)
		for _, call := range an.AllCalls(fn) {
			ci := an.Callee(call)
			if ci.Pkg != c24Ds || ci.Fn == nil {
				continue
			}
			sig := ci.Fn.Type().(*types.Signature)
			if sig.Results().Len() != 1 || !an.TypeIs(sig.Results().At(0).Type(), c24Ds, "Key") {
				continue
			}
			for i, a := range an.Args(call) {
				if b, ok := a.Type().Underlying().(*types.Basic); !ok || b.Kind() != types.String {
					continue
				}
				nSink++
				ok, why := w.encoded(fn, a, 0)
				c.Check(ok, "O1", "R-TAINT", name, fmt.Sprintf("%s.arg%d<=encode", ci.Name, i), call.Pos(),
					"datastore key component is encode(..), empty, or a raw key from a query result",
					"a string reaches "+ci.String()+" without passing through encode ("+why+"): keys containing '/' or that are prefixes of one another leak into each other's results")
			}
		}
		an.Instrs(fn, func(in ssa.Instruction) {
			st, ok := in.(*ssa.Store)
			if !ok {
				return
			}
			f, base := an.FieldOf(st.Addr)
			if f == nil || f.Name() != "Prefix" || !an.TypeIs(base.Type(), c24Dsq, "Query") {
				return
			}
			nSink++
			ok2, why := w.encoded(fn, st.Val, 0)
			c.Check(ok2, "O1", "R-TAINT", name, "Query.Prefix<=encode", st.Pos(),
				"query prefix is encode(..), empty, or a raw key", "query.Query.Prefix is set from a string that did not pass through encode ("+why+"): prefix queries return pairs of other keys")
		})
	}
	c.Min("O1 key/prefix sinks", nSink, 4)

	// ------------------------------------------------------------------ O1 sources -> decode
	nOut := 0
	for _, fn := range fns {
		name := an.FuncName(fn)
		// callbacks: dynamic calls of a func(string,string) bool parameter
		for _, call := range an.AllCalls(fn) {
			prm, ok := call.Common().Value.(*ssa.Parameter)
			if !ok {
				continue
			}
			sig, ok := prm.Type().Underlying().(*types.Signature)
			if !ok || sig.Params().Len() != 2 {
				continue
			}
			for i, a := range call.Common().Args {
				nOut++
				want := "base"
				if i == 0 {
					want = "base(dir)"
				}
				ok, why := c24Decoded(fn, a, call, want)
				c.Check(ok, "O1", "R-TAINT", name, fmt.Sprintf("callback.arg%d<=decode(%s(Entry.Key))", i, want), call.Pos(),
					"callback argument is the decoded "+map[int]string{0: "index key", 1: "value"}[i],
					"ForEach hands its callback a string that is not decode("+want+"(Entry.Key)) on the nil edge ("+why+"): callers see encoded or swapped key/value")
			}
		}
		// returned []string slices
		for _, r := range an.Returns(fn) {
			for _, res := range r.Results {
				sl, ok := res.Type().Underlying().(*types.Slice)
				if !ok {
					continue
				}
				if b, ok := sl.Elem().Underlying().(*types.Basic); !ok || b.Kind() != types.String {
					continue
				}
				if an.IsNilConst(res) {
					continue
				}
				mk, ok := res.(*ssa.MakeSlice)
				if h := c24ResultOfLocal(res); !ok && h != nil && c24InFns(fns, h) {
					// delegated: the helper's own returns are checked by this same loop
					nOut++
					c.OK("O1", "R-TAINT", name, "returned-strings<=checked-helper", r.Pos(), "the returned slice is the result of a function of this package whose returned strings are checked on their own")
					continue
				}
				if !ok {
					// built with append: every appended element is a decoded value
					_, elems, why := c44SliceBuild(res)
					if why == "" && len(elems) > 0 {
						for _, e := range elems {
							nOut++
							ok2, why2 := c24Decoded(fn, e, r, "base")
							c.Check(ok2, "O1", "R-TAINT", name, "returned-strings<=decode(base(Entry.Key))", r.Pos(),
								"returned values are decoded value components", "Search returns a string that is not decode(base(Entry.Key)) on the nil edge ("+why2+")")
						}
						continue
					}
					nOut++
					c.Bad("O1", "R-TAINT", name, "returned-strings<=decode", r.Pos(), "a []string is returned that is not a slice filled from decode results in this function: "+an.PathOf(res))
					continue
				}
				n := 0
				for _, ref := range *mk.Referrers() {
					ia, ok := ref.(*ssa.IndexAddr)
					if !ok {
						continue
					}
					for _, r2 := range *ia.Referrers() {
						st, ok := r2.(*ssa.Store)
						if !ok || st.Addr != ia {
							continue
						}
						n++
						nOut++
						ok2, why := c24Decoded(fn, st.Val, r, "base")
						c.Check(ok2, "O1", "R-TAINT", name, "returned-strings<=decode(base(Entry.Key))", st.Pos(),
							"returned values are decoded value components", "Search returns a string that is not decode(base(Entry.Key)) on the nil edge ("+why+")")
					}
				}
				if n == 0 {
					nOut++
					c.Bad("O1", "R-TAINT", name, "returned-strings<=decode", r.Pos(), "returned []string is never filled from decode results")
				}
			}
		}
	}
	c.Min("O1 strings leaving the index (callback args, returned values)", nOut, 3)

	// ------------------------------------------------------------------ O2 encode / decode
	c24CheckCodec(c, enc, dec)

	// ------------------------------------------------------------------ O3 siblings
	table := map[string]string{ // method -> which string params must be non-empty
		"Add": "kv", "Delete": "kv", "HasValue": "kv", "DeleteKey": "k", "Search": "k",
		"ForEach": "all-on-empty", "HasAny": "all-on-empty", "DeleteAll": "",
	}
	it := iface.Underlying().(*types.Interface)
	touches := c24TouchesDs(fns)
	nChild, nGuard, nOps, nPfx := 0, 0, 0, 0
	for i := 0; i < it.NumMethods(); i++ {
		m := it.Method(i)
		want, known := table[m.Name()]
		fn := p.Func(c24Pkg, c24Impl, m.Name())
		if !c.Need(fn != nil, "indexer."+m.Name()) {
			continue
		}
		var sp []*ssa.Parameter
		for _, prm := range fn.Params[1:] {
			if b, ok := prm.Type().Underlying().(*types.Basic); ok && b.Kind() == types.String {
				sp = append(sp, prm)
			}
		}
		if !known {
			if len(sp) > 0 {
				c.Problem("O3: Indexer method %s takes strings but is not in the guard table", m.Name())
			}
			continue
		}
		name := an.FuncName(fn)
		// key shape of every datastore operation reached from this method
		// (local helpers are followed with their arguments bound)
		c24EffOps(fn, nil, 0, func(call ssa.CallInstruction, env *c24Env) {
			ci := an.Callee(call)
			if ci.Name == "Query" {
				nPfx += c24PrefixProvenance(c, name, want, sp, call, env)
				return
			}
			switch ci.Name {
			case "Put", "Has", "Get", "GetSize", "Delete":
			default:
				return
			}
			args := an.Args(call)
			if len(args) < 2 || !an.TypeIs(args[1].Type(), c24Ds, "Key") {
				return
			}
			nOps++
			kind, why := c24KeyKind(c24X{args[1], env}, sp, 0)
			c.Check(kind != "", "O5", "R-FLOW", name, ci.Name+".key<=pair-key|Entry.Key", call.Pos(),
				"the datastore key is a pair key or a key returned by the query",
				"a datastore "+ci.Name+" is addressed by something that is neither NewKey(encode(key)).ChildString(encode(value)) nor the raw key of a query result ("+why+"): the operation addresses a different entry than its siblings / DeleteKey deletes nothing while reporting a count")
			if kind == "pair" {
				nChild++
				c.OK("O3", "R-SIB", name, "NewKey(encode(key)).ChildString(encode(value))", call.Pos(), "entry key is /encode(key)/encode(value) of this method's key and value")
			}
		})
		if want != "k" && want != "kv" {
			continue
		}
		need := []*ssa.Parameter{}
		if len(sp) >= 1 {
			need = append(need, sp[0])
		}
		if want == "kv" && len(sp) >= 2 {
			need = append(need, sp[1])
		}
		if !c.Need(len(need) == len(want), "string parameters of indexer."+m.Name()) {
			continue
		}
		// datastore accesses: invokes on a go-datastore interface value and calls
		// of other functions of this package that (transitively) do so
		var ops []ssa.Instruction
		for _, call := range an.AllCalls(fn) {
			ci := an.Callee(call)
			if ci.Invoke && strings.HasPrefix(ci.Pkg, c24Ds) {
				ops = append(ops, call)
			} else if ci.Static != nil && ci.Static.Pkg == fn.Pkg && touches[ci.Static] {
				ops = append(ops, call)
			}
		}
		c.Min("O3 datastore accesses in indexer."+m.Name(), len(ops), 1)
		for k, prm := range need {
			what := []string{"key", "value"}[k]
			edges := c24NonEmptyDeep(fn, prm, 0)
			ok := len(edges) > 0
			for _, op := range ops {
				if !an.GuardedBy(fn, nil, op, edges) {
					ok = false
				}
			}
			nGuard++
			c.Check(ok, "O3", "R-SIB", name, "empty-"+what+"-rejected-first", fn.Pos(),
				"no datastore access is reachable with an empty "+what, "the datastore is accessed although the "+what+" may be empty: the empty key means 'all keys' for ForEach/HasAny, so an entry stored under it breaks the multimap view")
		}
	}
	c22SweepImplementers(c, "O3", iface, c24Pkg+"."+c24Impl)
	c.Min("O3 pair-keyed datastore operations", nChild, 2)
	c.Min("O5 datastore operations reached from Indexer methods", nOps, 4)
	c.Min("O3 empty-string guards", nGuard, 8)
	c.Min("O8 query prefixes reached from Indexer methods", nPfx, 4)
	c24FullIteration(c, fns)

	c24Queries(c, fns)
	c24CallbackProtocol(c, fns)
	c24Namespace(c, fns)
}

// O7: the datastore an indexer works on is always namespace.Wrap(ds, name):
// several indexes (recursive, direct, name) share one datastore and are only
// separated by that name.
func c24Namespace(c *an.Ctx, fns []*ssa.Function) {
	// the datastore field of the implementation, by type
	var fld *types.Var
	if n := c.P.Named(c24Pkg, c24Impl); n != nil {
		if st, ok := n.Underlying().(*types.Struct); ok {
			for i := 0; i < st.NumFields(); i++ {
				if an.TypeIs(st.Field(i).Type(), c24Ds, "Datastore") || an.TypeIs(st.Field(i).Type(), c24Ds, "Batching") {
					fld = st.Field(i)
				}
			}
		}
	}
	if !c.Need(fld != nil, "datastore field of "+c24Impl) {
		return
	}
	n := 0
	for _, fn := range fns {
		for _, st := range an.FieldStores(fn, fld) {
			n++
			ok := false
			var why string
			for _, r := range an.Roots(st.Val, nil) {
				w, isWrap := an.IsCallTo(r, an.M(c24Ds+"/namespace", "", "Wrap"))
				if !isWrap {
					ok, why = false, an.PathOf(r)
					break
				}
				_, p0 := w.Call.Args[0].(*ssa.Parameter)
				_, p1 := w.Call.Args[1].(*ssa.Parameter)
				ok = p0 && p1
				if !ok {
					why = "Wrap arguments are not the constructor's datastore and name"
					break
				}
			}
			c.Check(ok, "O7", "R-FLOW", an.FuncName(fn), "indexer.dstore=namespace.Wrap(ds,name)", st.Pos(),
				"the index lives in its own namespace of the shared datastore",
				"the indexer's datastore is not namespace.Wrap(dstore, name) ("+why+"): indexes created with different names on one datastore share their keys, searches of one index return the pairs of another")
		}
	}
	c.Min("O7 stores to indexer.dstore", n, 1)
}

// O4: every datastore query of the package is scoped by Query.Prefix and by
// nothing else. Query.Prefix is the only device with path-component semantics;
// key filters (FilterKeyPrefix/FilterKeyCompare), string-prefix post-filtering
// of Entry.Key, Limit and Offset all change the result set in ways the
// multimap model does not allow.
func c24Queries(c *an.Ctx, fns []*ssa.Function) {
	nQ := 0
	for _, fn := range fns {
		name := an.FuncName(fn)
		for _, call := range an.AllCalls(fn) {
			ci := an.Callee(call)
			if !ci.Invoke || !strings.HasPrefix(ci.Pkg, c24Ds) || ci.Name != "Query" {
				continue
			}
			args := an.Args(call)
			if len(args) < 2 || !an.TypeIs(args[1].Type(), c24Dsq, "Query") {
				continue
			}
			nQ++
			var cell *ssa.Alloc
			if u, ok := args[1].(*ssa.UnOp); ok && u.Op == token.MUL {
				cell, _ = u.X.(*ssa.Alloc)
			}
			if cell == nil {
				c.Bad("O4", "R-TABLE", name, "Query-literal", call.Pos(), "the query handed to the datastore is not a query.Query built in this function ("+an.PathOf(args[1])+"): its scoping cannot be established")
				continue
			}
			set := map[string][]*ssa.Store{}
			for _, r := range *cell.Referrers() {
				fa, ok := r.(*ssa.FieldAddr)
				if !ok {
					continue
				}
				f, _ := an.FieldOf(fa)
				for _, r2 := range *fa.Referrers() {
					if st, ok := r2.(*ssa.Store); ok && st.Addr == fa {
						set[f.Name()] = append(set[f.Name()], st)
					}
				}
			}
			// every path to the query stores Prefix, except paths on which a
			// string parameter was tested empty (empty prefix = the zero value)
			blockedP := map[ssa.Instruction]bool{}
			for _, st := range set["Prefix"] {
				blockedP[st] = true
			}
			cutE := an.EdgeSet{}
			for _, prm := range fn.Params {
				if b, ok := prm.Type().Underlying().(*types.Basic); ok && b.Kind() == types.String {
					cutE = cutE.Union(c24EmptyEdges(fn, prm, true))
				}
			}
			scoped := len(set["Prefix"]) > 0 && !an.Reaches(fn, nil, call, cutE, blockedP)
			c.Check(scoped, "O4", "R-TABLE", name, "Query.Prefix-set", call.Pos(),
				"the query is scoped by Query.Prefix (whole path components)",
				"a datastore query is issued without Query.Prefix being set on every path: the result is scoped some other way (or not at all); only Query.Prefix matches whole key components, so pairs of keys whose encodings are string prefixes of one another leak into Search/DeleteKey results")
			for _, fld := range []string{"Filters", "Limit", "Offset"} {
				bad := ""
				for _, st := range set[fld] {
					if an.IsZeroValue(st.Val) {
						continue
					}
					if k, ok := an.ConstOf(st.Val); ok && k.Kind() == constant.Int && constant.Sign(k) == 0 {
						continue
					}
					bad = an.PathOf(st.Val)
				}
				c.Check(bad == "", "O4", "R-TABLE", name, "Query."+fld+"-unset", call.Pos(), "Query."+fld+" is not used",
					"Query."+fld+" is set on an index query: entries are dropped or matched by raw string comparison (FilterKeyPrefix is strings.HasPrefix without a component boundary), so searches no longer return exactly the pairs of the key")
			}
		}
		// forbidden devices anywhere in the package
		an.Instrs(fn, func(in ssa.Instruction) {
			if a, ok := in.(*ssa.Alloc); ok {
				t := a.Type().(*types.Pointer).Elem()
				if an.TypeIs(t, c24Dsq, "FilterKeyPrefix") || an.TypeIs(t, c24Dsq, "FilterKeyCompare") {
					c.Bad("O4", "R-API", name, "no-raw-key-filter", in.Pos(), "a query.FilterKeyPrefix/FilterKeyCompare is built: it compares raw key strings, not path components; an encoded key that is a string prefix of another one matches both")
				}
			}
			if call, ok := in.(ssa.CallInstruction); ok {
				ci := an.Callee(call)
				if ci.Pkg == "strings" && (ci.Name == "HasPrefix" || ci.Name == "TrimPrefix" || ci.Name == "CutPrefix") {
					for _, a := range call.Common().Args {
						for _, r := range an.Roots(a, nil) {
							if c24IsEntryKeyLoad(r) {
								c.Bad("O4", "R-API", name, "no-string-prefix-on-Entry.Key", in.Pos(), "a raw datastore key is matched with strings."+ci.Name+": string prefixes ignore the component boundary")
							}
						}
					}
				}
			}
		})
	}
	c.Min("O4 datastore queries", nQ, 2)
}

// O6: ForEach stops exactly when the callback returns false.
func c24CallbackProtocol(c *an.Ctx, fns []*ssa.Function) {
	n := 0
	for _, fn := range fns {
		for _, call := range an.AllCalls(fn) {
			prm, ok := call.Common().Value.(*ssa.Parameter)
			if !ok {
				continue
			}
			sig, ok := prm.Type().Underlying().(*types.Signature)
			if !ok || sig.Params().Len() != 2 || sig.Results().Len() != 1 {
				continue
			}
			cv := an.CallValue(call)
			if cv == nil {
				continue
			}
			n++
			name := an.FuncName(fn)
			again := func(want bool) bool { // can the callback run again after it returned `want`?
				for e := range an.BoolEdges(fn, []ssa.Value{cv}, want) {
					if c44ReachConst(e, map[ssa.Instruction]bool{call: true}) {
						return true
					}
				}
				return false
			}
			tested := len(an.BoolEdges(fn, []ssa.Value{cv}, true)) > 0
			c.Check(tested && !again(false), "O6", "R-DOM", name, "callback-false=>stop", call.Pos(),
				"after the callback returned false it is not called again", "ForEach keeps calling the callback after it returned false (or ignores its result): HasAny/early-exit users see more pairs than asked for")
			c.Check(tested && again(true), "O6", "R-DOM", name, "callback-true=>continue", call.Pos(),
				"after the callback returned true the enumeration continues", "ForEach stops although the callback returned true: enumeration (ForEach, HasAny, SyncIndex, pin listing) is truncated to the first pair")
		}
	}
	c.Min("O6 callback calls", n, 1)
}

// ---------------------------------------------------------------- O1 provenance

// codec functions of the analysed tree (set by runC24)
var c24Enc, c24Dec *ssa.Function

// name of the struct implementing Indexer (set by runC24)
var c24Impl string

type c24Walker struct {
	c   *an.Ctx
	fns []*ssa.Function
}

func c24IsEntryKeyLoad(v ssa.Value) bool {
	var f *types.Var
	var base ssa.Value
	switch x := v.(type) {
	case *ssa.UnOp:
		if x.Op != token.MUL {
			return false
		}
		f, base = an.FieldOf(x.X)
	case *ssa.Field:
		f, base = an.FieldOf(x)
	}
	return f != nil && f.Name() == "Key" && an.TypeIs(base.Type(), c24Dsq, "Entry")
}

func c24IsEmptyString(v ssa.Value) bool {
	k, ok := an.ConstOf(v)
	return ok && k.Kind() == constant.String && constant.StringVal(k) == ""
}

// c24EmptyEdges: edges on which string parameter prm is known to be "".
func c24EmptyEdges(fn *ssa.Function, prm ssa.Value, wantEmpty bool) an.EdgeSet {
	return an.CondEdges(fn, func(atom ssa.Value) (bool, bool) {
		b, ok := atom.(*ssa.BinOp)
		if !ok {
			return false, false
		}
		emptyOnTrue, okc := false, false
		switch {
		case (c24SameStr(b.X, prm) && c24IsEmptyString(b.Y)) || (c24SameStr(b.Y, prm) && c24IsEmptyString(b.X)):
			if b.Op == token.EQL {
				emptyOnTrue, okc = true, true
			} else if b.Op == token.NEQ {
				emptyOnTrue, okc = false, true
			}
		default:
			// len(prm) == 0, len(prm) > 0, len(prm) != 0
			if call, ok := b.X.(*ssa.Call); ok && an.Callee(call).Builtin == "len" && c24SameStr(call.Call.Args[0], prm) {
				if k, ok := an.ConstOf(b.Y); ok && k.String() == "0" {
					switch b.Op {
					case token.EQL:
						emptyOnTrue, okc = true, true
					case token.NEQ, token.GTR:
						emptyOnTrue, okc = false, true
					}
				}
			}
		}
		if !okc {
			return false, false
		}
		if wantEmpty {
			return emptyOnTrue, !emptyOnTrue
		}
		return !emptyOnTrue, emptyOnTrue
	})
}

func c24NonEmptyEdges(fn *ssa.Function, prm ssa.Value) an.EdgeSet {
	return c24EmptyEdges(fn, prm, false)
}

func (w *c24Walker) encoded(fn *ssa.Function, v ssa.Value, depth int) (bool, string) {
	if depth > 8 {
		return false, "provenance too deep"
	}
	switch x := v.(type) {
	case *ssa.Const:
		if c24IsEmptyString(x) {
			return true, ""
		}
		if k, ok := an.ConstOf(x); ok && k.Kind() == constant.String && constant.StringVal(k) == "/" {
			return true, ""
		}
		return false, "constant " + x.String()
	case *ssa.Call:
		ci := an.Callee(x)
		if ci.Static != nil && ci.Static == c24Enc {
			return true, ""
		}
		return false, "result of " + ci.String()
	case *ssa.Phi:
		for i, e := range x.Edges {
			if prm, ok := e.(*ssa.Parameter); ok && !c24Unexported(fn) {
				// raw caller string: only on the edge where it was tested empty
				if c44PhiEdgeGuarded(x, i, c24EmptyEdges(fn, prm, true)) {
					continue
				}
				return false, "parameter " + prm.Name() + " flows unencoded on a path where it may be non-empty"
			}
			if ok, why := w.encoded(fn, e, depth+1); !ok {
				return false, why
			}
		}
		return true, ""
	case *ssa.UnOp:
		if c24IsEntryKeyLoad(x) {
			return true, ""
		}
		if x.Op == token.MUL {
			if _, isAlloc := x.X.(*ssa.Alloc); isAlloc {
				rs := an.Roots(x, nil)
				for _, r := range rs {
					if r == v {
						return false, "uninitialised local"
					}
					if ok, why := w.encoded(fn, r, depth+1); !ok {
						return false, why
					}
				}
				return len(rs) > 0, "no store"
			}
		}
		return false, "value " + an.PathOf(v)
	case *ssa.Field:
		if c24IsEntryKeyLoad(x) {
			return true, ""
		}
	case *ssa.Convert:
		return w.encoded(fn, x.X, depth+1)
	case *ssa.ChangeType:
		return w.encoded(fn, x.X, depth+1)
	case *ssa.BinOp:
		if x.Op == token.ADD {
			if ok, why := w.encoded(fn, x.X, depth+1); !ok {
				return false, why
			}
			return w.encoded(fn, x.Y, depth+1)
		}
	case *ssa.Parameter:
		if !c24Unexported(fn) {
			return false, "parameter " + x.Name() + " of exported " + fn.Name() + " used raw"
		}
		// follow to every static call site in the package
		pi := -1
		for i, q := range fn.Params {
			if q == x {
				pi = i
			}
		}
		n := 0
		for _, g := range w.fns {
			for _, call := range an.AllCalls(g) {
				if an.Callee(call).Static != fn {
					continue
				}
				n++
				if ok, why := w.encoded(g, call.Common().Args[pi], depth+1); !ok {
					return false, "via " + g.Name() + ": " + why
				}
			}
		}
		if n == 0 {
			return false, "helper " + fn.Name() + " has no static caller"
		}
		return true, ""
	}
	return false, "value " + an.PathOf(v)
}

func c24Unexported(fn *ssa.Function) bool {
	return fn.Parent() != nil || !ast.IsExported(fn.Name())
}

// c24Decoded: v is result 0 of decode(X) with `use` only reachable on the nil
// edge of that decode, and X = path.Base(Entry.Key) ("base") or
// path.Base(path.Dir(Entry.Key)) ("base(dir)").
func c24Decoded(fn *ssa.Function, v ssa.Value, use ssa.Instruction, want string) (bool, string) {
	return c24DecodedD(fn, v, use, want, 0)
}

func c24DecodedD(fn *ssa.Function, v ssa.Value, use ssa.Instruction, want string, depth int) (bool, string) {
	e, ok := v.(*ssa.Extract)
	if !ok {
		return false, "not a decode result: " + an.PathOf(v)
	}
	call, ok := e.Tuple.(*ssa.Call)
	if !ok {
		return false, "not a decode result"
	}
	ci := an.Callee(call)
	if ci.Static == nil || ci.Static.Pkg != fn.Pkg {
		return false, "result of " + ci.String()
	}
	errs := an.ErrResult(call)
	if len(errs) == 0 || !an.GuardedBy(fn, call, use, an.NilEdges(fn, errs, true)) {
		return false, ci.Name + " error not checked before use"
	}
	if ci.Static != c24Dec {
		// a local helper: the result must be a decoded component at every
		// success return of the helper
		h := ci.Static
		if depth > 3 || h.Blocks == nil {
			return false, "result of " + ci.String()
		}
		n := 0
		for _, r := range an.Returns(h) {
			k := len(r.Results)
			if k <= e.Index || !an.IsNilConst(r.Results[k-1]) {
				continue
			}
			n++
			if ok, why := c24DecodedD(h, r.Results[e.Index], r, want, depth+1); !ok {
				return false, "via " + h.Name() + ": " + why
			}
		}
		if n == 0 {
			return false, "helper " + h.Name() + " has no success return"
		}
		return true, ""
	}
	if e.Index != 0 {
		return false, "not result 0 of decode"
	}
	// shape of the decoded component
	arg := call.Call.Args[0]
	b, ok := an.IsCallTo(arg, an.M(c24Path, "", "Base"))
	if !ok {
		return false, "decode input is not path.Base(..)"
	}
	in := b.Call.Args[0]
	got := "base"
	if d, ok := an.IsCallTo(in, an.M(c24Path, "", "Dir")); ok {
		got = "base(dir)"
		in = d.Call.Args[0]
	}
	if !c24EntryKeyValue(in) {
		return false, "decode input does not come from query.Entry.Key"
	}
	if got != want {
		return false, "decodes " + got + "(Entry.Key), want " + want + "(Entry.Key)"
	}
	return true, ""
}

// c24EntryKeyValue: v is a load of Entry.Key, possibly of an Entry passed by
// value as a parameter or copied into a local.
func c24EntryKeyValue(v ssa.Value) bool {
	if c24IsEntryKeyLoad(v) {
		return true
	}
	for _, r := range an.Roots(v, nil) {
		if !c24IsEntryKeyLoad(r) {
			return false
		}
	}
	return true
}

// ---------------------------------------------------------------- O2 codec

func c24CheckCodec(c *an.Ctx, enc, dec *ssa.Function) {
	p := c.P
	ename, dname := an.FuncName(enc), an.FuncName(dec)
	// allowed (slash-free) multibase encodings, by constant name in go-multibase
	allowed := []string{"Base2", "Base8", "Base10", "Base16", "Base16Upper", "Base32", "Base32Upper", "Base32pad", "Base32padUpper",
		"Base32hex", "Base32hexUpper", "Base32hexPad", "Base32hexPadUpper", "Base36", "Base36Upper", "Base58BTC", "Base58Flickr", "Base64url", "Base64urlPad"}
	vals := map[string]string{}
	if pk := p.Pkg(c24Pkg); pk != nil {
		if mb := pk.Imports[c24Mb]; mb != nil && mb.Types != nil {
			for _, n := range allowed {
				if k, ok := mb.Types.Scope().Lookup(n).(*types.Const); ok {
					vals[k.Val().ExactString()] = n
				}
			}
		}
	}
	if !c.Need(len(vals) >= 10, "go-multibase encoding constants") {
		return
	}
	calls := an.Calls(enc, an.M(c24Mb, "", "Encode"))
	c.Min("O2 multibase.Encode in encode", len(calls), 1)
	for _, call := range calls {
		k, isConst := an.ConstOf(call.Common().Args[0])
		nm := ""
		if isConst {
			nm = vals[k.ExactString()]
		}
		c.Check(isConst && nm != "", "O2", "R-CONST", ename, "multibase-encoding-slash-free", call.Pos(),
			"encoding constant is "+nm+" (alphabet without '/')", "encode uses a multibase encoding outside the slash-free set (identity/base64 std emit '/' or raw bytes): encoded keys split into several datastore path components and prefix queries leak")
		// input = []byte(param)
		okIn := false
		if cv, ok := call.Common().Args[1].(*ssa.Convert); ok {
			if _, ok := cv.X.(*ssa.Parameter); ok {
				okIn = true
			}
		}
		c.Check(okIn, "O2", "R-FLOW", ename, "Encode([]byte(param))", call.Pos(), "the whole parameter is encoded", "encode does not encode exactly its parameter's bytes")
		for _, r := range an.Returns(enc) {
			ex, ok := r.Results[0].(*ssa.Extract)
			c.Check(ok && ex.Tuple == call.(*ssa.Call) && ex.Index == 0, "O2", "R-FLOW", ename, "return=Encode#0", r.Pos(), "encode returns the multibase string", "encode returns something else than the multibase string: "+an.PathOf(r.Results[0]))
		}
	}
	dcalls := an.Calls(dec, an.M(c24Mb, "", "Decode"))
	c.Min("O2 multibase.Decode in decode", len(dcalls), 1)
	for _, call := range dcalls {
		_, isPrm := call.Common().Args[0].(*ssa.Parameter)
		c.Check(isPrm, "O2", "R-FLOW", dname, "Decode(param)", call.Pos(), "the whole parameter is decoded", "decode does not decode exactly its parameter")
		n := 0
		for _, r := range an.Returns(dec) {
			if len(r.Results) != 2 || !an.IsNilConst(r.Results[1]) {
				continue
			}
			n++
			ok := false
			if cv, isCv := r.Results[0].(*ssa.Convert); isCv {
				if ex, isEx := cv.X.(*ssa.Extract); isEx && ex.Tuple == call.(*ssa.Call) && ex.Index == 1 {
					ok = an.OnNilEdgeOf(dec, call, r)
				}
			}
			c.Check(ok, "O2", "R-FLOW", dname, "return=string(Decode#1)@nil-edge", r.Pos(), "decode returns the decoded bytes only when Decode succeeded", "decode's success return is not string(bytes) of multibase.Decode on its nil edge")
		}
		c.Min("O2 success returns of decode", n, 1)
	}
}

// ---------------------------------------------------------------- expansion through local helpers

// c24Env binds the parameters of fn to the argument values of one call site.
type c24Env struct {
	fn     *ssa.Function
	args   []ssa.Value
	parent *c24Env
}

// c24X is a value seen in a call context.
type c24X struct {
	v   ssa.Value
	env *c24Env
}

// resolve follows parameter bindings up the call context.
func (x c24X) resolve() c24X {
	for i := 0; i < 8; i++ {
		prm, ok := x.v.(*ssa.Parameter)
		if !ok || x.env == nil || prm.Parent() != x.env.fn {
			return x
		}
		idx := -1
		for k, q := range x.env.fn.Params {
			if q == prm {
				idx = k
			}
		}
		if idx < 0 || idx >= len(x.env.args) {
			return x
		}
		x = c24X{x.env.args[idx], x.env.parent}
	}
	return x
}

func c24Local(fn *ssa.Function, ci an.CallInfo) *ssa.Function {
	if ci.Static == nil || ci.Static.Blocks == nil || ci.Static.Pkg == nil {
		return nil
	}
	if strings.TrimPrefix(ci.Static.Pkg.Pkg.Path(), an.Mod+"/") != c24Pkg {
		return nil
	}
	return ci.Static
}

// c24EffOps visits every go-datastore invoke executed by fn or by the local
// functions it calls (depth-limited), with the call context.
func c24EffOps(fn *ssa.Function, env *c24Env, depth int, visit func(ssa.CallInstruction, *c24Env)) {
	if depth > 3 {
		return
	}
	for _, call := range an.AllCalls(fn) {
		ci := an.Callee(call)
		if ci.Invoke && strings.HasPrefix(ci.Pkg, c24Ds) {
			visit(call, env)
			continue
		}
		if h := c24Local(fn, ci); h != nil && h != fn && h != c24Enc && h != c24Dec {
			c24EffOps(h, &c24Env{fn: h, args: call.Common().Args, parent: env}, depth+1, visit)
		}
	}
}

// c24Alts expands x into the alternatives it can denote: phi inputs and the
// success-return operands of local helper calls.
func c24Alts(x c24X, depth int) []c24X {
	x = x.resolve()
	if depth > 4 {
		return []c24X{x}
	}
	if prm, k, ok := c24ParamField(x.v); ok {
		// a field of a struct parameter whose argument is a composite literal
		// of the caller: the value stored into that field
		base := c24X{prm, x.env}.resolve()
		if fs, ok := c24LitFields(base.v); ok && base.v != ssa.Value(prm) {
			if fv, ok := fs[k]; ok {
				return c24Alts(c24X{fv, base.env}, depth+1)
			}
		}
		return []c24X{x}
	}
	switch v := x.v.(type) {
	case *ssa.Phi:
		var out []c24X
		for _, e := range v.Edges {
			out = append(out, c24Alts(c24X{e, x.env}, depth+1)...)
		}
		return out
	case *ssa.UnOp:
		if v.Op == token.MUL {
			if _, isAlloc := v.X.(*ssa.Alloc); isAlloc {
				var out []c24X
				for _, r := range an.Roots(v, nil) {
					if r == ssa.Value(v) {
						return []c24X{x}
					}
					out = append(out, c24Alts(c24X{r, x.env}, depth+1)...)
				}
				if len(out) > 0 {
					return out
				}
			}
		}
	case *ssa.Call, *ssa.Extract:
		idx := 0
		call, _ := v.(*ssa.Call)
		if e, ok := v.(*ssa.Extract); ok {
			idx = e.Index
			call, _ = e.Tuple.(*ssa.Call)
		}
		if call == nil {
			return []c24X{x}
		}
		ci := an.Callee(call)
		h := c24Local(nil, ci)
		if h == nil || h == c24Enc || h == c24Dec {
			return []c24X{x}
		}
		env := &c24Env{fn: h, args: call.Call.Args, parent: x.env}
		var out []c24X
		for _, r := range an.Returns(h) {
			k := len(r.Results)
			if idx >= k {
				continue
			}
			if k > 1 && an.IsErrorType(r.Results[k-1].Type()) && !an.IsNilConst(r.Results[k-1]) {
				continue // error return: the value is not used by callers that check the error
			}
			out = append(out, c24Alts(c24X{r.Results[idx], env}, depth+1)...)
		}
		if len(out) > 0 {
			return out
		}
	}
	return []c24X{x}
}

// c24EncodeArg: x is encode(A) on every alternative; returns the alternatives of A.
func c24EncodeArg(x c24X) ([]c24X, bool) {
	var out []c24X
	for _, a := range c24Alts(x, 0) {
		call, ok := a.v.(*ssa.Call)
		if !ok {
			return nil, false
		}
		ci := an.Callee(call)
		if ci.Static == nil || ci.Static != c24Enc {
			return nil, false
		}
		out = append(out, c24Alts(c24X{call.Call.Args[0], a.env}, 0)...)
	}
	return out, len(out) > 0
}

// c24KeyKind classifies a datastore key: "pair" = NewKey(encode(P1)).ChildString(encode(P2))
// with P1/P2 the first/second string parameter of the analysed method, "raw" =
// NewKey(Entry.Key) of a query result, "" = neither.
func c24KeyKind(x c24X, sp []*ssa.Parameter, depth int) (string, string) {
	kind := ""
	for _, a := range c24Alts(x, 0) {
		call, ok := a.v.(*ssa.Call)
		if !ok {
			return "", "key is " + an.PathOf(a.v)
		}
		ci := an.Callee(call)
		k := ""
		switch {
		case ci.Pkg == c24Ds && ci.Recv == "Key" && ci.Name == "ChildString":
			if len(sp) < 2 {
				return "", "pair key in a method without key and value parameters"
			}
			var parts []string
			okK := false
			for _, r := range c24Alts(c24X{call.Call.Args[0], a.env}, 0) {
				nk, isNK := r.v.(*ssa.Call)
				if !isNK || an.Callee(nk).Pkg != c24Ds || an.Callee(nk).Name != "NewKey" {
					okK = false
					break
				}
				as, isEnc := c24EncodeArg(c24X{nk.Call.Args[0], r.env})
				okK = isEnc
				for _, q := range as {
					if q.v != ssa.Value(sp[0]) || q.env != nil {
						okK = false
					}
				}
				if !okK {
					break
				}
			}
			if !okK {
				parts = append(parts, "NewKey argument is not encode("+sp[0].Name()+")")
			}
			as, isEnc := c24EncodeArg(c24X{call.Call.Args[1], a.env})
			okV := isEnc
			for _, q := range as {
				if q.v != ssa.Value(sp[1]) || q.env != nil {
					okV = false
				}
			}
			if !okV {
				parts = append(parts, "ChildString argument is not encode("+sp[1].Name()+")")
			}
			if len(parts) > 0 {
				return "", strings.Join(parts, "; ")
			}
			k = "pair"
		case ci.Pkg == c24Ds && ci.Name == "NewKey" && ci.Recv == "":
			ok := true
			for _, r := range c24Alts(c24X{call.Call.Args[0], a.env}, 0) {
				if !c24EntryKeyValue(r.v) {
					ok = false
				}
			}
			if !ok {
				return "", "NewKey of " + an.PathOf(call.Call.Args[0]) + " (a prefix or key component, not a stored pair)"
			}
			k = "raw"
		default:
			return "", "key is the result of " + ci.String()
		}
		if kind != "" && kind != k {
			return "", "mixed key kinds"
		}
		kind = k
	}
	return kind, ""
}

// c24TouchesDs: functions that (transitively) invoke the datastore.
func c24TouchesDs(fns []*ssa.Function) map[*ssa.Function]bool {
	out := map[*ssa.Function]bool{}
	for changed := true; changed; {
		changed = false
		for _, fn := range fns {
			if out[fn] {
				continue
			}
			for _, call := range an.AllCalls(fn) {
				ci := an.Callee(call)
				if (ci.Invoke && strings.HasPrefix(ci.Pkg, c24Ds)) || (ci.Static != nil && out[ci.Static]) {
					out[fn] = true
					changed = true
					break
				}
			}
		}
	}
	return out
}

// c24NonEmptyDeep: edges of fn on which string value v is known to be
// non-empty: direct tests, plus the nil-error edge of a local validator h(.., v, ..)
// all of whose nil returns lie behind a non-empty test of the corresponding parameter.
func c24NonEmptyDeep(fn *ssa.Function, v ssa.Value, depth int) an.EdgeSet {
	es := c24NonEmptyEdges(fn, v)
	if depth > 2 {
		return es
	}
	for _, call := range an.AllCalls(fn) {
		h := c24Local(fn, an.Callee(call))
		if h == nil || h == fn {
			continue
		}
		errs := an.ErrResult(call)
		if len(errs) == 0 {
			continue
		}
		for i, a := range call.Common().Args {
			if i >= len(h.Params) {
				continue
			}
			var hv ssa.Value
			if a == v {
				hv = h.Params[i]
			} else if fs, ok := c24LitFields(a); ok {
				// v travels in a field of a struct literal: the helper sees it
				// as that field of its parameter
				for k, fv := range fs {
					if fv == v {
						hv = c24FieldOfParam(h, h.Params[i], k)
					}
				}
			}
			if hv == nil {
				continue
			}
			he := c24NonEmptyDeep(h, hv, depth+1)
			if len(he) == 0 {
				continue
			}
			all, n := true, 0
			for _, r := range an.Returns(h) {
				k := len(r.Results)
				if k == 0 || !an.IsNilConst(r.Results[k-1]) {
					continue
				}
				n++
				if !an.GuardedBy(h, nil, r, he) {
					all = false
				}
			}
			if all && n > 0 {
				es = es.Union(an.NilEdges(fn, errs, true))
			}
		}
	}
	return es
}

// c24SameStr: a and b denote the same string: the same SSA value, or reads of
// the same field of the same, never modified, struct parameter (go/ssa emits
// one read per use).
func c24SameStr(a, b ssa.Value) bool {
	if a == b {
		return true
	}
	pa, ka, ok1 := c24ParamField(a)
	pb, kb, ok2 := c24ParamField(b)
	return ok1 && ok2 && pa == pb && ka == kb
}

// c24ParamField: v reads field k of struct parameter prm: Field(prm, k), or a
// load of &cell.k where cell is the local go/ssa spills prm into - written
// exactly once, with prm, and never through a field address.
func c24ParamField(v ssa.Value) (*ssa.Parameter, int, bool) {
	switch x := v.(type) {
	case *ssa.Field:
		if prm, ok := x.X.(*ssa.Parameter); ok {
			return prm, x.Field, true
		}
	case *ssa.UnOp:
		if x.Op != token.MUL {
			return nil, 0, false
		}
		fa, ok := x.X.(*ssa.FieldAddr)
		if !ok {
			return nil, 0, false
		}
		cell, ok := fa.X.(*ssa.Alloc)
		if !ok {
			return nil, 0, false
		}
		var prm *ssa.Parameter
		for _, ref := range *cell.Referrers() {
			switch r := ref.(type) {
			case *ssa.Store:
				p, isPrm := r.Val.(*ssa.Parameter)
				if r.Addr != ssa.Value(cell) || !isPrm || prm != nil {
					return nil, 0, false
				}
				prm = p
			case *ssa.FieldAddr:
				for _, rr := range *r.Referrers() {
					if ld, ok := rr.(*ssa.UnOp); !ok || ld.Op != token.MUL {
						return nil, 0, false
					}
				}
			case *ssa.UnOp:
				if r.Op != token.MUL {
					return nil, 0, false
				}
			case *ssa.DebugRef:
			default:
				return nil, 0, false
			}
		}
		if prm != nil {
			return prm, fa.Field, true
		}
	}
	return nil, 0, false
}

// c24FieldOfParam returns a representative read of field k of the struct
// parameter prm in h (nil when the field is never read).
func c24FieldOfParam(h *ssa.Function, prm *ssa.Parameter, k int) ssa.Value {
	var out ssa.Value
	an.Instrs(h, func(in ssa.Instruction) {
		v, ok := in.(ssa.Value)
		if !ok || out != nil {
			return
		}
		if p, kk, ok := c24ParamField(v); ok && p == prm && kk == k {
			out = v
		}
	})
	return out
}

// c24LitFields: v is a struct value loaded from a local that is only ever
// filled field by field (a composite literal) before that load, each field at
// most once, and whose address goes nowhere else: field index -> stored value.
func c24LitFields(v ssa.Value) (map[int]ssa.Value, bool) {
	ld, ok := v.(*ssa.UnOp)
	if !ok || ld.Op != token.MUL {
		return nil, false
	}
	a, ok := ld.X.(*ssa.Alloc)
	if !ok {
		return nil, false
	}
	if _, isStruct := a.Type().Underlying().(*types.Pointer).Elem().Underlying().(*types.Struct); !isStruct {
		return nil, false
	}
	out := map[int]ssa.Value{}
	for _, ref := range *a.Referrers() {
		switch r := ref.(type) {
		case *ssa.FieldAddr:
			for _, rr := range *r.Referrers() {
				st, ok := rr.(*ssa.Store)
				if !ok || st.Addr != ssa.Value(r) || !an.Dominates(st, ld) {
					return nil, false
				}
				if _, dup := out[r.Field]; dup {
					return nil, false
				}
				out[r.Field] = st.Val
			}
		case *ssa.UnOp:
			if r.Op != token.MUL {
				return nil, false
			}
		case *ssa.DebugRef:
		default:
			return nil, false
		}
	}
	return out, true
}

// c24ResultOfLocal: v is (a result of) a static call of a function of this
// package other than the codec.
func c24ResultOfLocal(v ssa.Value) *ssa.Function {
	if e, ok := v.(*ssa.Extract); ok {
		v = e.Tuple
	}
	call, ok := v.(*ssa.Call)
	if !ok {
		return nil
	}
	h := c24Local(nil, an.Callee(call))
	if h == nil || h == c24Enc || h == c24Dec {
		return nil
	}
	return h
}

func c24InFns(fns []*ssa.Function, h *ssa.Function) bool {
	for _, f := range fns {
		if f == h {
			return true
		}
	}
	return false
}

// O8 (prefix provenance): the prefix of every query reached from an Indexer
// method is derived from that method's own key: the key parameter itself (raw,
// only where it is empty - O1) or encode(key parameter), encoded exactly once;
// a method without a key (DeleteAll) queries the empty prefix. In the methods
// for which the empty key means "all keys" the encode call lies behind a
// non-empty test of its argument.
func c24PrefixProvenance(c *an.Ctx, name, want string, sp []*ssa.Parameter, q ssa.CallInstruction, env *c24Env) int {
	args := an.Args(q)
	if len(args) < 2 {
		return 0
	}
	var cell *ssa.Alloc
	if u, ok := args[1].(*ssa.UnOp); ok && u.Op == token.MUL {
		cell, _ = u.X.(*ssa.Alloc)
	}
	if cell == nil {
		return 0 // reported by O4
	}
	n := 0
	for _, r := range *cell.Referrers() {
		fa, ok := r.(*ssa.FieldAddr)
		if !ok {
			continue
		}
		if f, _ := an.FieldOf(fa); f == nil || f.Name() != "Prefix" {
			continue
		}
		for _, r2 := range *fa.Referrers() {
			st, ok := r2.(*ssa.Store)
			if !ok || st.Addr != ssa.Value(fa) {
				continue
			}
			n++
			bad := ""
			isOwn := func(x c24X) bool { return len(sp) > 0 && x.v == ssa.Value(sp[0]) && x.env == nil }
			alts := c24Alts(c24X{st.Val, env}, 0)
			// does the method's own key scope the query on some path?
			hasOwn := false
			for _, a := range alts {
				if isOwn(a) {
					hasOwn = true
				}
				if call, ok := a.v.(*ssa.Call); ok && an.Callee(call).Static != nil && an.Callee(call).Static == c24Enc {
					for _, x := range c24Alts(c24X{call.Call.Args[0], a.env}, 0) {
						if isOwn(x) {
							hasOwn = true
						}
					}
				}
			}
			for _, a := range alts {
				switch v := a.v.(type) {
				case *ssa.Const:
					if !c24IsEmptyString(v) {
						bad = "constant prefix " + v.String()
					} else if len(sp) > 0 && !(want == "all-on-empty" && hasOwn) {
						bad = "the method queries a constant empty prefix instead of its own key"
					}
				case *ssa.Parameter:
					if !isOwn(a) {
						bad = "prefix is " + an.PathOf(v) + ", not the method's key"
					}
				case *ssa.Call:
					if an.Callee(v).Static == nil || an.Callee(v).Static != c24Enc {
						bad = "prefix is the result of " + an.Callee(v).String()
						break
					}
					if len(sp) == 0 {
						bad = "a method without a key queries an encoded prefix (encode of the empty string is not the empty prefix)"
						break
					}
					for _, x := range c24Alts(c24X{v.Call.Args[0], a.env}, 0) {
						if !isOwn(x) {
							bad = "the encoded string is " + an.PathOf(x.v) + ", not the method's own key (encoded twice, or another string)"
						}
					}
					if prm, ok := v.Call.Args[0].(*ssa.Parameter); ok && want == "all-on-empty" {
						g := v.Parent()
						if es := c24NonEmptyEdges(g, prm); len(es) == 0 || !an.GuardedBy(g, nil, v, es) {
							bad = "the key is encoded although it may be empty: the empty key means 'all keys' here, and encode(\"\") is not the empty prefix"
						}
					}
				default:
					bad = "prefix is " + an.PathOf(a.v)
				}
			}
			c.Check(bad == "", "O8", "R-FLOW", name, "Query.Prefix<=own-key", q.Pos(),
				"the query prefix is the method's own key, encoded once (or the empty prefix)",
				"the prefix of a query reached from this method is not derived from the method's own key ("+bad+"): the method answers for other keys, for all keys, or for none")
		}
	}
	return n
}

// O8 (full iteration): a loop that indexes the entries of a query result with
// an induction variable starts at index 0 and runs up to len(entries).
func c24FullIteration(c *an.Ctx, fns []*ssa.Function) {
	n := 0
	for _, fn := range fns {
		name := an.FuncName(fn)
		seen := map[ssa.Value]bool{}
		an.Instrs(fn, func(in ssa.Instruction) {
			ia, ok := in.(*ssa.IndexAddr)
			if !ok {
				return
			}
			sl, ok := ia.X.Type().Underlying().(*types.Slice)
			if !ok || !an.TypeIs(sl.Elem(), c24Dsq, "Entry") || !c44Induction(ia.Index) || seen[ia.Index] {
				return
			}
			seen[ia.Index] = true
			n++
			why := ""
			if !c44FirstIndexZero(ia.Index) {
				why = "the first index is not 0"
			}
			// the compare that bounds this induction variable
			var phi ssa.Value = ia.Index
			if b, ok := ia.Index.(*ssa.BinOp); ok {
				phi = b.X
			}
			an.Instrs(fn, func(in2 ssa.Instruction) {
				ifi, ok := in2.(*ssa.If)
				if !ok {
					return
				}
				b, ok := c44Atom(ifi.Cond).(*ssa.BinOp)
				if !ok || b.Op != token.LSS {
					return
				}
				x := b.X
				if inc, ok := x.(*ssa.BinOp); ok && inc.Op == token.ADD {
					x = inc.X
				}
				if x != phi {
					return
				}
				call, ok := b.Y.(*ssa.Call)
				if !ok || an.Callee(call).Builtin != "len" || !an.SameObj(call.Call.Args[0], ia.X) {
					why = "the loop bound is not len(entries)"
				}
			})
			c.Check(why == "", "O8", "R-CMP", name, "entries-loop=0..len", ia.Pos(),
				"the loop over the query result visits every entry", "the loop over the entries of a query result does not visit all of them ("+why+"): Search returns an unset string / DeleteKey leaves a pair behind while reporting it deleted")
		})
	}
	c.Min("O8 indexed loops over query results", n, 2)
}
