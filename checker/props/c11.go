package props

import (
	"fmt"
	"go/token"
	"go/types"
	"sort"
	"strings"

	"golang.org/x/tools/go/ssa"

	"verif/checker/an"
)

func init() {
	register("C11", Prop{
		Pkgs: []string{"./ipld/merkledag", "./ipld/unixfs/mod", "./ipld/unixfs/hamt", "./ipld/unixfs/io"},
		Explain: "Decided (structural necessary conditions of 'never a stale CID / canonical encoding'): " +
			"O1 every store to a content field {links,data,builder} of a non-fresh ProtoNode is coupled, in the same function and on every path, with the reset of the cache it invalidates (links,data => encoded=nil; links => linksDirty=true; builder => cached=Undef or cached set from the same CID); " +
			"O2 every sortLinks() on a non-fresh node is followed on every path by a store to encoded; " +
			"O3 the cached CID is only ever stored from Undef, from CidBuilder().Sum(n.encoded.encoded) of the same node, or from the block CID in a decoder, the re-encode in EncodeProtobuf is preceded by cached=Undef, and every nil-error return of EncodeProtobuf has a defined cache; Cid() returns the cache only on EncodeProtobuf's nil edge; " +
			"O4 link sorts are stable sorts whose comparator compares Name ascending only; " +
			"O5 in-place stores to format.Link fields happen only on freshly allocated links (table exception: dagmodifier, followed by forced re-encode); " +
			"O6 encoder key set of marshalImmutable equals the field set read back by fromImmutableNode; " +
			"O7 storage isolation: a store to links never installs a caller's slice or another node's link list, no exported function returns the field's own slice, and a single link appended by an exported method is not the caller's pointer. " +
			"NOT decided: byte-level canonical form produced by go-codec-dagpb, equality of decoded data/links (runtime values).",
		Assume:    []string{"unexported fields of ProtoNode are only reachable from package merkledag (Go visibility)", "go-codec-dagpb encodes what it is given"},
		Technique: "SSA path rules: coupled-mutation (R-PAIR), must-follow (R-POST), value provenance (R-FLOW), edge dominance (R-DOM), callee identity (R-API), comparator shape (R-MIRROR), encoder/decoder table (R-TABLE)",
		Run:       runC11,
	})
}

const cidUndef = "github.com/ipfs/go-cid.Undef"

func runC11(c *an.Ctx) {
	p := c.P
	const md = "ipld/merkledag"
	// ProtoNode is exported API; its unexported fields are found by ROLE (type), so that a
	// rename of a field does not orphan the rules.
	fLinks, fData, fBuilder, fEncoded, fCached, fDirty := c11Fields(p.Named(md, "ProtoNode"))
	if !c.Need(fLinks != nil && fData != nil && fBuilder != nil && fEncoded != nil && fCached != nil && fDirty != nil, "merkledag.ProtoNode fields by role: []*format.Link, []byte, cid.Builder, *<local struct holding the encoding>, cid.Cid, bool") {
		return
	}
	fns := p.PkgFuncs(md)

	// ---- O1: coupled invalidation
	nO1 := 0
	for _, fn := range fns {
		name := an.FuncName(fn)
		check := func(content *types.Var, cache *types.Var, isReset func(*ssa.Store) bool, what string) {
			for _, st := range an.FieldStores(fn, content) {
				_, base := an.FieldOf(st.Addr)
				if an.IsFresh(base) {
					continue
				}
				nO1++
				var resets []ssa.Instruction
				for _, r := range an.StoresToField(fn, cache, base) {
					if isReset(r) {
						resets = append(resets, r)
					}
				}
				// a helper method of the same package called on the same node that
				// performs the reset on all of its paths counts as the reset
				for _, call := range an.AllCalls(fn) {
					callee := call.Common().StaticCallee()
					recv := an.Recv(call)
					if callee == nil || recv == nil || !an.SameObj(recv, base) || len(callee.Params) == 0 {
						continue
					}
					if an.AlwaysDoes(callee, func(in ssa.Instruction) bool {
						st, ok := in.(*ssa.Store)
						if !ok {
							return false
						}
						f, b := an.FieldOf(st.Addr)
						return f == cache && an.SameObj(b, callee.Params[0]) && isReset(st)
					}) {
						resets = append(resets, call)
					}
				}
				construct := content.Name() + "=>" + what
				c.Check(an.Around(fn, st, resets), "O1", "R-PAIR", name, construct, st.Pos(),
					fmt.Sprintf("store to %s is coupled with %s on every path", content.Name(), what),
					fmt.Sprintf("store to ProtoNode.%s without %s on some path: the cached encoding/CID can go stale", content.Name(), what))
			}
		}
		isNil := func(s *ssa.Store) bool { return an.IsNilConst(s.Val) }
		check(fLinks, fEncoded, isNil, "encoded=nil")
		check(fData, fEncoded, isNil, "encoded=nil")
		// links => linksDirty = true (exception: UnmarshalJSON keeps as-serialised order)
		if fn.Name() != "UnmarshalJSON" {
			check(fLinks, fDirty, func(s *ssa.Store) bool {
				k, ok := an.ConstOf(s.Val)
				return ok && k.String() == "true"
			}, "linksDirty=true")
		}
		// builder => cached reset
		for _, st := range an.FieldStores(fn, fBuilder) {
			_, base := an.FieldOf(st.Addr)
			if an.IsFresh(base) {
				continue
			}
			nO1++
			// idiom: nil -> default normalisation (the CID is unchanged): the
			// store is only reachable where the same field was read as nil
			var rd []ssa.Value
			for _, l := range an.FieldReads(fn, fBuilder) {
				if u, ok := l.(*ssa.UnOp); ok {
					if _, b := an.FieldOf(u.X); an.SameObj(b, base) {
						rd = append(rd, l)
					}
				}
			}
			if len(rd) > 0 && an.GuardedBy(fn, nil, st, an.NilEdges(fn, rd, true)) {
				c.OK("O1", "R-PAIR", name, "builder=>nil-normalisation", st.Pos(), "builder stored only where it was nil (identity on the CID)")
				continue
			}
			var resets []ssa.Instruction
			for _, r := range an.StoresToField(fn, fCached, base) {
				if an.IsZeroValue(r.Val, cidUndef) {
					resets = append(resets, r)
					continue
				}
				// decoder idiom: cached = X and builder = X.Prefix()
				if bc, ok := an.IsCallTo(st.Val, an.M("github.com/ipfs/go-cid", "Cid", "Prefix")); ok {
					if recv := an.Recv(bc); recv != nil && sameCidValue(recv, r.Val) {
						resets = append(resets, r)
					}
				} else if mi, ok := st.Val.(*ssa.MakeInterface); ok {
					if bc, ok := an.IsCallTo(mi.X, an.M("github.com/ipfs/go-cid", "Cid", "Prefix")); ok {
						if recv := an.Recv(bc); recv != nil && sameCidValue(recv, r.Val) {
							resets = append(resets, r)
						}
					}
				}
			}
			c.Check(an.Around(fn, st, resets), "O1", "R-PAIR", name, "builder=>cached-reset", st.Pos(),
				"builder store coupled with cached CID reset / definition from the same CID",
				"store to ProtoNode.builder without resetting the cached CID on some path: Cid() keeps returning the CID computed with the old builder")
		}
	}
	c.Min("O1 content-field stores on non-fresh nodes", nO1, 3)

	// ---- O2: in-place sort of the links followed by a store to encoded.
	// The sorter is found by role: a method of the node that sorts its own links field in place.
	sorters := map[*ssa.Function]bool{}
	for _, fn := range fns {
		if len(fn.Params) == 0 || fn.Signature.Recv() == nil {
			continue
		}
		for _, call := range an.Calls(fn, an.M("slices", "", "SortStableFunc"), an.M("slices", "", "SortFunc"), an.M("sort", "", "SliceStable"), an.M("sort", "", "Slice"), an.M("sort", "", "Stable"), an.M("sort", "", "Sort")) {
			args := call.Common().Args
			if len(args) == 0 {
				continue
			}
			for _, r := range an.Roots(args[0], nil) {
				if u, ok := r.(*ssa.UnOp); ok && u.Op == token.MUL {
					if f, b := an.FieldOf(u.X); f == fLinks && an.SameObj(b, fn.Params[0]) {
						sorters[fn] = true
					}
				}
			}
		}
	}
	nO2 := 0
	for _, fn := range fns {
		for _, call := range an.AllCalls(fn) {
			if callee := call.Common().StaticCallee(); callee == nil || !sorters[callee] {
				continue
			}
			recv := an.Recv(call)
			if recv == nil {
				continue
			}
			if an.IsFresh(recv) {
				// a fresh node has no encoding yet — unless this function already installed one
				// (a decoder that keeps the as-serialised bytes must not reorder the links afterwards)
				prior := false
				for _, st := range an.StoresToField(fn, fEncoded, recv) {
					if !an.IsNilConst(st.Val) && an.Reaches(fn, st, call, nil, nil) {
						prior = true
					}
				}
				if !prior {
					continue
				}
			}
			nO2++
			after := an.AsInstrs(an.StoresToField(fn, fEncoded, recv))
			ok, _ := an.MustFollow(fn, call, after)
			c.Check(ok, "O2", "R-POST", an.FuncName(fn), "sortLinks=>encoded-store", call.Pos(),
				"sortLinks followed by reset/re-encode of encoded on every path",
				"sortLinks() reorders links but encoded is neither reset nor recomputed on some path")
		}
	}
	c.Min("O2 sortLinks calls", nO2, 1)
	// O2b: the dirty flag ("links need a sort") is cleared only after the sort has run
	nO2b := 0
	for _, fn := range fns {
		for _, st := range an.FieldStores(fn, fDirty) {
			if k, ok := an.ConstOf(st.Val); !ok || k.String() != "false" {
				continue
			}
			_, base := an.FieldOf(st.Addr)
			if an.IsFresh(base) {
				continue
			}
			nO2b++
			var sorts []ssa.Instruction
			for _, call := range an.AllCalls(fn) {
				if callee := call.Common().StaticCallee(); callee != nil && sorters[callee] && an.SameObj(an.Recv(call), base) {
					sorts = append(sorts, call)
				}
			}
			c.Check(an.MustPrecede(fn, st, sorts), "O2", "R-DOM", an.FuncName(fn), "linksDirty=false<=sortLinks", st.Pos(),
				"the dirty flag is cleared only after the links were sorted",
				"linksDirty is cleared on a path where the links were not sorted: the node is encoded with unsorted links (non-canonical bytes, CID depends on insertion order)")
		}
	}
	c.Min("O2 linksDirty=false stores", nO2b, 1)

	// ---- O3: discipline of the cached CID
	nO3 := 0
	for _, fn := range fns {
		for _, st := range an.FieldStores(fn, fCached) {
			_, base := an.FieldOf(st.Addr)
			nO3++
			name := an.FuncName(fn)
			switch {
			case an.IsZeroValue(st.Val, cidUndef):
				c.OK("O3", "R-FLOW", name, "cached=Undef", st.Pos(), "reset")
			default:
				if sum, ok := an.IsCallTo(st.Val, an.M("github.com/ipfs/go-cid", "Builder", "Sum")); ok {
					// argument must be <base>.encoded.encoded and builder = <base>.CidBuilder()
					arg := an.Args(sum)[0]
					okArg := c11IsOwnEncoding(arg, base, fEncoded)
					bld, okB := an.IsCallTo(an.Recv(sum), an.M(md, "ProtoNode", "CidBuilder"))
					okB = okB && an.SameObj(an.Recv(bld), base)
					c.Check(okArg && okB, "O3", "R-FLOW", name, "cached=Sum(encoded)", st.Pos(),
						"cached CID = CidBuilder().Sum(n.encoded.encoded) of the same node",
						fmt.Sprintf("cached CID computed from %s with builder ok=%v: not the node's own current encoding", an.PathOf(arg), okB))
				} else if _, ok := an.IsCallTo(st.Val, an.M("github.com/ipfs/go-block-format", "Block", "Cid")); ok && an.IsFreshOrCallResult(base) {
					c.OK("O3", "R-FLOW", name, "cached=block.Cid()", st.Pos(), "decoder: freshly decoded node takes the CID of its block")
				} else if isParamLoad(st.Val) && an.IsFreshOrCallResult(base) {
					c.OK("O3", "R-FLOW", name, "cached=block-cid-local", st.Pos(), "decoder: CID local derived from block")
				} else {
					c.Bad("O3", "R-FLOW", name, "cached=?", st.Pos(), "cached CID stored from a value that is neither Undef, nor Sum of the node's encoding, nor a decoded block's CID: "+an.PathOf(st.Val))
				}
			}
		}
	}
	c.Min("O3 stores to cached", nO3, 2)
	if enc := p.Func(md, "ProtoNode", "EncodeProtobuf"); c.Need(enc != nil, "ProtoNode.EncodeProtobuf") {
		// The encode unit: EncodeProtobuf plus the unexported methods it calls on its own receiver
		// (two levels), so that splitting it into refresh helpers does not orphan the rules.
		unit := c11EncodeUnit(enc)
		isDefinedEdge := func(g *ssa.Function) an.EdgeSet {
			return an.CallEdges(g, an.M("github.com/ipfs/go-cid", "Cid", "Defined"), -1, func(v ssa.Value) bool {
				if u, ok := v.(*ssa.UnOp); ok && u.Op == token.MUL {
					f, _ := an.FieldOf(u.X)
					return f == fCached
				}
				f, _ := an.FieldOf(v)
				return f == fCached
			}, true)
		}
		sumStores := func(g *ssa.Function) map[ssa.Instruction]bool {
			blocked := map[ssa.Instruction]bool{}
			for _, st := range an.StoresToField(g, fCached, g.Params[0]) {
				if _, ok := an.IsCallTo(st.Val, an.M("github.com/ipfs/go-cid", "Builder", "Sum")); ok {
					blocked[st] = true
				}
			}
			return blocked
		}
		okReturn := func(r *ssa.Return) bool {
			n := len(r.Results)
			return n > 0 && an.IsErrorType(r.Results[n-1].Type()) && an.IsNilConst(r.Results[n-1])
		}
		// a helper of the unit "establishes the cache" when none of its nil-error returns can be reached
		// without a Defined()==true edge on cached or the Sum store
		establishes := map[*ssa.Function]bool{}
		for _, g := range unit[1:] {
			all, any := true, false
			for _, r := range an.Returns(g) {
				if okReturn(r) {
					any = true
					if an.Reaches(g, nil, r, isDefinedEdge(g), sumStores(g)) {
						all = false
					}
				}
			}
			establishes[g] = all && any
		}
		okNil := false
		for _, g := range unit {
			recv := g.Params[0]
			// re-encode preceded by cached = Undef
			for _, st := range an.StoresToField(g, fEncoded, recv) {
				if an.IsNilConst(st.Val) {
					continue
				}
				var resets []ssa.Instruction
				for _, r := range an.StoresToField(g, fCached, recv) {
					if an.IsZeroValue(r.Val, cidUndef) {
						resets = append(resets, r)
					}
				}
				c.Check(an.MustPrecede(g, st, resets), "O3", "R-DOM", an.FuncName(enc), "reencode<=cached-reset", st.Pos(),
					"every re-encode is preceded by cached=Undef", "encoded is recomputed without resetting the cached CID first: stale CID survives a re-encode")
			}
			if len(an.NilEdges(g, fieldLoads(g, fEncoded, recv), true)) > 0 {
				okNil = true
			}
		}
		// nil-error return implies cache defined: reached via Defined()==true edge, via the Sum store, or
		// via the nil-error edge of a helper that establishes the cache
		recv := enc.Params[0]
		defEdges := isDefinedEdge(enc)
		for _, call := range an.AllCalls(enc) {
			if callee := call.Common().StaticCallee(); callee != nil && establishes[callee] && an.SameObj(an.Recv(call), recv) {
				defEdges = defEdges.Union(an.NilEdges(enc, an.ErrResult(call), true))
			}
		}
		for _, r := range an.Returns(enc) {
			if len(r.Results) == 2 && an.IsNilConst(r.Results[1]) {
				c.Check(!an.Reaches(enc, nil, r, defEdges, sumStores(enc)), "O3", "R-DOM", an.FuncName(enc), "return-ok=>cached-defined", r.Pos(),
					"success return reached only with a defined or freshly computed cached CID",
					"EncodeProtobuf can return success without (re)computing an undefined cached CID")
			}
		}
		// the re-encode condition must include encoded==nil
		c.Check(okNil, "O3", "R-DOM", an.FuncName(enc), "reencode-when-encoded-nil", enc.Pos(), "re-encode is triggered by encoded==nil", "EncodeProtobuf no longer tests encoded==nil: invalidation by mutators has no effect")
	}
	if cidf := p.Func(md, "ProtoNode", "Cid"); c.Need(cidf != nil, "ProtoNode.Cid") {
		encCalls := an.Calls(cidf, an.M(md, "ProtoNode", "EncodeProtobuf"))
		n := 0
		for _, r := range an.Returns(cidf) {
			if len(r.Results) != 1 {
				continue
			}
			if u, ok := r.Results[0].(*ssa.UnOp); ok && u.Op == token.MUL {
				if f, _ := an.FieldOf(u.X); f == fCached {
					n++
					ok := len(encCalls) > 0 && an.OnNilEdgeOf(cidf, encCalls[0], u)
					c.Check(ok, "O3", "R-DOM", an.FuncName(cidf), "return-cached<=EncodeProtobuf-ok", r.Pos(),
						"Cid() reads the cache only after a successful EncodeProtobuf", "Cid() returns n.cached without a successful EncodeProtobuf(false) first")
				}
			}
		}
		c.Min("O3 Cid() returns of cached", n, 1)
	}

	// ---- O4: stable sorts with Name-ascending comparator
	nO4 := 0
	unstable := []an.Matcher{an.M("slices", "", "SortFunc"), an.M("slices", "", "Sort"), an.M("sort", "", "Slice"), an.M("sort", "", "Sort")}
	stable := []an.Matcher{an.M("slices", "", "SortStableFunc"), an.M("sort", "", "SliceStable"), an.M("sort", "", "Stable")}
	for _, fn := range fns {
		for _, call := range an.Calls(fn, append(append([]an.Matcher{}, unstable...), stable...)...) {
			args := call.Common().Args
			if len(args) == 0 || !isLinkSlice(args[0].Type()) {
				continue
			}
			nO4++
			ci := an.Callee(call)
			isStable := false
			for _, m := range stable {
				if m.Match(ci) {
					isStable = true
				}
			}
			c.Check(isStable, "O4", "R-API", an.FuncName(fn), "link-sort-stable", call.Pos(), "links sorted with a stable sort ("+ci.String()+")",
				"links sorted with "+ci.String()+": equal names may lose insertion order")
			if len(args) >= 2 {
				if mc, ok := args[1].(*ssa.MakeClosure); ok {
					ok2, why := cmpByNameAscending(mc.Fn.(*ssa.Function))
					c.Check(ok2, "O4", "R-MIRROR", an.FuncName(fn), "link-sort-comparator", call.Pos(), "comparator is strings.Compare(a.Name, b.Name)", "link comparator: "+why)
				} else if f, ok := args[1].(*ssa.Function); ok {
					ok2, why := cmpByNameAscending(f)
					c.Check(ok2, "O4", "R-MIRROR", an.FuncName(fn), "link-sort-comparator", call.Pos(), "comparator is strings.Compare(a.Name, b.Name)", "link comparator: "+why)
				}
			}
		}
	}
	c.Min("O4 link sorts", nO4, 1)

	// ---- O5: in-place stores to format.Link fields
	nO5 := 0
	inplace := map[string]bool{}
	for _, fn := range p.Funcs {
		an.Instrs(fn, func(in ssa.Instruction) {
			st, ok := in.(*ssa.Store)
			if !ok {
				return
			}
			f, base := an.FieldOf(st.Addr)
			if f == nil || f.Pkg() == nil || f.Pkg().Path() != "github.com/ipfs/go-ipld-format" {
				return
			}
			if !an.TypeIs(base.Type(), "github.com/ipfs/go-ipld-format", "Link") {
				return
			}
			name := an.FuncName(fn)
			if !linkFromNode(base) {
				return // a link owned by the caller (fresh, copied, or a parameter): not the node's storage
			}
			nO5++
			// in-place mutation of a shared link: must be followed by a forced re-encode of a ProtoNode
			var forced []ssa.Instruction
			for _, call := range an.Calls(fn, an.M(md, "ProtoNode", "EncodeProtobuf")) {
				if k, ok := an.ConstOf(an.Args(call)[0]); ok && k.String() == "true" {
					forced = append(forced, call)
				}
			}
			ok2, _ := an.MustFollow(fn, st, forced)
			inplace[name] = true
			c.Check(ok2, "O5", "R-WHO", name, "Link."+f.Name()+"-inplace", st.Pos(),
				"in-place link mutation is followed on every path by EncodeProtobuf(true)",
				"in-place mutation of a link shared with a ProtoNode without a forced re-encode: the node's cached encoding and CID go stale")
		})
	}
	c.Min("O5 in-place stores to links obtained from a node", nO5, 1)

	// ---- O7: storage isolation of the link list (c11_o7.go)
	c11O7(c, fns, fLinks)

	// ---- O6: encoder keys vs decoder accessors
	mi, fi := c11Codec(fns)
	if c.Need(mi != nil && fi != nil, "dag-pb encoder (calls qp.BuildMap on a ProtoNode) and decoder (reads PBLink FieldHash) in package merkledag") {
		keys := map[string]bool{}
		for _, g := range an.LocalReach(mi) {
			for _, call := range an.Calls(g, an.M("github.com/ipld/go-ipld-prime/fluent/qp", "", "MapEntry")) {
				if k, ok := an.ConstOf(call.Common().Args[1]); ok {
					keys[strings.Trim(k.ExactString(), `"`)] = true
				}
			}
		}
		read := map[string]bool{}
		for _, g := range an.LocalReach(fi) {
			for _, call := range an.AllCalls(g) {
				ci := an.Callee(call)
				if strings.HasPrefix(ci.Name, "Field") && strings.Contains(ci.Pkg, "go-codec-dagpb") {
					read[strings.TrimPrefix(ci.Name, "Field")] = true
				}
			}
		}
		for _, g := range an.LocalReach(fi) {
			an.Instrs(g, func(in ssa.Instruction) {
				if fa, ok := in.(*ssa.FieldAddr); ok {
					if f, _ := an.FieldOf(fa); f != nil && f.Pkg() != nil && strings.Contains(f.Pkg().Path(), "go-codec-dagpb") {
						read[f.Name()] = true
					}
				}
				if fa, ok := in.(*ssa.Field); ok {
					if f, _ := an.FieldOf(fa); f != nil && f.Pkg() != nil && strings.Contains(f.Pkg().Path(), "go-codec-dagpb") {
						read[f.Name()] = true
					}
				}
			})
		}
		want := []string{"Links", "Hash", "Name", "Tsize", "Data"}
		for _, k := range want {
			c.Check(keys[k] && read[k], "O6", "R-TABLE", an.FuncName(mi), "pbfield-"+k, mi.Pos(),
				"field "+k+" written by marshalImmutable and read by fromImmutableNode",
				fmt.Sprintf("dag-pb field %s: written=%v read=%v — encoder and decoder disagree", k, keys[k], read[k]))
		}
		var extra []string
		for k := range keys {
			found := false
			for _, w := range want {
				if w == k {
					found = true
				}
			}
			if !found {
				extra = append(extra, k)
			}
		}
		sort.Strings(extra)
		c.Check(len(extra) == 0, "O6", "R-TABLE", an.FuncName(mi), "pbfield-extra", mi.Pos(), "no unknown dag-pb keys written", "marshalImmutable writes keys outside the dag-pb schema: "+strings.Join(extra, ","))
	}
}

func fieldLoads(fn *ssa.Function, fld *types.Var, base ssa.Value) []ssa.Value {
	var out []ssa.Value
	for _, l := range an.FieldReads(fn, fld) {
		if u, ok := l.(*ssa.UnOp); ok {
			if _, b := an.FieldOf(u.X); an.SameObj(b, base) {
				out = append(out, l)
			}
		}
	}
	return out
}

func sameCidValue(a, b ssa.Value) bool {
	if an.SameObj(a, b) {
		return true
	}
	// both are results of Block.Cid() on the same block
	ca, oka := an.IsCallTo(a, an.M("github.com/ipfs/go-block-format", "Block", "Cid"))
	cb, okb := an.IsCallTo(b, an.M("github.com/ipfs/go-block-format", "Block", "Cid"))
	return oka && okb && an.SameObj(an.Recv(ca), an.Recv(cb))
}

func isParamLoad(v ssa.Value) bool {
	for _, r := range an.Roots(v, nil) {
		if _, ok := an.IsCallTo(r, an.M("github.com/ipfs/go-block-format", "Block", "Cid")); !ok {
			return false
		}
	}
	return true
}

func isLinkSlice(t types.Type) bool {
	s, ok := t.Underlying().(*types.Slice)
	if !ok {
		return false
	}
	return an.TypeIs(s.Elem(), "github.com/ipfs/go-ipld-format", "Link") || an.TypeIs(s.Elem(), "ipld/merkledag/pb", "PBLink")
}

// cmpByNameAscending checks that a two-parameter comparator returns
// strings.Compare/cmp.Compare of the Name fields of (first, second) parameter.
func cmpByNameAscending(f *ssa.Function) (bool, string) {
	if len(f.Params) != 2 {
		return false, "comparator shape not recognised"
	}
	rets := an.Returns(f)
	if len(rets) == 0 {
		return false, "no return"
	}
	for _, r := range rets {
		call, ok := an.IsCallTo(r.Results[0], an.M("strings", "", "Compare"), an.M("cmp", "", "Compare"))
		if !ok {
			return false, "result is not strings.Compare(...) of the names"
		}
		args := call.Call.Args
		for i, a := range args {
			pth := an.PathOf(a)
			want := "p:" + f.Params[i].Name() + ".Name"
			if pth != want {
				return false, fmt.Sprintf("argument %d of Compare is %s, want %s (ascending by Name only)", i, pth, want)
			}
		}
	}
	return true, ""
}

// linkFromNode: the link object is an element of a node's link list, i.e. it
// was read out of a slice returned by a Links() method or out of
// ProtoNode.links (Links() copies the slice, not the pointed-to links).
func linkFromNode(base ssa.Value) bool {
	for _, r := range an.Roots(base, nil) {
		u, ok := r.(*ssa.UnOp)
		if !ok || u.Op != token.MUL {
			continue
		}
		ia, ok := u.X.(*ssa.IndexAddr)
		if !ok {
			continue
		}
		for _, sr := range an.Roots(ia.X, nil) {
			if call, ok := sr.(*ssa.Call); ok && an.Callee(call).Name == "Links" {
				return true
			}
			if l, ok := sr.(*ssa.UnOp); ok && l.Op == token.MUL {
				if f, _ := an.FieldOf(l.X); f != nil && isLinkSlice(f.Type()) {
					return true
				}
			}
		}
	}
	return false
}

// c11Fields finds the fields of ProtoNode by role (type).
func c11Fields(n *types.Named) (links, data, builder, encoded, cached, dirty *types.Var) {
	if n == nil {
		return
	}
	st, ok := n.Underlying().(*types.Struct)
	if !ok {
		return
	}
	for i := 0; i < st.NumFields(); i++ {
		f := st.Field(i)
		t := f.Type()
		switch {
		case isLinkSlice(t):
			links = f
		case an.TypeIs(t, "github.com/ipfs/go-cid", "Builder"):
			builder = f
		case an.TypeIs(t, "github.com/ipfs/go-cid", "Cid"):
			if _, isPtr := t.(*types.Pointer); !isPtr {
				cached = f
			}
		case types.Identical(t.Underlying(), types.Typ[types.Bool]):
			dirty = f
		default:
			if sl, ok := t.Underlying().(*types.Slice); ok && types.Identical(sl.Elem(), types.Typ[types.Byte]) {
				data = f
			} else if pt, ok := t.(*types.Pointer); ok {
				if nn, ok := pt.Elem().(*types.Named); ok && nn.Obj().Pkg() == n.Obj().Pkg() {
					if _, ok := nn.Underlying().(*types.Struct); ok {
						encoded = f
					}
				}
			}
		}
	}
	return
}

// c11IsOwnEncoding: v is a []byte field of the encoding object held in base's encoded field.
func c11IsOwnEncoding(v, base ssa.Value, fEncoded *types.Var) bool {
	u, ok := v.(*ssa.UnOp)
	if !ok || u.Op != token.MUL {
		return false
	}
	inner, holder := an.FieldOf(u.X)
	if inner == nil {
		return false
	}
	sl, ok := inner.Type().Underlying().(*types.Slice)
	if !ok || !types.Identical(sl.Elem(), types.Typ[types.Byte]) {
		return false
	}
	hu, ok := holder.(*ssa.UnOp)
	if !ok || hu.Op != token.MUL {
		return false
	}
	f, b := an.FieldOf(hu.X)
	return f == fEncoded && an.SameObj(b, base)
}

// c11Codec finds the dag-pb encoder and decoder of the package by role.
func c11Codec(fns []*ssa.Function) (enc, dec *ssa.Function) {
	for _, fn := range fns {
		if fn.Parent() != nil {
			continue
		}
		if enc == nil && len(an.Calls(fn, an.M("github.com/ipld/go-ipld-prime/fluent/qp", "", "BuildMap"))) > 0 {
			enc = fn
		}
		if dec == nil {
			for _, g := range an.LocalReach(fn)[:1] {
				for _, call := range an.AllCalls(g) {
					ci := an.Callee(call)
					if ci.Name == "FieldHash" && strings.Contains(ci.Pkg, "go-codec-dagpb") {
						dec = fn
					}
				}
			}
		}
	}
	return
}

// c11EncodeUnit returns fn followed by the unexported methods it calls on its own receiver (two levels).
func c11EncodeUnit(fn *ssa.Function) []*ssa.Function {
	unit := []*ssa.Function{fn}
	seen := map[*ssa.Function]bool{fn: true}
	for depth, frontier := 0, []*ssa.Function{fn}; depth < 2; depth++ {
		var next []*ssa.Function
		for _, g := range frontier {
			if len(g.Params) == 0 {
				continue
			}
			for _, call := range an.AllCalls(g) {
				callee := call.Common().StaticCallee()
				if callee == nil || seen[callee] || callee.Pkg != fn.Pkg || callee.Signature.Recv() == nil || len(callee.Blocks) == 0 {
					continue
				}
				if o := callee.Object(); o == nil || o.Exported() {
					continue
				}
				if r := an.Recv(call); r == nil || !an.SameObj(r, g.Params[0]) {
					continue
				}
				seen[callee] = true
				unit = append(unit, callee)
				next = append(next, callee)
			}
		}
		frontier = next
	}
	return unit
}
