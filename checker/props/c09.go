package props

import (
	"go/token"
	"go/types"
	"strings"

	"golang.org/x/tools/go/ssa"

	"verif/checker/an"
)

func init() {
	register("C09", Prop{
		Pkgs: []string{"./ipld/unixfs/io"},
		Explain: "Decided (structural necessary conditions of 'dagReader behaves like a seekable byte reader'): " +
			"O1 position bookkeeping: every consumer of dr.currentNodeData (bytes.Reader Read/WriteTo) adds exactly the count it consumed to dr.offset on every non-error path; dr.offset is written only in three shapes (+= consumed count, = 0 together with dropping the buffer and rebuilding the walker, = the requested offset on the walker-seek nil-edge); the leaf buffer is dropped only when exhausted (Len()==0) or in the reset; it is (re)filled only from ReadUnixFSNodeData of the visited node on its nil-edge; Seek(SeekStart) resets the position before walking; " +
			"O2 Seek interprets SeekStart/SeekCurrent/SeekEnd with an error default, SeekCurrent/SeekEnd targets are base+offset (SeekEnd relative to Size), negative targets are rejected before any state change (Seeker family rule shared with C10); " +
			"O3 io.EOF is returned only where the walker error is ipld.EndOfDag; a visitor that fills a caller buffer pauses the walk when (and only when) the buffer is full; " +
			"O5 every count consumed by Read/CtxReadFull/WriteTo (directly or in the walk visitor) is added to the count returned to the caller on every non-error path, leaf data is copied to buffer[count:], the buffer-full tests compare that count with len(buffer), and a read returns before walking only when the buffer is full; " +
			"O4 seek arithmetic: the remaining distance is decreased by a child's block size only where that size was tested <= the remaining distance, the size comes from BlockSize(ActiveChildIndex()), the descent is refused when link and blocksize counts differ, and the leaf is positioned with Seek(remaining, io.SeekStart). " +
			"NOT decided: byte-level equivalence with bytes.Reader, behaviour of go-ipld-format's Walker, content of the DAG.",
		Assume:    []string{"bytes.Reader and ipld.Walker behave as documented", "dagReader fields are only reachable from package unixfs/io (unexported)"},
		Technique: "coupled mutation (R-PAIR), writer shapes (R-WHO), edge dominance (R-DOM), switch exhaustiveness and sibling agreement of Seek methods (R-EXH, R-SIB), comparison on edge (R-CMP)",
		Run:       runC09,
	})
}

// c09LoadOfField: v is a load (through at most one more load of a receiver cell) of field fld.
func c09LoadOfField(v ssa.Value, fld *types.Var) bool {
	u, ok := v.(*ssa.UnOp)
	if !ok || u.Op != token.MUL {
		return false
	}
	f, _ := an.FieldOf(u.X)
	return f == fld
}

func runC09(c *an.Ctx) {
	p := c.P
	const uio = "ipld/unixfs/io"
	// the reader type: the struct of package unixfs/io that implements the exported DagReader interface; its fields by type
	var fOff, fCur, fWalker *types.Var
	readerType := ""
	if it := p.Named(uio, "DagReader"); it != nil {
		if iface, ok := it.Underlying().(*types.Interface); ok {
			for _, T := range p.XBImplementers(uio, iface) {
				st, ok := T.Underlying().(*types.Struct)
				if !ok {
					continue
				}
				var o, cu, w *types.Var
				nInt64 := 0
				for i := 0; i < st.NumFields(); i++ {
					f := st.Field(i)
					switch {
					case an.TypeIs(f.Type(), "bytes", "Reader"):
						cu = f
					case an.TypeIs(f.Type(), "github.com/ipfs/go-ipld-format", "Walker"):
						w = f
					default:
						if b, ok := f.Type().Underlying().(*types.Basic); ok && b.Kind() == types.Int64 {
							o = f
							nInt64++
						}
					}
				}
				if cu != nil && w != nil && o != nil && nInt64 == 1 {
					fOff, fCur, fWalker, readerType = o, cu, w, T.Obj().Name()
				}
			}
		}
	}
	if !c.Need(fOff != nil && fCur != nil && fWalker != nil, "DagReader implementation with a *bytes.Reader leaf buffer, an *ipld.Walker and one int64 position") {
		return
	}
	fns := p.PkgFuncs(uio)
	graph := an.XBLocalGraph(fns)
	brRead := []an.Matcher{an.M("bytes", "Reader", "Read"), an.M("bytes", "Reader", "WriteTo"), an.M("bytes", "Reader", "ReadByte"), an.M("bytes", "Reader", "ReadAt"), an.M("bytes", "Reader", "ReadRune")}

	// reset functions: store offset = 0
	isZero := func(v ssa.Value) bool { k, ok := an.XBInt64(v); return ok && k == 0 }
	resetFns := map[*ssa.Function]bool{}
	for _, fn := range fns {
		for _, st := range an.FieldStores(fn, fOff) {
			if isZero(st.Val) {
				resetFns[fn] = true
			}
		}
	}

	// ---- O1a: consumers add the consumed count
	nCons := 0
	partialConsumers := map[*ssa.Function]bool{} // functions that may leave bytes in the buffer (Read)
	consumerFns := map[*ssa.Function]bool{}      // every function that consumes dr.currentNodeData
	for _, fn := range fns {
		for _, call := range an.Calls(fn, brRead...) {
			recv := an.Recv(call)
			if recv == nil || !c09LoadOfField(recv, fCur) {
				continue
			}
			nCons++
			ci := an.Callee(call)
			consumerFns[fn] = true
			if ci.Name != "WriteTo" {
				partialConsumers[fn] = true
			}
			ns := an.Result(call, 0)
			var adds []ssa.Instruction
			for _, st := range an.FieldStores(fn, fOff) {
				b, ok := st.Val.(*ssa.BinOp)
				if !ok || b.Op != token.ADD {
					continue
				}
				x, y := an.XBStripConv(b.X), an.XBStripConv(b.Y)
				var addend ssa.Value
				if c09LoadOfField(x, fOff) {
					addend = y
				} else if c09LoadOfField(y, fOff) {
					addend = x
				}
				for _, n := range ns {
					if addend == n {
						adds = append(adds, st)
					}
				}
			}
			// every path to a return on which the call did not fail
			cut := an.NilEdges(fn, an.ErrResult(call), false)
			blocked := map[ssa.Instruction]bool{}
			for _, a := range adds {
				blocked[a] = true
			}
			esc := an.ReachesAnyReturn(fn, call, cut, blocked)
			c.Check(len(adds) > 0 && esc == nil, "O1", "R-PAIR", an.FuncName(fn), "currentNodeData."+ci.Name+"=>offset+=n", call.Pos(),
				"the count consumed from the leaf buffer is added to dr.offset on every non-error path",
				"bytes are consumed from dr.currentNodeData without adding the consumed count to dr.offset on some path: Seek(SeekCurrent)/offset bookkeeping goes wrong")
		}
	}
	c.Min("O1 consumers of currentNodeData", nCons, 1)

	// ---- O1b: shapes of stores to offset
	nOff := 0
	for _, fn := range fns {
		for _, st := range an.FieldStores(fn, fOff) {
			_, base := an.FieldOf(st.Addr)
			if an.IsFresh(base) {
				continue
			}
			nOff++
			name := an.FuncName(fn)
			switch {
			case isZero(st.Val):
				// reset: buffer dropped and walker rebuilt in the same function
				var curNil, walkerNew []ssa.Instruction
				for _, s2 := range an.StoresToField(fn, fCur, base) {
					if an.IsNilConst(s2.Val) {
						curNil = append(curNil, s2)
					}
				}
				for _, s2 := range an.StoresToField(fn, fWalker, base) {
					if _, ok := an.IsCallTo(s2.Val, an.M("github.com/ipfs/go-ipld-format", "", "NewWalker")); ok {
						walkerNew = append(walkerNew, s2)
					}
				}
				c.Check(an.Around(fn, st, curNil) && an.Around(fn, st, walkerNew), "O1", "R-PAIR", name, "offset=0=>drop-buffer+new-walker", st.Pos(),
					"position reset drops the leaf buffer and rebuilds the walker", "dr.offset is reset to 0 without dropping dr.currentNodeData and rebuilding dr.dagWalker on every path: the next read continues from the old position")
			case func() bool { b, ok := st.Val.(*ssa.BinOp); return ok && b.Op == token.ADD }():
				b := st.Val.(*ssa.BinOp)
				x, y := an.XBStripConv(b.X), an.XBStripConv(b.Y)
				var addend ssa.Value
				if c09LoadOfField(x, fOff) {
					addend = y
				} else if c09LoadOfField(y, fOff) {
					addend = x
				}
				ok := false
				if addend != nil {
					if call, isCall := an.IsCallTo(addend, brRead...); isCall && c09LoadOfField(an.Recv(call), fCur) {
						ok = true
					}
				}
				c.Check(ok, "O1", "R-WHO", name, "offset+=consumed", st.Pos(), "dr.offset advanced by a count consumed from the leaf buffer", "dr.offset is advanced by a value that is not the count consumed from dr.currentNodeData")
			default:
				// absolute store: a parameter that is bound to the target of a Seek method (the offset parameter itself or
				// base+offset), in the Seek method or in a helper all of whose call sites pass such a value; on the nil edge
				// of the walker seek
				ok := graph.HeldUpV(fn, st, an.XBStripConv(st.Val), func(f *ssa.Function, at ssa.Instruction, v ssa.Value) bool {
					return an.XBDerivedFromOffset(f, v)
				}, 3)
				if ok {
					ws := an.Calls(fn, an.M("github.com/ipfs/go-ipld-format", "Walker", "Seek"))
					ok = len(ws) > 0
					for _, w := range ws {
						if !an.OnNilEdgeOf(fn, w, st) {
							ok = false
						}
					}
				}
				c.Check(ok, "O1", "R-WHO", name, "offset=requested", st.Pos(), "dr.offset set to the requested offset only after a successful walker seek", "dr.offset is overwritten with a value other than the Seek offset parameter, or not on the nil-error edge of Walker.Seek")
			}
		}
	}
	c.Min("O1 stores to dagReader.offset", nOff, 1)

	// ---- O1c: stores to currentNodeData
	nCur := 0
	for _, fn := range fns {
		for _, st := range an.FieldStores(fn, fCur) {
			_, base := an.FieldOf(st.Addr)
			if an.IsFresh(base) {
				continue
			}
			nCur++
			name := an.FuncName(fn)
			if an.IsNilConst(st.Val) {
				if resetFns[fn] {
					c.OK("O1", "R-DOM", name, "buffer=nil-in-reset", st.Pos(), "buffer dropped by the position reset")
					continue
				}
				lenCalls := map[ssa.Value]bool{}
				for _, call := range an.Calls(fn, an.M("bytes", "Reader", "Len")) {
					if v := an.CallValue(call); v != nil && c09LoadOfField(an.Recv(call), fCur) {
						lenCalls[v] = true
					}
				}
				edges := an.XBEdgesWhere(fn, func(r an.XBRel) bool {
					k, isK := an.XBInt64(r.Y)
					return isK && lenCalls[r.X] && ((r.Op == token.EQL && k == 0) || (r.Op == token.LEQ && k == 0) || (r.Op == token.LSS && k == 1))
				})
				c.Check(len(edges) > 0 && an.GuardedBy(fn, nil, st, edges), "O1", "R-DOM", name, "buffer=nil<=Len()==0", st.Pos(),
					"leaf buffer dropped only when exhausted", "dr.currentNodeData is dropped where it may still hold unread bytes (not guarded by Len()==0): bytes are skipped")
				continue
			}
			nr, ok := an.IsCallTo(st.Val, an.M("bytes", "", "NewReader"))
			okSrc := false
			if ok {
				if src, ok2 := an.IsCallTo(nr.Call.Args[0], an.M("ipld/unixfs", "", "ReadUnixFSNodeData")); ok2 {
					okSrc = an.OnNilEdgeOf(fn, src, st)
				}
			}
			c.Check(okSrc, "O1", "R-FLOW", name, "buffer=NewReader(ReadUnixFSNodeData)", st.Pos(),
				"leaf buffer filled from the visited node's UnixFS data on the nil-error edge", "dr.currentNodeData is filled from something other than bytes.NewReader(unixfs.ReadUnixFSNodeData(node)) on its nil-error edge")
		}
	}
	c.Min("O1 stores to dagReader.currentNodeData", nCur, 1)

	// ---- O2: Seeker family rule on dagReader.Seek + reset before walking
	seek := p.Func(uio, readerType, "Seek")
	if c.Need(seek != nil, "Seek method of the DagReader implementation") {
		kind := an.XBCheckSeeker(c, "O2", seek)
		c.Check(kind == "computing", "O2", "R-EXH", an.FuncName(seek), "interprets-whence", seek.Pos(), "dagReader.Seek interprets whence itself", "dagReader.Seek no longer interprets whence")
	}
	// the position is reset before the walker seeks from the root — wherever Walker.Seek is called
	{
		isReset := func(in ssa.Instruction) bool {
			st, ok := in.(*ssa.Store)
			if !ok {
				return false
			}
			f, _ := an.FieldOf(st.Addr)
			return f == fOff && isZero(st.Val)
		}
		performsReset := graph.XBPerforms(isReset, nil)
		nWS := 0
		for _, fn := range fns {
			for _, w := range an.Calls(fn, an.M("github.com/ipfs/go-ipld-format", "Walker", "Seek")) {
				nWS++
				ok := graph.HeldUp(fn, w, func(f *ssa.Function, at ssa.Instruction) bool {
					acts := an.XBActs(f, isReset, performsReset)
					return len(acts) > 0 && an.MustPrecede(f, at, acts)
				}, 3)
				c.Check(ok, "O2", "R-DOM", an.FuncName(fn), "reset-before-walker-seek", w.Pos(),
					"the position is reset before the walker seeks from the root", "Walker.Seek runs without a preceding position reset: the walk starts from a stale position/buffer")
			}
		}
		c.Min("O2 Walker.Seek calls", nWS, 1)
	}

	// ---- O3: EOF mapping and pause-when-full
	nEOF := 0
	isEOF := func(v ssa.Value) bool {
		u, ok := v.(*ssa.UnOp)
		if !ok || u.Op != token.MUL {
			return false
		}
		g, ok := u.X.(*ssa.Global)
		return ok && g.Pkg.Pkg.Path() == "io" && g.Name() == "EOF"
	}
	for _, fn := range fns {
		var sites []ssa.Instruction
		for _, r := range an.Returns(fn) {
			for _, res := range r.Results {
				if isEOF(res) {
					sites = append(sites, r)
				}
			}
		}
		// named error results are cells: "return n, io.EOF" is a store of io.EOF into the result cell
		an.Instrs(fn, func(in ssa.Instruction) {
			if st, ok := in.(*ssa.Store); ok && isEOF(st.Val) && an.IsErrorType(st.Val.Type()) {
				if _, isCell := st.Addr.(*ssa.Alloc); isCell {
					sites = append(sites, st)
				}
			}
		})
		if len(sites) == 0 {
			continue
		}
		edges := an.CondEdges(fn, func(atom ssa.Value) (bool, bool) {
			call, ok := atom.(*ssa.Call)
			if !ok {
				return false, false
			}
			ci := an.Callee(call)
			if ci.Pkg != "errors" || ci.Name != "Is" || len(call.Call.Args) != 2 {
				return false, false
			}
			if l, ok := call.Call.Args[1].(*ssa.UnOp); ok && l.Op == token.MUL {
				if gg, ok := l.X.(*ssa.Global); ok && gg.Name() == "EndOfDag" && gg.Pkg.Pkg.Path() == "github.com/ipfs/go-ipld-format" {
					return true, false
				}
			}
			return false, false
		})
		for _, site := range sites {
			nEOF++
			c.Check(len(edges) > 0 && an.GuardedBy(fn, nil, site, edges), "O3", "R-DOM", an.FuncName(fn), "return-EOF<=EndOfDag", site.Pos(),
				"io.EOF returned only where the walker reported EndOfDag", "io.EOF is returned on a path where the walker error was not tested to be ipld.EndOfDag: a fetch error can be reported as end of file")
		}
	}
	c.Min("O3 returns of io.EOF", nEOF, 1)
	nPause := 0
	{
		pauseM := an.M("github.com/ipfs/go-ipld-format", "Walker", "Pause")
		isLen := func(v ssa.Value) bool {
			call, ok := v.(*ssa.Call)
			return ok && an.Callee(call).Builtin == "len"
		}
		fullEdges := func(f *ssa.Function, want bool) an.EdgeSet {
			return an.XBEdgesWhere(f, func(r an.XBRel) bool {
				if !(isLen(r.X) || isLen(r.Y)) {
					return false
				}
				if want {
					return r.Op == token.EQL
				}
				return r.Op == token.NEQ
			})
		}
		// functions running inside a walk: visitors handed to Walker.Iterate and what they call
		walkFns := map[*ssa.Function]bool{}
		var addWalk func(f *ssa.Function)
		addWalk = func(f *ssa.Function) {
			if f == nil || walkFns[f] || !graph.In[f] {
				return
			}
			walkFns[f] = true
			for _, call := range an.AllCalls(f) {
				addWalk(an.Callee(call).Static)
			}
		}
		for _, fn := range fns {
			for _, it := range an.Calls(fn, an.M("github.com/ipfs/go-ipld-format", "Walker", "Iterate")) {
				for _, r := range an.Roots(an.Args(it)[0], nil) {
					switch x := r.(type) {
					case *ssa.MakeClosure:
						if vf, ok := x.Fn.(*ssa.Function); ok {
							addWalk(vf)
						}
					case *ssa.Function:
						addWalk(x)
					}
				}
			}
		}
		// helpers that pause-if-full: every path from entry to a return runs Pause() or crosses a "not full" edge
		pif := map[*ssa.Function]bool{}
		steps := func(f *ssa.Function) map[ssa.Instruction]bool {
			bl := map[ssa.Instruction]bool{}
			for _, pz := range an.Calls(f, pauseM) {
				bl[pz] = true
			}
			for _, call := range an.AllCalls(f) {
				if t := an.Callee(call).Static; t != nil && pif[t] {
					bl[call] = true
				}
			}
			return bl
		}
		for changed := true; changed; {
			changed = false
			for _, f := range fns {
				if pif[f] || consumerFns[f] {
					continue
				}
				bl := steps(f)
				if len(bl) == 0 {
					continue
				}
				// only pure "pause if full" helpers: they must not consume themselves
				consumes := false
				for _, call := range an.AllCalls(f) {
					if t := an.Callee(call).Static; t != nil && consumerFns[t] {
						consumes = true
					}
				}
				if consumes {
					continue
				}
				all := true
				for _, r := range an.Returns(f) {
					if an.Reaches(f, nil, r, fullEdges(f, false), bl) {
						all = false
					}
				}
				if all {
					pif[f] = true
					changed = true
				}
			}
		}
		// (1) after a partial consumption inside a walk the walk is paused if the buffer is full
		for _, f := range fns {
			if !walkFns[f] {
				continue
			}
			for _, k := range an.AllCalls(f) {
				if t := an.Callee(k).Static; t == nil || !partialConsumers[t] {
					continue
				}
				nPause++
				esc := an.ReachesAnyReturn(f, k, fullEdges(f, false), steps(f))
				c.Check(esc == nil && len(steps(f)) > 0, "O3", "R-DOM", an.FuncName(f), "pause-when-buffer-full", k.Pos(),
					"after copying leaf data into the bounded buffer the walk is paused when the buffer is full", "a visitor that copies leaf data into a bounded buffer can return without pausing the walk although count == len(buffer): the next leaf overwrites unread data (bytes lost)")
			}
		}
		// (2) the walk is paused only when the buffer is full
		for _, f := range fns {
			for _, pz := range an.Calls(f, pauseM) {
				if f.Name() == "Pause" {
					continue
				}
				nPause++
				ok := graph.HeldUp(f, pz, func(g *ssa.Function, at ssa.Instruction) bool {
					fe := fullEdges(g, true)
					return len(fe) > 0 && an.GuardedBy(g, nil, at, fe)
				}, 2)
				c.Check(ok, "O3", "R-DOM", an.FuncName(f), "pause-only-when-full", pz.Pos(),
					"the walk is paused only where count == len(buffer)", "the walk is paused although the caller's buffer is not full: the read stops early (short read)")
			}
		}
	}
	c.Min("O3 pause constructs", nPause, 1)

	// ---- O5: the count returned to the caller accumulates every consumed count, and a bounded buffer is filled at
	// the position given by that count
	consumerRole := func(k ssa.CallInstruction) string {
		if partialConsumers[an.Callee(k).Static] {
			return "consume-into-buffer"
		}
		return "consume-all"
	}
	nAcc := 0
	for _, g := range fns {
		if g.Parent() != nil || consumerFns[g] {
			continue
		}
		var calls []ssa.CallInstruction
		// the function, its closures, and package-local helpers they call that do not return a count of their own
		scopeFns := map[*ssa.Function]bool{}
		var addScope func(h *ssa.Function, top bool)
		addScope = func(h *ssa.Function, top bool) {
			if h == nil || scopeFns[h] || !graph.In[h] || consumerFns[h] {
				return
			}
			if !top && h.Parent() == nil {
				if r := h.Signature.Results(); r.Len() > 0 {
					if b, ok := r.At(0).Type().Underlying().(*types.Basic); ok && b.Info()&types.IsInteger != 0 {
						return // a reader of its own (e.g. Read -> CtxReadFull): analysed separately
					}
				}
			}
			scopeFns[h] = true
			for _, k := range an.AllCalls(h) {
				addScope(an.Callee(k).Static, false)
			}
			for _, a := range h.AnonFuncs {
				addScope(a, true)
			}
		}
		addScope(g, true)
		for _, h := range fns {
			if !scopeFns[h] {
				continue
			}
			for _, k := range an.AllCalls(h) {
				if callee := an.Callee(k).Static; callee != nil && consumerFns[callee] {
					calls = append(calls, k)
				}
			}
		}
		if len(calls) == 0 {
			continue
		}
		res := g.Signature.Results()
		if res.Len() == 0 {
			continue
		}
		if b, ok := res.At(0).Type().Underlying().(*types.Basic); !ok || b.Info()&types.IsInteger == 0 {
			continue
		}
		// the count cell: the named result loaded by every return
		var cell *ssa.Alloc
		cellOK := true
		for _, r := range an.Returns(g) {
			u, ok := r.Results[0].(*ssa.UnOp)
			if !ok || u.Op != token.MUL {
				cellOK = false
				continue
			}
			a, ok := u.X.(*ssa.Alloc)
			if !ok || (cell != nil && a != cell) {
				cellOK = false
				continue
			}
			cell = a
		}
		if !cellOK || cell == nil {
			// the count is not a single variable: only direct "return consumer(...)" forwarding is accepted
			for _, k := range calls {
				nAcc++
				fwd := false
				if k.Parent() == g {
					for _, r := range an.Returns(g) {
						for _, v := range an.Result(k, 0) {
							if r.Results[0] == v {
								fwd = true
							}
						}
					}
				}
				c.Check(fwd, "O5", "R-FLOW", an.FuncName(g), "count<-"+consumerRole(k), k.Pos(), "the consumed count is returned", "a count consumed from the leaf buffer is not returned to the caller")
			}
			continue
		}
		// resolveLoc: the local cell behind an address; a pointer parameter of a helper resolves to the cell every
		// call site passes
		var resolveLoc func(addr ssa.Value, d int) *ssa.Alloc
		resolveLoc = func(addr ssa.Value, d int) *ssa.Alloc {
			if a := an.CellOf(addr); a != nil {
				return a
			}
			par, ok := addr.(*ssa.Parameter)
			if !ok || d > 3 {
				return nil
			}
			h := par.Parent()
			idx := -1
			for i, q := range h.Params {
				if q == par {
					idx = i
				}
			}
			var res *ssa.Alloc
			for _, call := range graph.Callers[h] {
				args := call.Common().Args
				if idx < 0 || idx >= len(args) {
					return nil
				}
				r := resolveLoc(args[idx], d+1)
				if r == nil || (res != nil && r != res) {
					return nil
				}
				res = r
			}
			return res
		}
		isCellLoad := func(v ssa.Value) bool {
			u, ok := v.(*ssa.UnOp)
			return ok && u.Op == token.MUL && resolveLoc(u.X, 0) == cell
		}
		for _, k := range calls {
			h := k.Parent()
			nAcc++
			rs := an.Result(k, 0)
			isR := func(v ssa.Value) bool {
				v = an.XBStripConv(v)
				for _, r := range rs {
					if v == r {
						return true
					}
				}
				return false
			}
			var accs []ssa.Instruction
			direct := false
			an.Instrs(h, func(in ssa.Instruction) {
				st, ok := in.(*ssa.Store)
				if !ok || resolveLoc(st.Addr, 0) != cell {
					return
				}
				if b, ok := st.Val.(*ssa.BinOp); ok && b.Op == token.ADD && ((isCellLoad(b.X) && isR(b.Y)) || (isCellLoad(b.Y) && isR(b.X))) {
					accs = append(accs, st)
				} else if isR(st.Val) && h == g && !an.XBInCycle(k.Block()) {
					// "n = consume(...)": only as the first consumption of the call (count still zero)
					first := true
					for _, k2 := range calls {
						if k2 != k && k2.Parent() == g && an.Reaches(g, k2, k, nil, nil) {
							first = false
						}
					}
					if first {
						accs = append(accs, st)
						direct = true
					}
				}
			})
			cut := an.EdgeSet{}
			for _, e := range an.ErrResult(k) {
				cut = cut.Union(an.XBNilEdgesVia(h, e, false))
			}
			blocked := map[ssa.Instruction]bool{}
			for _, a := range accs {
				blocked[a] = true
			}
			// accumulate before the error test is fine too; what matters is that no non-error path to a return skips it
			esc := an.ReachesAnyReturn(h, k, cut, blocked)
			c.Check(len(accs) > 0 && esc == nil, "O5", "R-FLOW", an.FuncName(h), "count+="+consumerRole(k), k.Pos(),
				"the consumed count is added to the count returned to the caller on every non-error path",
				"bytes consumed from the leaf buffer are not added to the returned count (n += consumed) on every non-error path: Read/WriteTo report fewer bytes than they delivered, callers lose or re-read data")
			// bounded buffer: the destination is buffer[count:] (or the whole buffer for the first, directly assigned, consumption)
			args := an.Args(k)
			if len(args) == 1 {
				if _, isSlice := args[0].Type().Underlying().(*types.Slice); isSlice {
					okDst := false
					switch a := args[0].(type) {
					case *ssa.Slice:
						okDst = a.High == nil && a.Low != nil && isCellLoad(a.Low)
					default:
						okDst = direct
					}
					c.Check(okDst, "O5", "R-FLOW", an.FuncName(h), "dst=buffer[count:]", k.Pos(),
						"leaf data is copied to buffer[count:]", "leaf data is copied to a position of the caller's buffer that is not buffer[count:]: bytes of successive leaves overwrite each other or leave gaps")
				}
			}
		}
		// the "buffer full" tests compare that same count with len(buffer)
		for _, h := range fns {
			if !scopeFns[h] {
				continue
			}
			for _, r := range an.XBEdgeRels(h) {
				if r.Op != token.EQL && r.Op != token.NEQ {
					continue
				}
				isLen := func(v ssa.Value) bool {
					call, ok := v.(*ssa.Call)
					return ok && an.Callee(call).Builtin == "len"
				}
				var other ssa.Value
				if isLen(r.X) {
					other = r.Y
				} else if isLen(r.Y) {
					other = r.X
				} else {
					continue
				}
				if _, isK := an.XBInt64(other); isK {
					continue
				}
				if par, isPar := other.(*ssa.Parameter); isPar {
					// a helper that receives the count by value: every call site must pass the count
					okArgs := len(graph.Callers[h]) > 0
					for _, call := range graph.Callers[h] {
						for i, q := range h.Params {
							if q == par && !(i < len(call.Common().Args) && isCellLoad(call.Common().Args[i])) {
								okArgs = false
							}
						}
					}
					c.Check(okArgs, "O5", "R-CMP", an.FuncName(h), "full<=>count==len(buffer)", h.Pos(),
						"buffer-full test compares the accumulated count (passed by the caller) with len(buffer)", "the buffer-full test in a helper compares len(buffer) with a parameter that is not the accumulated count at every call site")
					break
				}
				c.Check(isCellLoad(other), "O5", "R-CMP", an.FuncName(h), "full<=>count==len(buffer)", h.Pos(),
					"buffer-full test compares the accumulated count with len(buffer)", "the buffer-full test compares len(buffer) with something other than the accumulated count")
				break
			}
		}
		// a success return before the walk only with a full buffer
		hasPartial := false
		for _, k := range calls {
			if partialConsumers[an.Callee(k).Static] {
				hasPartial = true
			}
		}
		if hasPartial {
			full := an.XBEdgesWhere(g, func(r an.XBRel) bool {
				if r.Op != token.EQL {
					return false
				}
				lx, okx := r.X.(*ssa.Call)
				ly, oky := r.Y.(*ssa.Call)
				return (okx && an.Callee(lx).Builtin == "len" && isCellLoad(r.Y)) || (oky && an.Callee(ly).Builtin == "len" && isCellLoad(r.X))
			})
			its := an.Calls(g, an.M("github.com/ipfs/go-ipld-format", "Walker", "Iterate"))
			for _, r := range an.Returns(g) {
				afterWalk := false
				for _, it := range its {
					if an.Reaches(g, it, r, nil, nil) {
						afterWalk = true
					}
				}
				if afterWalk {
					continue
				}
				nAcc++
				c.Check(len(full) > 0 && an.GuardedBy(g, nil, r, full), "O5", "R-DOM", an.FuncName(g), "return-before-walk<=buffer-full", r.Pos(),
					"the read returns without walking the DAG only when the buffer is already full", "a read can return before walking the DAG although the caller's buffer is not full: short reads where a byte reader would fill the buffer")
			}
		}
	}
	c.Min("O5 count-accumulation constructs", nAcc, 1)

	// ---- O2b (round 11): a Seek that reports success leaves the position field equal to the position it reports:
	// it returns the field itself, a value tested equal to the field, or a value stored into the field (0 after a reset)
	{
		nRet := 0
		for _, fn := range fns {
			if !an.XBIsSeek(fn) || fn.Signature.Recv() == nil || !strings.Contains(fn.Signature.Recv().Type().String(), readerType) {
				continue
			}
			var offLoads []ssa.Value
			an.Instrs(fn, func(in ssa.Instruction) {
				if v, ok := in.(ssa.Value); ok && c09LoadOfField(v, fOff) {
					offLoads = append(offLoads, v)
				}
			})
			isOffLoad := func(v ssa.Value) bool {
				for _, l := range offLoads {
					if l == v {
						return true
					}
				}
				return false
			}
			for _, ret := range an.Returns(fn) {
				if len(ret.Results) != 2 || !an.IsNilConst(ret.Results[1]) {
					continue
				}
				v := an.XBStripConv(ret.Results[0])
				nRet++
				ok := isOffLoad(v)
				if !ok {
					eq := an.XBEdgesWhere(fn, func(r an.XBRel) bool {
						x, y := an.XBStripConv(r.X), an.XBStripConv(r.Y)
						return r.Op == token.EQL && ((x == v && isOffLoad(y)) || (y == v && isOffLoad(x)))
					})
					ok = len(eq) > 0 && an.GuardedBy(fn, nil, ret, eq)
				}
				if !ok {
					var sets []ssa.Instruction
					k, isK := an.XBInt64(v)
					for _, st := range an.FieldStores(fn, fOff) {
						sv := an.XBStripConv(st.Val)
						if sv == v {
							sets = append(sets, st)
						} else if k2, isK2 := an.XBInt64(sv); isK && isK2 && k == k2 {
							sets = append(sets, st)
						}
					}
					if isK && k == 0 {
						for _, call := range an.AllCalls(fn) {
							if t := an.Callee(call).Static; t != nil && resetFns[t] {
								sets = append(sets, call)
							}
						}
					}
					ok = len(sets) > 0 && an.MustPrecede(fn, ret, sets)
				}
				c.Check(ok, "O2", "R-POST", an.FuncName(fn), "success-return=>position-field=reported", ret.Pos(),
					"a successful Seek reports the position its position field holds",
					"Seek returns success with a position that is neither the position field, nor tested equal to it, nor stored into it before (0 only after a reset): the reported position and the reader state disagree, the next Read continues from the old place")
			}
		}
		c.Min("O2 success returns of the reader's Seek", nRet, 1)
	}

	// ---- O5b (round 11): the DAG walk is resumed only after the bytes kept in the leaf buffer were handed out:
	// every path to Walker.Iterate found the buffer nil or ran a consumer of it
	{
		nWalk := 0
		for _, fn := range fns {
			if fn.Signature.Recv() == nil || !strings.Contains(fn.Signature.Recv().Type().String(), readerType) {
				continue
			}
			its := an.Calls(fn, an.M("github.com/ipfs/go-ipld-format", "Walker", "Iterate"))
			if len(its) == 0 {
				continue
			}
			var curLoads []ssa.Value
			blocked := map[ssa.Instruction]bool{}
			an.Instrs(fn, func(in ssa.Instruction) {
				if v, ok := in.(ssa.Value); ok && c09LoadOfField(v, fCur) {
					curLoads = append(curLoads, v)
				}
			})
			for _, call := range an.AllCalls(fn) {
				if t := an.Callee(call).Static; t != nil && consumerFns[t] {
					blocked[call] = true
				}
			}
			for _, call := range an.Calls(fn, brRead...) {
				if c09LoadOfField(an.Recv(call), fCur) {
					blocked[call] = true
				}
			}
			nilE := an.NilEdges(fn, curLoads, true)
			for _, it := range its {
				nWalk++
				c.Check(!an.Reaches(fn, nil, it, nilE, blocked), "O5", "R-DOM", an.FuncName(fn), "walk<=leaf-buffer-consumed", it.Pos(),
					"the walk continues only after the buffered leaf bytes were handed out (or none were buffered)",
					"the DAG walk is resumed on a path that neither found the leaf buffer nil nor consumed it: the visitor replaces the buffer and the unread bytes of the current leaf are skipped")
			}
		}
		c.Min("O5 resumptions of the DAG walk", nWalk, 1)
	}

	// ---- O4: seek arithmetic in the visitor passed to Walker.Seek and in the package-local functions it calls
	{
		nArith := 0
		var visitors []*ssa.Function
		for _, fn := range fns {
			for _, w := range an.Calls(fn, an.M("github.com/ipfs/go-ipld-format", "Walker", "Seek")) {
				for _, r := range an.Roots(an.Args(w)[0], nil) {
					switch x := r.(type) {
					case *ssa.MakeClosure:
						if vf, ok := x.Fn.(*ssa.Function); ok {
							visitors = append(visitors, vf)
						}
					case *ssa.Function:
						visitors = append(visitors, x)
					}
				}
			}
		}
		// scope: the visitors and everything of this package they reach through static calls
		var scope []*ssa.Function
		{
			seen := map[*ssa.Function]bool{}
			var walk func(f *ssa.Function)
			walk = func(f *ssa.Function) {
				if seen[f] {
					return
				}
				seen[f] = true
				scope = append(scope, f)
				for _, call := range an.AllCalls(f) {
					if t := an.Callee(call).Static; t != nil && graph.In[t] {
						walk(t)
					}
				}
			}
			for _, v := range visitors {
				walk(v)
			}
		}
		// the "remaining distance" variable: an int64 variable captured by the visitor and updated by it (the seek
		// offset itself may be captured as well, but it is only read)
		updated := map[ssa.Value]bool{}
		for _, fn := range scope {
			an.Instrs(fn, func(in ssa.Instruction) {
				if st, ok := in.(*ssa.Store); ok {
					if _, isFV := st.Addr.(*ssa.FreeVar); isFV {
						updated[st.Addr] = true
					}
				}
			})
		}
		isCell := func(v ssa.Value) bool {
			fv, ok := v.(*ssa.FreeVar)
			if !ok || !updated[v] {
				return false
			}
			pt, ok := fv.Type().Underlying().(*types.Pointer)
			if !ok {
				return false
			}
			b, ok := pt.Elem().Underlying().(*types.Basic)
			return ok && b.Kind() == types.Int64
		}
		cellOf := func(v ssa.Value) ssa.Value {
			if u, ok := an.XBStripConv(v).(*ssa.UnOp); ok && u.Op == token.MUL && isCell(u.X) {
				return u.X
			}
			return nil
		}
		// origins: the non-phi values a value is merged from (conversions stripped)
		var origins func(v ssa.Value, out map[ssa.Value]bool, seen map[ssa.Value]bool)
		origins = func(v ssa.Value, out map[ssa.Value]bool, seen map[ssa.Value]bool) {
			v = an.XBStripConv(v)
			if seen[v] {
				return
			}
			seen[v] = true
			if ph, ok := v.(*ssa.Phi); ok {
				for _, e := range ph.Edges {
					origins(e, out, seen)
				}
				return
			}
			out[v] = true
		}
		// isRemaining: the value is the remaining distance: a load of the captured variable, a parameter that
		// receives it at every call site, or such a value decreased on the way (loop variable of a helper)
		var isRemaining func(v ssa.Value, depth int) bool
		isRemaining = func(v ssa.Value, depth int) bool {
			if depth > 4 {
				return false
			}
			seen := map[ssa.Value]bool{}
			out := map[ssa.Value]bool{}
			origins(v, out, seen)
			n := 0
			for o := range out {
				switch x := o.(type) {
				case *ssa.UnOp:
					if cellOf(x) == nil {
						return false
					}
					n++
				case *ssa.Parameter:
					f := x.Parent()
					idx := -1
					for i, q := range f.Params {
						if q == x {
							idx = i
						}
					}
					outer := 0
					for _, call := range graph.Callers[f] {
						if call.Parent() == f {
							continue
						}
						outer++
						args := call.Common().Args
						if call.Common().IsInvoke() || idx >= len(args) || !isRemaining(args[idx], depth+1) {
							return false
						}
					}
					if idx < 0 || outer == 0 {
						return false
					}
					n++
				case *ssa.BinOp:
					// a decrement of the same variable (x - size where x is merged into v)
					if x.Op != token.SUB || !seen[an.XBStripConv(x.X)] {
						return false
					}
				default:
					return false
				}
			}
			return n > 0
		}
		// sameVar: b denotes the same quantity as a at a comparison: the same value, or loads of the same captured variable
		sameVar := func(a, b ssa.Value) bool {
			a, b = an.XBStripConv(a), an.XBStripConv(b)
			if a == b {
				return true
			}
			ca, cb := cellOf(a), cellOf(b)
			return ca != nil && ca == cb
		}
		// writtenBack: the value reaches a store into the captured variable, directly or as a result handed to the caller
		var writtenBack func(v ssa.Value, seen map[ssa.Value]bool, depth int) bool
		writtenBack = func(v ssa.Value, seen map[ssa.Value]bool, depth int) bool {
			if seen[v] || depth > 4 || v.Referrers() == nil {
				return false
			}
			seen[v] = true
			for _, r := range *v.Referrers() {
				switch x := r.(type) {
				case *ssa.Phi:
					if writtenBack(x, seen, depth) {
						return true
					}
				case *ssa.Convert:
					if writtenBack(x, seen, depth) {
						return true
					}
				case *ssa.ChangeType:
					if writtenBack(x, seen, depth) {
						return true
					}
				case *ssa.Store:
					if x.Val == v && isCell(x.Addr) {
						return true
					}
				case *ssa.Return:
					f := x.Parent()
					for i, res := range x.Results {
						if res != v {
							continue
						}
						outer, okAll := 0, true
						for _, call := range graph.Callers[f] {
							if call.Parent() == f {
								continue
							}
							outer++
							cv := an.CallValue(call)
							ok := false
							if cv != nil && len(x.Results) == 1 {
								ok = writtenBack(cv, seen, depth+1)
							} else if cv != nil && cv.Referrers() != nil {
								for _, rr := range *cv.Referrers() {
									if ex, isEx := rr.(*ssa.Extract); isEx && ex.Index == i && writtenBack(ex, seen, depth+1) {
										ok = true
									}
								}
							}
							okAll = okAll && ok
						}
						if outer > 0 && okAll {
							return true
						}
					}
				}
			}
			return false
		}
		isBlockSize := func(v ssa.Value) (ssa.CallInstruction, bool) {
			return an.IsCallTo(an.XBStripConv(v), an.M("ipld/unixfs", "FSNode", "BlockSize"))
		}
		for _, fn := range scope {
			// subtraction remaining - childSize
			an.Instrs(fn, func(in ssa.Instruction) {
				b, ok := in.(*ssa.BinOp)
				if !ok || b.Op != token.SUB {
					return
				}
				_, fromSize := isBlockSize(b.Y)
				rem := isRemaining(b.X, 0)
				if !rem && !fromSize {
					return
				}
				sub := an.XBStripConv(b.Y)
				nArith++
				c.Check(rem, "O4", "R-FLOW", an.FuncName(fn), "remaining-=childSize<=minuend-is-remaining", b.Pos(),
					"a child's size is subtracted from the remaining seek distance", "a child's block size is subtracted from a value that is not the remaining seek distance of the visitor")
				// guard: sub <= remaining (or <) on the same quantity
				edges := an.XBEdgesWhere(fn, func(r an.XBRel) bool {
					x, y, op := an.XBStripConv(r.X), an.XBStripConv(r.Y), r.Op
					if x == sub && sameVar(y, b.X) {
						return op == token.LEQ || op == token.LSS
					}
					if y == sub && sameVar(x, b.X) {
						return op == token.GEQ || op == token.GTR
					}
					return false
				})
				c.Check(len(edges) > 0 && an.GuardedBy(fn, nil, in, edges), "O4", "R-CMP", an.FuncName(fn), "remaining-=childSize<=childSize<=remaining", b.Pos(),
					"a child is skipped only where its size is <= the remaining distance", "the remaining seek distance is decreased by a child size that was not tested <= the remaining distance: Seek lands in the wrong leaf")
				call, isCall := isBlockSize(sub)
				okIdx := false
				if isCall {
					if idx, ok := an.IsCallTo(an.XBStripConv(an.Args(call)[0]), an.M("github.com/ipfs/go-ipld-format", "Walker", "ActiveChildIndex")); ok && idx != nil {
						okIdx = true
					}
				}
				c.Check(okIdx, "O4", "R-FLOW", an.FuncName(fn), "childSize=BlockSize(ActiveChildIndex)", b.Pos(),
					"the skipped size is the recorded size of the walker's active child", "the size subtracted is not FSNode.BlockSize(walker.ActiveChildIndex()): sizes and children are mismatched")
				c.Check(writtenBack(b, map[ssa.Value]bool{}, 0), "O4", "R-FLOW", an.FuncName(fn), "remaining-=childSize=>kept-in-remaining", b.Pos(),
					"the decreased distance is kept as the visitor's remaining distance", "the distance decreased by the skipped child never reaches the visitor's remaining-distance variable (result dropped): the leaf is positioned as if no child had been skipped")
			})
			// leaf positioning
			for _, call := range an.Calls(fn, an.M("bytes", "Reader", "Seek")) {
				if !c09LoadOfField(an.Recv(call), fCur) {
					continue
				}
				nArith++
				args := an.Args(call)
				k, isK := an.XBInt64(args[1])
				c.Check(isK && k == 0 && isRemaining(args[0], 0), "O4", "R-FLOW", an.FuncName(fn), "leaf.Seek(remaining,SeekStart)", call.Pos(),
					"the leaf buffer is positioned at the remaining distance from its start", "the leaf buffer is not positioned with Seek(remaining, io.SeekStart)")
			}
			// count mismatch guard (in the function itself or at every call site of it)
			for _, call := range an.Calls(fn, an.M("ipld/unixfs", "FSNode", "BlockSize")) {
				nArith++
				held := graph.HeldUp(fn, call, func(f *ssa.Function, s ssa.Instruction) bool {
					nl := an.XBEdgesWhere(f, func(r an.XBRel) bool {
						if r.Op != token.EQL {
							return false
						}
						_, a := an.IsCallTo(r.X, an.M("ipld/unixfs", "FSNode", "NumChildren"))
						_, b := an.IsCallTo(r.Y, an.M("ipld/unixfs", "FSNode", "NumChildren"))
						return a || b
					})
					return len(nl) > 0 && an.GuardedBy(f, nil, s, nl)
				}, 3)
				c.Check(held, "O4", "R-DOM", an.FuncName(fn), "BlockSize<=NumChildren==len(Links)", call.Pos(),
					"block sizes are used only when their count equals the link count", "FSNode.BlockSize is used without checking NumChildren()==len(Links()): index out of range / wrong child on malformed nodes")
			}
		}
		c.Min("O4 seek-arithmetic constructs", nArith, 1)
	}
}
